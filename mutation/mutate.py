#!/usr/bin/env python3
"""Mechanical mutation campaign against the checks (a complement to the changes written by sub-agents in seeded/).

  mutate.py list                      print the mutants (id, file, line, operator) derived from /repo's HEAD
  mutate.py lane <k> <n> [<limit>]    set up lane k of n under /tmp/mut/L<k> (copy of /verif, worktree of /repo) and
                                      process every mutant with id % n == k (at most <limit>), appending one JSON line
                                      per mutant to /tmp/mut/L<k>/results.jsonl

A mutant that does not compile or fails the crate's own integration tests is of no interest here (the suite sees it).
Every other mutant is run through the quick tier of all twenty checks (the properties anchored in the mutated file first),
stopping at the first check that reports a violation.  Survivors are listed for analysis: each is either equivalent
(no property changes) or a gap.  Nothing here is registered in MANIFEST.json; it needs scratch space under /tmp.
"""
import json, os, re, subprocess, sys, random, shutil, time

FILES = ['src/lib.rs', 'src/fasta.rs', 'src/fastq.rs', 'src/policy.rs', 'src/parallel.rs']
ANCHOR = {
    'src/lib.rs': ['C01', 'C02', 'C14', 'C03', 'C06', 'C12'],
    'src/fasta.rs': ['C01', 'C04', 'C05', 'C06', 'C09', 'C03', 'C10', 'C13', 'C20', 'C17', 'C14', 'C18', 'C12', 'C11', 'C19'],
    'src/fastq.rs': ['C02', 'C04', 'C05', 'C06', 'C09', 'C03', 'C11', 'C13', 'C17', 'C14', 'C18', 'C12', 'C20', 'C19'],
    'src/policy.rs': ['C09', 'C03', 'C08'],
    'src/parallel.rs': ['C07', 'C08', 'C15', 'C16'],
}
ALL = ['C%02d' % i for i in range(1, 21)]

OPS = [
    ('rel', r' < ', ' <= '), ('rel', r' <= ', ' < '), ('rel', r' > ', ' >= '), ('rel', r' >= ', ' > '),
    ('eq', r' == ', ' != '), ('eq', r' != ', ' == '),
    ('arith', r' \+ 1\b', ' + 2'), ('arith', r' \+ 1\b', ''), ('arith', r' - 1\b', ''), ('arith', r' - 1\b', ' - 2'),
    ('bool', r' && ', ' || '), ('bool', r' \|\| ', ' && '), ('bool', r'\btrue\b', 'false'), ('bool', r'\bfalse\b', 'true'),
    ('neg', r'\bif !', 'if '), ('neg', r'\bwhile !', 'while '),
    ('asg', r' \+= ', ' -= '), ('asg', r' -= ', ' += '),
    ('bin', r' \+ (?=[a-z(])', ' - '), ('bin', r' - (?=[a-z(])', ' + '),
    ('const', r'(?<![.\w])0(?![.\w])', '1'), ('const', r'(?<![.\w])1(?![.\w])', '0'),
    ('flow', r'\bbreak;', 'continue;'),
]
DELETE = re.compile(r'^\s*(self\.[a-z_.0-9]+ [+\-]?= .*;|[a-z_.]+\.(clear|push|consume|make_room|reset|update)\(.*\);|rset\.[a-z_.]+ = .*;|[a-z_]+ [+\-]= .*;|self\.[a-z_]+\(\);)\s*$')


def code_lines(path):
    """(lineno, text) of lines that are code: not comments, docs, attributes, tests or the unusable parallel_records"""
    out = []
    skip_until_depth = None
    depth = 0
    in_skip = False
    for i, l in enumerate(open(path).read().split('\n')):
        s = l.strip()
        if in_skip:
            depth += l.count('{') - l.count('}')
            if depth <= 0:
                in_skip = False
            continue
        if s.startswith('pub fn parallel_records') or s.startswith('#[cfg(test)]') or s.startswith('macro_rules! try_opt'):
            in_skip = True
            depth = l.count('{') - l.count('}')
            if depth == 0:
                depth = 0
                # brace opens on a later line
                in_skip = 'pending'
            continue
        if in_skip == 'pending':
            pass
        if s.startswith('//') or s.startswith('#[') or s.startswith('use ') or not s:
            continue
        if 'debug_assert' in s or s.startswith('assert'):
            continue
        out.append((i, l))
    return out


def mutants(repo):
    ms = []
    for f in FILES:
        p = os.path.join(repo, f)
        text = open(p).read().split('\n')
        in_skip = False
        depth = 0
        started = False
        for i, l in enumerate(text):
            s = l.strip()
            if in_skip:
                depth += l.count('{') - l.count('}')
                if '{' in l:
                    started = True
                if started and depth <= 0:
                    in_skip = False
                continue
            if s.startswith('pub fn parallel_records') or s.startswith('#[cfg(test)]'):
                in_skip, depth, started = True, l.count('{') - l.count('}'), '{' in l
                if started and depth <= 0:
                    in_skip = False
                continue
            if s.startswith('//') or s.startswith('#[') or s.startswith('use ') or not s or s.startswith('///'):
                continue
            if 'assert' in s:
                continue
            code = l.split('//')[0]
            for kind, pat, rep in OPS:
                for m in re.finditer(pat, code):
                    new = code[:m.start()] + rep + code[m.end():] + l[len(code):]
                    ms.append(dict(file=f, line=i + 1, op='%s:%s->%s' % (kind, pat.replace('\\', ''), rep), old=l, new=new))
            if DELETE.match(code):
                ms.append(dict(file=f, line=i + 1, op='delete', old=l, new=re.match(r'^\s*', l).group(0) + '// ' + s))
    for k, m in enumerate(ms):
        m['id'] = k
    return ms


def sh(cmd, cwd, timeout, env=None):
    """run in its own process group and kill the whole group on timeout: a mutant that loops forever inside a test
    binary must not be left running"""
    import signal
    p = subprocess.Popen(cmd, cwd=cwd, stdout=subprocess.PIPE, stderr=subprocess.STDOUT, env=env, start_new_session=True)
    try:
        out, _ = p.communicate(timeout=timeout)
        return p.returncode, out.decode('utf-8', 'replace')
    except subprocess.TimeoutExpired:
        try:
            os.killpg(p.pid, signal.SIGKILL)
        except ProcessLookupError:
            pass
        out, _ = p.communicate()
        return 124, (out or b'').decode('utf-8', 'replace') + '\n<timeout>'


def lane(k, n, limit):
    base = '/tmp/mut/L%d' % k
    repo, verif = base + '/repo', base + '/verif'
    os.makedirs(base, exist_ok=True)
    if not os.path.exists(repo):
        subprocess.check_call(['git', '-C', '/repo', 'worktree', 'add', '-q', '--detach', repo, 'HEAD'])
    if not os.path.exists(verif):
        subprocess.check_call(['rsync', '-a', '--exclude', '.git', '--exclude', 'replays', '--exclude', 'work', '/verif/', verif + '/'])
        ct = os.path.join(verif, 'harness', 'Cargo.toml')
        text = open(ct).read().replace('path = "/repo"', 'path = "%s"' % repo)
        open(ct, 'w').write(text)
        fp = os.path.join(verif, 'vlib', 'fingerprint.py')
        text = open(fp).read().replace("SRC = '/repo/src'", "SRC = '%s/src'" % repo)
        open(fp, 'w').write(text)
    ms = mutants(repo)
    rng = random.Random(20260930)
    order = list(range(len(ms)))
    rng.shuffle(order)
    mine = [ms[j] for idx, j in enumerate(order) if idx % n == k][:limit]
    done = set()
    res = base + '/results.jsonl'
    if os.path.exists(res):
        for l in open(res):
            done.add(json.loads(l)['id'])
    env = dict(os.environ, CARGO_NET_OFFLINE='true', VERIF_NO_ESCALATION='1')
    for m in mine:
        if m['id'] in done:
            continue
        t0 = time.time()
        p = os.path.join(repo, m['file'])
        orig = open(p).read()
        lines = orig.split('\n')
        assert lines[m['line'] - 1] == m['old']
        lines[m['line'] - 1] = m['new']
        open(p, 'w').write('\n'.join(lines))
        out = dict(m)
        try:
            rc, o = sh(['cargo', 'test', '--offline', '--test', 'fasta', '--test', 'fastq'], repo, 600, env)
            if rc != 0:
                out['status'] = 'suite' if 'test result: FAILED' in o or 'panicked' in o or '<timeout>' in o else 'build'
            else:
                first = ANCHOR[m['file']]
                checks = first + [c for c in ALL if c not in first]
                out['status'] = 'SURVIVED'
                out['ran'] = []
                for c in checks:
                    rc, o = sh(['./check', c, '--tier', 'quick'], verif, 2400, env)
                    out['ran'].append(c)
                    if 'VIOLATION' not in o and rc != 0:
                        out['status'] = 'check-crashed'
                        out['by'] = c
                        out['how'] = o[-400:]
                        break
                    if 'VIOLATION' in o:
                        out['status'] = 'detected'
                        out['by'] = c
                        v = [l for l in o.split('\n') if 'VIOLATION' in l or ' quick:' in l]
                        out['how'] = ' | '.join(v)[:400]
                        out['concrete'] = 'no-failing-input-found' not in o
                        break
                if out['status'] == 'SURVIVED':
                    rc, o = sh(['cargo', 'test', '--offline', '--doc'], repo, 900, env)
                    out['doctests'] = 'pass' if rc == 0 else 'fail'
        finally:
            open(p, 'w').write(orig)
        out['secs'] = round(time.time() - t0, 1)
        open(res, 'a').write(json.dumps(out) + '\n')
        print(out['id'], out['file'], out['line'], out['op'], out['status'], out.get('by', ''), out['secs'], flush=True)


if __name__ == '__main__':
    if sys.argv[1] == 'list':
        ms = mutants('/repo')
        for m in ms:
            print(m['id'], m['file'], m['line'], m['op'], '|', m['old'].strip()[:70])
        print(len(ms), 'mutants')
    elif sys.argv[1] == 'lane':
        lane(int(sys.argv[2]), int(sys.argv[3]), int(sys.argv[4]) if len(sys.argv) > 4 else 10 ** 9)
