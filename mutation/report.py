#!/usr/bin/env python3
"""Summarise /tmp/mut/L*/results.jsonl into mutation/RESULTS.md (the analysis of survivors is written by hand below the table)."""
import json, glob, collections, sys
rows = []
for f in sorted(glob.glob('/tmp/mut/L*/results.jsonl')):
    rows += [json.loads(l) for l in open(f)]
rows.sort(key=lambda d: d['id'])
c = collections.Counter(d['status'] for d in rows)
by = collections.Counter(d.get('by') for d in rows if d['status'] == 'detected')
out = []
out.append('# Mechanical mutants: results\n')
out.append('%d mutants processed (sampled from the 368 that `mutate.py list` derives; seed 20260930): %d do not compile, %d are killed by the '
           'crate\'s own integration tests, %d pass the suite. Of those %d: %d detected by a check (quick tier, concrete replay in %d cases), '
           '%d survive.\n' % (len(rows), c['build'], c['suite'], c['detected'] + c['SURVIVED'] + c['check-crashed'],
                              c['detected'] + c['SURVIVED'] + c['check-crashed'], c['detected'],
                              sum(1 for d in rows if d['status'] == 'detected' and d.get('concrete')), c['SURVIVED']))
out.append('Detected by (first check that raised the alarm; anchored properties are tried first): ' +
           ', '.join('%s %d' % (k, v) for k, v in sorted(by.items())) + '\n')
out.append('| id | where | mutation | status | checks run |\n|---|---|---|---|---|')
for d in rows:
    if d['status'] in ('detected', 'SURVIVED', 'check-crashed'):
        out.append('| %d | %s:%d | `%s` → `%s` | %s | %s |' % (
            d['id'], d['file'], d['line'], d['old'].strip()[:70].replace('|', '\\|'), d['new'].strip()[:70].replace('|', '\\|'),
            ('detected by ' + d['by']) if d['status'] == 'detected' else d['status'] + (' (doctests %s)' % d.get('doctests') if d.get('doctests') else ''),
            ' '.join(d.get('ran', []))[:80]))
print('\n'.join(out))
