"""Per-property configuration: theorems that must exist, case families per tier, oracles."""
import os
from . import engine, oracles, run
from .obs import canon, split_obs, parse_spec, parse_case
from .oracles import strip_growth


class ReaderRunner:
    """Properties decided on `R` cases (reader histories)."""

    def __init__(self, quick, thorough, oracle, keep_growth=False, search=None, exact=True):
        self.fams = {'quick': quick, 'thorough': thorough}
        self.oracle = oracle
        self.raw_oracle = engine.reader_oracle(oracle) if oracle else None
        self.keep_growth = keep_growth
        self.search_fams = search or thorough
        self.exact = exact

    def run(self, res, tier, seed, corpus):
        engine.run_reader_families(res, self.fams[tier], seed, self.raw_oracle, self.keep_growth, self.exact, corpus)

    def execute(self, cases):
        impl = run.run_impl(cases) or ['<harness died>'] * len(cases)
        model, spec = run.run_model(cases, impl)
        return impl, model, spec

    def judge(self, cases):
        """re-decide stored cases (replay): oracle and exact comparison as in a run"""
        res = engine.Result('replay')
        engine.EXACT_KINDS = getattr(self, 'exact_kinds', None)
        try:
            engine._run_cases(res, self._replay_family(cases), cases, self.raw_oracle, self.keep_growth, self.exact,
                              getattr(self, '_post', None))
        finally:
            engine.EXACT_KINDS = None
        return res

    def _replay_family(self, cases):
        return 'replay'

    def _oracle_fails(self, lines, key):
        impl = run.run_impl(lines, timeout=120)
        if impl is None:
            return [False] * len(lines)
        _, spec = run.run_model(lines, impl)
        out = []
        for c, o, s in zip(lines, impl, spec):
            v = self.raw_oracle(c, o, s)
            out.append(bool(v and v.failures and v.failures[0].split(' ')[0:1] != [] and _sig(v.failures[0]) == key))
        return out

    def shrink_oracle(self, case, msg):
        key = _sig(msg)
        try:
            return engine.shrink_case(case, lambda ls: self._oracle_fails(ls, key))
        except Exception:
            return case

    def minimise(self, case, msg, obs):
        """shrink, then re-execute the shrunk case so that the replay shows what it does"""
        small = self.shrink_oracle(case, msg)
        try:
            impl = run.run_impl([small], timeout=120)
            _, spec = run.run_model([small], impl)
            v = self.raw_oracle(small, impl[0], spec[0])
            if v and v.failures:
                return small, v.failures[0], impl[0]
        except Exception:
            pass
        return case, msg, obs

    def shrink_exact(self, case):
        def differs(lines):
            impl = run.run_impl(lines, timeout=120)
            if impl is None:
                return [False] * len(lines)
            model, _ = run.run_model(lines)
            return [engine.differ(o, m, self.keep_growth) for o, m in zip(impl, model)]
        try:
            return engine.shrink_case(case, differs)
        except Exception:
            return case

    def search(self, res, seed, drift):
        """Oracle-only search on the thorough budget with fresh seeds (neighbourhood of the drift first)."""
        import time as _t
        deadline = _t.time() + float(os.environ.get('VERIF_SEARCH_SECS') or 420)
        for rnd in range(2):
            r2 = engine.Result(res.prop)
            engine.run_reader_families(r2, self.search_fams, seed + 7919 * (rnd + 1), self.raw_oracle, self.keep_growth, exact=False,
                                       deadline=deadline)
            res.evaluations += r2.evaluations
            if r2.oracle_failures:
                return r2.oracle_failures[0]
        return None

    def extra_evidence(self):
        return dict(run.HIST_STATS)


def _sig(msg):
    """signature of an oracle message: its wording without the numbers"""
    import re
    m = re.sub(r'op \d+ ', '', msg)
    m = re.sub(r'\d+', '#', m)
    return m[:50]


def hist(positions, err_fields, sets, fmt=None):
    def f(case, toks, log, items):
        if fmt and case['fmt'] != fmt:
            return None
        return oracles.history_oracle(case, toks, items, positions=positions, err_fields=err_fields, sets=sets)
    return f


def seek_any_state(case, toks, log, items):
    """C05: failure-free cases by the abstract reader; cases with injected failures or refusing policies by the
    clause 'a successful seek to a record position restores the stream from any reader state'"""
    if ('f' in case['script'] or case['seekfails'] != '-' or
            any(oracles.strip_growth(t).startswith(('E:io', 'E:bl')) for t in toks)):
        return oracles.seek_restores_oracle(case, toks, items)
    return oracles.history_oracle(case, toks, items, positions=True, err_fields=True, sets=True)


def faulty_case(case, toks):
    return ('f' in case['script'] or case['seekfails'] != '-' or
            any(oracles.strip_growth(t).startswith(('E:io', 'E:bl')) for t in toks))


def hist_or_member(positions, err_fields, sets):
    """failure-free histories by the abstract reader; histories with injected failures or refusing policies by what
    still has to hold then: only genuine records, in order, never twice, every record set a contiguous run of the input"""
    def f(case, toks, log, items):
        if faulty_case(case, toks):
            return oracles.membership_oracle(case, toks, items)
        return oracles.history_oracle(case, toks, items, positions=positions, err_fields=err_fields, sets=sets)
    return f


def plain_or_any_state(fmt):
    """C01 / C02: plain reading judged by the abstract reader; histories with injected failures, refusing policies and
    seeks by the clause that whatever is returned after a successful seek is S's stream from there"""
    def f(case, toks, log, items):
        if case['fmt'] != fmt:
            return None
        if any(oracles.strip_growth(t).startswith('E:bl') for t in toks):
            # a buffer-limit error is part of the stream only if the policy refused a size the record needs: a refusal
            # at a capacity the record being parsed fits into means records of the input are withheld
            g = oracles.growth_oracle(case, toks, log, items)
            if g.failures:
                g.failures[0] = 'records withheld by a buffer-limit error: ' + g.failures[0]
                return g
        return seek_any_state(case, toks, log, items) if ('f' in case['script'] or case['seekfails'] != '-' or
                                                           any(oracles.strip_growth(t).startswith(('E:io', 'E:bl')) for t in toks)) \
            else oracles.history_oracle(case, toks, items, positions=False, err_fields=False, sets=False)
    return f


def cfg_hist(case, toks, log, items):
    """C03, one configuration against S; a built-in limited policy may refuse (as documented): what came before counts"""
    msg = oracles.builtin_policy_check(case, log)
    if msg:
        v = oracles.Verdict()
        v.failures.append(msg)
        return v
    bl = next((k for k, t in enumerate(toks) if oracles.strip_growth(t).startswith('E:bl')), None)
    if bl is not None:
        # ... but only a size that the record being parsed needs: a refusal at a capacity the record fits into makes the
        # result depend on the configuration (the clause of C01 / C02 / C09)
        g = oracles.growth_oracle(case, toks, log, items)
        if g.failures:
            g.failures[0] = 'buffer-limit error under this configuration only, for a record that fits: ' + g.failures[0]
            return g
        case = dict(case, ops=case['ops'][:bl])
        toks = toks[:bl]
    v = oracles.history_oracle(case, toks, items, positions=True, err_fields=True, sets=False)
    if bl is not None and not v.failures:
        v.domain_end = 'the policy refused, as its documentation says'
    return v


def member(case, toks, log, items):
    return oracles.membership_oracle(case, toks, items)


def growth(case, toks, log, items):
    return oracles.growth_oracle(case, toks, log, items)


ASSUME_READER = [
    'buffer_redux::BufReader behaves as modelled in Model/Source.lean (capacity exactly as requested)',
    'policies answer a size larger than the capacity passed, or refuse',
    'the source honours the io::Read contract (Ok(0) only at end of input)',
]

PROPS = {}

PROPS['C01'] = dict(
    theorems=[],
    runner=ReaderRunner(
        quick=[('fa_exh', 5), ('fa_rand', 20000), ('fa_path', 1500), ('fa_fault', 5000), ('fa_seek', 4000), ('fa_cfg', 700)],
        thorough=[('fa_exh', 7), ('fa_rand', 400000), ('fa_path', 20000), ('fa_fault', 100000), ('fa_seek', 80000), ('fa_cfg', 15000)],
        oracle=plain_or_any_state('fa')),
    rule='every string over {>,LF,CR,A,space} up to the length bound x every capacity 3..len+2 x chunkings {whole,1,2}, '
         'plus grammar-based and mutated FASTA files under random capacities, policies and read scripts, and readers opened with '
         'from_path / from_path_with_capacity on a real file (`P` cases); '
         'non-trivial = at least one record or error delivered and checked against S; distinct by case line; histories with injected '
         'read / seek failures and refusing policies: what is read after a seek that succeeds is S\'s stream from the target on; '
         'the configuration groups of C03, among them files made for a buffer that may not grow (a few bytes, then a record about as long '
         'as the buffer): a buffer-limit error only for a record that does not fit',
    assumptions=ASSUME_READER,
)

PROPS['C02'] = dict(
    theorems=[],
    runner=ReaderRunner(
        quick=[('fq_exh', 5), ('fq_rand', 20000), ('fq_path', 1500), ('fq_fault', 5000), ('fq_seek', 4000), ('fq_cfg', 700)],
        thorough=[('fq_exh', 7), ('fq_rand', 400000), ('fq_path', 20000), ('fq_fault', 100000), ('fq_seek', 80000), ('fq_cfg', 15000)],
        oracle=plain_or_any_state('fq')),
    rule='every string over {@,+,LF,CR,A,space} up to the length bound x capacities x chunkings, plus grammar-based and '
         'mutated FASTQ files; non-trivial = at least one record delivered and checked against S',
    assumptions=ASSUME_READER,
)

PROPS['C04'] = dict(
    theorems=[],
    runner=ReaderRunner(
        quick=[('fa_hist', 8000), ('fq_hist', 8000), ('fa_two', 2000), ('fq_two', 2000), ('fa_fault', 4000), ('fq_fault', 4000)],
        thorough=[('fa_hist', 150000), ('fq_hist', 150000), ('fa_seek', 50000), ('fq_seek', 50000), ('fa_two', 40000), ('fq_two', 40000),
                  ('fa_fault', 80000), ('fq_fault', 80000)],
        oracle=hist_or_member(False, False, True)),
    rule='random histories of next / owned next / read_record_set / read_record_set_exact(n) on three live record sets, '
         'all sets re-read after every set operation; non-trivial = a record or batch was delivered and accepted by the abstract reader',
    assumptions=ASSUME_READER,
)

PROPS['C05'] = dict(
    theorems=[],
    runner=ReaderRunner(
        quick=[('fa_seek', 8000), ('fq_seek', 8000), ('fa_exh', 4), ('fa_fault', 6000), ('fq_fault', 6000)],
        thorough=[('fa_seek', 150000), ('fq_seek', 150000), ('fa_exh', 6), ('fq_exh', 6), ('fa_fault', 150000), ('fq_fault', 150000)],
        oracle=seek_any_state),
    rule='histories with position captures and seeks to captured and indexed record positions (capacities around the seek '
         'distance so that both the in-buffer shortcut and the real seek occur); positions compared with the true coordinates of S; '
         'histories with injected read / seek failures and refusing policies: every seek that succeeds afterwards must restore the '
         'stream (reads return the target record and its successors)',
    assumptions=ASSUME_READER,
)

PROPS['C06'] = dict(
    theorems=[],
    runner=ReaderRunner(
        quick=[('fa_fault', 8000), ('fq_fault', 8000), ('fa_exh', 4), ('fq_exh', 4), ('fa_two', 2000), ('fq_two', 2000)],
        thorough=[('fa_fault', 150000), ('fq_fault', 150000), ('fa_seek', 50000), ('fq_seek', 50000), ('fa_exh', 6), ('fq_exh', 6), ('fa_two', 40000), ('fq_two', 40000)],
        oracle=member),
    rule='histories under refusing policies, injected read and seek failures, post-error and post-end calls; '
         'oracle: no panic, no hang, every returned record (next, owned, record-set iteration) is a record of the input',
    assumptions=ASSUME_READER,
)

PROPS['C09'] = dict(
    theorems=[],
    runner=ReaderRunner(
        quick=[('fa_rand', 10000), ('fq_rand', 10000), ('fa_fault', 4000), ('fq_fault', 4000), ('pol', 3000),
               ('fa_path', 1500), ('fq_path', 1500)],
        thorough=[('fa_rand', 200000), ('fq_rand', 200000), ('fa_hist', 50000), ('fq_hist', 50000), ('fa_fault', 50000), ('fq_fault', 50000),
                  ('pol', 100000), ('fa_path', 20000), ('fq_path', 20000)],
        oracle=growth, keep_growth=True),
    rule='recording policies (built-in, slowly growing, table-driven, refusing); request log compared exactly with the model '
         'and checked: chain of capacities, buffer-limit iff refused, request only when the record being parsed does not fit; '
         'the built-in policies asked directly with capacities around their thresholds and limits (0..3, t-2..t+2, l-t-2..l+2, 2^23 +- 2, 2^40) '
         'and compared with the model and with the documented arithmetic; readers with buffers of 64 KiB .. 1 MiB over one long record '
         '(Q cases with four arguments): the chain of requests compared with the model and checked (each request passes exactly the size '
         'answered last); readers opened from a file path (default and explicit '
         'capacity, files with a single record among them) with a recording policy set on them',
    assumptions=ASSUME_READER,
)
_c09 = PROPS['C09']['runner']
_c09_base = _c09.raw_oracle
_c09.raw_oracle = lambda c, o, s: oracles.policy_direct_oracle(c, o) if c.startswith('Q ') else _c09_base(c, o, s)


class SimpleRunner(ReaderRunner):
    """Cases that are not reader histories (writers, iterators, policies, ...): raw oracle, no shrinking
    beyond what the generator's small cases give."""

    def __init__(self, quick, thorough, raw_oracle, exact=True, exact_kinds=None):
        self.fams = {'quick': quick, 'thorough': thorough}
        self.oracle = None
        self.raw_oracle = raw_oracle
        self.keep_growth = True
        self.search_fams = thorough
        self.exact = exact
        self.exact_kinds = exact_kinds

    def run(self, res, tier, seed, corpus):
        engine.EXACT_KINDS = self.exact_kinds
        try:
            ReaderRunner.run(self, res, tier, seed, corpus)
        finally:
            engine.EXACT_KINDS = None

    def minimise(self, case, msg, obs):
        return case, msg, obs

    def shrink_exact(self, case):
        return case


PROPS['C10'] = dict(
    theorems=[],
    runner=SimpleRunner(
        quick=[('w_fa', 20000)],
        thorough=[('w_fa', 300000)],
        raw_oracle=oracles.writer_oracle),
    rule='every sequence over {A,C} up to length 6 (thorough: 8) x wrap widths 1..5 x every chunking incl. empty chunks x all '
         'FASTA writer entry points, plus random headers / id+description / sequences and records written back to back; output '
         'compared byte-exactly with the model, parsed back with the real reader; non-trivial = inside the documented domain. Every '
         'call is made twice, into a Vec<u8> and into a writer that accepts 1-3 bytes per write() and has only the default '
         'write_vectored: both must receive the same bytes; before them the same call is made into a writer that fails after a few '
         'bytes (error ignored, same thread). Records returned by the FASTA reader (random inputs and histories) are '
         'written with RefRecord::write and write_wrap(3) into such a writer and compared with the model and with the layout the '
         'documentation prescribes for the record\'s own head and sequence',
    assumptions=['the io::Write never fails (short writes and the default write_vectored are exercised)'],
)


class ParallelRunner(SimpleRunner):
    """X cases: the harness runs the real `read_parallel_init` with a mock reader and records a trace;
    the Lean driver decides whether the trace is a behaviour of the protocol model.
    Y cases: the real per-record functions on real readers, against S."""

    def __init__(self, quick, thorough, which):
        self.fams = {'quick': quick, 'thorough': thorough}
        self.which = which
        self.oracle = None
        self.raw_oracle = None
        self.keep_growth = True
        self.search_fams = thorough
        self.stats = {}
        self.traces = set()

    def _run(self, res, fams, seed, exact=True):
        import time
        for fam, size in fams:
            pin = fam.endswith('@pinned')
            fam = fam.replace('@pinned', '')
            t = time.time()
            cases = run.gen_cases(fam, size, seed + (1 if pin else 0))
            impl = run.run_impl(cases, threads=1, timeout=3600, pin=pin)
            if impl is None:
                # the process aborted (a panic while panicking inside the crate's threads) or never came back: find the case
                bad = run.run_impl_bisect(cases)
                alone = bad is not None and run.run_impl([bad], timeout=180, threads=1) is None
                res.oracle_failures.append((bad if alone else None,
                                            'the harness process aborts or never returns on this parallel case' if alone
                                            else 'the harness died while running the parallel cases', ''))
                return
            if fam == 'par_x':
                second = [c + ' ' + o.split(' ')[0] for c, o in zip(cases, impl)]
                model, spec = run.run_model(second)
            else:
                model, spec = run.run_model(cases)
            nt = 0
            for c, o, m, s in zip(cases, impl, model, spec):
                if o.endswith('SKIPPED'):
                    continue
                res.evaluations += 1
                if fam == 'par_x':
                    self.traces.add(o.split(' ')[0])
                    if exact and not m.startswith('accept') and 'HANG' not in o and 'PANIC' not in o:
                        res.exact_diffs.append((c, o, m))
                    if m.startswith('accept') and 'states=' in m:
                        self.stats[c.rsplit(' ', 1)[0]] = m
                    v = oracles.parallel_trace_oracle(c, o, self.which)
                elif fam == 'par_z':
                    v = oracles.parallel_init_oracle(c, o, self.which)
                else:
                    v = oracles.parallel_real_oracle(c, o, s, self.which)
                if v.failures:
                    res.oracle_failures.append((c, v.failures[0], o))
                if v.nontrivial:
                    nt += 1
            res.nontrivial += nt
            res.families[fam + ('@pinned' if pin else '')] = len(cases)
            if cases:
                res.samples.append({'family': fam, 'case': cases[0][:300], 'impl': impl[0][:400], 'model': model[0][:200]})
            res.notes.append('%s: %d cases in %.1fs' % (fam, len(cases), time.time() - t))

    def run(self, res, tier, seed, corpus):
        self._run(res, self.fams[tier], seed)

    def search(self, res, seed, drift):
        r2 = engine.Result(res.prop)
        self._run(r2, self.search_fams, seed + 7919, exact=False)
        res.evaluations += r2.evaluations
        return r2.oracle_failures[0] if r2.oracle_failures else None

    def execute(self, cases):
        impl = run.run_impl(cases, threads=1) or ['<harness died>'] * len(cases)
        second = [c + ' ' + o.split(' ')[0] if c.startswith('X ') else c for c, o in zip(cases, impl)]
        model, spec = run.run_model(second)
        return impl, model, spec

    def extra_evidence(self):
        st = list(self.stats.values())
        states = sum(int(x.split('states=')[1].split(' ')[0]) for x in st)
        trans = sum(int(x.split('trans=')[1].split(' ')[0]) for x in st)
        dead = sum(int(x.split('dead=')[1].split(' ')[0]) for x in st)
        return {'states': states, 'transitions': trans, 'model_deadlocks_in_explored_configs': dead,
                'configs_fully_explored': len(st), 'distinct_traces_recorded': len(self.traces)}


ASSUME_PAR = [
    'std::sync::mpsc::sync_channel, crossbeam scoped threads and scoped_threadpool follow their documented blocking/disconnect semantics (these are the transition rules of the protocol model)',
    'the OS scheduler is not controlled: traces are recorded at closure boundaries under scheduling noise and must be accepted by the model; interleavings not observed are covered by the theorems about the model only',
    'worker and consumer closures return (do not panic or block forever)',
]

PROPS['C07'] = dict(
    theorems=[],
    runner=ParallelRunner(quick=[('par_x', 1200), ('par_x@pinned', 400), ('par_y', 1500)], thorough=[('par_x', 40000), ('par_x@pinned', 20000), ('par_y', 30000), ('par_y@pinned', 10000)],
                          which={'deliver'}),
    rule='mock parallel::Reader with tagged data sets through read_parallel_init (T 1-4, Q 1-4, 0-40 batches, reader errors, init failures, '
         'early exit) under scheduling noise, trace accepted by the Lean protocol model; real parallel_fasta/fastq on generated files '
         'against S; non-trivial = at least one result delivered',
    assumptions=ASSUME_PAR,
)
PROPS['C08'] = dict(
    theorems=[],
    runner=ParallelRunner(quick=[('par_x', 1500), ('par_y', 500), ('par_z', 500)], thorough=[('par_x', 40000), ('par_x@pinned', 20000), ('par_y', 10000), ('par_z', 10000)],
                          which={'terminate'}),
    rule='same runs as C07 under a 15 s watchdog per call and a thread census (with grace period) after each call; '
         'consumer plans: drain / stop after k for every k / never ask; reader error; reader- and data-set-init failures; '
         'queue length 0 and zero threads as corner cases at the end of the trace family (the known findings D17 / D18 are replayed there); '
         'the failing source of the real parallel runs keeps failing from its K-th read on',
    assumptions=ASSUME_PAR,
)
PROPS['C15'] = dict(
    theorems=[],
    runner=ParallelRunner(quick=[('par_x', 1500), ('par_y', 1500), ('par_z', 1500)], thorough=[('par_x', 40000), ('par_x@pinned', 20000), ('par_y', 30000), ('par_z', 30000)],
                          which={'errors'}),
    rule='reader error at the end of 0-40 batches, each initialisation closure failing at each call index, consumers that stop at or '
         'continue after the error; real readers on mutated input: parallel error message equals sequential error message',
    assumptions=ASSUME_PAR,
)
PROPS['C16'] = dict(
    theorems=[],
    runner=ParallelRunner(quick=[('par_x', 1500), ('par_y', 800)], thorough=[('par_x', 40000), ('par_x@pinned', 20000), ('par_y', 20000)], which={'bounded'}),
    rule='creation counter of the data-set initialiser and run-ahead (fills minus results logged) at every point of every trace; '
         'inputs up to 40 batches with queue lengths 1-4; real parallel_fasta/fastq with a counting per-record output type: creations <= (Q+1) x largest batch; non-trivial = recycling happened',
    assumptions=ASSUME_PAR + ['memory is not measured; the claim is carried by the counts of data sets'],
)


class GroupRunner(ReaderRunner):
    """Reader cases that come in groups of fixed size (same input under several configurations, or
    several encodings of one file); the group oracle compares the members with each other."""

    def __init__(self, quick, thorough, group_size, group_oracle, oracle=None, keep_growth=False):
        ReaderRunner.__init__(self, quick, thorough, oracle, keep_growth)
        self.group_size = group_size
        self.group_oracle = group_oracle

    def _post(self, res, fam, cases, impl, spec):
        if fam == 'corpus' or not (fam.endswith('_cfg') or fam.endswith('_recode')):
            return 0
        g = self.group_size
        nt = 0
        for i in range(0, len(cases) - g + 1, g):
            group = []
            for c, o in zip(cases[i:i + g], impl[i:i + g]):
                toks, log = split_obs(canon(o))
                cd = parse_case(c)
                cd['_log'] = log
                group.append((cd, toks))
            msg = self.group_oracle(group)
            if msg:
                if len(res.oracle_failures) < 200:
                    res.oracle_failures.append(('\n'.join(cases[i:i + g]), msg, impl[i][:300]))
            elif any(t.startswith('R:') or t.startswith('E:') for t in group[0][1]):
                nt += 1
        return nt

    def _replay_family(self, cases):
        return 'replay_cfg' if len(cases) == self.group_size else 'replay'

    def run(self, res, tier, seed, corpus):
        engine.run_reader_families(res, self.fams[tier], seed, self.raw_oracle, self.keep_growth, self.exact, corpus, post=self._post)

    def search(self, res, seed, drift):
        import time as _t
        deadline = _t.time() + float(os.environ.get('VERIF_SEARCH_SECS') or 420)
        for rnd in range(2):
            r2 = engine.Result(res.prop)
            engine.run_reader_families(r2, self.search_fams, seed + 7919 * (rnd + 1), self.raw_oracle, self.keep_growth,
                                       exact=False, post=self._post, deadline=deadline)
            res.evaluations += r2.evaluations
            if r2.oracle_failures:
                return r2.oracle_failures[0]
        return None

    def minimise(self, case, msg, obs):
        if '\n' in case:
            return case, msg, obs
        return ReaderRunner.minimise(self, case, msg, obs)


def cfg_group(group):
    return oracles.config_group_oracle(group)


def recode_group(group):
    return oracles.recode_group_oracle(group[0][0]['fmt'], group)


def unchanged(case, toks, log, items):
    if case['kind'] != 'R':
        return None
    v = oracles.unchanged_oracle(case, toks)
    if v.failures:
        return v
    v2 = oracles.refwrite_oracle(case, toks)
    v2.nontrivial = v2.nontrivial or v.nontrivial
    return v2


def refwrite(case, toks, log, items):
    return oracles.refwrite_oracle(case, toks)


def faults(case, toks, log, items):
    return oracles.fault_oracle(case, toks, items)


def errpos(case, toks, log, items):
    if faulty_case(case, toks):
        # after source failures: the errors reported once a seek has succeeded are S's, with all fields
        return oracles.seek_restores_oracle(case, toks, items)
    if case['pol'].startswith('dul.') and not oracles.builtin_policy_check(case, log):
        # a limited policy refused as documented: what came before counts (the refusal itself is C09's subject)
        bl = next((k for k, t in enumerate(toks) if oracles.strip_growth(t).startswith('E:bl')), None)
        if bl is not None:
            case = dict(case, ops=case['ops'][:bl])
            toks = toks[:bl]
    v = oracles.history_oracle(case, toks, items, positions=False, err_fields=True, sets=False)
    if v.failures:
        return v
    v2 = oracles.message_oracle(case, toks)
    v2.nontrivial = v2.nontrivial
    return v2


PROPS['C03'] = dict(
    theorems=[],
    runner=GroupRunner(
        quick=[('fa_cfg', 3000), ('fq_cfg', 3000)], thorough=[('fa_cfg', 60000), ('fq_cfg', 60000)],
        group_size=6, group_oracle=cfg_group, oracle=cfg_hist),
    rule='every generated input (valid, mutated) is read under six configurations (capacity 3 with 1-byte reads; small capacity with a '
         'slowly growing policy, 2-byte reads and interrupted reads; capacity near the input length; 64; larger than the input; '
         'table-driven policy) and the complete observation streams (records, positions, errors with all fields, place of the end) are '
         'compared with each other; in a quarter of the groups the large-capacity configuration is a reader opened with '
         'from_path_with_capacity under a limited policy that allows no growth; a buffer-limit error counts as the documented end of a '
         'configuration only if the record being parsed does not fit the capacity at which the policy refused; '
         'non-trivial group = at least one record or error',
    assumptions=ASSUME_READER,
)

PROPS['C12'] = dict(
    theorems=[],
    runner=GroupRunner(
        quick=[('fa_recode', 2500), ('fq_recode', 2500), ('fa_two', 2000), ('fq_two', 2000)], thorough=[('fa_recode', 50000), ('fq_recode', 50000), ('fa_two', 40000), ('fq_two', 40000)],
        group_size=6, group_oracle=recode_group, oracle=hist(False, True, False)),
    rule='each generated well-formed file (fields free of CR/LF) in six encodings (LF/CRLF x final terminator present/absent; FASTA: '
         'two random per-line mixtures; FASTQ: with trailing blank lines) under random capacities; headers, sequence lines, qualities '
         'and line numbers compared across the encodings; no CR in any returned field',
    assumptions=ASSUME_READER,
)

PROPS['C11'] = dict(
    theorems=[],
    runner=GroupRunner(
        quick=[('w_fq', 10000), ('fq_recode', 2500), ('fa_recode', 2500), ('fa_two', 2000), ('fq_two', 2000)],
        thorough=[('w_fq', 200000), ('fq_recode', 50000), ('fa_recode', 50000), ('fa_two', 40000), ('fq_two', 40000)],
        group_size=6, group_oracle=lambda g: None, oracle=unchanged),
    rule='FASTQ writer entry points on random fields (round trip through the real reader), and write_unchanged of every record of '
         'well-formed files in six encodings: the concatenated output must reproduce the input bytes up to the final terminator '
         '(FASTQ: trailing blank lines dropped); all writing goes into a writer that accepts 1-3 bytes per write(); RefRecord::write of '
         'every record is compared with the documented four-line layout of its own fields',
    assumptions=ASSUME_READER + ['the io::Write never fails (short writes and the default write_vectored are exercised)'],
)

PROPS['C14'] = dict(
    theorems=['fill_buf_behaviour', 'no_fail_no_error', 'interrupted_invisible'],
    runner=ReaderRunner(
        quick=[('fa_sweep', 300), ('fq_sweep', 300), ('fa_fault', 3000), ('fq_fault', 3000)],
        thorough=[('fa_sweep', 6000), ('fq_sweep', 6000), ('fa_fault', 60000), ('fq_fault', 60000)],
        oracle=faults),
    rule='for each generated input a failure injected at the k-th source call for every k (with interrupted reads in between), six error '
         'kinds, plus random histories with read and seek failures; oracle: records before the failure are the leading records of S, the '
         'failing call returns Io with the injected kind',
    assumptions=ASSUME_READER,
)

PROPS['C17'] = dict(
    theorems=[],
    runner=ReaderRunner(
        quick=[('fq_exh', 5), ('fa_exh', 5), ('fq_rand', 15000), ('fa_rand', 5000), ('fq_cfg', 1000), ('fq_hist', 8000), ('fa_hist', 3000),
               ('fq_fault', 6000), ('fa_fault', 3000)],
        thorough=[('fq_exh', 7), ('fa_exh', 7), ('fq_rand', 300000), ('fa_rand', 100000), ('fq_cfg', 30000), ('fa_cfg', 30000),
                  ('fq_hist', 150000), ('fa_hist', 50000), ('fq_seek', 50000), ('fq_fault', 100000), ('fa_fault', 50000)],
        oracle=errpos),
    rule='malformed inputs (exhaustive small strings, mutated files) at all capacities: error kind and every field compared with S, '
         'message text compared byte-exactly with the model of Display and checked to contain the reported values; the same through '
         'every read path (histories of single reads, owned reads, plain and exact-count record-set reads on three live sets: the error '
         'a set read reports for an invalid record that follows valid ones in the same batch)',
    assumptions=ASSUME_READER,
)

PROPS['C13'] = dict(
    theorems=['num_lines_eq_iter_len', 'num_lines_eq_lines', 'owned_eq_lines_concat', 'single_line_borrowable',
              'id_desc_split', 'utf8_header_iff_parts'],
    runner=ReaderRunner(
        quick=[('fa_rand', 10000), ('fq_rand', 10000), ('fa_hist', 3000), ('fq_hist', 3000), ('fa_two', 2000), ('fq_two', 2000)],
        thorough=[('fa_rand', 200000), ('fq_rand', 200000), ('fa_hist', 60000), ('fq_hist', 60000), ('fa_two', 40000), ('fq_two', 40000)],
        oracle=None),
    rule='every accessor of every record (head, sequence lines, raw sequence, owned sequence, full_seq borrowed/owned, num_seq_lines, '
         'id/desc bytes three ways, UTF-8 verdicts of id()/desc()/id_desc(), owned copies, records of record sets) compared with the model; '
         'headers include non-UTF-8 bytes, empty headers, several and leading spaces',
    assumptions=ASSUME_READER,
)
PROPS['C10']['theorems'] = ['write_to_roundtrip', 'write_parts_roundtrip', 'write_many_roundtrip', 'wrap_widths',
                            'wrap_iter_eq_whole', 'write_wrap_roundtrip']


# theorems that must be present in each property's module (committed list; a theorem that disappears
# from its module is reported, see run.prove)
import json as _json, os as _os
_req = _json.load(open(_os.path.join(run.LEAN, 'REQUIRED_THEOREMS.json')))


def alloc(case, toks, log, items):
    return oracles.alloc_oracle(case, toks, log, items)


def jsonrt(case, toks, log, items):
    return oracles.json_oracle(case, toks)


PROPS['C18'] = dict(
    theorems=[],
    runner=ReaderRunner(
        quick=[('fa_alloc', 400), ('fq_alloc', 400), ('fa_amix', 1500), ('fq_amix', 1500), ('fa_ahist', 2500), ('fq_ahist', 2500),
               ('fa_afault', 2500), ('fq_afault', 2500)],
        thorough=[('fa_alloc', 8000), ('fq_alloc', 8000), ('fa_amix', 40000), ('fq_amix', 40000), ('fa_ahist', 80000), ('fq_ahist', 80000),
                  ('fa_afault', 40000), ('fq_afault', 40000)],
        oracle=alloc, keep_growth=True),
    rule='a counting global allocator (the harness\'s own byte source and recording policy excluded) measures every next() / '
         'read_record_set(_exact) / seek() call; the number of allocator calls and the capacity of the record set\'s buffer afterwards '
         '(buf_capacity()) are compared EXACTLY with what the ghost-capacity model (Model/Alloc.lean) predicts, on files of 12-40 records of one '
         'shape, on files whose records differ widely in size and number of lines (capacities from "largest record just fits" upwards), '
         'and on arbitrary reader histories (single reads, three live record sets, exact-count reads, seeks, shrink_buffer_to_fit, '
         'policy changes); the model leaves the count open only for calls that return an error, make a policy request or build an owned record. '
         'Independently of the model: policy requests only for records that do not fit; one-shape files allocate nothing after a warm-up; '
         'a single read of a record with no more lines than an earlier one allocates nothing',
    assumptions=ASSUME_READER + ['allocation counts are those of the harness build (opt-level 2); Vec\'s growth rule (RawVec::grow_amortized) and the allocator are modelled and observed, not verified'],
)
PROPS['C19'] = dict(
    theorems=[],
    runner=ReaderRunner(
        quick=[('fa_json', 3000), ('fq_json', 3000)], thorough=[('fa_json', 60000), ('fq_json', 60000)],
        oracle=jsonrt),
    rule='owned records and record sets (fresh, refilled, reused with stale offsets beyond their length, after exact-count reads; a third of '
         'the FASTA inputs wrapped at a fixed width with a shorter, equal or longer last line and stray CRs) '
         'serialised with serde_json, deserialised and compared record by record; the JSON text is compared byte-exactly with the '
         "model's rendering of the serde data model",
    assumptions=ASSUME_READER + ['serde derive expansion and serde_json are observed through the JSON text, not verified'],
)
PROPS['C20'] = dict(
    theorems=[],
    runner=SimpleRunner(quick=[('iter', 7), ('fa_zero', 1500), ('fq_zero', 1500), ('fa_hist', 3000), ('fq_hist', 3000),
                               ('fa_fault', 4000), ('fq_fault', 4000), ('fa_recode', 1000)],
                        thorough=[('iter', 11), ('fa_zero', 40000), ('fq_zero', 40000), ('fa_hist', 60000), ('fq_hist', 60000),
                                  ('fa_fault', 80000), ('fq_fault', 80000), ('fa_recode', 20000)],
                        raw_oracle=lambda c, o, s: oracles.fused_oracle(c, o, s) if c.startswith('F ') else
                        (oracles.recset_iter_oracle(c, o, s) if c.startswith('R ') else oracles.iter_oracle(c, o, s)),
                        exact_kinds=('I',)),
    rule='records with 0-5 sequence lines x every word over {front, back} up to length 7 (thorough: 11) on one seq_lines() iterator, '
         'len() and size_hint() after every step; enumerate().rev() (also after advancing), rev, zip, skip, collect; record-set '
         'iterators and owned-record iterators of both formats driven past their end; the iterator of every record set that a '
         'random reader history dumps (reused sets, sets refilled with fewer records than before, sets left behind by errors) driven '
         'step by step: size hint brackets the remaining count, item count = len(), fused; owned/next iteration over sources that report '
         'Ok(0) and deliver data later (fusedness; no model involved); histories with failing reads and seeks and refusing policies: '
         'once the end was reported only a seek that SUCCEEDS lets the reader deliver again; on every FASTA record any reader hands out '
         '(LF, CRLF and mixed files, empty lines, lines that are a lone CR) seq_lines() is driven to its end and past it: len() = number of '
         'lines from the front = from the back = num_seq_lines(), hints bracket, fused',
    assumptions=[],
)


def views(case, toks, log, items):
    v = oracles.views_oracle(case, toks)
    if v.failures:
        return v
    # owned copies and records taken from record sets expose the values S prescribes
    v2 = oracles.history_oracle(case, toks, items, positions=False, err_fields=False, sets=True)
    v2.nontrivial = v2.nontrivial or v.nontrivial
    return v2


PROPS['C13']['runner'] = ReaderRunner(
    quick=[('fa_rand', 10000), ('fq_rand', 10000), ('fa_hist', 3000), ('fq_hist', 3000), ('fa_two', 2000), ('fq_two', 2000)],
    thorough=[('fa_rand', 200000), ('fq_rand', 200000), ('fa_hist', 60000), ('fq_hist', 60000), ('fa_two', 40000), ('fq_two', 40000)],
    oracle=views)

for _k, _v in PROPS.items():
    _v['theorems'] = _req.get(_k, [])


# which fields of a record observation the exact comparison looks at, per property (None = all): a harmless
# rewrite of, say, write_unchanged then trips C11 and C13 only
RECORD_FIELDS = {
    'C01': set('hln'), 'C02': set('hsq'), 'C03': set('hlsqn'), 'C04': set('hlsq'), 'C05': set('hlsq'),
    'C06': set('hlsq'), 'C09': set('h'), 'C10': set('hlowx'), 'C11': set('huwlsq'), 'C13': set('hlrnbosqidvf'), 'C12': set('hlsqnf'), 'C14': set('hlsq'),
    'C17': set('h'), 'C18': set('h'),
}


# C11: FASTQ writer cases (W) go to the writer oracle, reader cases (R) to the unchanged-writing oracle
# C10: writer cases (W) go to the writer oracle; records read by the FASTA reader (R) are written with
# RefRecord::write / write_wrap and judged by the ref-write oracle
_c10 = PROPS['C10']['runner']
_c10.fams['quick'] = _c10.fams['quick'] + [('fa_rand', 6000), ('fa_hist', 1500)]
_c10.fams['thorough'] = _c10.fams['thorough'] + [('fa_rand', 150000), ('fa_hist', 40000)]
_c10.search_fams = _c10.fams['thorough']
_c10_reader = engine.reader_oracle(refwrite)


def _c10_oracle(c, o, s):
    if c.startswith('W '):
        return oracles.writer_oracle(c, o, s)
    return _c10_reader(c, o, s)


_c10.raw_oracle = _c10_oracle

_c11 = PROPS['C11']['runner']
_c11_reader = _c11.raw_oracle


def _c11_oracle(c, o, s):
    if c.startswith('W '):
        return oracles.writer_oracle(c, o, s)
    return _c11_reader(c, o, s)


_c11.raw_oracle = _c11_oracle
