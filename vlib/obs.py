"""Parsing and canonicalisation of observation lines (shared format of harness and model driver)."""
import re

_ID_RE = re.compile(r'\.=([0-9a-f]*)')
_MSG_RE = re.compile(r'/m=([0-9a-f]*)')


def _lossy(hexs):
    # Rust's String::from_utf8_lossy and Python's 'replace' both substitute U+FFFD per
    # maximal invalid subpart
    return bytes.fromhex(hexs).decode('utf-8', 'replace').encode('utf-8').hex()


def canon(line):
    """Canonical form of an observation line: ids and messages compared after lossy UTF-8 decoding."""
    if '=' not in line:
        return line
    line = _ID_RE.sub(lambda m: '.=' + _lossy(m.group(1)), line)
    line = _MSG_RE.sub(lambda m: '/m=' + _lossy(m.group(1)), line)
    return line


def split_obs(line):
    """'a;b;c L=log' -> (['a','b','c'], 'log')"""
    if ' L=' in line:
        body, log = line.rsplit(' L=', 1)
    else:
        body, log = line, ''
    toks = body.split(';') if body else []
    return toks, log


def parse_log(log):
    out = []
    if not log:
        return out
    for e in log.split(','):
        c, a = e.split('>')
        out.append((int(c), None if a == 'x' else int(a)))
    return out


def parse_fields(s):
    """'h=..:l=..' -> dict"""
    d = {}
    for f in s.split(':'):
        if '=' in f:
            k, v = f.split('=', 1)
            d[k] = v
    return d


def parse_err(tok):
    """'E:is.3.65/m=...' -> ('is', ['3','65'], msghex)"""
    body = tok[2:]
    msg = None
    if '/m=' in body:
        body, msg = body.split('/m=', 1)
    at = None
    if '@' in body:
        body, at = body.split('@', 1)
    parts = body.split('.')
    args = parts[1:]
    if at is not None:
        args.append('@' + at)
    return parts[0], args, msg


def parse_spec(fmt, line):
    """S line -> list of items: ('rec', fields) | ('err', kind, args)"""
    items = []
    if not line:
        return items
    for it in line.split('/'):
        if it.startswith('E:'):
            k, args, _ = parse_err(it)
            items.append(('err', k, args))
        else:
            items.append(('rec', parse_fields(it)))
    return items


def parse_case(line):
    t = line.split(' ')
    return dict(kind=t[0], fmt=t[1], cap=int(t[2]), pol=t[3], chunk=int(t[4]), script=t[5],
                seekfails=t[6], input=t[7], ops=t[8].split(',') if t[8] != '-' else [])


def show_case(c):
    return ' '.join([c['kind'], c['fmt'], str(c['cap']), c['pol'], str(c['chunk']), c['script'],
                     c['seekfails'], c['input'], ','.join(c['ops']) if c['ops'] else '-'])
