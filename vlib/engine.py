"""The check engine: proof step, correspondence run, oracles, classification, shrinking, evidence."""
import hashlib
import json
import os
import sys
import time

from . import run, oracles
from .obs import canon, split_obs, parse_spec, parse_case, show_case
from .oracles import strip_growth

ROOT = run.ROOT
TRUSTED_BASE = [
    "Lean 4.33.0 kernel; axioms permitted in property theorems: propext, Classical.choice, Quot.sound (audited by #print axioms on every run)",
    "hand-written Lean model (lean/SeqIoModel/Model) and its reading of /repo/src; tied to the code by the correspondence run of this check (differential, not exhaustive)",
    "Rust harness (/verif/harness), this check script and the canonical encodings",
    "modelled, not verified: buffer_redux::BufReader, memchr, std slices/iterators/channels, the allocator",
    "sizes < 2^63; policies answer more than the current capacity or refuse; io::Read returns Ok(0) only at end of input",
]


def load_known():
    p = os.path.join(ROOT, 'known_findings.json')
    if not os.path.exists(p):
        return []
    return json.load(open(p)).get('findings', [])


def reader_oracle(fn):
    """lift an oracle on parsed reader cases to raw lines"""
    def f(c, o, s):
        if not (c.startswith('R ') or c.startswith('A ') or c.startswith('P ')):
            return None
        case = parse_case(c)
        toks, log = split_obs(canon(o))
        rejected = s.endswith(run.A_REJECTS)
        if rejected:
            s = s[:-len(run.A_REJECTS)]
        if ' || ' in s:
            # two readers sharing the record sets: each is judged on its own operations against its own input
            parts = canon(s).split(' || ')
            return oracles.two_reader_oracle(case, toks, parse_spec(case['fmt'], parts[0]), parse_spec(case['fmt'], parts[1]))
        v = fn(case, toks, log, parse_spec(case['fmt'], canon(s)))
        if rejected and LEAN_A_ORACLE and v is not None and not v.failures:
            # the abstract reader of Model/History*.lean – the object the history theorems are about – does not allow
            # what the implementation did (a record lost, duplicated, reordered or changed, a wrong position, a wrong
            # batch size, a wrong error), although the property's own Python oracle saw nothing
            v.failures.append('the Lean abstract reader rejects the implementation\'s history (runA / acceptsA = false)')
        return v
    return f


MODEL_ORACLE = None     # C18: oracles.alloc_vs_model(case, impl, model) -> message or None
LEAN_A_ORACLE = False   # set per property by the check script: C01 C02 C04 C05 C17
EXACT_KINDS = None  # case kinds that have a model observation to compare with (None = all)
KEEP_MSG = False   # only C17 compares the wording of error messages
FIELDS = None      # record fields compared (None = all); set per property by the check script
_FIELD = __import__('re').compile(r'(?<=[:/])([a-z])=[^:;/ ]*:?')
_MSG = __import__('re').compile(r'/m=[0-9a-f]*')


def project(line, keep_growth):
    """What the exact comparison looks at: growth markers / request log only where growth is the subject
    (C03, C09, C18), message wording only for C17 – so that harmless rewrites of unrelated behaviour do not
    trip properties they have nothing to do with."""
    line = canon(line)
    if not KEEP_MSG:
        line = _MSG.sub('', line)
    if FIELDS is not None and ('R:' in line or 'I:' in line):
        line = _FIELD.sub(lambda m: m.group(0) if m.group(1) in FIELDS else '', line)
    if keep_growth or '<' in line:
        return line
    toks, _ = split_obs(line)
    return ';'.join(strip_growth(t) for t in toks)


_ALLOC_SFX = __import__('re').compile(r'@(\d+|\?)(?:\^(\d+|\?))?$')


def reconcile(o, m):
    """Allocation counts and record-set buffer capacities of `A` cases (`tok@count^capacity`): the model prints a
    number where its ghost capacities determine the value and `?` where they do not (error values, policy growth,
    owned records); the comparison ignores the implementation's value exactly there."""
    if '@' not in m:
        return o, m
    ot, ol = split_obs(o)
    mt, ml = split_obs(m)
    if len(ot) != len(mt):
        return o, m
    for i, t in enumerate(mt):
        mm = _ALLOC_SFX.search(t)
        mo = _ALLOC_SFX.search(ot[i])
        if not mm or not mo:
            continue
        def sfx(x, ref):
            out = ''
            if ref.group(1) != '?':
                out += '@' + x.group(1)
            if ref.group(2) is not None and ref.group(2) != '?':
                out += '^' + (x.group(2) or '-')
            return out
        mt[i] = t[:mm.start()] + sfx(mm, mm)
        ot[i] = ot[i][:mo.start()] + sfx(mo, mm)
    return ';'.join(ot) + (' L=' + ol if ' L=' in o else ''), ';'.join(mt) + (' L=' + ml if ' L=' in m else '')


_ALLOC_DET = __import__('re').compile(r'@\d+')
_CAP_DET = __import__('re').compile(r'\^\d+')


def differ(o, m, keep_growth):
    o, m = reconcile(o, m)
    return project(o, keep_growth) != project(m, keep_growth)


class Result:
    def __init__(self, prop):
        self.prop = prop
        self.evaluations = 0
        self.distinct = set()
        self.nontrivial = 0
        self.samples = []
        self.oracle_failures = []   # (case, message, impl_obs)
        self.exact_diffs = []       # (case, impl_obs, model_obs)
        self.domain_end = 0
        self.families = {}
        self.notes = []
        self.harness_crash = None


def run_reader_families(res, fams, seed, oracle_fn, keep_growth=False, exact=True, extra_cases=None, post=None, deadline=None):
    """Generate, execute on impl and model, compare. oracle_fn(case, toks, log, items) -> Verdict or None.
    `deadline` (failing-input search only): families not started by then are skipped and the fact is noted."""
    for fam, size in fams:
        if deadline is not None and time.time() > deadline:
            res.notes.append('search budget exhausted before family %s' % fam)
            break
        if deadline is not None and res.oracle_failures:
            break
        cases = run.gen_cases(fam, size, seed)
        _run_cases(res, fam, cases, oracle_fn, keep_growth, exact, post)
    if extra_cases:
        _run_cases(res, 'corpus', extra_cases, oracle_fn, keep_growth, exact, None)


_JOB = None   # (cases, impl, model, spec, oracle_fn, keep_growth, exact) – inherited by forked workers


def _work(rng):
    """compare / judge the cases with indices in `rng`; returns only small things"""
    cases, impl, model, spec, oracle_fn, keep_growth, exact = _JOB
    lo, hi = rng
    diffs, fails, dom, nt = [], [], 0, []
    ndiff = 0
    for i in range(lo, hi):
        c, o, m, s = cases[i], impl[i], model[i], spec[i]
        if exact and (EXACT_KINDS is None or c[:1] in EXACT_KINDS) and differ(o, m, keep_growth):
            ndiff += 1
            if len(diffs) < 10:
                diffs.append((c, o, m))
        if MODEL_ORACLE is not None:
            msg = MODEL_ORACLE(c, o, m)
            if msg and len(fails) < 40:
                fails.append((c, msg, o))
        if oracle_fn is not None:
            v = oracle_fn(c, o, s)
            if v is not None:
                if v.failures and len(fails) < 40:
                    fails.append((c, v.failures[0], o))
                if v.domain_end:
                    dom += 1
                if v.nontrivial:
                    nt.append(hashlib.blake2b(c.encode(), digest_size=8).digest())
        else:
            nt.append(hashlib.blake2b(c.encode(), digest_size=8).digest())
    return diffs, ndiff, fails, dom, nt


def _run_cases(res, fam, cases, oracle_fn, keep_growth, exact, post=None):
    global _JOB
    if not cases:
        return
    t = time.time()
    impl = run.run_impl(cases)
    if impl is None:
        bad = run.run_impl_bisect(cases)
        res.harness_crash = bad
        res.oracle_failures.append((bad, 'the harness process died or hung on this case (abort / endless loop outside a source or policy call)', ''))
        return
    model, spec = run.run_model(cases, impl)
    n = len(cases)
    _JOB = (cases, impl, model, spec, oracle_fn, keep_growth, exact)
    if n >= 40000:
        import multiprocessing
        nproc = min(14, os.cpu_count() or 1)
        step = (n + nproc * 4 - 1) // (nproc * 4)
        ranges = [(i, min(i + step, n)) for i in range(0, n, step)]
        with multiprocessing.get_context('fork').Pool(nproc) as pool:
            parts = pool.map(_work, ranges)
    else:
        parts = [_work((0, n))]
    _JOB = None
    nt = 0
    for diffs, ndiff, fails, dom, hashes in parts:
        for d in diffs:
            if len(res.exact_diffs) < 50:
                res.exact_diffs.append(d)
        res.exact_diff_count = getattr(res, 'exact_diff_count', 0) + ndiff
        for f in fails:
            if len(res.oracle_failures) < 200:
                res.oracle_failures.append(f)
        res.domain_end += dom
        for h in hashes:
            if h not in res.distinct:
                res.distinct.add(h)
                nt += 1
    res.evaluations += n
    if post is not None:
        nt += post(res, fam, cases, impl, spec)
    res.nontrivial += nt
    if len(res.samples) < 6 and cases:
        res.samples.append({'family': fam, 'case': cases[len(cases) // 2][:400], 'impl': impl[len(cases) // 2][:400]})
    res.families[fam] = res.families.get(fam, 0) + len(cases)
    res.notes.append('%s: %d cases in %.1fs' % (fam, len(cases), time.time() - t))
    if cases and cases[0].startswith('A '):
        # how many measured calls the ghost-capacity model determines (allocation count / buffer capacity compared exactly)
        det = sum(len(_ALLOC_DET.findall(m)) for m in model)
        und = sum(m.count('@?') for m in model)
        capd = sum(len(_CAP_DET.findall(m)) for m in model)
        res.notes.append('%s: allocation counts compared exactly for %d calls, left open by the model for %d (errors, policy growth, '
                         'owned records, dumps); buf_capacity() compared exactly after %d set operations' % (fam, det, und, capd))


# ---------------------------------------------------------------- shrinking

def shrink_case(case_line, still_fails, budget=400):
    """Greedy minimisation of a reader case while `still_fails(list_of_case_lines) -> list[bool]`."""
    best = parse_case(case_line)
    evals = 0

    def candidates(c):
        out = []
        ops = c['ops']
        for i in range(len(ops)):
            d = dict(c, ops=ops[:i] + ops[i + 1:])
            out.append(d)
        inp = c['input'] if c['input'] != '-' else ''
        nb = len(inp) // 2
        for i in range(nb):
            s = inp[:2 * i] + inp[2 * i + 2:]
            out.append(dict(c, input=s if s else '-'))
        if nb > 4:
            out.append(dict(c, input=inp[:2 * (nb // 2)] or '-'))
            out.append(dict(c, input=inp[2 * (nb // 2):] or '-'))
        if c['cap'] > 3:
            out.append(dict(c, cap=3))
            out.append(dict(c, cap=c['cap'] - 1))
            out.append(dict(c, cap=(c['cap'] + 3) // 2))
        if c['script'] != '-':
            ev = c['script'].split(',')
            out.append(dict(c, script='-'))
            for i in range(len(ev)):
                r = ev[:i] + ev[i + 1:]
                out.append(dict(c, script=','.join(r) if r else '-'))
        if c['chunk'] != 0:
            out.append(dict(c, chunk=0))
        if c['pol'] != 'std':
            out.append(dict(c, pol='std'))
        if c['seekfails'] != '-':
            out.append(dict(c, seekfails='-'))
        return out

    improved = True
    while improved and evals < budget:
        improved = False
        cands = candidates(best)
        if not cands:
            break
        lines = [show_case(x) for x in cands]
        evals += len(lines)
        flags = still_fails(lines)
        for x, f in zip(cands, flags):
            if f:
                best = x
                improved = True
                break
    return show_case(best)


def write_replay(prop, case_line, expected, observed, how, name=None):
    os.makedirs(os.path.join(ROOT, 'replays'), exist_ok=True)
    h = hashlib.blake2b((prop + (case_line or '') + how).encode(), digest_size=6).hexdigest()
    path = os.path.join(ROOT, 'replays', '%s-%s.json' % (prop, name or h))
    json.dump({'property': prop, 'case': case_line, 'expected': expected, 'observed': observed,
               'what': how, 'rerun': './check %s --replay %s' % (prop, path)}, open(path, 'w'), indent=1)
    return path


def matches_known(prop, case_line, message, known):
    """An open known finding suppresses exactly the violations with its signature."""
    for k in known:
        if k.get('status') != 'open' or (k.get('property') != prop and prop not in k.get('also', [])):
            continue
        m = k.get('match', {})
        c = parse_case(case_line) if case_line and case_line.startswith('R ') else None
        ok = True
        # parallel cases `X <threads> <queue length> ...`: the finding is tied to the argument value that fails
        x = case_line.split(' ') if case_line and case_line.startswith('X ') else None
        if 'x_queue_len' in m and (x is None or int(x[2]) != m['x_queue_len']):
            ok = False
        if 'x_threads' in m and (x is None or int(x[1]) != m['x_threads']):
            ok = False
        if 'format' in m and (c is None or c['fmt'] != m['format']):
            ok = False
        if 'message_contains' in m and m['message_contains'] not in message:
            ok = False
        if m.get('script_has_fail') and (c is None or 'f' not in c['script']):
            ok = False
        if m.get('ops_have_seek') and (c is None or not any(o[0] in 'kK' for o in c['ops'])):
            ok = False
        if ok:
            return k
    return None


def write_evidence(prop, tier, seed, level, proof, res, wall, violations, assumptions, rule, extra=None):
    cov = {
        'obligations': proof['obligations'] if proof else 0,
        'discharged': proof['discharged'] if proof else 0,
        'checker_cmd': 'cd /verif/lean && lake build SeqIoModel.Theorems.%s && lake env lean ../work/Audit_%s.lean   (# print axioms of every theorem)' % (prop, prop),
        'trusted_base': TRUSTED_BASE,
        'theorems': proof['theorems'] if proof else [],
        'axioms': proof['axioms'] if proof else {},
        'proof_failures': proof['failures'] if proof else [],
        'evaluations': res.evaluations,
        'distinct_nontrivial': res.nontrivial,
        'traces_validated_against_impl': res.evaluations,
        'rule': rule,
        'samples': res.samples[:6] if res.samples else [{'note': 'no correspondence cases in this run'}],
        'families': res.families,
        'oracle_failures': len(res.oracle_failures),
        'model_vs_impl_disagreements': len(res.exact_diffs),
        'oracle_domain_ends': res.domain_end,
        'notes': res.notes,
        'exhaustive': False,
    }
    if extra:
        cov.update(extra)
    ev = {
        'property_id': prop, 'tier': tier, 'seed': seed, 'level': level, 'coverage': cov,
        'assumptions': assumptions, 'wall_s': round(wall, 2), 'violations': violations,
    }
    os.makedirs(os.path.join(ROOT, 'evidence'), exist_ok=True)
    json.dump(ev, open(os.path.join(ROOT, 'evidence', prop + '.json'), 'w'), indent=1)
