"""Fingerprints of the functions of /repo/src the model was written against.

The Lean model is hand-written; `SOURCE_FINGERPRINT.json` (committed, never written by a check) records a hash
of every function body, macro and of the remaining text of each source file at the commit the model mirrors.
A check compares the current working tree with it: functions that differ are listed in the evidence, and the
quick tier runs with an escalated budget (the change-directed budget of DESIGN.md section 6) - a changed source is
where a broken property is most likely, so that is where the correspondence run should look hardest.
A difference is never an alarm by itself.

    python3 -m vlib.fingerprint --write     regenerate the file (after a `fix:` commit and a model update)
"""
import hashlib
import json
import os
import re
import sys

ROOT = os.path.dirname(os.path.dirname(os.path.abspath(__file__)))
SRC = '/repo/src'
FILE = os.path.join(ROOT, 'SOURCE_FINGERPRINT.json')

_FN = re.compile(r'^[ \t]*(?:pub(?:\([a-z]+\))?[ \t]+)?(?:unsafe[ \t]+)?(?:fn[ \t]+(\w+)|macro_rules![ \t]+(\w+))', re.M)


def _strip_comments(src):
    out = []
    i, n = 0, len(src)
    while i < n:
        if src.startswith('//', i):
            j = src.find('\n', i)
            i = n if j < 0 else j
        elif src.startswith('/*', i):
            j = src.find('*/', i + 2)
            i = n if j < 0 else j + 2
        elif src[i] == '"':
            j = i + 1
            while j < n and src[j] != '"':
                j += 2 if src[j] == '\\' else 1
            out.append(src[i:j + 1])
            i = j + 1
        elif src[i] == "'" and i + 2 < n and (src[i + 2] == "'" or (src[i + 1] == '\\' and src.find("'", i + 2) in range(i + 2, i + 8))):
            j = src.find("'", i + 2 if src[i + 1] != '\\' else i + 3)
            out.append(src[i:j + 1])
            i = j + 1
        else:
            out.append(src[i])
            i += 1
    return ''.join(out)


def _body_end(src, start):
    """index just past the brace block (or `;`) that follows position `start`"""
    i, n = start, len(src)
    while i < n and src[i] not in '{;':
        i += 1
    if i >= n or src[i] == ';':
        return i + 1
    depth = 0
    while i < n:
        c = src[i]
        if c == '"':
            i += 1
            while i < n and src[i] != '"':
                i += 2 if src[i] == '\\' else 1
        elif c == '{':
            depth += 1
        elif c == '}':
            depth -= 1
            if depth == 0:
                return i + 1
        i += 1
    return n


def _h(text):
    return hashlib.sha1(re.sub(r'\s+', ' ', text).strip().encode()).hexdigest()[:16]


def fingerprint(src_dir=SRC):
    fp = {}
    for name in sorted(os.listdir(src_dir)):
        if not name.endswith('.rs'):
            continue
        src = _strip_comments(open(os.path.join(src_dir, name), encoding='utf-8', errors='replace').read())
        rest = []
        pos = 0
        counts = {}
        for m in _FN.finditer(src):
            if m.start() < pos:
                continue    # nested function inside a body already taken
            fn = m.group(1) or (m.group(2) + '!')
            end = _body_end(src, m.end())
            k = counts.get(fn, 0)
            counts[fn] = k + 1
            fp['%s::%s#%d' % (name, fn, k)] = _h(src[m.start():end])
            rest.append(src[pos:m.start()])
            pos = end
        rest.append(src[pos:])
        fp['%s::<rest>' % name] = _h(''.join(rest))
    return fp


def changed(recorded=None, current=None):
    """names of functions / files whose text differs from the recorded fingerprint (sorted)"""
    if recorded is None:
        if not os.path.exists(FILE):
            return ['<no fingerprint file>']
        recorded = json.load(open(FILE))['functions']
    if current is None:
        current = fingerprint()
    out = []
    for k in sorted(set(recorded) | set(current)):
        if recorded.get(k) != current.get(k):
            out.append(k + (' (new)' if k not in recorded else ' (gone)' if k not in current else ''))
    return out


def main():
    if '--write' in sys.argv:
        import subprocess
        head = subprocess.run(['git', '-C', '/repo', 'rev-parse', 'HEAD'], stdout=subprocess.PIPE).stdout.decode().strip()
        dirty = subprocess.run(['git', '-C', '/repo', 'status', '--porcelain', '--', 'src'], stdout=subprocess.PIPE).stdout.decode().strip()
        if dirty:
            print('refusing: /repo/src has uncommitted changes')
            return 1
        json.dump({'repo_commit': head, 'functions': fingerprint()}, open(FILE, 'w'), indent=1, sort_keys=True)
        print('wrote', FILE)
        return 0
    for c in changed():
        print(c)
    return 0


if __name__ == '__main__':
    sys.exit(main())
