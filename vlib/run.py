"""Build steps and the case pipeline: harness (real crate) and Lean driver (model) on the same lines."""
import json
import os
import re
import subprocess
import sys
import time

ROOT = os.path.dirname(os.path.dirname(os.path.abspath(__file__)))
LEAN = os.path.join(ROOT, 'lean')
HARNESS = os.path.join(ROOT, 'harness')
HBIN = os.path.join(HARNESS, 'target', 'debug', 'seqio_harness')
MBIN = os.path.join(LEAN, '.lake', 'build', 'bin', 'seqio_model')
WORK = os.path.join(ROOT, 'work')
ENV = dict(os.environ, CARGO_NET_OFFLINE='true')

ALLOWED_AXIOMS = {'propext', 'Classical.choice', 'Quot.sound'}
FORBIDDEN = re.compile(r'\bsorry\b|\badmit\b|^axiom\s|native_decide|bv_decide|implemented_by|\bunsafe\s|maxHeartbeats\s+0')


HIST_STATS = {'histories_checked_against_history_model': 0, 'history_model_agrees': 0, 'abstract_reader_accepts': 0,
              'implementation_histories_judged_by_lean_abstract_reader': 0, 'lean_abstract_reader_accepts_implementation': 0}
A_REJECTS = ' <lean-abstract-reader-rejects-implementation>'


class BuildError(Exception):
    pass


def sh(cmd, cwd, timeout=3600, inp=None):
    p = subprocess.run(cmd, cwd=cwd, env=ENV, input=inp, stdout=subprocess.PIPE, stderr=subprocess.PIPE,
                       timeout=timeout)
    return p.returncode, p.stdout.decode('utf-8', 'replace'), p.stderr.decode('utf-8', 'replace')


def build_harness():
    t = time.time()
    rc, out, err = sh(['cargo', 'build', '--offline', '--quiet'], HARNESS)
    if rc != 0:
        raise BuildError('cargo build of the harness against /repo failed:\n' + err[-3000:])
    return time.time() - t


def build_driver():
    rc, out, err = sh(['lake', 'build', 'seqio_model'], LEAN)
    if rc != 0:
        raise BuildError('lake build seqio_model failed:\n' + (out + err)[-3000:])


def strip_comments(src):
    # remove block comments (nested) and line comments
    out = []
    i, depth, n = 0, 0, len(src)
    while i < n:
        if src.startswith('/-', i):
            depth += 1
            i += 2
        elif depth and src.startswith('-/', i):
            depth -= 1
            i += 2
        elif depth:
            i += 1
        elif src.startswith('--', i):
            j = src.find('\n', i)
            i = n if j < 0 else j
        else:
            out.append(src[i])
            i += 1
    return ''.join(out)


def lean_sources():
    res = []
    for d, _, fs in os.walk(os.path.join(LEAN, 'SeqIoModel')):
        for f in fs:
            if f.endswith('.lean'):
                res.append(os.path.join(d, f))
    res.append(os.path.join(LEAN, 'Main.lean'))
    return sorted(res)


def grep_forbidden():
    hits = []
    for f in lean_sources():
        src = strip_comments(open(f).read())
        for ln, line in enumerate(src.split('\n'), 1):
            if FORBIDDEN.search(line):
                hits.append('%s: %s' % (os.path.relpath(f, ROOT), line.strip()[:120]))
    return hits


def theorems_in(module_file):
    src = strip_comments(open(module_file).read())
    return re.findall(r'^\s*theorem\s+([A-Za-z_][\w\.\']*)', src, re.M)


def prove(prop_id, required, fresh=False, leanchecker=False):
    """Compile the property's theorem module and audit the axioms of every theorem in it.
    Returns dict(obligations, discharged, theorems, axioms, failures)."""
    mod = 'SeqIoModel.Theorems.%s' % prop_id
    path = os.path.join(LEAN, 'SeqIoModel', 'Theorems', prop_id + '.lean')
    res = dict(module=mod, obligations=0, discharged=0, theorems=[], axioms={}, failures=[], wall_s=0.0)
    t = time.time()
    if not os.path.exists(path):
        res['failures'].append('theorem module %s is missing' % mod)
        return res
    if fresh:
        for ext in ('olean', 'ilean', 'c', 'trace', 'olean.hash', 'ilean.hash'):
            p = os.path.join(LEAN, '.lake', 'build', 'lib', 'lean', 'SeqIoModel', 'Theorems', '%s.%s' % (prop_id, ext))
            if os.path.exists(p):
                os.remove(p)
    names = theorems_in(path)
    res['theorems'] = names
    res['obligations'] = len(set(names) | set(required))
    missing = [r for r in required if r not in names]
    for m in missing:
        res['failures'].append('theorem %s is no longer stated in %s' % (m, mod))
    rc, out, err = sh(['lake', 'build', mod], LEAN)
    if rc != 0:
        msg = (out + err)
        errs = [l for l in msg.split('\n') if 'error' in l][:5]
        res['failures'].append('lake build %s failed: %s' % (mod, ' | '.join(errs)[:600]))
        res['wall_s'] = time.time() - t
        return res
    hits = grep_forbidden()
    for h in hits:
        res['failures'].append('forbidden construct: ' + h)
    # axiom audit
    audit = os.path.join(WORK, 'Audit_%s.lean' % prop_id)
    os.makedirs(WORK, exist_ok=True)
    ns = 'SeqIo.Thm.%s' % prop_id
    with open(audit, 'w') as f:
        f.write('import %s\n' % mod)
        for n in names:
            f.write('#print axioms %s.%s\n' % (ns, n))
    rc, out, err = sh(['lake', 'env', 'lean', audit], LEAN)
    text = out + err
    # parse: "'X' depends on axioms: [a, b]" or "'X' does not depend on any axioms"
    cur = None
    blocks = re.findall(r"'([^']+)' (does not depend on any axioms|depends on axioms: \[([^\]]*)\])", text, re.S)
    seen = {}
    for name, _, axs in blocks:
        short = name.split('.')[-1]
        al = [a.strip() for a in axs.replace('\n', ' ').split(',') if a.strip()] if axs else []
        seen[short] = al
    for n in names:
        short = n.split('.')[-1]
        if short not in seen:
            res['failures'].append('axiom audit gave no answer for %s: %s' % (n, text[-300:]))
            continue
        res['axioms'][n] = seen[short]
        bad = [a for a in seen[short] if a not in ALLOWED_AXIOMS]
        if bad:
            res['failures'].append('theorem %s depends on axioms %s' % (n, bad))
        elif n in required or True:
            res['discharged'] += 1
    if leanchecker:
        rc, out, err = sh(['lake', 'env', 'leanchecker', mod], LEAN)
        res['leanchecker_rc'] = rc
        if rc != 0:
            res['failures'].append('leanchecker rejected %s: %s' % (mod, (out + err)[-300:]))
    res['discharged'] = min(res['discharged'], res['obligations']) if not missing else res['discharged']
    res['wall_s'] = time.time() - t
    return res


def gen_cases(family, size, seed):
    rc, out, err = sh([HBIN, 'gen', family, str(size), str(seed)], ROOT)
    if rc != 0:
        raise BuildError('harness gen %s failed: %s' % (family, err[-500:]))
    return [l for l in out.split('\n') if l]


def run_impl(cases, timeout=1200, threads=14, pin=False):
    """Execute case lines on the real crate. Returns list of observation strings.
    pin=True: the whole harness process is pinned to one CPU, so that the threads of the parallel functions are
    time-sliced instead of running side by side (different interleavings than on 16 cores)."""
    data = ('\n'.join(cases) + '\n').encode()
    try:
        env = dict(ENV, VERIF_THREADS=str(threads))
        cmd = [HBIN, 'exec']
        if pin and os.path.exists('/usr/bin/taskset'):
            cmd = ['/usr/bin/taskset', '-c', '0'] + cmd
        p = subprocess.run(cmd, input=data, stdout=subprocess.PIPE, stderr=subprocess.PIPE,
                           timeout=timeout, env=env)
    except subprocess.TimeoutExpired:
        return None
    if p.returncode != 0:
        return None
    lines = [l[2:] for l in p.stdout.decode().split('\n') if l.startswith('O ')]
    if len(lines) != len(cases):
        return None
    return lines


def run_impl_bisect(cases):
    """The harness process died or hung on some case: find it."""
    lo = list(cases)
    while len(lo) > 1:
        mid = len(lo) // 2
        a = run_impl(lo[:mid], timeout=120)
        if a is None:
            lo = lo[:mid]
        else:
            lo = lo[mid:]
    return lo[0] if lo else None


def run_model(cases, impl=None, timeout=3600):
    """Returns (model observations, spec lines).  With `impl` (the implementation's observation lines) the driver also
    lets the Lean abstract reader A judge the implementation's history; a rejection is marked on the spec line."""
    # `P` cases (readers opened from a file path) are plain reader histories for the model
    cases = ['R' + c[1:] if c.startswith('P ') else c for c in cases]
    if impl is not None and len(impl) == len(cases):
        data = ('\n'.join(c + '\nO ' + o.replace('\n', ' ') for c, o in zip(cases, impl)) + '\n').encode()
        cmd = [MBIN, '--with-impl']
    else:
        data = ('\n'.join(cases) + '\n').encode()
        cmd = [MBIN]
    p = subprocess.run(cmd, input=data, stdout=subprocess.PIPE, stderr=subprocess.PIPE, timeout=timeout)
    if p.returncode != 0:
        raise BuildError('model driver failed: ' + p.stderr.decode()[-500:])
    ms, ss = [], []
    for l in p.stdout.decode().split('\n'):
        if l.startswith('M '):
            ms.append(l[2:])
            ss.append('')
        elif (l.startswith('S ') or l == 'S') and ss:
            body = l[2:]
            rejected = False
            if ' AI=' in body:
                body, ai = body.rsplit(' AI=', 1)
                HIST_STATS['implementation_histories_judged_by_lean_abstract_reader'] += 1
                HIST_STATS['lean_abstract_reader_accepts_implementation'] += ai.startswith('1')
                rejected = ai.startswith('0')
            # verdicts of the history model (Model/History*.lean) ride on the S line
            if ' H=' in body:
                body, hv = body.split(' H=', 1)
                HIST_STATS['histories_checked_against_history_model'] += 1
                HIST_STATS['history_model_agrees'] += hv.startswith('1')
                HIST_STATS['abstract_reader_accepts'] += 'A=1' in hv
                if hv.startswith('0'):
                    ms[-1] += ' <history-model-disagrees>'
                if 'A=0' in hv:
                    ms[-1] += ' <abstract-reader-rejects-model>'
            ss[-1] = body + (A_REJECTS if rejected else '')
        elif False:
            ss[-1] = ''
    if len(ms) != len(cases):
        raise BuildError('model driver answered %d of %d cases' % (len(ms), len(cases)))
    return ms, ss
