"""Property oracles: decide from the implementation's observations and the reference semantics S
(printed by the Lean driver) whether a property is violated on a case.  They never look at the
concrete machine M, so they stay valid when M and the code drift apart."""
import re
from .obs import parse_fields, parse_err, split_obs, parse_log, parse_spec, canon

_SFX = re.compile(r'#\d+$')
_ALLOC = re.compile(r'@(\d+|\?)(\^(\d+|\?))?$')


def strip_growth(tok):
    return _SFX.sub('', _ALLOC.sub('', tok))


def allocs_of(tok):
    m = _ALLOC.search(tok)
    return int(m.group(1)) if m and m.group(1) != '?' else None


def growth_of(tok):
    tok = _ALLOC.sub('', tok)
    m = _SFX.search(tok)
    return int(m.group(0)[1:]) if m else None


def lines_join(l):
    return ''.join(l.split('.')) if l else ''


def rec_matches(fmt, f, item, owned=False):
    """impl record fields vs S record fields"""
    s = item[1]
    if fmt == 'fa':
        if owned:
            return f.get('h') == s['h'] and f.get('s') == lines_join(s['l'])
        return f.get('h') == s['h'] and f.get('l') == s['l']
    return f.get('h') == s['h'] and f.get('s') == s['s'] and f.get('q') == s['q']


def err_matches(fmt, tok, item, fields=True):
    k, args, _ = parse_err(tok)
    if k != item[1]:
        return False
    if not fields:
        return True
    sargs = [a for a in item[2] if not a.startswith('@')]
    args = [a for a in args if not a.startswith('@')]
    return args == sargs


def item_pos(item):
    """(line, byte) of a record item, or of the group of a FASTQ error item"""
    if item[0] == 'rec':
        l, b = item[1]['p'].split('.')
        return int(l), int(b)
    last = item[2][-1] if item[2] else ''
    if last.startswith('@'):
        l, b = last[1:].split('.')
        return int(l), int(b)
    return None


class Verdict:
    def __init__(self):
        self.failures = []      # property violations (strings)
        self.domain_end = None  # reason why checking stopped early (not a failure)
        self.nontrivial = False


def history_oracle(case, toks, items, positions=True, err_fields=True, sets=True):
    """Abstract reader A: a cursor into S's items; accepts exactly the behaviours the API
    documentation allows (plain set reads may deliver any m >= 1 records)."""
    fmt = case['fmt']
    v = Verdict()
    n_items = len(items)
    k = 0
    last = None           # ('rec', i) | ('set',) | ('seek', (l, b)) | None
    slots = {}
    exp_sets = {0: [], 1: [], 2: []}    # expected record indices; None = unknown
    alt_empty = {0: False, 1: False, 2: False}  # set may alternatively be empty
    ops = case['ops']
    if len(toks) < len(ops):
        # the run stopped early: only after PANIC/HANG
        pass
    delivered = 0
    for idx, op in enumerate(ops):
        if idx >= len(toks):
            break
        tok = strip_growth(toks[idx])
        if tok in ('PANIC', 'HANG'):
            v.failures.append('%s at op %d (%s)' % (tok, idx, op))
            return v
        if tok == 'bad-op' or tok == 'bad-case':
            v.failures.append('harness rejected op %s' % op)
            return v
        c = op[0]
        if c in 'no':
            if k >= n_items:
                if tok != 'N':
                    v.failures.append('op %d %s: expected end of input, got %s' % (idx, op, tok[:60]))
                    return v
                last = None
            elif items[k][0] == 'rec':
                want = 'R:' if c == 'n' else 'O:'
                if not tok.startswith(want) or not rec_matches(fmt, parse_fields(tok[2:]), items[k], owned=(c == 'o')):
                    v.failures.append('op %d %s: expected record #%d %s, got %s' % (idx, op, k, items[k][1], tok[:120]))
                    return v
                if c == 'n' and fmt == 'fa':
                    f = parse_fields(tok[2:])
                    nl = len([x for x in items[k][1]['l'].split('.')][:-1])
                    if int(f.get('n', -1)) != nl:
                        v.failures.append('op %d: num_seq_lines %s != %d' % (idx, f.get('n'), nl))
                        return v
                last = ('rec', k)
                k += 1
                delivered += 1
                v.nontrivial = True
            else:
                if not tok.startswith('E:') or not err_matches(fmt, tok, items[k], err_fields):
                    v.failures.append('op %d %s: expected error %s, got %s' % (idx, op, items[k][1:], tok[:120]))
                    return v
                k = n_items
                last = None
        elif c in 'se':
            if c == 's':
                j, want_n = int(op[1:]), None
            else:
                a, b = op[1:].split('.')
                j, want_n = int(a), int(b)
            # valid records ahead before an error / the end
            m_avail = 0
            while k + m_avail < n_items and items[k + m_avail][0] == 'rec':
                m_avail += 1
            err_ahead = items[k + m_avail] if k + m_avail < n_items else None
            if tok == 'N':
                if k < n_items:
                    v.failures.append('op %d %s: end of input reported with %d items left' % (idx, op, n_items - k))
                    return v
                alt_empty[j] = True
                last = None
            elif tok.startswith('E:'):
                reach = err_ahead is not None and (want_n is None or m_avail < want_n)
                if not reach or not err_matches(fmt, tok, err_ahead, err_fields):
                    v.failures.append('op %d %s: unexpected error %s (ahead: %s)' % (idx, op, tok[:80], err_ahead))
                    return v
                k = n_items
                alt_empty[j] = True
                last = None
            elif tok.startswith('S'):
                m = int(tok[1:])
                if want_n is None:
                    ok = 1 <= m <= m_avail
                else:
                    ok = (m == min(want_n, m_avail)) and m >= 1 and not (err_ahead is not None and m_avail < want_n)
                if not ok:
                    v.failures.append('op %d %s: delivered %d records, %d valid ahead, error ahead: %s' %
                                      (idx, op, m, m_avail, err_ahead is not None))
                    return v
                exp_sets[j] = list(range(k, k + m))
                alt_empty[j] = False
                k += m
                delivered += m
                last = ('set',)
                v.nontrivial = True
            else:
                v.failures.append('op %d %s: unexpected observation %s' % (idx, op, tok[:60]))
                return v
        elif c == 'i':
            j = int(op[1:])
            if not sets:
                continue
            if not tok.startswith('I:'):
                v.failures.append('op %d %s: %s' % (idx, op, tok[:60]))
                return v
            recs = [parse_fields(x) for x in tok[2:].split('/')] if tok[2:] else []
            exp = exp_sets[j]
            if exp is not None:
                good = len(recs) == len(exp) and all(rec_matches(fmt, r, items[i]) for r, i in zip(recs, exp))
                if not good and alt_empty[j] and not recs:
                    good = True
                if not good:
                    v.failures.append('op %d %s: record set holds %d records, expected records %s' % (idx, op, len(recs), exp))
                    return v
        elif c == 'h':
            # shrink_buffer_to_fit(): the set keeps its records; len()/is_empty() agree with them
            j = int(op[1:])
            if not sets:
                continue
            if not tok.startswith('H') or not tok[1:].isdigit():
                v.failures.append('op %d %s: %s' % (idx, op, tok[:60]))
                return v
            exp = exp_sets[j]
            m = int(tok[1:])
            if exp is not None and m != len(exp) and not (alt_empty[j] and m == 0):
                v.failures.append('op %d %s: len() = %d after shrinking, expected %d records' % (idx, op, m, len(exp)))
                return v
        elif c in 'pc':
            if tok[1:] == '-':
                pos = None
            else:
                l, b = tok[1:].split('.')
                pos = (int(l), int(b))
            if c == 'c' and pos is not None:
                slots[int(op[1:])] = pos
            if positions and pos is not None and last is not None:
                want = None
                if last[0] == 'rec':
                    want = item_pos(items[last[1]])
                elif last[0] == 'set' and k < n_items:
                    want = item_pos(items[k]) if items[k][0] == 'rec' else None
                elif last[0] == 'seek':
                    want = last[1]
                if want is not None and pos != want:
                    v.failures.append('op %d %s: position %s, expected %s' % (idx, op, pos, want))
                    return v
        elif c in 'kK':
            if tok == 'K?':
                continue
            if c == 'k':
                target = slots.get(int(op[1:]))
            else:
                l, b = op[1:].split('.')
                target = (int(l), int(b))
            if tok.startswith('E:'):
                v.domain_end = 'seek failed'
                return v
            if tok != 'K' or target is None:
                v.failures.append('op %d %s: %s' % (idx, op, tok[:60]))
                return v
            found = None
            for i, it in enumerate(items):
                if item_pos(it) == target:
                    found = i
                    break
            if found is None:
                v.domain_end = 'seek target is not a record position'
                return v
            k = found
            last = ('seek', target)
            v.nontrivial = True
        elif c == 'P':
            pass
    return v


def seek_restores_oracle(case, toks, items):
    """C05 under source failures and refusing policies ("from any reader state"): after an I/O or buffer-limit error
    the place in the stream is unknown (records may be lost, C06/C14), but every later seek that succeeds and goes to
    the position of a record makes the following reads deliver that record and then its successors, in order, until
    the next failure; a position reported right after a returned record is that record's."""
    fmt = case['fmt']
    v = Verdict()
    n_items = len(items)
    k = 0            # index of the next item, None = unknown
    slots = {}
    faulted = False
    reseeked = False
    last_rec = None
    for idx, op in enumerate(case['ops']):
        if idx >= len(toks):
            break
        tok = strip_growth(toks[idx])
        if tok in ('PANIC', 'HANG'):
            v.failures.append('%s at op %d (%s)' % (tok, idx, op))
            return v
        c = op[0]
        soft = tok.startswith('E:io') or tok.startswith('E:bl')
        if soft:
            k = None
            faulted = True
            reseeked = False
            last_rec = None
            continue
        if c in 'no':
            last_rec = None
            if k is None:
                continue
            if k >= n_items:
                if tok != 'N':
                    v.failures.append('op %d %s: expected end of input after the seek, got %s' % (idx, op, tok[:60]))
                    return v
            elif items[k][0] == 'rec':
                want = 'R:' if c == 'n' else 'O:'
                if not tok.startswith(want) or not rec_matches(fmt, parse_fields(tok[2:]), items[k], owned=(c == 'o')):
                    v.failures.append('op %d %s: expected record #%d %s%s, got %s' % (
                        idx, op, k, items[k][1], ' (after an earlier failure and a successful seek)' if reseeked else '', tok[:120]))
                    return v
                last_rec = k
                k += 1
                if reseeked:
                    v.nontrivial = True
            else:
                if not tok.startswith('E:') or not err_matches(fmt, tok, items[k], True):
                    v.failures.append('op %d %s: expected error %s, got %s' % (idx, op, items[k][1:], tok[:120]))
                    return v
                k = n_items
        elif c in 'se':
            last_rec = None
            if k is None:
                continue
            if tok == 'N':
                if k < n_items:
                    v.failures.append('op %d %s: end of input reported with %d items left' % (idx, op, n_items - k))
                    return v
            elif tok.startswith('E:'):
                k = n_items
            elif tok.startswith('S'):
                m = int(tok[1:])
                avail = 0
                while k + avail < n_items and items[k + avail][0] == 'rec':
                    avail += 1
                if not 1 <= m <= avail:
                    v.failures.append('op %d %s: delivered %d records, %d valid ahead' % (idx, op, m, avail))
                    return v
                k += m
        elif c in 'pc':
            if tok[1:] == '-':
                pos = None
            else:
                l, b = tok[1:].split('.')
                pos = (int(l), int(b))
            if c == 'c' and pos is not None:
                slots[int(op[1:])] = pos
            if pos is not None and last_rec is not None and pos != item_pos(items[last_rec]):
                v.failures.append('op %d %s: position %s, expected %s' % (idx, op, pos, item_pos(items[last_rec])))
                return v
        elif c in 'kK':
            last_rec = None
            if tok == 'K?':
                continue
            if c == 'k':
                target = slots.get(int(op[1:]))
            else:
                l, b = op[1:].split('.')
                target = (int(l), int(b))
            if tok.startswith('E:'):
                k = None
                faulted = True
                reseeked = False
                continue
            if tok != 'K' or target is None:
                v.failures.append('op %d %s: %s' % (idx, op, tok[:60]))
                return v
            found = None
            for i, it in enumerate(items):
                if item_pos(it) == target:
                    found = i
                    break
            k = found
            reseeked = faulted and found is not None
        elif c == 'i' or c == 'h' or c == 'P' or c == 'j' or c == 'y':
            if c == 'y':
                k = None if k is None else k   # owned read through JSON: treated below
                if tok.startswith('Y:') and k is not None:
                    k += 1
                elif tok == 'N' or tok.startswith('E:'):
                    pass
    return v


def two_reader_oracle(case, toks, items, items2):
    """Histories in which TWO readers (A over the case's input, B over the input of the `T` operation) share the three
    record sets: each reader on its own must behave as the abstract reader says (its operations, in order, with the
    dumps of the sets it filled last), whatever the other reader did with the shared sets in between; a set nobody has
    filled is empty.  Captured positions belong to the reader they were taken from."""
    v = Verdict()
    ops = case['ops']
    specs = {'A': items, 'B': items2}
    proj = {'A': ([], []), 'B': ([], [])}
    owner = {0: None, 1: None, 2: None}
    active, have_b = 'A', False
    for idx, op in enumerate(ops):
        if idx >= len(toks):
            break
        tok = strip_growth(toks[idx])
        c = op[0]
        if c == 'T':
            if have_b:
                v.domain_end = 'more than two readers'
                return v
            have_b, active = True, 'B'
        elif c == 'w':
            if have_b:
                active = 'B' if active == 'A' else 'A'
        elif c == 'i':
            o = owner[int(op[1:])]
            if o is None:
                if tok in ('PANIC', 'HANG'):
                    v.failures.append('%s at op %d (%s)' % (tok, idx, op))
                    return v
                if tok != 'I:':
                    v.failures.append('op %d %s: a record set that was never filled shows records: %s' % (idx, op, tok[:80]))
                    return v
            elif o == '?':
                if tok in ('PANIC', 'HANG'):
                    v.failures.append('%s at op %d (%s)' % (tok, idx, op))
                    return v
            else:
                proj[o][0].append(op)
                proj[o][1].append(toks[idx])
        elif c in 'hj':
            if tok in ('PANIC', 'HANG'):
                v.failures.append('%s at op %d (%s)' % (tok, idx, op))
                return v
        else:
            proj[active][0].append(op)
            proj[active][1].append(toks[idx])
            if c in 'se':
                j = int(op[1:].split('.')[0])
                if tok.startswith('S'):
                    owner[j] = active
                elif owner[j] not in (None, active):
                    owner[j] = '?'
    for x in ('A', 'B'):
        if not proj[x][0]:
            continue
        vx = history_oracle(dict(case, ops=proj[x][0]), proj[x][1], specs[x], positions=True, err_fields=True, sets=True)
        v.nontrivial = v.nontrivial or (vx.nontrivial and have_b)
        if vx.failures:
            v.failures.append('reader %s (its own operations, in order): %s' % (x, vx.failures[0]))
            return v
    return v


def is_truncation(fmt, f, recs, owned):
    """the returned record is what a genuine record looks like when the input is cut off inside it"""
    for it in recs:
        s = it[1]
        if fmt == 'fa':
            full = lines_join(s['l'])
            got = f.get('s') if owned else lines_join(f.get('l', ''))
            if got is None:
                continue
            if (f.get('h') == s['h'] and full.startswith(got)) or (s['h'].startswith(f.get('h', 'x')) and got == ''):
                return True
        else:
            if f.get('h') == s['h'] and s['s'].startswith(f.get('s', 'x')) and s['q'].startswith(f.get('q', 'x')):
                return True
    return False


def membership_oracle(case, toks, items):
    """C06: no panic, no hang, and every record returned anywhere is a record of the input."""
    fmt = case['fmt']
    v = Verdict()
    recs = [it for it in items if it[0] == 'rec']
    k_min = 0
    for idx, tok in enumerate(toks):
        tok = strip_growth(tok)
        if tok in ('PANIC', 'HANG'):
            v.failures.append('%s at op %d (%s)' % (tok, idx, case['ops'][idx] if idx < len(case['ops']) else '?'))
            return v
        got = []
        if tok.startswith('R:'):
            got = [(parse_fields(tok[2:]), False)]
        elif tok.startswith('O:'):
            got = [(parse_fields(tok[2:]), True)]
        elif tok.startswith('I:') and tok[2:]:
            got = [(parse_fields(x), False) for x in tok[2:].split('/')]
        for f, owned in got:
            v.nontrivial = True
            if not any(rec_matches(fmt, f, it, owned) for it in recs):
                kind = 'a record that is not a record of the input'
                if is_truncation(fmt, f, recs, owned):
                    kind = 'a truncated copy of a record of the input'
                v.failures.append('op %d: returned %s: %s' % (idx, kind, str(f)[:160]))
                return v
        # a record set always holds a contiguous run of S's records (theorem *_batch_contiguous_after_faults), whatever
        # errors, seeks or refills happened before
        if tok.startswith('I:') and len(got) > 1:
            c = len(got)
            if not any(all(rec_matches(fmt, got[i][0], recs[k0 + i], False) for i in range(c))
                       for k0 in range(0, len(recs) - c + 1)):
                v.failures.append('op %d: the record set holds %d records that are not a contiguous run of the input\'s records' % (idx, c))
                return v
        # "... or further genuine records IN ORDER": between two seeks the records returned by single reads form an
        # increasing selection of S's records, whatever errors happened in between (records may be lost after an
        # error, never delivered twice or out of order).  With equal records in the input the earliest possible
        # match is taken, which is the most permissive reading.
        if tok == 'K':
            k_min = 0
        elif tok.startswith('S'):
            pass          # the records of a batch are only visible through a later dump: not used for the order
        elif tok.startswith(('R:', 'O:')):
            f, owned = got[0]
            j = next((j for j in range(k_min, len(recs)) if rec_matches(fmt, f, recs[j], owned)), None)
            if j is None:
                v.failures.append('op %d: a record was returned out of order or twice (no seek in between): %s; all earlier single '
                                  'reads since the last seek are accounted for by records before #%d' % (idx, str(f)[:120], k_min))
                return v
            k_min = j + 1
    return v


def record_extents(fmt, inp, items):
    """For C09: (start, extent, terminated) of every parse unit in input order."""
    n = len(inp)
    out = []
    if fmt == 'fa':
        starts = [item_pos(it)[1] for it in items if it[0] == 'rec']
        for i, s in enumerate(starts):
            e = starts[i + 1] if i + 1 < len(starts) else n
            out.append((s, e - s))
    else:
        # groups of four line terminators from offset 0
        pos = 0
        while pos < n:
            p = pos
            cnt = 0
            while cnt < 4:
                q = inp.find(b'\n', p)
                if q < 0:
                    break
                p = q + 1
                cnt += 1
            if cnt == 4:
                out.append((pos, p - pos, True))
                pos = p
            else:
                out.append((pos, n - pos, False))
                pos = n
    return out


def growth_oracle(case, toks, log, items):
    """C09: request chain, bufferLimit iff refused, and (next / plain sets) growth only when the
    record being parsed does not fit."""
    fmt = case['fmt']
    v = Verdict()
    inp = bytes.fromhex(case['input']) if case['input'] != '-' else b''
    reqs = parse_log(log)
    # chain: every request passes the current capacity
    cap = case['cap']
    faulty = 'f' in case['script']
    for (c, a) in ([] if faulty else reqs):
        if c != cap:
            v.failures.append('policy was passed capacity %d, but the buffer capacity is %d' % (c, cap))
            return v
        if a is not None:
            cap = a
    msg = builtin_policy_check(case, log)
    if msg:
        v.failures.append(msg)
        return v
    # bufferLimit iff refused
    n_refused = sum(1 for (_, a) in reqs if a is None)
    n_bl = sum(1 for t in toks if strip_growth(t).startswith('E:bl'))
    if n_refused != n_bl:
        v.failures.append('%d refusals by the policy but %d buffer-limit errors' % (n_refused, n_bl))
        return v
    if any(op[0] == 'e' or op[0] in 'kK' for op in case['ops']):
        return v
    # only when needed
    ext = record_extents(fmt, inp, items)
    n = len(inp)
    k = 0          # index of the unit being parsed next
    seen = 0
    nrec = len([it for it in items if it[0] == 'rec'])
    for idx, op in enumerate(case['ops']):
        if idx >= len(toks):
            break
        g = growth_of(toks[idx])
        tok = strip_growth(toks[idx])
        if g is not None:
            new = reqs[seen:g]
            seen = g
            v.nontrivial = True
            for (c, a) in new:
                if k >= len(ext):
                    v.failures.append('op %d: growth requested at capacity %d with no record left to parse' % (idx, c))
                    return v
                if fmt == 'fa':
                    s, e = ext[k]
                    fits = e + 1 <= c
                else:
                    s, e, term = ext[k]
                    fits = (e <= c) if term else (e + 1 <= c)
                if fits:
                    v.failures.append('op %d: growth requested at capacity %d although the record at byte %d (extent %d) fits' % (idx, c, s, e))
                    return v
        if tok.startswith('R:') or tok.startswith('O:'):
            k += 1
        elif tok.startswith('S'):
            k += int(tok[1:])
        elif tok.startswith('E:'):
            break
    return v


# ---------------------------------------------------------------- writers (C10, C11)

def _arg(s):
    if s == '~':
        return None
    return b'' if s == '-' else bytes.fromhex(s)


def _fields_rt(rt):
    out = []
    if not rt:
        return out
    for r in rt.split('/'):
        if r == 'E':
            out.append('E')
        else:
            f = parse_fields(r)
            out.append(tuple(bytes.fromhex(f.get(k, '')) for k in ('h', 's', 'q') if k in f))
    return out


def head_ok(h):
    return b'\n' not in h and not h.endswith(b'\r')


def seq_ok(s):
    return b'\n' not in s and b'\r' not in s and b'>' not in s


def writer_oracle(c, o, s):
    """Round trip through the real reader, wrap widths, chunking independence; claims only inside
    the property's domain (headers without LF not ending in CR, sequences without LF/CR/'>')."""
    v = Verdict()
    t = c.split(' ')
    f, w, a = t[1], int(t[2]), t[3:7]
    if o == 'HANG':
        v.failures.append('writing function never returns: it keeps calling write() on a writer that accepts 1-3 bytes per call')
        return v
    if o == 'PANIC':
        if w == 0 and 'wrap' in f:
            return v    # documented assertion
        v.failures.append('writer panicked')
        return v
    if ' RT:' not in o:
        v.failures.append('unexpected writer observation ' + o[:80])
        return v
    if ' SW:' in o:
        o, sw = o.split(' SW:', 1)
        v.failures.append('a writer that accepts 1-3 bytes per call (and has no write_vectored) received %r instead' % (bytes.fromhex(sw) if sw != '-' else b'')[:80])
        return v
    outhex, rt = o.split(' RT:', 1)
    out = b'' if outhex == '-' else bytes.fromhex(outhex)
    recs = _fields_rt(rt)
    if f.startswith('fa'):
        if f == 'fa_many':
            want = []
            for r in a[0].split('|'):
                h, sq = r.split(':')
                want.append((bytes.fromhex(h), bytes.fromhex(sq)))
        else:
            if f in ('fa_parts', 'fa_wrap', 'fa_wrapseq'):
                d = _arg(a[1])
                h = _arg(a[0]) + (b' ' + d if d is not None else b'')
                sq = _arg(a[2])
                segs = [sq]
            elif f in ('fa_seqiter', 'fa_wrapiter'):
                h = _arg(a[0])
                segs = [] if a[1] == '~' else [bytes.fromhex(x) for x in a[1].split('|')]
                sq = b''.join(segs)
            else:
                h = _arg(a[0])
                sq = _arg(a[1])
                segs = [sq]
            want = [(h, sq)]
        if not all(head_ok(h) and seq_ok(q) for h, q in want):
            v.domain_end = 'outside the documented domain'
            return v
        v.nontrivial = True
        if recs != want:
            v.failures.append('written text parses back to %s, expected %s' % (recs[:3], want[:3]))
            return v
        if f in ('fa_wrap', 'fa_wrapseq', 'fa_wrapiter', 'fa_owned_wrap'):
            h, sq = want[0]
            lines = out.split(b'\n')
            body = lines[1:-1]      # after the header, before the final empty piece
            if sq:
                if any(len(l) > w for l in body) or any(len(l) != w for l in body[:-1]) or not body or len(body[-1]) == 0:
                    v.failures.append('wrapped lines %s do not have width %d' % ([len(l) for l in body], w))
                    return v
                exp = b'>' + h + b'\n' + b''.join(sq[i:i + w] + b'\n' for i in range(0, len(sq), w))
                if out != exp:
                    v.failures.append('wrapped output differs from wrapping the whole sequence')
                    return v
    else:
        if f == 'fq_many':
            want = []
            for r in a[0].split('|'):
                h, sq, q = r.split(':')
                want.append((bytes.fromhex(h), bytes.fromhex(sq), bytes.fromhex(q)))
        elif f == 'fq_parts':
            d = _arg(a[1])
            want = [(_arg(a[0]) + (b' ' + d if d is not None else b''), _arg(a[2]), _arg(a[3]))]
        else:
            want = [(_arg(a[0]), _arg(a[1]), _arg(a[2]))]
        ok = all(head_ok(h) and b'\n' not in sq and b'\r' not in sq and b'\n' not in q and b'\r' not in q and len(sq) == len(q)
                 for h, sq, q in want)
        if not ok:
            v.domain_end = 'outside the documented domain'
            return v
        v.nontrivial = True
        if recs != want:
            v.failures.append('written text parses back to %s, expected %s' % (recs[:3], want[:3]))
            return v
    return v


# ---------------------------------------------------------------- parallel (C07, C08, C15, C16)

def parse_x(c):
    t = c.split(' ')
    o = lambda s: None if s == '-' else int(s)
    return dict(T=int(t[1]), Q=int(t[2]), N=int(t[3]), endErr=t[4] == '1', riFail=t[5] == '1',
                dsFail=o(t[6]), stop=o(t[7]), cont=t[8] == '1')


def parallel_trace_oracle(c, o, which):
    """which: set of clause groups to check: 'deliver' (C07), 'terminate' (C08), 'errors' (C15), 'bounded' (C16)."""
    v = Verdict()
    cfg = parse_x(c)
    parts = o.split(' ')
    trace = [] if parts[0] == '-' else parts[0].split(',')
    rest = ' '.join(parts[1:])
    hang = 'HANG' in rest
    panic = 'PANIC' in rest
    v.nontrivial = any(e.startswith('cr') for e in trace) or cfg['riFail'] or cfg['dsFail'] is not None
    if 'terminate' in which:
        if hang:
            v.failures.append('the parallel call did not return within the watchdog time (trace so far: %s)' % parts[0][-200:])
            return v
        if 'leak=0' not in rest:
            v.failures.append('threads were still alive after the call returned: %s' % rest)
            return v
        v.nontrivial = True
    if panic:
        if 'errors' in which or 'terminate' in which:
            v.failures.append('the parallel call panicked (config %s)' % cfg)
        return v
    fills = {}
    works = set()
    crs = []
    nfill = 0
    ncr = 0
    nce = 0
    ndi = 0
    ended = False
    for e in trace:
        if e.startswith('fe') or e.startswith('fn'):
            continue
        if e.startswith('f'):
            d, k = e[1:].split('.')
            fills[int(k)] = int(d)
            nfill += 1
            # the reader obtains its (Q+m)-th data set only after the consumer has received m results and handed
            # the previous set back, so m jobs must have finished before (the log entry `we` precedes the send)
            if 'bounded' in which and nfill - cfg['Q'] > len(works):
                v.failures.append('reader filled batch no. %d when only %d results existed: more than the queue length (%d) ahead of the consumer' % (nfill, len(works), cfg['Q']))
                return v
            if 'bounded' in which and nfill - ncr > cfg['Q'] + 1:
                v.failures.append('reader ran %d batches ahead of the consumer (queue length %d)' % (nfill - ncr, cfg['Q']))
                return v
        elif e.startswith('we'):
            d, k = e[2:].split('.')
            works.add((int(d), int(k)))
        elif e.startswith('cr'):
            d, k = e[2:].split('.')
            d, k = int(d), int(k)
            ncr += 1
            if 'deliver' in which:
                if k in [x[1] for x in crs]:
                    v.failures.append('batch %d was delivered twice' % k)
                    return v
                if fills.get(k) != d or (d, k) not in works:
                    v.failures.append('batch %d arrived in data set %d without having been filled/processed there' % (k, d))
                    return v
                if ended:
                    v.failures.append('a result arrived after the end marker')
                    return v
            crs.append((d, k))
        elif e == 'ce':
            nce += 1
        elif e == 'cn':
            ended = True
        elif e == 'di1' or e == 'di0':
            ndi += 1
    if 'deliver' in which:
        if hang:
            v.failures.append('the parallel call did not return: the record sets still to come were never delivered (trace so far: %s)' % parts[0][-200:])
            return v
        if 'bad_out=0' not in rest:
            v.failures.append('a record set arrived with an output that was not computed for it (%s)' % rest)
            return v
        if cfg['T'] == 1 and [k for _, k in crs] != sorted(k for _, k in crs):
            v.failures.append('single worker thread, but batches arrived out of order: %s' % [k for _, k in crs])
            return v
        clean = not cfg['riFail'] and cfg['dsFail'] is None and not hang
        if clean and cfg['stop'] is None and (not cfg['endErr'] or cfg['cont']):
            if sorted(k for _, k in crs) != list(range(cfg['N'])):
                v.failures.append('draining consumer received batches %s of %d' % (sorted(k for _, k in crs), cfg['N']))
                return v
    if 'errors' in which:
        if nce > 1 or (nce == 1 and not cfg['endErr']):
            v.failures.append('the consumer received %d errors (reader fails: %s)' % (nce, cfg['endErr']))
            return v
        if hang:
            return v
        clean = not cfg['riFail'] and cfg['dsFail'] is None
        if clean and cfg['endErr'] and cfg['stop'] is None and nce != 1:
            v.failures.append('the reader failed but the draining consumer saw %d errors' % nce)
            return v
        if clean and cfg['endErr'] and cfg['cont'] and cfg['stop'] is None and not ended:
            v.failures.append('consumer kept draining after the error but never received the end marker')
            return v
        if clean and cfg['endErr'] and cfg['cont'] and cfg['stop'] is None:
            got = sorted(k for _, k in crs)
            if got != list(range(cfg['N'])):
                v.failures.append('the reader failed after %d batches; the consumer kept draining but received only batches %s before the end marker' % (cfg['N'], got))
                return v
        ret = [e for e in trace if e.startswith('ret')]
        if len(ret) != 1:
            v.failures.append('the call did not return exactly once: %s' % ret)
            return v
        code = int(ret[0][3:])
        if cfg['riFail'] and code == 0:
            v.failures.append('reader initialisation failed but the call returned Ok')
            return v
        if (code == 1 and cfg['dsFail'] is None) or (code == 2 and not cfg['riFail']):
            v.failures.append('returned error code %d without such a failure' % code)
            return v
        if 'di0' in trace and code != 1:
            v.failures.append('data-set initialisation failed but the call returned code %d' % code)
            return v
    if 'bounded' in which:
        if ndi > cfg['Q'] + 1:
            v.failures.append('%d data sets were created (queue length %d)' % (ndi, cfg['Q']))
            return v
        if nfill > cfg['Q'] + 1:
            v.nontrivial = True
    return v


def parallel_real_oracle(c, o, s, which):
    """`Y` cases: parallel_fasta / parallel_fastq on real readers against S and against sequential reading."""
    v = Verdict()
    t = c.split(' ')
    # `<stop|->[@K.k]`: with `@K.k` the byte source fails at its K-th read call with error kind k (sequentially too)
    stop_s = t[5].split('@')[0]
    fmt, T, stop = t[1][:2], int(t[2]), (None if stop_s == '-' else int(stop_s))
    if 'HANG' in o or 'leak=0' not in o:
        if 'terminate' in which or 'HANG' in o:
            v.failures.append('parallel call hung or left threads behind: %s' % o[-80:])
        return v
    if o.startswith('PANIC'):
        v.failures.append('parallel call panicked')
        return v
    items = parse_spec(fmt, canon(s))
    head, tail = o.split(' SEQ:')
    seq_tail = tail.split(' ')[0]
    recs_s, par_tail = head.rsplit(' ', 1)
    seen = [] if recs_s == '-' else [parse_fields(x) for x in recs_s.split('/')]
    if par_tail == 'END!again':
        v.failures.append('after the end marker a further call of next() returned a result instead of the end')
        return v
    want = [it for it in items if it[0] == 'rec']
    v.nontrivial = len(seen) > 0

    def key(f):
        return (f.get('h'), f.get('s'), f.get('q'))

    def skey(it):
        d = it[1]
        return (d['h'], lines_join(d['l']) if fmt == 'fa' else d['s'], d.get('q'))

    if 'deliver' in which:
        if any(f.get('o') != '1' for f in seen):
            v.failures.append('a record arrived with an output computed for another record')
            return v
        wk = [skey(it) for it in want]
        sk = [key(f) for f in seen]
        # every delivered record is a record of the input, at most as often as it occurs
        from collections import Counter
        cw, cs = Counter(wk), Counter(sk)
        if any(cs[k] > cw.get(k, 0) for k in cs):
            v.failures.append('records delivered that are not in the input or delivered twice')
            return v
        if stop is None and par_tail == 'END' and cw != cs:
            v.failures.append('%d records delivered, the input has %d' % (len(sk), len(wk)))
            return v
        if T == 1 and sk != wk[:len(sk)]:
            v.failures.append('single worker thread but records out of file order')
            return v
        if stop is not None and len(wk) >= stop and par_tail == 'STOP' and len(sk) != stop:
            v.failures.append('consumer stopped after %d records but received %d' % (stop, len(sk)))
            return v
    if 'bounded' in which:
        m = re.search(r'dc=(\d+) mb=(\d+)', o)
        if m:
            dc, mb = int(m.group(1)), int(m.group(2))
            q = int(t[3])
            v.nontrivial = dc > 0
            if dc > (q + 1) * max(mb, 1):
                v.failures.append('%d per-record outputs were created; %d data sets with at most %d records each exist' % (dc, q + 1, mb))
                return v
    if 'bounded' in which:
        # memory independent of the input length: the reader behind read_parallel asks its policy for a larger buffer
        # only for a record that does not fit; if every record of the input fits the initial capacity the buffer (and
        # with it every recycled record set, which copies it) keeps its size however long the input is
        m = re.search(r' gr=(\d+)', o)
        if m and len(t[1]) == 3 and not t[1].endswith('4') and '@' not in t[5]:
            inp = bytes.fromhex(t[6]) if t[6] != '-' else b''
            cap = int(t[4])
            ext = record_extents(fmt, inp, items)
            fits = all(((e[1] + 1 <= cap) if fmt == 'fa' else ((e[1] <= cap) if e[2] else (e[1] + 1 <= cap))) for e in ext)
            clean = all(it[0] == 'rec' for it in items)
            if fits and clean and ext:
                v.nontrivial = True
                if int(m.group(1)) > 0:
                    v.failures.append('the reader behind read_parallel made %s growth requests although every record of the input fits '
                                      'its buffer of %d bytes (largest record %d bytes): buffer and recycled record sets grow with the input'
                                      % (m.group(1), cap, max(e[1] for e in ext)))
                    return v
    if t[1][-1:] in ('5', '6') and par_tail != seq_tail:
        # slow first worker: the reader's error reached the consumer before the result of the first set (observed three
        # times in a row, see the harness); it has to be returned although the consumer closure would stop early
        v.nontrivial = True
        v.failures.append('a reader error that reached the consumer before the result of a slow earlier set was not returned: the call '
                          'ended with %s, sequential reading with %s' % (par_tail[:60], seq_tail[:60]))
        return v
    if 'errors' in which:
        if stop is None and par_tail != seq_tail:
            v.failures.append('parallel reading ended with %s, sequential reading with %s' % (par_tail[:80], seq_tail[:80]))
            return v
        if seq_tail.startswith('E:'):
            v.nontrivial = True
    return v


# ---------------------------------------------------------------- group oracles (C03, C12) and C11, C14, C17

def flat_stream(toks):
    """the complete observable outcome of a next-only run, without growth markers"""
    return [strip_growth(t) for t in toks]


def config_group_oracle(group):
    """C03: group = [(case, toks)] of the SAME input under different configurations; all flattened
    streams must be identical (no reference model involved)."""
    ref_case, ref = group[0]
    a0 = flat_stream(ref)
    for case, toks in group:
        msg = builtin_policy_check(case, case.get('_log', ''))
        if msg:
            return msg + ' (capacity %d)' % case['cap']
    for case, toks in group[1:]:
        b = flat_stream(toks)
        a = a0
        # a policy that (according to its documentation) does not permit the needed size: only what came before counts
        bl = next((k for k, t in enumerate(b) if t.startswith('E:bl')), None)
        if bl is not None:
            b = b[:bl]
            a = a0[:bl]
        if a != b:
            i = next((k for k in range(min(len(a), len(b))) if a[k] != b[k]), min(len(a), len(b)))
            return 'configurations disagree at observation %d: %s... vs %s... (capacity %d/%s/chunk %d vs capacity %d/%s/chunk %d)' % (
                i, (a[i] if i < len(a) else '<none>')[:70], (b[i] if i < len(b) else '<none>')[:70],
                ref_case['cap'], ref_case['pol'], ref_case['chunk'], case['cap'], case['pol'], case['chunk'])
    return None


def logical_stream(fmt, toks):
    """what must be invariant under LF/CRLF re-encoding: fields and line numbers"""
    out = []
    prev_rec = False
    for t in toks:
        t = strip_growth(t)
        was_rec, prev_rec = prev_rec, False
        if t.startswith('R:'):
            f = parse_fields(t[2:])
            prev_rec = True
            if fmt == 'fa':
                out.append(('R', f.get('h'), f.get('l'), f.get('n'), f.get('f')))
            else:
                out.append(('R', f.get('h'), f.get('s'), f.get('q')))
        elif t.startswith('P'):
            # only the position reported right after a record is specified
            if was_rec and t != 'P-':
                out.append(('P', t[1:].split('.')[0]))
        elif t.startswith('E:'):
            out.append(('E', t.split('/m=')[0]))
        else:
            out.append((t,))
    return out


def recode_group_oracle(fmt, group):
    """C12: the encodings of one well-formed file parse identically; no CR in any field."""
    def trim(x):
        while x and x[-1] == ('N',):
            x = x[:-1]
        return x
    ref_case, ref = group[0]
    a = trim(logical_stream(fmt, ref))
    if any(x[0] == 'E' for x in a):
        return 'a well-formed file produced an error: %s' % [x for x in a if x[0] == 'E'][0][1][:80]
    for case, toks in group:
        b = trim(logical_stream(fmt, toks))
        if a != b:
            i = next((k for k in range(min(len(a), len(b))) if a[k] != b[k]), min(len(a), len(b)))
            return 'encodings of the same file parse differently at observation %d: %s vs %s' % (
                i, str(a[i] if i < len(a) else None)[:90], str(b[i] if i < len(b) else None)[:90])
        for x in b:
            if x[0] == 'R':
                fields = ''.join(v for v in x[1:3] if v) + (x[3] if fmt == 'fq' and x[3] else '') + (x[4] if fmt == 'fa' and len(x) > 4 and x[4] else '')
                raw = bytes.fromhex(fields.replace('.', ''))
                if b'\r' in raw:
                    return 'a carriage return shows up in a returned field'
    return None


def unchanged_oracle(case, toks):
    """C11: concatenating write_unchanged of every record of a well-formed input reproduces the input
    (FASTQ: final terminator added, trailing blank lines dropped; FASTA: leading blank lines dropped,
    final terminator added)."""
    v = Verdict()
    fmt = case['fmt']
    inp = bytes.fromhex(case['input']) if case['input'] != '-' else b''
    us = []
    for t in toks:
        t = strip_growth(t)
        if t.startswith('R:'):
            us.append(bytes.fromhex(parse_fields(t[2:]).get('u', '')))
        elif t.startswith('E:') or t in ('PANIC', 'HANG'):
            v.failures.append('well-formed input produced %s' % t[:60])
            return v
    got = b''.join(us)
    if fmt == 'fq':
        # byte-exact – line endings included – except that trailing blank lines are dropped and a final line feed is
        # added if the last line has none (a carriage return at the very end of the input belongs to the last line)
        # the records are the first 4·n lines of the input (what follows are trailing blank lines)
        pieces = inp.split(b'\n')
        want = b'\n'.join(pieces[:4 * len(us)])
        if us:
            want += b'\n'
        if got != want:
            v.failures.append('unchanged output differs from the input: %r vs %r' % (got[-80:], inp[-80:]))
    else:
        # up to blank-line normalisation: compare what remains when blank lines (empty or a lone CR) are left out
        def no_blank(x):
            ps = x.split(b'\n')
            if ps and ps[-1] == b'':
                ps = ps[:-1]
            return b''.join(p + b'\n' for p in ps if p not in (b'', b'\r'))
        want = inp
        if want and not want.endswith(b'\n'):
            want += b'\n'
        if no_blank(got) != no_blank(want):
            v.failures.append('unchanged output differs from the input: %r vs %r' % (got[:80], want[:80]))
    v.nontrivial = len(us) > 0
    return v


def first_fail_kind(script):
    for e in script.split(','):
        if e.startswith('f'):
            return e[1:]
    return None


def fault_oracle(case, toks, items):
    """C14: records before the failure are the leading records of the input; the failing call returns
    an I/O error with the injected kind; interrupted reads are invisible."""
    v = Verdict()
    fmt = case['fmt']
    kind = first_fail_kind(case['script']) if case['script'] != '-' else None
    if any(op[0] not in 'np' for op in case['ops']):
        # general histories: every I/O error that surfaces carries the kind of the next injected failure
        read_kinds = [e[1:] for e in case['script'].split(',') if e.startswith('f')] if case['script'] != '-' else []
        seek_kinds = [e.split('.')[1] for e in case['seekfails'].split(',')] if case['seekfails'] != '-' else []
        # a seek can fail in the source's seek or in a read it triggers (completion of a partly filled
        # buffer, refill after a real seek): both attributions are followed
        states = {(0, tuple(sorted(seek_kinds)))}
        for idx, tok in enumerate(toks):
            tok = strip_growth(tok)
            if tok.startswith('E:io'):
                got = tok[2:].split('/')[0].split('.')[1]
                op = case['ops'][idx] if idx < len(case['ops']) else '?'
                v.nontrivial = True
                nxt = set()
                for ri, sk in states:
                    if op[0] in 'kK' and got in sk:
                        l = list(sk)
                        l.remove(got)
                        nxt.add((ri, tuple(l)))
                    if ri < len(read_kinds) and got == read_kinds[ri]:
                        nxt.add((ri + 1, sk))
                if not nxt:
                    ri, sk = min(states)
                    v.failures.append('op %d (%s) reported I/O error kind %s; injected: reads %s, seeks %s' % (idx, op, got, read_kinds[ri:], list(sk)))
                    return v
                states = nxt
        return v
    k = 0
    for idx, tok in enumerate(toks):
        tok = strip_growth(tok)
        if tok in ('PANIC', 'HANG'):
            v.failures.append('%s at op %d' % (tok, idx))
            return v
        if tok.startswith('P') or tok.startswith('C') or tok == 'Y':
            continue
        if tok.startswith('E:bl'):
            v.domain_end = 'the policy refused'
            return v
        if tok.startswith('E:io'):
            got = tok[2:].split('/')[0].split('.')[1]
            if kind is None:
                v.failures.append('an I/O error surfaced although the source never failed')
            elif got != kind:
                v.failures.append('the source failed with kind %s but the reader reported kind %s' % (kind, got))
            v.nontrivial = True
            return v
        if k < len(items) and items[k][0] == 'rec':
            if not tok.startswith('R:') or not rec_matches(fmt, parse_fields(tok[2:]), items[k]):
                v.failures.append('op %d: before any source failure surfaced, expected record #%d, got %s' % (idx, k, tok[:80]))
                return v
            k += 1
        elif k < len(items):
            if not tok.startswith('E:') or not err_matches(fmt, tok, items[k], True):
                v.failures.append('op %d: expected the format error %s, got %s' % (idx, items[k][1:], tok[:80]))
            return v
        else:
            if tok != 'N':
                v.failures.append('op %d: expected end of input, got %s' % (idx, tok[:80]))
            return v
    return v


def rust_escape_default(b):
    if b == 9:
        return '\\t'
    if b == 13:
        return '\\r'
    if b == 10:
        return '\\n'
    if b == 39:
        return "\\'"
    if b == 34:
        return '\\"'
    if b == 92:
        return '\\\\'
    if 32 <= b <= 126:
        return chr(b)
    return '\\u{%x}' % b


def message_oracle(case, toks):
    """C17 (second half): the human-readable message contains the reported values."""
    v = Verdict()
    fmt = case['fmt']
    for tok in toks:
        tok = strip_growth(tok)
        if not tok.startswith('E:'):
            continue
        kind, args, msg = parse_err(tok)
        if msg is None or kind in ('io', 'bl'):
            continue
        text = bytes.fromhex(msg).decode('utf-8', 'replace')
        v.nontrivial = True
        need = []
        if fmt == 'fa' and kind == 'is':
            need = ['line %s' % args[0], "'%s'" % rust_escape_default(int(args[1]))]
        elif kind == 'is':
            need = ['line %s' % args[1], "'%s'" % rust_escape_default(int(args[0]))]
        elif kind == 'sep':
            need = ['line %s' % args[1], "'%s'" % rust_escape_default(int(args[0]))]
        elif kind == 'ul':
            need = ['line %s' % args[2], 'sequence length is %s' % args[0], 'quality length is %s' % args[1]]
        elif kind == 'ue':
            need = ['line %s' % args[0]]
        idarg = [a for a in args if a.startswith('=')]
        if idarg:
            need.append("record '%s'" % bytes.fromhex(idarg[0][1:]).decode('utf-8', 'replace'))
        for n in need:
            if n not in text:
                v.failures.append('error message %r does not contain %r' % (text[:120], n))
                return v
    return v


# ---------------------------------------------------------------- C18 allocation, C19 serialisation

def _uniform(fmt, items):
    """all records of the input have the same shape (header length, number and length of lines)"""
    shapes = set()
    for it in items:
        if it[0] != 'rec':
            return False
        f = it[1]
        if fmt == 'fa':
            shapes.add((len(f['h']), tuple(len(x) for x in f['l'].split('.')[:-1])))
        else:
            shapes.add((len(f['h']), len(f['s'])))
    return len(shapes) == 1


def alloc_oracle(case, toks, log=None, items=None):
    """C18, judged on the implementation's observations alone.
    (a) the buffer keeps its size: a policy request is made only for a record that does not fit (C09's clause, here
        on files with records of different sizes read in long histories);
    (b) files whose records all have one shape: after a warm-up of four operations every read of a record, or of a
        batch no larger than one seen before, allocates nothing;
    (c) any file: a single read that returns a record with no more lines than a record returned by an earlier single
        read (FASTQ: any single read) allocates nothing unless the buffer had to grow in that very call."""
    v = Verdict()
    fmt = case['fmt']
    if log is not None and items is not None:
        g = growth_oracle(case, toks, log, items)
        if g.failures:
            v.failures.append('buffer does not keep its size: ' + g.failures[0])
            return v
    uniform = items is None or _uniform(fmt, items)
    warm = 4             # records delivered before the steady-state clause applies
    delivered = 0
    max_batch = {}
    max_lines = None
    for idx, tok in enumerate(toks):
        a = allocs_of(tok)
        g = growth_of(tok)
        t = strip_growth(tok)
        op = case['ops'][idx] if idx < len(case['ops']) else '?'
        if t in ('PANIC', 'HANG'):
            v.failures.append('%s at op %d' % (t, idx))
            return v
        if t.startswith('E:'):
            break
        if t == 'K':
            # a seek may take the reader back to larger records or force a refill: warm up again
            delivered = 0
            max_batch = {}
            continue
        if uniform:
            if t.startswith('S'):
                m = int(t[1:])
                if not (op[0] == 'e' and not op.endswith('.1')):    # an exact-count batch may need a larger buffer
                    seen = max_batch.get(op, 0)
                    if delivered >= warm and seen >= m and seen > 0:
                        v.nontrivial = True
                        if a or g is not None:
                            v.failures.append('op %d (%s): %s allocations / growth %s in steady state (batch of %d, %d seen before)' % (idx, op, a, g, m, seen))
                            return v
                    max_batch[op] = max(seen, m)
                delivered += m
            elif t.startswith('R:') and op == 'n':
                if delivered >= warm:
                    v.nontrivial = True
                    if a or g is not None:
                        v.failures.append('op %d (%s): %s allocations / growth %s in steady state' % (idx, op, a, g))
                        return v
                delivered += 1
            elif t.startswith(('O:', 'Y:')):
                delivered += 1
        elif t.startswith('R:') and op == 'n':
            n = 0
            if fmt == 'fa':
                f = parse_fields(t[2:])
                n = len(f.get('l', '').split('.')) - 1
            if max_lines is not None and n <= max_lines and g is None:
                v.nontrivial = True
                if a:
                    v.failures.append('op %d (next): %d allocations for a record with %d lines; a record with %d lines was returned before' % (idx, a, n, max_lines))
                    return v
            max_lines = n if max_lines is None else max(max_lines, n)
    return v


def alloc_vs_model(c, o, m):
    """C18, with the ghost-capacity model as the yardstick of "steady state": a call for which the model determines
    that NO container has to hold more than it has room for (`@0`) but during which the implementation called the
    allocator is a heap allocation in steady state.  (A different count where the model predicts allocations is a broken
    correspondence, not by itself a violation.)"""
    if not c.startswith('A '):
        return None
    ot, _ = split_obs(o)
    mt, _ = split_obs(m)
    if len(ot) != len(mt):
        return None
    for idx, (a, b) in enumerate(zip(ot, mt)):
        ma = _ALLOC.search(b)
        ia = _ALLOC.search(a)
        if ma and ia and ma.group(1) == '0' and ia.group(1) not in ('0', '?'):
            if strip_growth(a) != strip_growth(b):
                continue      # the call itself behaved differently: judged elsewhere
            return 'op %d (%s): %s allocator calls although no container had to hold more than it had room for ' \
                   '(ghost capacities: 0 allocations); observation %s' % (idx, c.split(' ')[8].split(',')[idx] if idx < len(c.split(' ')[8].split(',')) else '?', ia.group(1), a[:60])
    return None


def json_oracle(case, toks):
    """every serialised value deserialises to an equal one (the harness compares all records)"""
    v = Verdict()
    for idx, tok in enumerate(toks):
        t = strip_growth(tok)
        if t.startswith('J:') or t.startswith('Y:'):
            v.nontrivial = True
            if not t.endswith(':rt=1'):
                v.failures.append('op %d: value changed by serialisation round trip' % idx)
                return v
        elif t in ('PANIC', 'HANG'):
            v.failures.append('%s at op %d' % (t, idx))
            return v
    return v


def iter_oracle(c, o, s):
    """C20, independent of the model: contracts checked directly on the observation"""
    v = Verdict()
    t = c.split(' ')
    n, steps = int(t[1]), ('' if t[2] == '-' else t[2])
    if o == 'PANIC':
        v.failures.append('iterator panicked')
        return v
    parts = o.split('|')
    stp = parts[0].split(',') if parts[0] else []
    lo, hi = 0, n   # remaining window of line indices [lo, hi)
    for ch, x in zip(steps, stp):
        item, ln, hint = x.split(':')
        if lo < hi:
            want = lo if ch == 'f' else hi - 1
            if ch == 'f':
                lo += 1
            else:
                hi -= 1
            if item != str(want):
                v.failures.append('step %s yielded %s, expected line %d' % (ch, item, want))
                return v
        elif item != '-':
            v.failures.append('iterator yielded %s after reporting the end' % item)
            return v
        rem = hi - lo
        if int(ln) != rem or hint != '%d.%d' % (rem, rem):
            v.failures.append('after %d steps len()=%s size_hint=%s but %d items remain' % (len(steps), ln, hint, rem))
            return v
    v.nontrivial = len(steps) > 0 and n > 0
    kv = dict(p.split('=', 1) for p in parts[1:])
    want_er = ','.join('%d.%d' % (i, i) for i in reversed(range(n)))
    want_ea = ','.join('%d.%d' % (i, i + 1) for i in reversed(range(max(n - 1, 0))))
    if kv.get('er') != want_er or kv.get('ea') != want_ea:
        v.failures.append('enumerate().rev() gave %s / after one step %s' % (kv.get('er'), kv.get('ea')))
        return v
    if kv.get('rv') != ','.join(str(i) for i in reversed(range(n))) or kv.get('ct') != str(n) or kv.get('sk') != str(max(n - 1, 0)):
        v.failures.append('rev/collect/skip disagree with the number of lines')
        return v
    for k in ('rs', 'rq'):
        if 'X' in kv.get(k, '') or 'S' in kv.get(k, ''):
            v.failures.append('record-set iterator: size hint does not bracket the remaining items or it is not fused: %s' % kv.get(k))
            return v
    ow = kv.get('ow', '')
    if '!' in ow or ow != ('S' * n + 'NNN') * 4:
        v.failures.append('owned-record iterator: %s' % ow)
        return v
    return v


# ---------------------------------------------------------------- C13 views agree (independent of the model)

def _valid_utf8(b):
    try:
        b.decode('utf-8')
        return True
    except UnicodeDecodeError:
        return False


def views_oracle(case, toks):
    """every view of a record agrees with the others, judged on the implementation's output alone"""
    v = Verdict()
    fmt = case['fmt']
    for idx, tok in enumerate(toks):
        t = strip_growth(tok)
        if t in ('PANIC', 'HANG'):
            v.failures.append('%s at op %d' % (t, idx))
            return v
        recs = []
        if t.startswith('R:'):
            recs = [parse_fields(t[2:])]
        elif t.startswith('I:') and t[2:]:
            recs = [parse_fields(x) for x in t[2:].split('/')]
        for f in recs:
            v.nontrivial = True
            h = bytes.fromhex(f.get('h', ''))
            idb = bytes.fromhex(f.get('i', ''))
            d = f.get('d', '-')
            desc = None if d == '-' else bytes.fromhex(d[1:])
            if idb + (b' ' + desc if desc is not None else b'') != h or b' ' in idb or (desc is None) != (b' ' not in h):
                v.failures.append('op %d: id/description %r/%r do not split the header %r at its first space' % (idx, idb, desc, h))
                return v
            flags = f.get('v', '')
            want = '%d%d%d1' % (_valid_utf8(idb), True if desc is None else _valid_utf8(desc), _valid_utf8(h))
            if flags != want:
                v.failures.append('op %d: text accessors (id, desc, id_desc, agreement) gave %s, the bytes say %s (header %r)' % (idx, flags, want, h))
                return v
            if fmt == 'fa':
                lines = f.get('l', '').split('.')[:-1]
                n = int(f.get('n', -1))
                if n != len(lines):
                    v.failures.append('op %d: num_seq_lines %d but %d lines iterated' % (idx, n, len(lines)))
                    return v
                if (f.get('b') == '1') != (n == 1):
                    v.failures.append('op %d: full_seq borrowed=%s with %d lines' % (idx, f.get('b'), n))
                    return v
                raw = bytes.fromhex(f.get('r', ''))
                joined = b''.join(bytes.fromhex(x) for x in lines)
                if raw.replace(b'\n', b'').replace(b'\r', b'') != joined.replace(b'\n', b'').replace(b'\r', b''):
                    v.failures.append('op %d: raw sequence and sequence lines differ by more than line terminators' % idx)
                    return v
                if n == 1 and raw != joined:
                    v.failures.append('op %d: single line, but seq() differs from it' % idx)
                    return v
                if 'o' in f and bytes.fromhex(f['o']) != joined:
                    v.failures.append('op %d: owned_seq() %r differs from the concatenated sequence lines %r' % (idx, bytes.fromhex(f['o'])[-20:], joined[-20:]))
                    return v
    return v


def parallel_init_oracle(c, o, which):
    """`Z` cases: parallel_fasta_init / parallel_fastq_init with failing initialisation closures"""
    v = Verdict()
    t = c.split(' ')
    q = int(t[3])
    ri = t[5] == '1'
    opt = lambda x: None if x == '-' else int(x)
    rset, rec, stop = opt(t[6]), opt(t[7]), opt(t[8])
    if 'HANG' in o or ('leak=0' not in o):
        if 'terminate' in which or 'errors' in which:
            v.failures.append('call with a failing initialiser hung or left threads behind: %s' % o[-80:])
        return v
    if o.startswith('PANIC'):
        if 'terminate' in which or 'errors' in which:
            v.failures.append('call with a failing initialiser panicked')
        return v
    if 'errors' not in which:
        return v
    m = re.search(r'seen=(\d+) bad=(\d+) (\S+) rsetcalls=(\d+) reccalls=(\d+) mb=(\d+)', o)
    if not m:
        v.failures.append('unexpected observation ' + o[:80])
        return v
    seen, bad, tail, rsetcalls, reccalls, mb = int(m.group(1)), int(m.group(2)), m.group(3), int(m.group(4)), int(m.group(5)), int(m.group(6))
    if bad:
        v.failures.append('a record arrived with an output not computed for it')
        return v
    rset_failed = rset is not None and rsetcalls > rset
    rec_failed = rec is not None and reccalls > rec
    v.nontrivial = ri or rset_failed or rec_failed
    if tail.startswith('OK'):
        if rset_failed:
            v.failures.append('the record-set data initialiser failed (call %d) but the function returned %s' % (rset, tail))
        elif ri and not rset_failed:
            v.failures.append('the reader initialiser failed but the function returned %s' % tail)
        elif rec_failed:
            # the failing call belongs to the first record set when its index is below that set's size (the output
            # vectors start empty); that set is the first the consumer sees if there is only one set or one worker
            nb = int(re.search(r'nb=(\d+)', o).group(1))
            fb = int(re.search(r'fb=(\d+)', o).group(1))
            if rec < fb and (nb == 1 or int(t[2]) == 1):
                v.failures.append('the per-record data initialiser failed at call %d (first record set, %d records) but the function returned %s after %d records' % (rec, fb, tail, seen))
        return v
    if tail == 'E:init.reader' and not ri:
        v.failures.append('reader-initialisation error returned although that closure did not fail')
    if tail == 'E:init.rset' and not rset_failed:
        v.failures.append('record-set-data initialisation error returned although that closure did not fail')
    if tail == 'E:init.rec' and not rec_failed:
        v.failures.append('record-data initialisation error returned although that closure did not fail')
    return v


def fused_oracle(c, o, s):
    """C20 for the reader-backed iterators with a source that reports Ok(0) and later delivers data: once the end
    was reported it stays reported"""
    v = Verdict()
    case = parse_case_line(c)
    toks, _ = split_obs(canon(o))
    items = parse_spec(case['fmt'], canon(s))
    ended = False
    k = 0
    for idx, tok in enumerate(toks):
        t = strip_growth(tok)
        if t in ('PANIC', 'HANG'):
            v.failures.append('%s at op %d' % (t, idx))
            return v
        if t == 'N':
            ended = True
            v.nontrivial = True
            continue
        if ended:
            v.failures.append('op %d: the iterator had reported the end and then returned %s' % (idx, t[:60]))
            return v
        if t.startswith('R:') or t.startswith('O:'):
            # (no content check: a source that reports Ok(0) early makes the reader take the short buffer for the
            # end of the input, so the last record may be cut off – that is the source breaking the Read contract)
            k += 1
        elif t.startswith('E:'):
            ended = False
            break
    return v


def recset_iter_oracle(c, o, s):
    """C20 for the record-set iterators inside reader histories (sets that are reused, refilled with fewer records
    than before, left behind by errors or by end of input): the harness drives every `&RecordSet` iterator to its
    end and past it and reports the first breach of the contract (`I!...`); judged on the iterator alone"""
    v = Verdict()
    toks, _ = split_obs(canon(o))
    ended = False
    for idx, tok in enumerate(toks):
        t = strip_growth(tok)
        if t in ('PANIC', 'HANG'):
            v.failures.append('%s at op %d' % (t, idx))
            return v
        # fusedness of the reader-backed iterators: once a read has reported the end, every later read (without a seek
        # in between) reports the end
        if t == 'K':
            ended = False
        elif t == 'N' or t.startswith('N!'):
            ended = True
        elif ended and t.startswith(('R:', 'O:', 'S')) and t[:2] != 'S0':
            v.failures.append('op %d: the reader had reported the end of the input and then delivered %s (no seek in between)' % (idx, t[:50]))
            return v
        if '!lines.' in t:
            v.failures.append('op %d: the line iterator of a record breaks its contract: %s' % (idx, t.split('!lines.')[1][:30]))
            return v
        if t.startswith('I!'):
            v.failures.append('op %d: record-set iterator breaks its contract: %s' % (idx, t[2:].split(':')[0]))
            return v
        if '!hint.' in t:
            v.failures.append('op %d: the owned-record iterator\'s size hint (%s) does not bracket what it delivered (%s)' % (
                idx, t.split('!hint.')[1][:20], 'the end' if t.startswith('N') else 'an item'))
            return v
        if t.startswith('I:'):
            v.nontrivial = True
    return v


def parse_case_line(c):
    from .obs import parse_case
    return parse_case(c)


def refwrite_oracle(case, toks):
    """C10 / C11: `RefRecord::write` and (FASTA) `write_wrap(.., 3)` of every record a reader returns, written into
    a writer that accepts 2-3 bytes per call, are what the writers' documentation prescribes for the record's own
    head / sequence / quality - judged on the implementation's output alone."""
    v = Verdict()
    fmt = case['fmt']
    for idx, tok in enumerate(toks):
        t = strip_growth(tok)
        recs = []
        if t.startswith('R:'):
            recs = [parse_fields(t[2:])]
        elif t.startswith('I:') and t[2:]:
            recs = [parse_fields(x) for x in t[2:].split('/')]
        for f in recs:
            if 'w' not in f:
                continue
            v.nontrivial = True
            h = bytes.fromhex(f.get('h', ''))
            w = bytes.fromhex(f['w'])
            if fmt == 'fa':
                sq = bytes.fromhex(f.get('o', ''))
                want = b'>' + h + b'\n' + sq + b'\n'
                if w != want:
                    v.failures.append('op %d: RefRecord::write gave %r, expected %r' % (idx, w[:80], want[:80]))
                    return v
                x = bytes.fromhex(f.get('x', ''))
                wantx = b'>' + h + b'\n' + b'\n'.join(sq[i:i + 3] for i in range(0, len(sq), 3)) + b'\n'
                if x != wantx:
                    v.failures.append('op %d: RefRecord::write_wrap(3) gave %r, expected %r' % (idx, x[:80], wantx[:80]))
                    return v
            else:
                want = b'@' + h + b'\n' + bytes.fromhex(f.get('s', '')) + b'\n+\n' + bytes.fromhex(f.get('q', '')) + b'\n'
                if w != want:
                    v.failures.append('op %d: RefRecord::write gave %r, expected %r' % (idx, w[:80], want[:80]))
                    return v
    return v


def policy_direct_oracle(c, o):
    """C09, last clause, on `Q <policy> <capacity>` cases: the built-in policy asked directly answers what its
    documentation says (double below the threshold, add the threshold from there on, refuse beyond the limit)"""
    v = Verdict()
    t = c.split(' ')
    if len(t) == 5:
        # `Q <policy> <capacity> <fa|fq> <len>`: a reader with a LARGE buffer over one record of `len` bytes. Judged on the
        # request log alone: the first request passes the initial capacity, every later one the size the policy answered
        # last (the buffer has exactly the size the policy said); the record is returned iff nothing was refused and it fits
        # at the end; requests are only made while the record does not fit
        v.nontrivial = True
        tok, _, log = o.strip().partition(' L=')
        if tok not in ('R', 'E:bl'):
            v.failures.append('large buffer: the read returned %s' % tok[:40])
            return v
        cap, n = int(t[2]), int(t[4])
        for (cur, ans) in parse_log(log):
            if cur != cap:
                v.failures.append('large buffer: the policy was passed %d, but the buffer has the size %d it answered' % (cur, cap))
                return v
            if cap > n:
                v.failures.append('large buffer: growth requested at capacity %d for a file of %d bytes' % (cap, n))
                return v
            if ans is None:
                if tok != 'E:bl':
                    v.failures.append('large buffer: the policy refused but the read returned %s' % tok)
                return v
            cap = ans
        if tok != 'R' or cap < n:
            v.failures.append('large buffer: %s at capacity %d for a record of %d bytes without a refusal' % (tok, cap, n))
        msg = builtin_policy_check({'pol': t[1], 'ops': []}, log)
        if msg:
            v.failures.append(msg)
        return v
    msg = builtin_policy_check({'pol': t[1], 'ops': []}, '%s>%s' % (t[2], o.strip()))
    v.nontrivial = True
    if o.strip() in ('PANIC', 'bad-case'):
        v.failures.append('policy call: %s' % o.strip())
    elif msg:
        v.failures.append(msg)
    return v


def builtin_policy_check(case, log):
    """C09 (last clause), also used by C03: the crate's own policies answer what their documentation says -
    double below the threshold, add the threshold above it, `DoubleUntilLimited` refuses exactly the sizes beyond
    its limit. Judged on the recorded requests alone. Returns a message or None."""
    pol = case.get('pol', '')
    if any(op[0] == 'P' for op in case.get('ops', [])):
        return None
    parts = pol.split('.')
    if parts[0] == 'std':
        thr, lim = 1 << 23, None
    elif parts[0] == 'du':
        thr, lim = int(parts[1]), None
    elif parts[0] == 'dul':
        thr, lim = int(parts[1]), int(parts[2])
    else:
        return None
    for (c, a) in parse_log(log):
        want = c * 2 if c < thr else c + thr
        if lim is not None and want > lim:
            want = None
        if a != want:
            return 'built-in policy %s answered %s for the current size %d; its documentation says %s' % (
                pol, 'a refusal' if a is None else a, c, 'refuse' if want is None else want)
    return None
