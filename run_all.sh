#!/bin/sh
# convenience: run every claimed check at the given tier (default quick)
T=${1:-quick}
cd "$(dirname "$0")"
for p in $(python3 -c "import json;print(' '.join(c['property_id'] for c in json.load(open('MANIFEST.json'))['checks']))"); do
  ./check $p --tier $T 2>&1 | grep -E "^C[0-9]|VIOLATION|KNOWN-FINDING" | cut -c1-230
done
