#!/bin/sh
# Builds everything the checks need from files on disk only (offline).
set -e
HERE=$(cd "$(dirname "$0")" && pwd)
cd "$HERE/lean"
lake build SeqIoModel seqio_model
for m in SeqIoModel/Theorems/*.lean; do
  lake build "SeqIoModel.Theorems.$(basename "$m" .lean)"
done
cd "$HERE/harness"
CARGO_NET_OFFLINE=true cargo build --offline --quiet
echo setup done
