//! seqio_harness: generates cases and executes them against the real crate (rebuilt from
//! /repo's working tree).  `gen <family> <size> <seed>` prints case lines; `exec` reads case
//! lines from stdin and prints one `O <observation>` line per case, in order.

mod alloc;
mod exec_parallel;
mod exec_iter;
mod exec_reader;
mod exec_write;
mod gen;
mod util;

use std::io::{self, BufRead, Write};

#[global_allocator]
static GLOBAL: alloc::Counting = alloc::Counting;

/// parallel calls that did not return within the watchdog time (their threads are leaked)
static HANGS: std::sync::atomic::AtomicUsize = std::sync::atomic::AtomicUsize::new(0);

fn exec_line(line: &str) -> String {
    if line.starts_with("R ") || line.starts_with("A ") || line.starts_with("F ") || line.starts_with("P ") {
        exec_reader::run_case(line)
    } else if line.starts_with("I ") {
        exec_iter::run_case(line)
    } else if line.starts_with("W ") {
        exec_write::run_case(line)
    } else if line.starts_with("Q ") {
        // `Q <policy> <capacity>`: one of the crate's built-in policies asked directly
        let t: Vec<&str> = line.trim().split(' ').collect();
        if t.len() == 5 {
            return big_buffer_case(&t);
        }
        match (t.get(1).and_then(|p| util::PolDesc::parse(p)), t.get(2).and_then(|c| c.parse::<usize>().ok())) {
            (Some(p), Some(c)) => {
                use seq_io::policy::BufPolicy;
                let log: util::Log = std::rc::Rc::new(std::cell::RefCell::new(vec![]));
                match std::panic::catch_unwind(std::panic::AssertUnwindSafe(|| util::DynPolicy::new(p, log).grow_to(c))) {
                    Ok(Some(n)) => n.to_string(),
                    Ok(None) => "x".to_string(),
                    Err(_) => "PANIC".to_string(),
                }
            }
            _ => "bad-case".to_string(),
        }
    } else if line.starts_with("X ") || line.starts_with("Y ") || line.starts_with("Z ") {
        if HANGS.load(std::sync::atomic::Ordering::SeqCst) >= 3 {
            return "- SKIPPED".to_string();
        }
        let before = exec_parallel::thread_count();
        let r = if line.starts_with("X ") {
            exec_parallel::run_x(line)
        } else if line.starts_with("Y ") {
            exec_parallel::run_y(line)
        } else {
            exec_parallel::run_z(line)
        };
        if r.contains("HANG") {
            HANGS.fetch_add(1, std::sync::atomic::Ordering::SeqCst);
            // the hung call keeps its threads: a census would only repeat that
            return format!("{} leak=hung", r);
        }
        format!("{} leak={}", r, leaked(before))
    } else {
        "bad-case".to_string()
    }
}

/// threads left over after a parallel call (pool workers exit on their own shortly after the
/// pool is dropped: poll with a grace period)
fn leaked(before: usize) -> usize {
    // 2 s of fine-grained polling, then up to 30 s more: a thread that is blocked for good is still there after
    // that, one that was merely slow to exit on a loaded machine is not
    for i in 0..1000 {
        let now = exec_parallel::thread_count();
        if now <= before {
            return 0;
        }
        std::thread::sleep(std::time::Duration::from_millis(if i < 400 { 5 } else { 50 }));
    }
    exec_parallel::thread_count().saturating_sub(before)
}

fn main() {
    let args: Vec<String> = std::env::args().collect();
    // panics are observations, not noise
    std::panic::set_hook(Box::new(|_| {}));
    match args.get(1).map(|s| s.as_str()) {
        Some("gen") => {
            let family = &args[2];
            let size: usize = args[3].parse().unwrap();
            let seed: u64 = args[4].parse().unwrap();
            let out = io::stdout();
            let mut w = io::BufWriter::new(out.lock());
            for l in gen::generate(family, size, seed) {
                writeln!(w, "{}", l).unwrap();
            }
        }
        Some("exec") => {
            let threads: usize = std::env::var("VERIF_THREADS").ok().and_then(|s| s.parse().ok()).unwrap_or(8);
            let stdin = io::stdin();
            let lines: Vec<String> = stdin.lock().lines().map(|l| l.unwrap()).filter(|l| !l.trim().is_empty()).collect();
            let chunk = (lines.len() + threads - 1) / threads.max(1);
            let mut results: Vec<Vec<String>> = vec![];
            if lines.is_empty() {
                return;
            }
            std::thread::scope(|s| {
                let handles: Vec<_> = lines
                    .chunks(chunk.max(1))
                    .map(|ch| s.spawn(move || ch.iter().map(|l| exec_line(l)).collect::<Vec<String>>()))
                    .collect();
                for h in handles {
                    results.push(h.join().unwrap());
                }
            });
            let out = io::stdout();
            let mut w = io::BufWriter::new(out.lock());
            for r in results {
                for l in r {
                    writeln!(w, "O {}", l).unwrap();
                }
            }
        }
        _ => {
            eprintln!("usage: seqio_harness gen <family> <size> <seed> | exec");
            std::process::exit(2);
        }
    }
}

/// `Q <policy> <capacity> <fa|fq> <len>`: a reader of that capacity under a recording policy reads a file holding ONE record
/// of `len` bytes in all (buffer sizes far beyond those of the byte-level cases); observation: what the first read
/// returned and the requests the policy received.
fn big_buffer_case(t: &[&str]) -> String {
    use seq_io::{fasta, fastq};
    let (pol, cap, len) = match (util::PolDesc::parse(t[1]), t[2].parse::<usize>().ok(), t[4].parse::<usize>().ok()) {
        (Some(p), Some(c), Some(l)) if l >= 12 && c >= 3 => (p, c, l),
        _ => return "bad-case".to_string(),
    };
    let log: util::Log = std::rc::Rc::new(std::cell::RefCell::new(vec![]));
    let mut input: Vec<u8> = vec![];
    let res = std::panic::catch_unwind(std::panic::AssertUnwindSafe(|| match t[3] {
        "fa" => {
            input.extend_from_slice(b">i\n");
            input.extend(std::iter::repeat(b'A').take(len - 4));
            input.push(b'\n');
            let mut r = fasta::Reader::with_capacity(&input[..], cap).set_policy(util::DynPolicy::new(pol.clone(), log.clone()));
            match r.next() {
                Some(Ok(rec)) if fasta::Record::seq(&rec).len() == len - 4 => "R",
                Some(Ok(_)) => "R!wrong",
                Some(Err(fasta::Error::BufferLimit)) => "E:bl",
                Some(Err(_)) => "E:other",
                None => "N",
            }
        }
        _ => {
            let k = (len - 7) / 2;
            input.extend_from_slice(if (len - 7) % 2 == 1 { b"@ii\n" } else { b"@i\n" });
            input.extend(std::iter::repeat(b'A').take(k));
            input.extend_from_slice(b"\n+\n");
            input.extend(std::iter::repeat(b'I').take(k));
            input.push(b'\n');
            let mut r = fastq::Reader::with_capacity(&input[..], cap).set_policy(util::DynPolicy::new(pol.clone(), log.clone()));
            match r.next() {
                Some(Ok(rec)) if fastq::Record::seq(&rec).len() == k && fastq::Record::qual(&rec).len() == k => "R",
                Some(Ok(_)) => "R!wrong",
                Some(Err(fastq::Error::BufferLimit)) => "E:bl",
                Some(Err(_)) => "E:other",
                None => "N",
            }
        }
    }));
    match res {
        Ok(tok) => format!("{} L={}", tok, util::log_str(&log)),
        Err(_) => format!("PANIC L={}", util::log_str(&log)),
    }
}
