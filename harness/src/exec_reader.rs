//! Executes reader cases (`R …` lines) against the real crate and prints the observation.

use std::borrow::Cow;
use std::cell::RefCell;
use std::panic::{catch_unwind, AssertUnwindSafe};
use std::rc::Rc;

use seq_io::{fasta, fastq};

use crate::util::*;

#[derive(Clone, Debug)]
pub enum Op {
    Next,
    Owned,
    Set(usize),
    Exact(usize, usize),
    Dump(usize),
    Pos,
    Capture(usize),
    SeekSlot(usize),
    SeekTo(u64, u64),
    SetPolicy(PolDesc),
    Json(usize),
    OwnedJson,
    /// `shrink_buffer_to_fit()` on set j; observes `len()` and `is_empty()`
    Shrink(usize),
    /// open a SECOND reader over this input (same capacity, policy description and chunking, no faults) and make it
    /// the active one; the three record sets and the position slots are shared between the two readers
    Second(Vec<u8>),
    /// make the other reader the active one (no-op before `Second`)
    Toggle,
}

impl Op {
    pub fn parse(s: &str) -> Option<Op> {
        let (c, rest) = s.split_at(1);
        let n = |x: &str| x.parse::<usize>().ok();
        Some(match c {
            "n" if rest.is_empty() => Op::Next,
            "w" if rest.is_empty() => Op::Toggle,
            "T" => Op::Second(if rest == "-" { vec![] } else { crate::util::unhex(rest)? }),
            "o" if rest.is_empty() => Op::Owned,
            "p" if rest.is_empty() => Op::Pos,
            "s" => Op::Set(n(rest)?),
            "i" => Op::Dump(n(rest)?),
            "c" => Op::Capture(n(rest)?),
            "k" => Op::SeekSlot(n(rest)?),
            "e" => {
                let (a, b) = rest.split_once('.')?;
                Op::Exact(n(a)?, n(b)?)
            }
            "K" => {
                let (a, b) = rest.split_once('.')?;
                Op::SeekTo(n(a)? as u64, n(b)? as u64)
            }
            "P" => Op::SetPolicy(PolDesc::parse(rest)?),
            "j" => Op::Json(n(rest)?),
            "h" => Op::Shrink(n(rest)?),
            "y" if rest.is_empty() => Op::OwnedJson,
            _ => return None,
        })
    }
    pub fn show(&self) -> String {
        match self {
            Op::Next => "n".into(),
            Op::Owned => "o".into(),
            Op::Pos => "p".into(),
            Op::Set(j) => format!("s{}", j),
            Op::Dump(j) => format!("i{}", j),
            Op::Capture(j) => format!("c{}", j),
            Op::SeekSlot(j) => format!("k{}", j),
            Op::Exact(j, n) => format!("e{}.{}", j, n),
            Op::SeekTo(l, b) => format!("K{}.{}", l, b),
            Op::SetPolicy(p) => format!("P{}", p.show()),
            Op::Json(j) => format!("j{}", j),
            Op::Shrink(j) => format!("h{}", j),
            Op::OwnedJson => "y".into(),
            Op::Second(inp) => format!("T{}", if inp.is_empty() { "-".to_string() } else { crate::util::hex(inp) }),
            Op::Toggle => "w".into(),
        }
    }
}

#[derive(Clone, Debug)]
pub struct Case {
    pub kind: String,
    pub fmt: String,
    pub cap: usize,
    pub pol: PolDesc,
    pub chunk: usize,
    pub script: Vec<ReadEv>,
    pub seek_fails: Vec<(usize, usize)>,
    pub input: Vec<u8>,
    pub ops: Vec<Op>,
}

impl Case {
    pub fn parse(line: &str) -> Option<Case> {
        let t: Vec<&str> = line.trim().split(' ').collect();
        if t.len() != 9 || (t[0] != "R" && t[0] != "A" && t[0] != "F" && t[0] != "P") {
            return None;
        }
        let script = if t[5] == "-" {
            vec![]
        } else {
            t[5].split(',')
                .map(|e| {
                    let (c, r) = e.split_at(1);
                    match c {
                        "i" => Some(ReadEv::Intr),
                        "z" => Some(ReadEv::Zero),
                        "d" => r.parse().ok().map(ReadEv::Data),
                        "f" => r.parse().ok().map(ReadEv::Fail),
                        _ => None,
                    }
                })
                .collect::<Option<Vec<_>>>()?
        };
        let seek_fails = if t[6] == "-" {
            vec![]
        } else {
            t[6].split(',')
                .map(|e| {
                    let (a, b) = e.split_once('.')?;
                    Some((a.parse().ok()?, b.parse().ok()?))
                })
                .collect::<Option<Vec<_>>>()?
        };
        let ops = if t[8] == "-" {
            vec![]
        } else {
            t[8].split(',').map(Op::parse).collect::<Option<Vec<_>>>()?
        };
        Some(Case {
            kind: t[0].to_string(),
            fmt: t[1].to_string(),
            cap: t[2].parse().ok()?,
            pol: PolDesc::parse(t[3])?,
            chunk: t[4].parse().ok()?,
            script,
            seek_fails,
            input: unhex(t[7])?,
            ops,
        })
    }

    pub fn show(&self) -> String {
        let script = if self.script.is_empty() {
            "-".to_string()
        } else {
            self.script
                .iter()
                .map(|e| match e {
                    ReadEv::Data(n) => format!("d{}", n),
                    ReadEv::Intr => "i".to_string(),
                    ReadEv::Zero => "z".to_string(),
                    ReadEv::Sticky(k) => format!("f{}", k),
                    ReadEv::Fail(k) => format!("f{}", k),
                })
                .collect::<Vec<_>>()
                .join(",")
        };
        let sf = if self.seek_fails.is_empty() {
            "-".to_string()
        } else {
            self.seek_fails
                .iter()
                .map(|(a, b)| format!("{}.{}", a, b))
                .collect::<Vec<_>>()
                .join(",")
        };
        let ops = if self.ops.is_empty() {
            "-".to_string()
        } else {
            self.ops.iter().map(|o| o.show()).collect::<Vec<_>>().join(",")
        };
        format!(
            "{} {} {} {} {} {} {} {} {}",
            self.kind,
            self.fmt,
            self.cap,
            self.pol.show(),
            self.chunk,
            script,
            sf,
            hex_or_dash(&self.input),
            ops
        )
    }
}

fn id_str(id: &Option<String>) -> String {
    match id {
        None => "-".into(),
        Some(s) => format!("={}", hex(s.as_bytes())),
    }
}

/// result of running a closure under `catch_unwind`
enum Caught<T> {
    Ok(T),
    Panic,
    Hang,
}

fn guarded<T>(f: impl FnOnce() -> T) -> Caught<T> {
    match catch_unwind(AssertUnwindSafe(f)) {
        Ok(v) => Caught::Ok(v),
        Err(p) => {
            if p.is::<HangMarker>() {
                Caught::Hang
            } else {
                Caught::Panic
            }
        }
    }
}

/// `Error::source()`: the original `io::Error` (same kind) for `Error::Io`, nothing for format errors (C14: the source
/// error is preserved).  Empty when that holds, a marker that no model prints otherwise.
fn src_mark(src: Option<&(dyn std::error::Error + 'static)>, inner: Option<std::io::ErrorKind>) -> &'static str {
    let ok = match inner {
        Some(k) => src.and_then(|s| s.downcast_ref::<std::io::Error>()).map_or(false, |x| x.kind() == k),
        None => src.is_none(),
    };
    if ok { "" } else { "!src" }
}

// ---------------------------------------------------------------- FASTA

fn fa_err(e: &fasta::Error) -> String {
    let body = match e {
        fasta::Error::Io(e) => format!("io.{}", kind_code(e.kind())),
        fasta::Error::InvalidStart { line, found } => format!("is.{}.{}", line, found),
        fasta::Error::BufferLimit => "bl".to_string(),
    };
    let inner = if let fasta::Error::Io(i) = e { Some(i.kind()) } else { None };
    let body = body + src_mark(std::error::Error::source(e), inner);
    format!("E:{}/m={}", body, hex(e.to_string().as_bytes()))
}

fn fa_rec(r: &fasta::RefRecord) -> String {
    use fasta::Record;
    let mut lines = String::new();
    for l in r.seq_lines() {
        lines.push_str(&hex(l));
        lines.push('.');
    }
    let n = r.num_seq_lines();
    // the line iterator of every record the reader hands out keeps the iterator contracts (C20): the reported length is
    // the number of lines it yields, from the front and from the back, hints bracket, fused
    let yielded = r.seq_lines().count();
    let lines_contract = match iter_contract(r.seq_lines(), yielded, r.seq_lines().len()) {
        Some(m) => format!("!lines.{}", m),
        None if r.seq_lines().rev().count() != yielded => "!lines.back".to_string(),
        None if n != yielded => "!lines.num".to_string(),
        None => String::new(),
    };
    let b = matches!(r.full_seq(), Cow::Borrowed(_));
    // all writing goes through a writer that takes at most 2-3 bytes per call and has no write_vectored
    let mut u = ShortWriter::new(2);
    r.write_unchanged(&mut u).unwrap();
    let u = u.out;
    let mut w = ShortWriter::new(3);
    r.write(&mut w).unwrap();
    let mut x = ShortWriter::new(2);
    r.write_wrap(&mut x, 3).unwrap();
    let (idb, descb) = r.id_desc_bytes();
    let v = format!(
        "{}{}{}",
        r.id().is_ok() as u8,
        r.desc().map(|d| d.is_ok()).unwrap_or(true) as u8,
        r.id_desc().is_ok() as u8
    );
    // the three ways to get id / description must agree, and so must the full sequence (borrowed or not), the owned
    // sequence and the sequence of the owned copy
    let owned_copy = r.to_owned_record();
    let agree = idb == r.id_bytes()
        && descb == r.desc_bytes()
        && match r.id_desc() {
            Ok((i, d)) => i.as_bytes() == idb && d.map(|x| x.as_bytes()) == descb,
            Err(_) => true,
        }
        && r.full_seq().as_ref() == &r.owned_seq()[..]
        && owned_copy.seq == r.owned_seq()
        && owned_copy.head == r.head();
    format!(
        "h={}:l={}:r={}:n={}:b={}:o={}:f={}:u={}:w={}:x={}:i={}:d={}:v={}{}{}",
        hex(r.head()),
        lines,
        hex(r.seq()),
        n,
        if b { 1 } else { 0 },
        hex(&r.owned_seq()),
        hex(r.full_seq().as_ref()),
        hex(&u),
        hex(&w.out),
        hex(&x.out),
        hex(idb),
        match descb {
            None => "-".to_string(),
            Some(d) => format!("~{}", hex(d)),
        },
        v,
        agree as u8,
        lines_contract
    )
}

fn fa_owned(r: &fasta::OwnedRecord) -> String {
    use fasta::Record;
    // the owned copy seen through the `Record` trait must expose the values of its fields (C13)
    let (idb, descb) = r.id_desc_bytes();
    let sp = r.head.iter().position(|&b| b == b' ');
    let mut w = ShortWriter::new(2);
    r.write(&mut w).unwrap();
    let mut expect = vec![b'>'];
    expect.extend_from_slice(&r.head);
    expect.push(b'\n');
    expect.extend_from_slice(&r.seq);
    expect.push(b'\n');
    let ok = Record::head(r) == &r.head[..]
        && Record::seq(r) == &r.seq[..]
        && idb == r.id_bytes()
        && descb == r.desc_bytes()
        && idb == &r.head[..sp.unwrap_or(r.head.len())]
        && descb == sp.map(|i| &r.head[i + 1..])
        && r.id().is_ok() == std::str::from_utf8(idb).is_ok()
        && r.desc().map(|d| d.is_ok()) == descb.map(|d| std::str::from_utf8(d).is_ok())
        && w.out == expect;
    format!("h={}:s={}{}", hex(&r.head), hex(&r.seq), if ok { "" } else { "!views" })
}

fn json_roundtrip<T: serde::Serialize + serde::de::DeserializeOwned>(set: &T, dump: impl Fn(&T) -> String) -> String {
    let js = serde_json::to_string(set).unwrap();
    let back: T = serde_json::from_str(&js).unwrap();
    let rt = dump(set) == dump(&back);
    format!("J:{}:rt={}", hex(js.as_bytes()), rt as u8)
}

pub fn run_fasta(c: &Case) -> String {
    let err_str = fa_err;
    let json_set = |s: &fasta::RecordSet| {
        json_roundtrip(s, |x| x.into_iter().map(|r| fa_rec(&r)).collect::<Vec<_>>().join("/"))
    };
    let json_owned = |r: &fasta::OwnedRecord| {
        let js = serde_json::to_string(r).unwrap();
        let back: fasta::OwnedRecord = serde_json::from_str(&js).unwrap();
        format!("Y:{}:rt={}", hex(js.as_bytes()), (back == *r) as u8)
    };
    let log: Log = Rc::new(RefCell::new(vec![]));
    let src = ScriptedReader::new(c.input.clone(), c.script.clone(), c.chunk, c.seek_fails.clone());
    let mut rdr = fasta::Reader::with_capacity(src, c.cap).set_policy(DynPolicy::new(c.pol.clone(), log.clone()));
    // the inactive one of two readers that share the record sets (ops `T<input>` / `w`)
    let mut other = None;
    let mut other_slots = vec![None; 4];
    let mut sets = vec![fasta::RecordSet::default(), fasta::RecordSet::default(), fasta::RecordSet::default()];
    let mut slots: Vec<Option<fasta::Position>> = vec![None; 4];
    let mut out: Vec<String> = vec![];
    let mut log_len = 0usize;
    #[allow(unused_assignments)]
    let mut op_allocs = 0usize;

    for op in &c.ops {
        op_allocs = 0;
        let res: Caught<String> = match op {
            Op::Next => guarded(|| {
                let a0 = crate::alloc::count();
                let res = rdr.next();
                let a1 = crate::alloc::count();
                op_allocs = a1 - a0;
                match res {
                    None => "N".to_string(),
                    Some(Err(e)) => fa_err(&e),
                    Some(Ok(r)) => format!("R:{}", fa_rec(&r)),
                }
            }),
            Op::Owned => guarded(|| {
                // the owned-record iterator's size hint must bracket what it then delivers (C20)
                let mut it = rdr.records();
                let (lo, hi) = it.size_hint();
                let item = it.next();
                let hint_ok = match &item {
                    None => lo == 0,
                    Some(_) => hi.map_or(true, |h| h >= 1),
                };
                let mark = if hint_ok { String::new() } else { format!("!hint.{}.{}", lo, hi.map_or("-".to_string(), |h| h.to_string())) };
                match item {
                    None => format!("N{}", mark),
                    Some(Err(e)) => fa_err(&e) + &mark,
                    Some(Ok(r)) => format!("O:{}{}", fa_owned(&r), mark),
                }
            }),
            Op::Set(j) | Op::Exact(j, _) => {
                let n = if let Op::Exact(_, n) = op { Some(*n) } else { None };
                let set = &mut sets[*j];
                guarded(|| {
                    let a0 = crate::alloc::count();
                    let r = match n {
                        None => rdr.read_record_set(set),
                        Some(n) => rdr.read_record_set_exact(set, Some(n)),
                    };
                    op_allocs = crate::alloc::count() - a0;
                    match r {
                        None => "N".to_string(),
                        Some(Err(e)) => fa_err(&e),
                        Some(Ok(())) => format!("S{}", set.len()),
                    }
                })
            }
            Op::Shrink(j) => {
                let set = &mut sets[*j];
                guarded(|| {
                    set.shrink_buffer_to_fit();
                    format!("H{}{}", set.len(), if set.is_empty() == (set.len() == 0) { "" } else { "!" })
                })
            }
            Op::Dump(j) => {
                let set = &sets[*j];
                guarded(|| {
                    let recs: Vec<String> = set.into_iter().map(|r| fa_rec(&r)).collect();
                    match iter_contract(set.into_iter(), recs.len(), set.len()) {
                        None => format!("I:{}", recs.join("/")),
                        Some(bad) => format!("I!{}:{}", bad, recs.join("/")),
                    }
                })
            }
            Op::Pos => guarded(|| match rdr.position() {
                None => "P-".to_string(),
                Some(p) => format!("P{}.{}", p.line(), p.byte()),
            }),
            Op::Capture(k) => guarded(|| match rdr.position() {
                None => "C-".to_string(),
                Some(p) => {
                    slots[*k] = Some(p.clone());
                    format!("C{}.{}", p.line(), p.byte())
                }
            }),
            Op::SeekSlot(k) => match slots[*k].clone() {
                None => Caught::Ok("K?".to_string()),
                Some(p) => guarded(|| match { let a0 = crate::alloc::count(); let r = rdr.seek(&p); op_allocs = crate::alloc::count() - a0; r } {
                    Ok(()) => "K".to_string(),
                    Err(e) => fa_err(&e),
                }),
            },
            Op::SeekTo(l, b) => {
                let p = fasta::Position::new(*l, *b);
                guarded(|| match { let a0 = crate::alloc::count(); let r = rdr.seek(&p); op_allocs = crate::alloc::count() - a0; r } {
                    Ok(()) => "K".to_string(),
                    Err(e) => fa_err(&e),
                })
            }
            Op::SetPolicy(p) => {
                rdr = rdr.set_policy(DynPolicy::new(p.clone(), log.clone()));
                // `policy()` hands out the policy that was installed
                Caught::Ok(if rdr.policy().desc() == p { "Y".to_string() } else { "Y!policy".to_string() })
            }
            Op::Second(inp) => {
                let src2 = ScriptedReader::new(inp.clone(), vec![], c.chunk, vec![]);
                let r2 = fasta::Reader::with_capacity(src2, c.cap).set_policy(DynPolicy::new(c.pol.clone(), log.clone()));
                other = Some(std::mem::replace(&mut rdr, r2));
                // captured positions belong to the reader they were taken from; the record sets are shared
                other_slots = std::mem::replace(&mut slots, vec![None; 4]);
                Caught::Ok("W".to_string())
            }
            Op::Toggle => {
                if let Some(o) = other.as_mut() {
                    std::mem::swap(&mut rdr, o);
                    std::mem::swap(&mut slots, &mut other_slots);
                }
                Caught::Ok("W".to_string())
            }
            Op::Json(j) => {
                let set = &sets[*j];
                guarded(|| json_set(set))
            }
            Op::OwnedJson => guarded(|| match rdr.records().next() {
                None => "N".to_string(),
                Some(Err(e)) => err_str(&e),
                Some(Ok(r)) => json_owned(&r),
            }),
        };
        let grew = log.borrow().len() != log_len;
        log_len = log.borrow().len();
        let sfx = if grew { format!("#{}", log_len) } else { String::new() };
        let sfx = if c.kind == "A" {
            // allocator calls of the measured reader call, and the capacity of the record set's buffer afterwards
            let cap = match op {
                Op::Set(j) | Op::Exact(j, _) | Op::Shrink(j) => format!("^{}", sets[*j].buf_capacity()),
                _ => String::new(),
            };
            format!("{}@{}{}", sfx, op_allocs, cap)
        } else {
            sfx
        };
        match res {
            Caught::Ok(s) => out.push(s + &sfx),
            Caught::Panic => {
                out.push("PANIC".to_string() + &sfx);
                break;
            }
            Caught::Hang => {
                out.push("HANG".to_string() + &sfx);
                break;
            }
        }
    }
    // a reader that panicked may be in any state; do not run its destructor assumptions further
    format!("{} L={}", out.join(";"), log_str(&log))
}

// ---------------------------------------------------------------- FASTQ

fn fq_pos(p: &fastq::ErrorPosition) -> String {
    format!("{}.{}", p.line, id_str(&p.id))
}

fn fq_err(e: &fastq::Error) -> String {
    let body = match e {
        fastq::Error::Io(e) => format!("io.{}", kind_code(e.kind())),
        fastq::Error::UnequalLengths { seq, qual, pos } => format!("ul.{}.{}.{}", seq, qual, fq_pos(pos)),
        fastq::Error::InvalidStart { found, pos } => format!("is.{}.{}", found, fq_pos(pos)),
        fastq::Error::InvalidSep { found, pos } => format!("sep.{}.{}", found, fq_pos(pos)),
        fastq::Error::UnexpectedEnd { pos } => format!("ue.{}", fq_pos(pos)),
        fastq::Error::BufferLimit => "bl".to_string(),
    };
    let inner = if let fastq::Error::Io(i) = e { Some(i.kind()) } else { None };
    let body = body + src_mark(std::error::Error::source(e), inner);
    format!("E:{}/m={}", body, hex(e.to_string().as_bytes()))
}

fn fq_rec(r: &fastq::RefRecord) -> String {
    use fastq::Record;
    let mut u = ShortWriter::new(2);
    r.write_unchanged(&mut u).unwrap();
    let u = u.out;
    let mut w = ShortWriter::new(3);
    r.write(&mut w).unwrap();
    let (idb, descb) = r.id_desc_bytes();
    let v = format!(
        "{}{}{}",
        r.id().is_ok() as u8,
        r.desc().map(|d| d.is_ok()).unwrap_or(true) as u8,
        r.id_desc().is_ok() as u8
    );
    let agree = idb == r.id_bytes()
        && descb == r.desc_bytes()
        && match r.id_desc() {
            Ok((i, d)) => i.as_bytes() == idb && d.map(|x| x.as_bytes()) == descb,
            Err(_) => true,
        }
        && {
            // the owned copy exposes the values of the borrowed record
            let oc = r.to_owned_record();
            oc.head == r.head() && oc.seq == r.seq() && oc.qual == r.qual()
        };
    format!(
        "h={}:s={}:q={}:u={}:w={}:i={}:d={}:v={}{}",
        hex(r.head()),
        hex(r.seq()),
        hex(r.qual()),
        hex(&u),
        hex(&w.out),
        hex(idb),
        match descb {
            None => "-".to_string(),
            Some(d) => format!("~{}", hex(d)),
        },
        v,
        agree as u8
    )
}

fn fq_owned(r: &fastq::OwnedRecord) -> String {
    use fastq::Record;
    let (idb, descb) = r.id_desc_bytes();
    let sp = r.head.iter().position(|&b| b == b' ');
    let mut w = ShortWriter::new(2);
    r.write(&mut w).unwrap();
    let mut expect = vec![b'@'];
    expect.extend_from_slice(&r.head);
    expect.push(b'\n');
    expect.extend_from_slice(&r.seq);
    expect.extend_from_slice(b"\n+\n");
    expect.extend_from_slice(&r.qual);
    expect.push(b'\n');
    let ok = Record::head(r) == &r.head[..]
        && Record::seq(r) == &r.seq[..]
        && Record::qual(r) == &r.qual[..]
        && idb == r.id_bytes()
        && descb == r.desc_bytes()
        && idb == &r.head[..sp.unwrap_or(r.head.len())]
        && descb == sp.map(|i| &r.head[i + 1..])
        && r.id().is_ok() == std::str::from_utf8(idb).is_ok()
        && r.desc().map(|d| d.is_ok()) == descb.map(|d| std::str::from_utf8(d).is_ok())
        && w.out == expect;
    format!("h={}:s={}:q={}{}", hex(&r.head), hex(&r.seq), hex(&r.qual), if ok { "" } else { "!views" })
}

pub fn run_fastq(c: &Case) -> String {
    let err_str = fq_err;
    let json_set = |s: &fastq::RecordSet| {
        json_roundtrip(s, |x| x.into_iter().map(|r| fq_rec(&r)).collect::<Vec<_>>().join("/"))
    };
    let json_owned = |r: &fastq::OwnedRecord| {
        let js = serde_json::to_string(r).unwrap();
        let back: fastq::OwnedRecord = serde_json::from_str(&js).unwrap();
        format!("Y:{}:rt={}", hex(js.as_bytes()), (back == *r) as u8)
    };
    let log: Log = Rc::new(RefCell::new(vec![]));
    let src = ScriptedReader::new(c.input.clone(), c.script.clone(), c.chunk, c.seek_fails.clone());
    let mut rdr = fastq::Reader::with_capacity(src, c.cap).set_policy(DynPolicy::new(c.pol.clone(), log.clone()));
    // the inactive one of two readers that share the record sets (ops `T<input>` / `w`)
    let mut other = None;
    let mut other_slots = vec![None; 4];
    let mut sets = vec![fastq::RecordSet::default(), fastq::RecordSet::default(), fastq::RecordSet::default()];
    let mut slots: Vec<Option<fastq::Position>> = vec![None; 4];
    let mut out: Vec<String> = vec![];
    let mut log_len = 0usize;
    #[allow(unused_assignments)]
    let mut op_allocs = 0usize;

    for op in &c.ops {
        op_allocs = 0;
        let res: Caught<String> = match op {
            Op::Next => guarded(|| {
                let a0 = crate::alloc::count();
                let res = rdr.next();
                let a1 = crate::alloc::count();
                op_allocs = a1 - a0;
                match res {
                    None => "N".to_string(),
                    Some(Err(e)) => fq_err(&e),
                    Some(Ok(r)) => format!("R:{}", fq_rec(&r)),
                }
            }),
            Op::Owned => guarded(|| {
                // the owned-record iterator's size hint must bracket what it then delivers (C20)
                let mut it = rdr.records();
                let (lo, hi) = it.size_hint();
                let item = it.next();
                let hint_ok = match &item {
                    None => lo == 0,
                    Some(_) => hi.map_or(true, |h| h >= 1),
                };
                let mark = if hint_ok { String::new() } else { format!("!hint.{}.{}", lo, hi.map_or("-".to_string(), |h| h.to_string())) };
                match item {
                    None => format!("N{}", mark),
                    Some(Err(e)) => fq_err(&e) + &mark,
                    Some(Ok(r)) => format!("O:{}{}", fq_owned(&r), mark),
                }
            }),
            Op::Set(j) | Op::Exact(j, _) => {
                let n = if let Op::Exact(_, n) = op { Some(*n) } else { None };
                let set = &mut sets[*j];
                guarded(|| {
                    let a0 = crate::alloc::count();
                    let r = match n {
                        None => rdr.read_record_set(set),
                        Some(n) => rdr.read_record_set_exact(set, Some(n)),
                    };
                    op_allocs = crate::alloc::count() - a0;
                    match r {
                        None => "N".to_string(),
                        Some(Err(e)) => fq_err(&e),
                        Some(Ok(())) => format!("S{}", set.len()),
                    }
                })
            }
            Op::Shrink(j) => {
                let set = &mut sets[*j];
                guarded(|| {
                    set.shrink_buffer_to_fit();
                    format!("H{}{}", set.len(), if set.is_empty() == (set.len() == 0) { "" } else { "!" })
                })
            }
            Op::Dump(j) => {
                let set = &sets[*j];
                guarded(|| {
                    let recs: Vec<String> = set.into_iter().map(|r| fq_rec(&r)).collect();
                    match iter_contract(set.into_iter(), recs.len(), set.len()) {
                        None => format!("I:{}", recs.join("/")),
                        Some(bad) => format!("I!{}:{}", bad, recs.join("/")),
                    }
                })
            }
            Op::Pos => guarded(|| {
                let p = rdr.position();
                format!("P{}.{}", p.line(), p.byte())
            }),
            Op::Capture(k) => guarded(|| {
                let p = rdr.position().clone();
                let s = format!("C{}.{}", p.line(), p.byte());
                slots[*k] = Some(p);
                s
            }),
            Op::SeekSlot(k) => match slots[*k].clone() {
                None => Caught::Ok("K?".to_string()),
                Some(p) => guarded(|| match { let a0 = crate::alloc::count(); let r = rdr.seek(&p); op_allocs = crate::alloc::count() - a0; r } {
                    Ok(()) => "K".to_string(),
                    Err(e) => fq_err(&e),
                }),
            },
            Op::SeekTo(l, b) => {
                let p = fastq::Position::new(*l, *b);
                guarded(|| match { let a0 = crate::alloc::count(); let r = rdr.seek(&p); op_allocs = crate::alloc::count() - a0; r } {
                    Ok(()) => "K".to_string(),
                    Err(e) => fq_err(&e),
                })
            }
            Op::SetPolicy(p) => {
                rdr = rdr.set_policy(DynPolicy::new(p.clone(), log.clone()));
                // `policy()` hands out the policy that was installed
                Caught::Ok(if rdr.policy().desc() == p { "Y".to_string() } else { "Y!policy".to_string() })
            }
            Op::Second(inp) => {
                let src2 = ScriptedReader::new(inp.clone(), vec![], c.chunk, vec![]);
                let r2 = fastq::Reader::with_capacity(src2, c.cap).set_policy(DynPolicy::new(c.pol.clone(), log.clone()));
                other = Some(std::mem::replace(&mut rdr, r2));
                // captured positions belong to the reader they were taken from; the record sets are shared
                other_slots = std::mem::replace(&mut slots, vec![None; 4]);
                Caught::Ok("W".to_string())
            }
            Op::Toggle => {
                if let Some(o) = other.as_mut() {
                    std::mem::swap(&mut rdr, o);
                    std::mem::swap(&mut slots, &mut other_slots);
                }
                Caught::Ok("W".to_string())
            }
            Op::Json(j) => {
                let set = &sets[*j];
                guarded(|| json_set(set))
            }
            Op::OwnedJson => guarded(|| match rdr.records().next() {
                None => "N".to_string(),
                Some(Err(e)) => err_str(&e),
                Some(Ok(r)) => json_owned(&r),
            }),
        };
        let grew = log.borrow().len() != log_len;
        log_len = log.borrow().len();
        let sfx = if grew { format!("#{}", log_len) } else { String::new() };
        let sfx = if c.kind == "A" {
            // allocator calls of the measured reader call, and the capacity of the record set's buffer afterwards
            let cap = match op {
                Op::Set(j) | Op::Exact(j, _) | Op::Shrink(j) => format!("^{}", sets[*j].buf_capacity()),
                _ => String::new(),
            };
            format!("{}@{}{}", sfx, op_allocs, cap)
        } else {
            sfx
        };
        match res {
            Caught::Ok(s) => out.push(s + &sfx),
            Caught::Panic => {
                out.push("PANIC".to_string() + &sfx);
                break;
            }
            Caught::Hang => {
                out.push("HANG".to_string() + &sfx);
                break;
            }
        }
    }
    format!("{} L={}", out.join(";"), log_str(&log))
}

pub fn run_case(line: &str) -> String {
    match Case::parse(line) {
        None => "bad-case".to_string(),
        Some(c) if c.kind == "P" => run_path(&c),
        Some(c) => match c.fmt.as_str() {
            "fa" => run_fasta(&c),
            "fq" => run_fastq(&c),
            _ => "bad-case".to_string(),
        },
    }
}


static PATH_COUNTER: std::sync::atomic::AtomicUsize = std::sync::atomic::AtomicUsize::new(0);

/// `P` cases: the input is written to a file and opened with `from_path` (capacity 65536 in the case line = the
/// crate's default) or `from_path_with_capacity`; operations `n`, `o`, `p` only. Same observation format as `R`.
fn run_path(c: &Case) -> String {
    let k = PATH_COUNTER.fetch_add(1, std::sync::atomic::Ordering::SeqCst);
    let path = std::env::temp_dir().join(format!("seqio_harness_{}_{}.in", std::process::id(), k));
    if std::fs::write(&path, &c.input).is_err() {
        return "bad-case".to_string();
    }
    let mut out: Vec<String> = vec![];
    let log: Log = Rc::new(RefCell::new(vec![]));
    let mut log_len = 0usize;
    let res = guarded(|| {
        if c.fmt == "fa" {
            let mut rdr = if c.cap == 65536 {
                fasta::Reader::from_path(&path).unwrap()
            } else {
                fasta::Reader::from_path_with_capacity(&path, c.cap).unwrap()
            }
            .set_policy(DynPolicy::new(c.pol.clone(), log.clone()));
            for op in &c.ops {
                out.push(match op {
                    Op::Next => match rdr.next() {
                        None => "N".to_string(),
                        Some(Err(e)) => fa_err(&e),
                        Some(Ok(r)) => format!("R:{}", fa_rec(&r)),
                    },
                    Op::Owned => match rdr.records().next() {
                        None => "N".to_string(),
                        Some(Err(e)) => fa_err(&e),
                        Some(Ok(r)) => format!("O:{}", fa_owned(&r)),
                    },
                    Op::Pos => match rdr.position() {
                        None => "P-".to_string(),
                        Some(p) => format!("P{}.{}", p.line(), p.byte()),
                    },
                    _ => "bad-op".to_string(),
                });
                if log.borrow().len() != log_len {
                    log_len = log.borrow().len();
                    let last = out.len() - 1;
                    out[last] = format!("{}#{}", out[last], log_len);
                }
            }
        } else {
            let mut rdr = if c.cap == 65536 {
                fastq::Reader::from_path(&path).unwrap()
            } else {
                fastq::Reader::from_path_with_capacity(&path, c.cap).unwrap()
            }
            .set_policy(DynPolicy::new(c.pol.clone(), log.clone()));
            for op in &c.ops {
                out.push(match op {
                    Op::Next => match rdr.next() {
                        None => "N".to_string(),
                        Some(Err(e)) => fq_err(&e),
                        Some(Ok(r)) => format!("R:{}", fq_rec(&r)),
                    },
                    Op::Owned => match rdr.records().next() {
                        None => "N".to_string(),
                        Some(Err(e)) => fq_err(&e),
                        Some(Ok(r)) => format!("O:{}", fq_owned(&r)),
                    },
                    Op::Pos => {
                        let p = rdr.position();
                        format!("P{}.{}", p.line(), p.byte())
                    }
                    _ => "bad-op".to_string(),
                });
                if log.borrow().len() != log_len {
                    log_len = log.borrow().len();
                    let last = out.len() - 1;
                    out[last] = format!("{}#{}", out[last], log_len);
                }
            }
        }
    });
    let _ = std::fs::remove_file(&path);
    match res {
        Caught::Ok(()) => {}
        Caught::Panic => out.push("PANIC".to_string()),
        Caught::Hang => out.push("HANG".to_string()),
    }
    format!("{} L={}", out.join(";"), log_str(&log))
}

/// Iterator contract of a record-set iterator (C20), judged on the iterator alone: before each of the `n` items
/// and after the last one the size hint brackets the number of items still to come, the number of items is the
/// set's `len()`, and after the end the iterator keeps reporting the end.  `None` = contract holds.
fn iter_contract<I: Iterator>(mut it: I, n: usize, len: usize) -> Option<String> {
    if n != len {
        return Some(format!("len.{}.{}", len, n));
    }
    for k in 0..=n {
        let rem = n - k;
        let (lo, hi) = it.size_hint();
        if lo > rem || hi.map_or(false, |h| h < rem) {
            return Some(format!("hint.{}.{}.{}", lo, hi.map_or("-".to_string(), |h| h.to_string()), rem));
        }
        if it.next().is_some() != (k < n) {
            return Some(format!("count.{}", k));
        }
    }
    for _ in 0..3 {
        if it.next().is_some() {
            return Some("unfused".to_string());
        }
        let (lo, _) = it.size_hint();
        if lo > 0 {
            return Some(format!("hint.{}.-.0", lo));
        }
    }
    None
}
