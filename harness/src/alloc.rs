//! Counting global allocator: number of allocation calls (alloc / realloc / alloc_zeroed) made
//! by the current thread.

use std::alloc::{GlobalAlloc, Layout, System};
use std::cell::Cell;

thread_local! {
    static COUNT: Cell<usize> = const { Cell::new(0) };
    static PAUSED: Cell<usize> = const { Cell::new(0) };
}

/// While a `Pause` is alive, allocations of the current thread are not counted: the harness's own
/// byte source and recording policy run inside the measured reader calls and must not be charged
/// to the reader.
pub struct Pause;

impl Pause {
    pub fn new() -> Pause {
        let _ = PAUSED.try_with(|c| c.set(c.get() + 1));
        Pause
    }
}

impl Drop for Pause {
    fn drop(&mut self) {
        let _ = PAUSED.try_with(|c| c.set(c.get().saturating_sub(1)));
    }
}

pub struct Counting;

fn bump() {
    // `try_with`: the allocator may be called while the thread-local is being destroyed
    if PAUSED.try_with(|c| c.get()).unwrap_or(0) == 0 {
        let _ = COUNT.try_with(|c| c.set(c.get() + 1));
    }
}

unsafe impl GlobalAlloc for Counting {
    unsafe fn alloc(&self, l: Layout) -> *mut u8 {
        bump();
        System.alloc(l)
    }
    unsafe fn dealloc(&self, p: *mut u8, l: Layout) {
        System.dealloc(p, l)
    }
    unsafe fn alloc_zeroed(&self, l: Layout) -> *mut u8 {
        bump();
        System.alloc_zeroed(l)
    }
    unsafe fn realloc(&self, p: *mut u8, l: Layout, n: usize) -> *mut u8 {
        bump();
        System.realloc(p, l, n)
    }
}

pub fn count() -> usize {
    COUNT.try_with(|c| c.get()).unwrap_or(0)
}
