//! Counting global allocator: number of allocation calls (alloc / realloc / alloc_zeroed) made
//! by the current thread.

use std::alloc::{GlobalAlloc, Layout, System};
use std::cell::Cell;

thread_local! {
    static COUNT: Cell<usize> = const { Cell::new(0) };
}

pub struct Counting;

fn bump() {
    // `try_with`: the allocator may be called while the thread-local is being destroyed
    let _ = COUNT.try_with(|c| c.set(c.get() + 1));
}

unsafe impl GlobalAlloc for Counting {
    unsafe fn alloc(&self, l: Layout) -> *mut u8 {
        bump();
        System.alloc(l)
    }
    unsafe fn dealloc(&self, p: *mut u8, l: Layout) {
        System.dealloc(p, l)
    }
    unsafe fn alloc_zeroed(&self, l: Layout) -> *mut u8 {
        bump();
        System.alloc_zeroed(l)
    }
    unsafe fn realloc(&self, p: *mut u8, l: Layout, n: usize) -> *mut u8 {
        bump();
        System.realloc(p, l, n)
    }
}

pub fn count() -> usize {
    COUNT.try_with(|c| c.get()).unwrap_or(0)
}
