//! PRNG, hex, scripted reader, recording policy.

use std::cell::RefCell;
use std::io::{self, Read, Seek, SeekFrom};
use std::rc::Rc;

use seq_io::policy::{BufPolicy, DoubleUntil, DoubleUntilLimited, StdPolicy};

/// splitmix64 – every random choice of the harness derives from one state
#[derive(Clone)]
pub struct Rng(pub u64);

impl Rng {
    pub fn new(seed: u64) -> Rng {
        Rng(seed.wrapping_mul(0x9E3779B97F4A7C15).wrapping_add(0x1234567))
    }
    pub fn next(&mut self) -> u64 {
        self.0 = self.0.wrapping_add(0x9E3779B97F4A7C15);
        let mut z = self.0;
        z = (z ^ (z >> 30)).wrapping_mul(0xBF58476D1CE4E5B9);
        z = (z ^ (z >> 27)).wrapping_mul(0x94D049BB133111EB);
        z ^ (z >> 31)
    }
    /// uniform in 0..n (n > 0)
    pub fn below(&mut self, n: usize) -> usize {
        (self.next() % (n as u64)) as usize
    }
    pub fn range(&mut self, lo: usize, hi: usize) -> usize {
        lo + self.below(hi - lo + 1)
    }
    pub fn chance(&mut self, num: usize, den: usize) -> bool {
        self.below(den) < num
    }
    pub fn pick<'a, T>(&mut self, xs: &'a [T]) -> &'a T {
        &xs[self.below(xs.len())]
    }
}

pub fn hex(b: &[u8]) -> String {
    let mut s = String::with_capacity(b.len() * 2);
    for x in b {
        s.push_str(&format!("{:02x}", x));
    }
    s
}

pub fn hex_or_dash(b: &[u8]) -> String {
    if b.is_empty() {
        "-".to_string()
    } else {
        hex(b)
    }
}

pub fn unhex(s: &str) -> Option<Vec<u8>> {
    if s == "-" {
        return Some(vec![]);
    }
    if s.len() % 2 != 0 {
        return None;
    }
    (0..s.len() / 2)
        .map(|i| u8::from_str_radix(&s[2 * i..2 * i + 2], 16).ok())
        .collect()
}

#[derive(Clone, Debug, PartialEq)]
pub enum ReadEv {
    Data(usize),
    Intr,
    Fail(usize),
    /// `Ok(0)` although data is left (a file that is still being written, an empty chunk):
    /// outside the model's source contract, used by the `F` cases only
    Zero,
    /// fails now and at every later call (a broken pipe stays broken, a silent non-blocking descriptor keeps saying
    /// `WouldBlock`); only built by the parallel cases' failing source, never written into a case line
    Sticky(usize),
}

/// error kinds by code (shared with the model as plain numbers)
pub const KINDS: [io::ErrorKind; 6] = [
    io::ErrorKind::Other,
    io::ErrorKind::UnexpectedEof,
    io::ErrorKind::InvalidData,
    io::ErrorKind::TimedOut,
    io::ErrorKind::BrokenPipe,
    io::ErrorKind::WouldBlock,
];

pub fn kind_code(k: io::ErrorKind) -> String {
    match KINDS.iter().position(|x| *x == k) {
        Some(i) => format!("{}", i),
        None => format!("?{:?}", k),
    }
}

/// payload used to report a suspected endless loop
pub struct HangMarker;

pub const CALL_LIMIT: usize = 200_000;

/// The byte source: the whole input, a cursor and a script that decides call by call what
/// `read` does; `seek` fails at scripted call indices.
pub struct ScriptedReader {
    pub data: Vec<u8>,
    pub pos: usize,
    pub script: std::collections::VecDeque<ReadEv>,
    pub chunk: usize,
    pub seek_fails: Vec<(usize, usize)>,
    pub seek_count: usize,
    pub read_calls: usize,
}

impl ScriptedReader {
    pub fn new(data: Vec<u8>, script: Vec<ReadEv>, chunk: usize, seek_fails: Vec<(usize, usize)>) -> Self {
        ScriptedReader {
            data,
            pos: 0,
            script: script.into(),
            chunk,
            seek_fails,
            seek_count: 0,
            read_calls: 0,
        }
    }
}

impl Read for ScriptedReader {
    fn read(&mut self, buf: &mut [u8]) -> io::Result<usize> {
        let _pause = crate::alloc::Pause::new();
        self.read_calls += 1;
        if self.read_calls > CALL_LIMIT {
            std::panic::panic_any(HangMarker);
        }
        let space = buf.len();
        let remaining = self.data.len().saturating_sub(self.pos);
        let m = match self.script.pop_front() {
            Some(ReadEv::Data(n)) => n.max(1).min(space).min(remaining),
            Some(ReadEv::Intr) => return Err(io::Error::new(io::ErrorKind::Interrupted, "interrupted")),
            Some(ReadEv::Fail(k)) => return Err(io::Error::new(KINDS[k % KINDS.len()], "injected")),
            Some(ReadEv::Zero) => return Ok(0),
            Some(ReadEv::Sticky(k)) => {
                self.script.push_front(ReadEv::Sticky(k));
                return Err(io::Error::new(KINDS[k % KINDS.len()], "injected"));
            }
            None => {
                let lim = if self.chunk == 0 { space } else { self.chunk.min(space) };
                lim.min(remaining)
            }
        };
        if m > 0 {
            buf[..m].copy_from_slice(&self.data[self.pos..self.pos + m]);
            self.pos += m;
        }
        Ok(m)
    }
}

impl Seek for ScriptedReader {
    fn seek(&mut self, to: SeekFrom) -> io::Result<u64> {
        let _pause = crate::alloc::Pause::new();
        let idx = self.seek_count;
        self.seek_count += 1;
        if let Some((_, k)) = self.seek_fails.iter().find(|(i, _)| *i == idx) {
            return Err(io::Error::new(KINDS[*k % KINDS.len()], "injected"));
        }
        match to {
            SeekFrom::Start(p) => {
                self.pos = p as usize;
                Ok(p)
            }
            _ => Err(io::Error::new(io::ErrorKind::Unsupported, "only SeekFrom::Start")),
        }
    }
}

#[derive(Clone, Debug, PartialEq)]
pub enum PolDesc {
    Std,
    DoubleUntil(usize),
    Limited(usize, usize),
    Add(usize),
    RefuseAt(usize),
    Table(Vec<usize>),
}

impl PolDesc {
    pub fn parse(s: &str) -> Option<PolDesc> {
        let p: Vec<&str> = s.split('.').collect();
        let n = |x: &str| x.parse::<usize>().ok();
        Some(match p.as_slice() {
            ["std"] => PolDesc::Std,
            ["du", t] => PolDesc::DoubleUntil(n(t)?),
            ["dul", t, l] => PolDesc::Limited(n(t)?, n(l)?),
            ["add", k] => PolDesc::Add(n(k)?),
            ["ref", c] => PolDesc::RefuseAt(n(c)?),
            ["tab", rest @ ..] => PolDesc::Table(rest.iter().map(|x| n(x)).collect::<Option<Vec<_>>>()?),
            _ => return None,
        })
    }
    pub fn show(&self) -> String {
        match self {
            PolDesc::Std => "std".into(),
            PolDesc::DoubleUntil(t) => format!("du.{}", t),
            PolDesc::Limited(t, l) => format!("dul.{}.{}", t, l),
            PolDesc::Add(k) => format!("add.{}", k),
            PolDesc::RefuseAt(c) => format!("ref.{}", c),
            PolDesc::Table(l) => format!(
                "tab{}",
                l.iter().map(|x| format!(".{}", x)).collect::<String>()
            ),
        }
    }
}

pub type Log = Rc<RefCell<Vec<(usize, Option<usize>)>>>;

/// Recording policy: delegates to the crate's own policies where one exists.
pub struct DynPolicy {
    desc: PolDesc,
    calls: usize,
    log: Log,
}

impl DynPolicy {
    pub fn new(desc: PolDesc, log: Log) -> DynPolicy {
        DynPolicy { desc, calls: 0, log }
    }
    pub fn desc(&self) -> &PolDesc {
        &self.desc
    }
}

impl BufPolicy for DynPolicy {
    fn grow_to(&mut self, cur: usize) -> Option<usize> {
        let _pause = crate::alloc::Pause::new();
        self.calls += 1;
        if self.log.borrow().len() > CALL_LIMIT {
            std::panic::panic_any(HangMarker);
        }
        let ans = match &self.desc {
            PolDesc::Std => StdPolicy.grow_to(cur),
            PolDesc::DoubleUntil(t) => DoubleUntil(*t).grow_to(cur),
            PolDesc::Limited(t, l) => DoubleUntilLimited::new(*t, *l).grow_to(cur),
            PolDesc::Add(k) => Some(cur + *k),
            PolDesc::RefuseAt(c) => {
                if cur >= *c {
                    None
                } else {
                    Some(cur * 2)
                }
            }
            PolDesc::Table(l) => match l.get(self.calls - 1) {
                Some(0) => None,
                Some(k) => Some(cur + *k),
                None => Some(cur * 2),
            },
        };
        self.log.borrow_mut().push((cur, ans));
        ans
    }
}

pub fn log_str(log: &Log) -> String {
    log.borrow()
        .iter()
        .map(|(c, a)| match a {
            Some(n) => format!("{}>{}", c, n),
            None => format!("{}>x", c),
        })
        .collect::<Vec<_>>()
        .join(",")
}


/// An `io::Write` that implements only `write` (so `write_vectored` is the default: first non-empty
/// slice only) and accepts at most `max` bytes per call – a legal writer such as a pipe or an encoder.
pub struct ShortWriter {
    pub out: Vec<u8>,
    pub max: usize,
}

impl ShortWriter {
    pub fn new(max: usize) -> ShortWriter {
        ShortWriter { out: vec![], max: max.max(1) }
    }
}

impl std::io::Write for ShortWriter {
    fn write(&mut self, buf: &[u8]) -> std::io::Result<usize> {
        let n = buf.len().min(self.max);
        self.out.extend_from_slice(&buf[..n]);
        if self.out.len() > (1 << 20) {
            // the cases write a few hundred bytes: a writing function that keeps calling `write` is looping
            std::panic::panic_any(HangMarker);
        }
        Ok(n)
    }
    fn flush(&mut self) -> std::io::Result<()> {
        Ok(())
    }
}
