//! `W <fn> <wrap> <a1> <a2> <a3> <a4>`: writer entry points; the output is parsed back with the
//! real readers (`RT:` part).

use std::panic::{catch_unwind, AssertUnwindSafe};

use seq_io::{fasta, fastq};

use crate::util::*;

fn arg(s: &str) -> Option<Vec<u8>> {
    if s == "~" {
        None
    } else {
        unhex(s)
    }
}

fn segs(s: &str) -> Vec<Vec<u8>> {
    if s == "~" {
        return vec![];
    }
    s.split('|').map(|x| unhex(x).unwrap_or_default()).collect()
}

fn reparse_fasta(out: &[u8]) -> String {
    let mut r = fasta::Reader::new(out);
    let mut v = vec![];
    while let Some(x) = r.next() {
        match x {
            Ok(rec) => {
                let o = rec.to_owned_record();
                v.push(format!("h={}:s={}", hex(&o.head), hex(&o.seq)));
            }
            Err(_) => {
                v.push("E".to_string());
                break;
            }
        }
    }
    v.join("/")
}

fn reparse_fastq(out: &[u8]) -> String {
    let mut r = fastq::Reader::new(out);
    let mut v = vec![];
    while let Some(x) = r.next() {
        match x {
            Ok(rec) => {
                let o = rec.to_owned_record();
                v.push(format!("h={}:s={}:q={}", hex(&o.head), hex(&o.seq), hex(&o.qual)));
            }
            Err(_) => {
                v.push("E".to_string());
                break;
            }
        }
    }
    v.join("/")
}

fn emit<W: std::io::Write>(out: &mut W, f: &str, w: usize, a: &[&str]) -> Option<()> {
    let mut out = out;
    match f {
        "fa_to" => fasta::write_to(&mut out, &arg(a[0])?, &arg(a[1])?).unwrap(),
        "fa_seq" => {
            fasta::write_head(&mut out, &arg(a[0])?).unwrap();
            fasta::write_seq(&mut out, &arg(a[1])?).unwrap()
        }
        "fa_parts" => {
            let d = arg(a[1]);
            fasta::write_parts(&mut out, &arg(a[0])?, d.as_deref(), &arg(a[2])?).unwrap()
        }
        "fa_wrap" => {
            let d = arg(a[1]);
            fasta::write_wrap(&mut out, &arg(a[0])?, d.as_deref(), &arg(a[2])?, w).unwrap()
        }
        "fa_seqiter" => {
            fasta::write_head(&mut out, &arg(a[0])?).unwrap();
            let s = segs(a[1]);
            fasta::write_seq_iter(&mut out, s.iter().map(|x| x.as_slice())).unwrap()
        }
        "fa_wrapiter" => {
            fasta::write_head(&mut out, &arg(a[0])?).unwrap();
            let s = segs(a[1]);
            fasta::write_wrap_seq_iter(&mut out, s.iter().map(|x| x.as_slice()), w).unwrap()
        }
        "fa_wrapseq" => {
            let d = arg(a[1]);
            fasta::write_id_desc(&mut out, &arg(a[0])?, d.as_deref()).unwrap();
            fasta::write_wrap_seq(&mut out, &arg(a[2])?, w).unwrap()
        }
        "fa_owned" => {
            use fasta::Record;
            let r = fasta::OwnedRecord { head: arg(a[0])?, seq: arg(a[1])? };
            r.write(&mut out).unwrap()
        }
        "fa_owned_wrap" => {
            use fasta::Record;
            let r = fasta::OwnedRecord { head: arg(a[0])?, seq: arg(a[1])? };
            r.write_wrap(&mut out, w).unwrap()
        }
        "fa_many" => {
            for rec in a[0].split('|') {
                let (h, s) = rec.split_once(':')?;
                fasta::write_to(&mut out, &unhex(h)?, &unhex(s)?).unwrap();
            }
        }
        "fq_to" => fastq::write_to(&mut out, &arg(a[0])?, &arg(a[1])?, &arg(a[2])?).unwrap(),
        "fq_parts" => {
            let d = arg(a[1]);
            fastq::write_parts(&mut out, &arg(a[0])?, d.as_deref(), &arg(a[2])?, &arg(a[3])?).unwrap()
        }
        "fq_owned" => {
            use fastq::Record;
            let r = fastq::OwnedRecord { head: arg(a[0])?, seq: arg(a[1])?, qual: arg(a[2])? };
            r.write(&mut out).unwrap()
        }
        "fq_many" => {
            for rec in a[0].split('|') {
                let p: Vec<&str> = rec.split(':').collect();
                if p.len() != 3 {
                    return None;
                }
                fastq::write_to(&mut out, &unhex(p[0])?, &unhex(p[1])?, &unhex(p[2])?).unwrap();
            }
        }
        _ => return None,
    }
    Some(())
}

pub fn run_case(line: &str) -> String {
    let t: Vec<&str> = line.trim().split(' ').collect();
    if t.len() != 7 {
        return "bad-case".into();
    }
    let f = t[1];
    let w: usize = match t[2].parse() {
        Ok(w) => w,
        Err(_) => return "bad-case".into(),
    };
    let a: Vec<&str> = t[3..7].to_vec();
    // once into a Vec, once into a writer that takes at most 1..3 bytes per call and has no write_vectored
    // A write into a writer that FAILS after a few bytes comes first, on the same thread (its error is what the crate's
    // functions return; the harness's executor unwraps it, hence the catch): a failed write must leave nothing behind
    // that shows up in the output of later writes.
    let _ = catch_unwind(AssertUnwindSafe(|| {
        let mut fw = FailingWriter { left: line.len() % 7 };
        let _ = emit(&mut fw, f, w, &a);
    }));
    let res = catch_unwind(AssertUnwindSafe(|| -> Option<(Vec<u8>, Vec<u8>)> {
        let mut out: Vec<u8> = vec![];
        emit(&mut out, f, w, &a)?;
        let mut sw = ShortWriter::new(1 + line.len() % 3);
        emit(&mut sw, f, w, &a)?;
        Some((out, sw.out))
    }));
    match res {
        Err(p) => if p.is::<crate::util::HangMarker>() { "HANG".to_string() } else { "PANIC".to_string() },
        Ok(None) => "bad-case".to_string(),
        Ok(Some((out, short))) => {
            let rt = if f.starts_with("fa") { reparse_fasta(&out) } else { reparse_fastq(&out) };
            let sw = if short == out { String::new() } else { format!(" SW:{}", hex_or_dash(&short)) };
            format!("{} RT:{}{}", hex_or_dash(&out), rt, sw)
        }
    }
}

/// accepts `left` bytes, then every write fails with `BrokenPipe`
struct FailingWriter {
    left: usize,
}

impl std::io::Write for FailingWriter {
    fn write(&mut self, buf: &[u8]) -> std::io::Result<usize> {
        if self.left == 0 {
            return Err(std::io::Error::new(std::io::ErrorKind::BrokenPipe, "writer failed"));
        }
        let n = buf.len().min(self.left);
        self.left -= n;
        Ok(n)
    }
    fn flush(&mut self) -> std::io::Result<()> {
        Ok(())
    }
}
