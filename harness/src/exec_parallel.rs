//! `X …`: `read_parallel_init` with a mock `parallel::Reader` whose data sets carry identity tags;
//! every closure boundary is logged into one globally ordered trace.
//! `Y …`: the real `parallel_fasta` / `parallel_fastq` on real readers.

use std::sync::mpsc;
use std::sync::{Arc, Mutex};
use std::time::Duration;

use seq_io::parallel::{self, read_parallel_init};
use seq_io::{fasta, fastq};

use crate::util::*;

type Trace = Arc<Mutex<Vec<String>>>;

fn log(t: &Trace, s: String) {
    t.lock().unwrap().push(s);
}

/// scheduling noise derived from the case seed
fn jitter(seed: u64, salt: u64) {
    let mut r = Rng::new(seed ^ salt.wrapping_mul(0x9E3779B97F4A7C15));
    match r.below(6) {
        0 => {}
        1 => std::thread::yield_now(),
        2 => {
            for _ in 0..r.below(2000) {
                std::hint::spin_loop();
            }
        }
        3 => std::thread::sleep(Duration::from_micros(r.below(200) as u64)),
        4 => std::thread::sleep(Duration::from_micros(r.below(30) as u64)),
        _ => {
            std::thread::yield_now();
            std::thread::yield_now();
        }
    }
}

pub struct MockSet {
    id: usize,
    batch: usize,
    payload: Vec<u64>,
}

struct MockReader {
    n: usize,
    end_err: bool,
    next: usize,
    trace: Trace,
    seed: u64,
}

impl parallel::Reader for MockReader {
    type DataSet = MockSet;
    type Err = String;
    fn fill_data(&mut self, d: &mut MockSet) -> Option<Result<(), String>> {
        jitter(self.seed, 100 + self.next as u64);
        if self.next < self.n {
            d.batch = self.next;
            d.payload.clear();
            d.payload.extend((0..(self.next % 5 + 1) as u64).map(|x| x * 7 + self.next as u64));
            log(&self.trace, format!("f{}.{}", d.id, self.next));
            self.next += 1;
            Some(Ok(()))
        } else if self.end_err {
            log(&self.trace, format!("fe{}", d.id));
            Some(Err("reader failed".to_string()))
        } else {
            log(&self.trace, format!("fn{}", d.id));
            None
        }
    }
}

fn expected_out(batch: usize) -> u64 {
    let s: u64 = (0..(batch % 5 + 1) as u64).map(|x| x * 7 + batch as u64).sum();
    s * 1000 + batch as u64
}

#[derive(Clone)]
pub struct XCase {
    t: u32,
    q: usize,
    n: usize,
    end_err: bool,
    ri_fail: bool,
    ds_fail: Option<usize>,
    stop: Option<usize>,
    cont: bool,
    seed: u64,
}

fn parse_x(line: &str) -> Option<XCase> {
    let t: Vec<&str> = line.trim().split(' ').collect();
    if t.len() != 10 {
        return None;
    }
    let opt = |s: &str| if s == "-" { Some(None) } else { s.parse::<usize>().ok().map(Some) };
    Some(XCase {
        t: t[1].parse().ok()?,
        q: t[2].parse().ok()?,
        n: t[3].parse().ok()?,
        end_err: t[4] == "1",
        ri_fail: t[5] == "1",
        ds_fail: opt(t[6])?,
        stop: opt(t[7])?,
        cont: t[8] == "1",
        seed: t[9].parse().ok()?,
    })
}

#[derive(Debug)]
enum InitErr {
    Reader,
    DataSet,
}
impl From<&'static str> for InitErr {
    fn from(s: &'static str) -> InitErr {
        if s == "reader" {
            InitErr::Reader
        } else {
            InitErr::DataSet
        }
    }
}

fn run_x_inner(c: &XCase, trace: Trace) -> String {
    let seed = c.seed;
    let tr_ri = trace.clone();
    let tr_rd = trace.clone();
    let tr_di = trace.clone();
    let tr_w = trace.clone();
    let tr_c = trace.clone();
    let (n, end_err, ri_fail, ds_fail, stop, cont) = (c.n, c.end_err, c.ri_fail, c.ds_fail, c.stop, c.cont);
    let mut ds_calls = 0usize;
    let mut bad_out = 0usize;
    let mut got = 0usize;
    let res: Result<(), InitErr> = read_parallel_init::<MockReader, InitErr, _, &'static str, u64, _, &'static str, _, _, ()>(
        c.t,
        c.q,
        move || {
            jitter(seed, 1);
            if ri_fail {
                log(&tr_ri, "ri0".to_string());
                Err("reader")
            } else {
                log(&tr_ri, "ri1".to_string());
                Ok(MockReader { n, end_err, next: 0, trace: tr_rd, seed })
            }
        },
        || {
            let idx = ds_calls;
            ds_calls += 1;
            jitter(seed, 200 + idx as u64);
            if ds_fail == Some(idx) {
                log(&tr_di, "di0".to_string());
                Err("dataset")
            } else {
                log(&tr_di, "di1".to_string());
                Ok(MockSet { id: idx, batch: usize::MAX, payload: vec![] })
            }
        },
        move |d: &mut MockSet| {
            jitter(seed, 300 + d.batch as u64);
            let s: u64 = d.payload.iter().sum();
            let out = s * 1000 + d.batch as u64;
            jitter(seed, 400 + d.batch as u64);
            log(&tr_w, format!("we{}.{}", d.id, d.batch));
            out
        },
        |rsets| {
            if stop != Some(0) {
                loop {
                    jitter(seed, 500 + got as u64);
                    match rsets.next() {
                        None => {
                            log(&tr_c, "cn".to_string());
                            break;
                        }
                        Some(Err(_)) => {
                            log(&tr_c, "ce".to_string());
                            if !cont {
                                break;
                            }
                        }
                        Some(Ok((d, o))) => {
                            log(&tr_c, format!("cr{}.{}", d.id, d.batch));
                            if o != expected_out(d.batch) {
                                bad_out += 1;
                            }
                            got += 1;
                            if stop == Some(got) {
                                break;
                            }
                        }
                    }
                }
            }
            log(&tr_c, "cx".to_string());
        },
    );
    let code = match res {
        Ok(()) => 0,
        Err(InitErr::DataSet) => 1,
        Err(InitErr::Reader) => 2,
    };
    log(&trace, format!("ret{}", code));
    format!("bad_out={}", bad_out)
}

pub fn thread_count() -> usize {
    std::fs::read_dir("/proc/self/task").map(|d| d.count()).unwrap_or(0)
}

/// Watchdog wait.  A deadlocked call never returns; a call that is merely starved of CPU (the checks may run on a
/// heavily loaded machine) does, so after the first deadline the wait goes on for a grace period before the call is
/// declared hung.
fn recv_patiently<T>(rx: &std::sync::mpsc::Receiver<T>) -> Result<T, std::sync::mpsc::RecvTimeoutError> {
    match rx.recv_timeout(Duration::from_secs(15)) {
        Err(std::sync::mpsc::RecvTimeoutError::Timeout) => rx.recv_timeout(Duration::from_secs(60)),
        r => r,
    }
}

/// runs under a watchdog: `HANG` if the call has not returned after the deadline
pub fn run_x(line: &str) -> String {
    let c = match parse_x(line) {
        Some(c) => c,
        None => return "bad-case".to_string(),
    };
    let trace: Trace = Arc::new(Mutex::new(vec![]));
    let (tx, rx) = mpsc::channel();
    let t2 = trace.clone();
    let c2 = c.clone();
    std::thread::spawn(move || {
        let r = std::panic::catch_unwind(std::panic::AssertUnwindSafe(|| run_x_inner(&c2, t2)));
        let _ = tx.send(r.map_err(|_| ()));
    });
    // queue length 0: nothing is queued anywhere and no work is under way when the call stands still – whether it comes
    // back is decided within milliseconds, the long patience (meant for loaded machines and slow workers) is not needed
    let got = if c.q == 0 {
        match rx.recv_timeout(Duration::from_secs(3)) {
            Err(std::sync::mpsc::RecvTimeoutError::Timeout) => rx.recv_timeout(Duration::from_secs(3)),
            r => r,
        }
    } else {
        recv_patiently(&rx)
    };
    let verdict = match got {
        Ok(Ok(s)) => s,
        Ok(Err(())) => "PANIC".to_string(),
        Err(_) => "HANG".to_string(),
    };
    let tr = trace.lock().unwrap().join(",");
    format!("{} {}", if tr.is_empty() { "-".to_string() } else { tr }, verdict)
}

// ---------------------------------------------------------------- real readers

/// per-record output whose `Default` counts how often the parallel functions create one
pub struct CountedOut(u64);
static OUT_CREATED: std::sync::atomic::AtomicUsize = std::sync::atomic::AtomicUsize::new(0);
impl Default for CountedOut {
    fn default() -> Self {
        OUT_CREATED.fetch_add(1, std::sync::atomic::Ordering::SeqCst);
        CountedOut(0)
    }
}

/// (largest batch, number of batches, size of the first batch) of plain record-set reads at this
/// capacity (sequential reference)
fn batch_shape(fmt: &str, input: &[u8], cap: usize) -> (usize, usize, usize) {
    let mut sizes = vec![];
    if fmt == "fa" {
        let mut r = fasta::Reader::with_capacity(input, cap);
        let mut rs = fasta::RecordSet::default();
        while let Some(Ok(())) = r.read_record_set(&mut rs) {
            sizes.push(rs.len());
        }
    } else {
        let mut r = fastq::Reader::with_capacity(input, cap);
        let mut rs = fastq::RecordSet::default();
        while let Some(Ok(())) = r.read_record_set(&mut rs) {
            sizes.push(rs.len());
        }
    }
    (sizes.iter().cloned().max().unwrap_or(0), sizes.len(), sizes.first().cloned().unwrap_or(0))
}

fn max_batch(fmt: &str, input: &[u8], cap: usize) -> usize {
    batch_shape(fmt, input, cap).0
}

fn rec_out(head: &[u8], seq_len: usize) -> u64 {
    (head.len() as u64) * 100_000 + seq_len as u64
}

/// `Y <fmt> <T> <Q> <cap> <stop|-> <inputhex>`
///
/// Variants `..5` (`parallel_records`) and `..6` (`parallel_fasta` / `parallel_fastq`) make the worker of the FIRST record
/// sleep for 1.2 s, so that a reader error in a later set reaches the consumer before the result of the first set: the
/// error must then be returned even if the consumer closure would stop early at a record of the late set.  Because the
/// ordering rests on time, an early exit is only reported if it is observed three times in a row.
pub fn run_y(line: &str) -> String {
    let t: Vec<&str> = line.trim().split(' ').collect();
    if t.len() != 7 {
        return "bad-case".to_string();
    }
    if t[1].len() == 3 && (t[1].ends_with('5') || t[1].ends_with('6')) {
        let eff = if t[1].ends_with('5') { format!("{}4", &t[1][..2]) } else { t[1][..2].to_string() };
        let mut last = String::new();
        for _ in 0..3 {
            last = run_y_inner(&t, &eff, true);
            if !last.contains(" STOP SEQ:") {
                break;
            }
        }
        return last;
    }
    run_y_inner(&t, t[1], false)
}

fn run_y_inner(t: &[&str], variant: &str, slow: bool) -> String {
    let slow_flag = Arc::new(std::sync::atomic::AtomicBool::new(slow));
    let fmt = variant.to_string();
    let nt: u32 = t[2].parse().unwrap_or(1);
    let q: usize = t[3].parse().unwrap_or(1);
    let cap: usize = t[4].parse().unwrap_or(64);
    // `<stop|->[@K.k]`: the source fails at its K-th read call (1-based) with error kind k
    let (stop_s, fault) = match t[5].split_once('@') {
        Some((a, b)) => (a, b.split_once('.').and_then(|(x, y)| Some((x.parse::<usize>().ok()?, y.parse::<usize>().ok()?)))),
        None => (t[5], None),
    };
    let stop: Option<usize> = if stop_s == "-" { None } else { stop_s.parse().ok() };
    let input = match unhex(t[6]) {
        Some(i) => i,
        None => return "bad-case".to_string(),
    };
    let seq_tail = sequential_tail(&fmt[..2], &input, cap, fault);
    // growth requests of the reader behind `read_parallel` (set-level variants only: the per-record functions take a
    // reader with the default policy type)
    let grows = Arc::new(std::sync::atomic::AtomicUsize::new(0));
    let grows2 = grows.clone();
    let mb = max_batch(&fmt[..2], &input, cap);
    OUT_CREATED.store(0, std::sync::atomic::Ordering::SeqCst);
    let (tx, rx) = mpsc::channel();
    std::thread::spawn(move || {
        let r = std::panic::catch_unwind(std::panic::AssertUnwindSafe(|| {
            let mut seen: Vec<String> = vec![];
            let mut count = 0usize;
            if fmt.len() == 3 && !fmt.ends_with('4') {
                // `..2`: the arithmetic of the default policy; `..3`: a policy whose threshold is reached after one
                // doubling and that then grows in steps (a long record needs many requests)
                let (pt, pl) = if fmt.ends_with('3') { (2 * cap, 1usize << 22) } else { (1usize << 23, usize::MAX) };
                // the set-level API: `read_parallel` with a `ReusableReader` (as in the crate's documentation)
                let mut tail = "END".to_string();
                if fmt.starts_with("fa") {
                    use fasta::Record;
                    let rdr = parallel::ReusableReader::new(
                        fasta::Reader::with_capacity(faulty_source(input, fault), cap).set_policy(CountingPolicy(seq_io::policy::DoubleUntilLimited::new(pt, pl), grows.clone())),
                    );
                    parallel::read_parallel(
                        rdr,
                        nt,
                        q,
                        |d: &mut (fasta::RecordSet, Vec<u64>)| {
                            d.1.clear();
                            for r in &d.0 {
                                d.1.push(rec_out(r.head(), r.owned_seq().len()));
                            }
                        },
                        |rsets| {
                            'outer: while let Some(res) = rsets.next() {
                                match res {
                                    Err(e) => {
                                        tail = format!("E:{}", hex(e.to_string().as_bytes()));
                                        break;
                                    }
                                    Ok((d, ())) => {
                                        for (r, out) in d.0.into_iter().zip(&d.1) {
                                            let o = r.to_owned_record();
                                            seen.push(format!("h={}:s={}:o={}", hex(&o.head), hex(&o.seq), if *out == rec_out(&o.head, o.seq.len()) { 1 } else { 0 }));
                                            count += 1;
                                            if stop == Some(count) {
                                                tail = "STOP".to_string();
                                                break 'outer;
                                            }
                                        }
                                    }
                                }
                            }
                            // a consumer that asks again after the end marker must be told the end again (and must not
                            // be left waiting: C08 "every consumer behaviour")
                            if tail == "END" && (rsets.next().is_some() || rsets.next().is_some()) {
                                tail = "END!again".to_string();
                            }
                        },
                    );
                } else {
                    use fastq::Record;
                    let rdr = parallel::ReusableReader::new(
                        fastq::Reader::with_capacity(faulty_source(input, fault), cap).set_policy(CountingPolicy(seq_io::policy::DoubleUntilLimited::new(pt, pl), grows.clone())),
                    );
                    parallel::read_parallel(
                        rdr,
                        nt,
                        q,
                        |d: &mut (fastq::RecordSet, Vec<u64>)| {
                            d.1.clear();
                            for r in &d.0 {
                                d.1.push(rec_out(r.head(), r.seq().len()));
                            }
                        },
                        |rsets| {
                            'outer: while let Some(res) = rsets.next() {
                                match res {
                                    Err(e) => {
                                        tail = format!("E:{}", hex(e.to_string().as_bytes()));
                                        break;
                                    }
                                    Ok((d, ())) => {
                                        for (r, out) in d.0.into_iter().zip(&d.1) {
                                            let o = r.to_owned_record();
                                            seen.push(format!("h={}:s={}:q={}:o={}", hex(&o.head), hex(&o.seq), hex(&o.qual), if *out == rec_out(&o.head, o.seq.len()) { 1 } else { 0 }));
                                            count += 1;
                                            if stop == Some(count) {
                                                tail = "STOP".to_string();
                                                break 'outer;
                                            }
                                        }
                                    }
                                }
                            }
                            // a consumer that asks again after the end marker must be told the end again (and must not
                            // be left waiting: C08 "every consumer behaviour")
                            if tail == "END" && (rsets.next().is_some() || rsets.next().is_some()) {
                                tail = "END!again".to_string();
                            }
                        },
                    );
                }
                format!("{} {}", if seen.is_empty() { "-".to_string() } else { seen.join("/") }, tail)
            } else if fmt == "fa4" {
                // the generic per-record function (documented as unusable with older compilers; it works with this one)
                use fasta::Record;
                let rdr = fasta::Reader::with_capacity(faulty_source(input, fault), cap);
                let res = parallel::parallel_records(
                    rdr,
                    nt,
                    q,
                    |rec: fasta::RefRecord, out: &mut CountedOut| {
                        slow_first(&slow_flag);
                        out.0 = rec_out(rec.head(), rec.owned_seq().len());
                    },
                    |rec: fasta::RefRecord, out: &CountedOut| {
                        let o = rec.to_owned_record();
                        seen.push(format!("h={}:s={}:o={}", hex(&o.head), hex(&o.seq), if out.0 == rec_out(&o.head, o.seq.len()) { 1 } else { 0 }));
                        count += 1;
                        if stop == Some(count) {
                            Some(())
                        } else {
                            None
                        }
                    },
                );
                let tail = match res {
                    Ok(Some(())) => "STOP".to_string(),
                    Ok(None) => "END".to_string(),
                    Err(e) => format!("E:{}", hex(e.to_string().as_bytes())),
                };
                format!("{} {}", if seen.is_empty() { "-".to_string() } else { seen.join("/") }, tail)
            } else if fmt == "fq4" {
                use fastq::Record;
                let rdr = fastq::Reader::with_capacity(faulty_source(input, fault), cap);
                let res = parallel::parallel_records(
                    rdr,
                    nt,
                    q,
                    |rec: fastq::RefRecord, out: &mut CountedOut| {
                        slow_first(&slow_flag);
                        out.0 = rec_out(rec.head(), rec.seq().len());
                    },
                    |rec: fastq::RefRecord, out: &CountedOut| {
                        let o = rec.to_owned_record();
                        seen.push(format!("h={}:s={}:q={}:o={}", hex(&o.head), hex(&o.seq), hex(&o.qual), if out.0 == rec_out(&o.head, o.seq.len()) { 1 } else { 0 }));
                        count += 1;
                        if stop == Some(count) {
                            Some(())
                        } else {
                            None
                        }
                    },
                );
                let tail = match res {
                    Ok(Some(())) => "STOP".to_string(),
                    Ok(None) => "END".to_string(),
                    Err(e) => format!("E:{}", hex(e.to_string().as_bytes())),
                };
                format!("{} {}", if seen.is_empty() { "-".to_string() } else { seen.join("/") }, tail)
            } else if fmt == "fa" {
                use fasta::Record;
                let rdr = fasta::Reader::with_capacity(faulty_source(input, fault), cap);
                let res = parallel::parallel_fasta(
                    rdr,
                    nt,
                    q,
                    |rec, out: &mut CountedOut| {
                        slow_first(&slow_flag);
                        out.0 = rec_out(rec.head(), rec.owned_seq().len());
                    },
                    |rec, out| {
                        let o = rec.to_owned_record();
                        seen.push(format!("h={}:s={}:o={}", hex(&o.head), hex(&o.seq), if out.0 == rec_out(&o.head, o.seq.len()) { 1 } else { 0 }));
                        count += 1;
                        if stop == Some(count) {
                            Some(())
                        } else {
                            None
                        }
                    },
                );
                let tail = match res {
                    Ok(Some(())) => "STOP".to_string(),
                    Ok(None) => "END".to_string(),
                    Err(e) => format!("E:{}", hex(e.to_string().as_bytes())),
                };
                format!("{} {}", if seen.is_empty() { "-".to_string() } else { seen.join("/") }, tail)
            } else {
                use fastq::Record;
                let rdr = fastq::Reader::with_capacity(faulty_source(input, fault), cap);
                let res = parallel::parallel_fastq(
                    rdr,
                    nt,
                    q,
                    |rec, out: &mut CountedOut| {
                        slow_first(&slow_flag);
                        out.0 = rec_out(rec.head(), rec.seq().len());
                    },
                    |rec, out| {
                        let o = rec.to_owned_record();
                        seen.push(format!("h={}:s={}:q={}:o={}", hex(&o.head), hex(&o.seq), hex(&o.qual), if out.0 == rec_out(&o.head, o.seq.len()) { 1 } else { 0 }));
                        count += 1;
                        if stop == Some(count) {
                            Some(())
                        } else {
                            None
                        }
                    },
                );
                let tail = match res {
                    Ok(Some(())) => "STOP".to_string(),
                    Ok(None) => "END".to_string(),
                    Err(e) => format!("E:{}", hex(e.to_string().as_bytes())),
                };
                format!("{} {}", if seen.is_empty() { "-".to_string() } else { seen.join("/") }, tail)
            }
        }));
        let _ = tx.send(r.map_err(|_| ()));
    });
    let r = match recv_patiently(&rx) {
        Ok(Ok(s)) => s,
        Ok(Err(())) => "PANIC".to_string(),
        Err(_) => "HANG".to_string(),
    };
    format!(
        "{} SEQ:{} dc={} mb={} gr={}",
        r,
        seq_tail,
        OUT_CREATED.load(std::sync::atomic::Ordering::SeqCst),
        mb,
        grows2.load(std::sync::atomic::Ordering::SeqCst)
    )
}

/// the first caller sleeps (variants `..5` / `..6`)
fn slow_first(flag: &std::sync::atomic::AtomicBool) {
    if flag.swap(false, std::sync::atomic::Ordering::SeqCst) {
        std::thread::sleep(Duration::from_millis(1200));
    }
}

/// counts the growth requests a reader makes to its policy
struct CountingPolicy<P>(P, Arc<std::sync::atomic::AtomicUsize>);

impl<P: seq_io::policy::BufPolicy> seq_io::policy::BufPolicy for CountingPolicy<P> {
    fn grow_to(&mut self, current_size: usize) -> Option<usize> {
        self.1.fetch_add(1, std::sync::atomic::Ordering::SeqCst);
        self.0.grow_to(current_size)
    }
}

/// how sequential reading of the same input ends
/// the input behind a source that fails at its K-th read call and at every later one (whole-buffer reads before that)
fn faulty_source(input: Vec<u8>, fault: Option<(usize, usize)>) -> crate::util::ScriptedReader {
    let script = match fault {
        Some((k, kind)) => {
            let mut s = vec![crate::util::ReadEv::Data(1 << 20); k.saturating_sub(1)];
            // from that call on every read fails: a reader that went on reading after the failure (a retry loop, a
            // swallowed error) would never come back
            s.push(crate::util::ReadEv::Sticky(kind));
            s
        }
        None => vec![],
    };
    crate::util::ScriptedReader::new(input, script, 0, vec![])
}

fn sequential_tail(fmt: &str, input: &[u8], cap: usize, fault: Option<(usize, usize)>) -> String {
    let input = faulty_source(input.to_vec(), fault);
    if fmt == "fa" {
        let mut r = fasta::Reader::with_capacity(input, cap);
        loop {
            match r.next() {
                None => return "END".to_string(),
                Some(Err(e)) => return format!("E:{}", hex(e.to_string().as_bytes())),
                Some(Ok(_)) => {}
            }
        }
    } else {
        let mut r = fastq::Reader::with_capacity(input, cap);
        loop {
            match r.next() {
                None => return "END".to_string(),
                Some(Err(e)) => return format!("E:{}", hex(e.to_string().as_bytes())),
                Some(Ok(_)) => {}
            }
        }
    }
}

// ---------------------------------------------------------------- `Z`: the `_init` variants with failing initialisers

#[derive(Debug)]
enum ZErr {
    Reader,
    RsetData,
    RecData,
    Fa(fasta::Error),
    Fq(fastq::Error),
}
struct EReader;
struct ERset;
struct ERec;
impl From<EReader> for ZErr {
    fn from(_: EReader) -> ZErr {
        ZErr::Reader
    }
}
impl From<ERset> for ZErr {
    fn from(_: ERset) -> ZErr {
        ZErr::RsetData
    }
}
impl From<ERec> for ZErr {
    fn from(_: ERec) -> ZErr {
        ZErr::RecData
    }
}
impl From<fasta::Error> for ZErr {
    fn from(e: fasta::Error) -> ZErr {
        ZErr::Fa(e)
    }
}
impl From<fastq::Error> for ZErr {
    fn from(e: fastq::Error) -> ZErr {
        ZErr::Fq(e)
    }
}

/// `Z <fmt> <T> <Q> <cap> <ri_fail 0|1> <rset_fail -|c> <rec_fail -|k> <stop -|j> <inputhex>`
pub fn run_z(line: &str) -> String {
    use std::sync::atomic::{AtomicUsize, Ordering};
    let t: Vec<&str> = line.trim().split(' ').collect();
    if t.len() != 10 {
        return "bad-case".to_string();
    }
    let fmt = t[1].to_string();
    let nt: u32 = t[2].parse().unwrap_or(1);
    let q: usize = t[3].parse().unwrap_or(1);
    let cap: usize = t[4].parse().unwrap_or(64);
    let ri_fail = t[5] == "1";
    let opt = |s: &str| if s == "-" { None } else { s.parse::<usize>().ok() };
    let rset_fail = opt(t[6]);
    let rec_fail = opt(t[7]);
    let stop = opt(t[8]);
    let input = match unhex(t[9]) {
        Some(i) => i,
        None => return "bad-case".to_string(),
    };
    let (mb, nb, fb) = batch_shape(&fmt, &input, cap);
    let (tx, rx) = mpsc::channel();
    std::thread::spawn(move || {
        let r = std::panic::catch_unwind(std::panic::AssertUnwindSafe(|| {
            let rset_calls = AtomicUsize::new(0);
            let rec_calls = AtomicUsize::new(0);
            let mut seen = 0usize;
            let mut bad = 0usize;
            let res: Result<Option<()>, ZErr> = if fmt == "fa" {
                use fasta::Record;
                parallel::parallel_fasta_init(
                    nt,
                    q,
                    || if ri_fail { Err(EReader) } else { Ok(fasta::Reader::with_capacity(std::io::Cursor::new(input.clone()), cap)) },
                    || if Some(rec_calls.fetch_add(1, Ordering::SeqCst)) == rec_fail { Err(ERec) } else { Ok(0u64) },
                    || if Some(rset_calls.fetch_add(1, Ordering::SeqCst)) == rset_fail { Err(ERset) } else { Ok(0u8) },
                    |rec, out: &mut u64, _s: &mut u8| {
                        *out = rec_out(rec.head(), rec.owned_seq().len());
                    },
                    |rec, out: &mut u64, _s: &mut u8| {
                        let o = rec.to_owned_record();
                        if *out != rec_out(&o.head, o.seq.len()) {
                            bad += 1;
                        }
                        seen += 1;
                        if stop == Some(seen) {
                            Some(())
                        } else {
                            None
                        }
                    },
                )
            } else {
                use fastq::Record;
                parallel::parallel_fastq_init(
                    nt,
                    q,
                    || if ri_fail { Err(EReader) } else { Ok(fastq::Reader::with_capacity(std::io::Cursor::new(input.clone()), cap)) },
                    || if Some(rec_calls.fetch_add(1, Ordering::SeqCst)) == rec_fail { Err(ERec) } else { Ok(0u64) },
                    || if Some(rset_calls.fetch_add(1, Ordering::SeqCst)) == rset_fail { Err(ERset) } else { Ok(0u8) },
                    |rec, out: &mut u64, _s: &mut u8| {
                        *out = rec_out(rec.head(), rec.seq().len());
                    },
                    |rec, out: &mut u64, _s: &mut u8| {
                        let o = rec.to_owned_record();
                        if *out != rec_out(&o.head, o.seq.len()) {
                            bad += 1;
                        }
                        seen += 1;
                        if stop == Some(seen) {
                            Some(())
                        } else {
                            None
                        }
                    },
                )
            };
            let tail = match res {
                Ok(Some(())) => "OK:STOP".to_string(),
                Ok(None) => "OK:END".to_string(),
                Err(ZErr::Reader) => "E:init.reader".to_string(),
                Err(ZErr::RsetData) => "E:init.rset".to_string(),
                Err(ZErr::RecData) => "E:init.rec".to_string(),
                Err(ZErr::Fa(e)) => format!("E:parse.{}", hex(e.to_string().as_bytes())),
                Err(ZErr::Fq(e)) => format!("E:parse.{}", hex(e.to_string().as_bytes())),
            };
            format!(
                "seen={} bad={} {} rsetcalls={} reccalls={}",
                seen,
                bad,
                tail,
                rset_calls.load(Ordering::SeqCst),
                rec_calls.load(Ordering::SeqCst)
            )
        }));
        let _ = tx.send(r.map_err(|_| ()));
    });
    let r = match recv_patiently(&rx) {
        Ok(Ok(s)) => s,
        Ok(Err(())) => "PANIC".to_string(),
        Err(_) => "HANG".to_string(),
    };
    format!("{} mb={} nb={} fb={}", r, mb, nb, fb)
}
