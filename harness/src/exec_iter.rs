//! `I <n> <steps>`: iterator contracts. A FASTA record with `n` distinct sequence lines; `steps` is a
//! word over {f, b} applied to one `seq_lines()` iterator, with `len()` and `size_hint()` queried
//! after every step; plus adaptors, the record-set iterator and the owned-record iterator on a file
//! with `n` records.

use seq_io::fasta;
use seq_io::fastq;

fn line_index(l: &[u8]) -> usize {
    l.len() - 1
}

pub fn build_record(n: usize) -> Vec<u8> {
    let mut f = b">h x\n".to_vec();
    for i in 0..n {
        f.extend(std::iter::repeat(b'A' + i as u8).take(i + 1));
        f.push(b'\n');
    }
    f
}

pub fn build_file(n: usize, fq: bool) -> Vec<u8> {
    let mut f = vec![];
    for i in 0..n {
        if fq {
            f.extend_from_slice(format!("@r{}\nAC\n+\nII\n", i).as_bytes());
        } else {
            f.extend_from_slice(format!(">r{}\nAC\n", i).as_bytes());
        }
    }
    f
}

/// does the size hint bracket the number of items still to come?
fn brackets(h: (usize, Option<usize>), remaining: usize) -> String {
    if h.0 <= remaining && h.1.map(|u| remaining <= u).unwrap_or(true) {
        "b".to_string()
    } else {
        format!("X{}.{:?}/{}", h.0, h.1, remaining)
    }
}

fn hint(h: (usize, Option<usize>)) -> String {
    format!("{}.{}", h.0, h.1.map(|x| x.to_string()).unwrap_or("-".to_string()))
}

pub fn run_case(line: &str) -> String {
    let t: Vec<&str> = line.trim().split(' ').collect();
    if t.len() != 3 {
        return "bad-case".to_string();
    }
    let n: usize = match t[1].parse() {
        Ok(n) => n,
        Err(_) => return "bad-case".to_string(),
    };
    let steps = if t[2] == "-" { "" } else { t[2] };
    let r = std::panic::catch_unwind(|| {
        let input = build_record(n);
        let mut rdr = fasta::Reader::new(&input[..]);
        let rec = rdr.next().unwrap().unwrap();
        let mut it = rec.seq_lines();
        let mut out = vec![];
        for c in steps.chars() {
            let x = if c == 'f' { it.next() } else { it.next_back() };
            out.push(format!(
                "{}:{}:{}",
                x.map(|l| line_index(l).to_string()).unwrap_or("-".to_string()),
                it.len(),
                hint(it.size_hint())
            ));
        }
        let er: Vec<String> = rec.seq_lines().enumerate().rev().map(|(i, l)| format!("{}.{}", i, line_index(l))).collect();
        let mut adv = rec.seq_lines();
        adv.next();
        let ea: Vec<String> = adv.enumerate().rev().map(|(i, l)| format!("{}.{}", i, line_index(l))).collect();
        let rv: Vec<String> = rec.seq_lines().rev().map(|l| line_index(l).to_string()).collect();
        let zp: Vec<String> = rec.seq_lines().zip(rec.seq_lines().rev()).map(|(a, b)| format!("{}.{}", line_index(a), line_index(b))).collect();
        let sk = rec.seq_lines().skip(1).len();
        let ct = rec.seq_lines().collect::<Vec<_>>().len();
        // record-set iterators (both formats) and owned-record iterators
        let mut sets = vec![];
        {
            let file = build_file(n, false);
            let mut r = fasta::Reader::new(&file[..]);
            let mut rs = fasta::RecordSet::default();
            let mut hs = vec![];
            if r.read_record_set(&mut rs).is_some() {
                let mut it = (&rs).into_iter();
                let mut remaining = rs.len();
                hs.push(brackets(it.size_hint(), remaining));
                while it.next().is_some() {
                    remaining -= 1;
                    hs.push(brackets(it.size_hint(), remaining));
                }
                hs.push(if it.next().is_none() && it.next().is_none() { "N".to_string() } else { "S".to_string() });
            }
            sets.push(hs.join(","));
            let file = build_file(n, true);
            let mut r = fastq::Reader::new(&file[..]);
            let mut rs = fastq::RecordSet::default();
            let mut hs = vec![];
            if r.read_record_set(&mut rs).is_some() {
                let mut it = (&rs).into_iter();
                let mut remaining = rs.len();
                hs.push(brackets(it.size_hint(), remaining));
                while it.next().is_some() {
                    remaining -= 1;
                    hs.push(brackets(it.size_hint(), remaining));
                }
                hs.push(if it.next().is_none() && it.next().is_none() { "N".to_string() } else { "S".to_string() });
            }
            sets.push(hs.join(","));
        }
        let mut ow = vec![];
        {
            // records() and into_records() of both readers, driven three steps past the end
            let file = build_file(n, false);
            let mut r = fasta::Reader::new(&file[..]);
            let mut it = r.records();
            for _ in 0..n + 3 {
                let h = it.size_hint();
                let x = it.next();
                ow.push(format!("{}{}", if x.is_some() { "S" } else { "N" }, if h.0 == 0 { "" } else { "!" }));
            }
            let r = fasta::Reader::new(&file[..]);
            let mut it = r.into_records();
            for _ in 0..n + 3 {
                let h = it.size_hint();
                let x = it.next();
                ow.push(format!("{}{}", if x.is_some() { "S" } else { "N" }, if h.0 == 0 { "" } else { "!" }));
            }
            let file = build_file(n, true);
            let mut r = fastq::Reader::new(&file[..]);
            let mut it = r.records();
            for _ in 0..n + 3 {
                let h = it.size_hint();
                let x = it.next();
                ow.push(format!("{}{}", if x.is_some() { "S" } else { "N" }, if h.0 == 0 { "" } else { "!" }));
            }
            let r = fastq::Reader::new(&file[..]);
            let mut it = r.into_records();
            for _ in 0..n + 3 {
                let h = it.size_hint();
                let x = it.next();
                ow.push(format!("{}{}", if x.is_some() { "S" } else { "N" }, if h.0 == 0 { "" } else { "!" }));
            }
        }
        format!(
            "{}|er={}|ea={}|rv={}|zp={}|sk={}|ct={}|rs={}|rq={}|ow={}",
            out.join(","),
            er.join(","),
            ea.join(","),
            rv.join(","),
            zp.join(","),
            sk,
            ct,
            sets[0],
            sets[1],
            ow.join("")
        )
    });
    r.unwrap_or_else(|_| "PANIC".to_string())
}
