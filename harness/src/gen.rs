//! Case generators. Every random choice derives from one `Rng`.

use crate::exec_reader::{Case, Op};
use crate::util::*;
use seq_io::{fasta, fastq};

pub const FA_ALPHA: [u8; 5] = [b'>', b'\n', b'\r', b'A', b' '];
pub const FQ_ALPHA: [u8; 6] = [b'@', b'+', b'\n', b'\r', b'A', b' '];

fn next_only_ops(fmt: &str, input: &[u8]) -> Vec<Op> {
    let k = if fmt == "fa" {
        input.iter().filter(|b| **b == b'>').count() + 2
    } else {
        input.iter().filter(|b| **b == b'\n').count() / 4 + 3
    };
    let mut ops = vec![];
    for _ in 0..k {
        ops.push(Op::Next);
        ops.push(Op::Pos);
    }
    ops
}

/// all strings over `alpha` of length 0..=maxlen
pub fn all_strings(alpha: &[u8], maxlen: usize) -> Vec<Vec<u8>> {
    let mut out = vec![vec![]];
    let mut level: Vec<Vec<u8>> = vec![vec![]];
    for _ in 0..maxlen {
        let mut next = Vec::with_capacity(level.len() * alpha.len());
        for s in &level {
            for a in alpha {
                let mut t = s.clone();
                t.push(*a);
                next.push(t);
            }
        }
        out.extend(next.iter().cloned());
        level = next;
    }
    out
}

/// exhaustive small inputs × every capacity 3..=len+2 × chunkings {whole, 1, 2}
pub fn exhaustive(fmt: &str, maxlen: usize, out: &mut Vec<String>) {
    let alpha: &[u8] = if fmt == "fa" { &FA_ALPHA } else { &FQ_ALPHA };
    for s in all_strings(alpha, maxlen) {
        let ops = next_only_ops(fmt, &s);
        for cap in 3..=(s.len() + 2).max(3) {
            for chunk in [0usize, 1, 2] {
                if chunk == 2 && s.len() < 3 {
                    continue;
                }
                let c = Case {
                kind: "R".to_string(),
                    fmt: fmt.to_string(),
                    cap,
                    pol: PolDesc::Std,
                    chunk,
                    script: vec![],
                    seek_fails: vec![],
                    input: s.clone(),
                    ops: ops.clone(),
                };
                out.push(c.show());
            }
        }
    }
}

fn rand_bytes(rng: &mut Rng, len: usize, alphabet: &[u8]) -> Vec<u8> {
    (0..len).map(|_| *rng.pick(alphabet)).collect()
}

const SEQ_CHARS: &[u8] = b"ACGTNacgt>@+ ;.-";
const HEAD_CHARS: &[u8] = b"abcXYZ019 _|>@+:\t\xc3\xa9\xff\x80";
const QUAL_CHARS: &[u8] = b"IJ#!5@+>~ ";

fn term(rng: &mut Rng, crlf_mode: u8) -> &'static [u8] {
    match crlf_mode {
        0 => b"\n",
        1 => b"\r\n",
        _ => {
            if rng.chance(1, 2) {
                b"\n"
            } else {
                b"\r\n"
            }
        }
    }
}

fn rand_head(rng: &mut Rng) -> Vec<u8> {
    let mut h = if rng.chance(1, 20) {
        // a long identifier (no space before the last few bytes) with multi-byte and invalid UTF-8 around the
        // lengths at which something that keeps or prints identifiers might cut them
        let len = *rng.pick(&[31usize, 32, 33, 63, 64, 65, 66, 127, 128, 129, 255, 256, 257]);
        let mut h = rand_bytes(rng, len, b"abXY01_|:\xc3\xa9\xff\x80\xc3\xa9");
        if rng.chance(1, 3) {
            h.extend_from_slice(b" d");
        }
        h
    } else {
        let len = *rng.pick(&[0usize, 1, 2, 3, 5, 8, 13]);
        rand_bytes(rng, len, HEAD_CHARS)
    };
    // a header must not end in CR (it would be taken for a line terminator)
    while h.last() == Some(&b'\r') {
        h.pop();
    }
    h
}

/// a well-formed FASTA file; `crlf_mode`: 0 = LF, 1 = CRLF, 2 = per line
pub fn valid_fasta(rng: &mut Rng, nrec: usize, crlf_mode: u8, final_term: bool, blank_lines: bool) -> Vec<u8> {
    let mut f = vec![];
    if blank_lines {
        for _ in 0..rng.below(4) {
            f.extend_from_slice(term(rng, crlf_mode));
        }
    }
    for i in 0..nrec {
        f.push(b'>');
        f.extend(rand_head(rng));
        let nlines = *rng.pick(&[0usize, 1, 1, 1, 2, 3, 6]);
        if nlines == 0 && i + 1 == nrec && !final_term {
            break;
        }
        f.extend_from_slice(term(rng, crlf_mode));
        for l in 0..nlines {
            // (one line in eighty is long: what is written back line by line may treat long and short pieces differently)
            let len = if blank_lines && rng.chance(1, 10) {
                0
            } else if rng.chance(1, 80) {
                *rng.pick(&[255usize, 256, 512, 513, 700])
            } else {
                *rng.pick(&[1usize, 2, 3, 4, 7, 12, 30])
            };
            let mut line = rand_bytes(rng, len, SEQ_CHARS);
            if line.first() == Some(&b'>') {
                line[0] = b'A';
            }
            if rng.chance(1, 25) {
                // a line whose content ends in CR (only one CR belongs to the terminator)
                line.push(b'\r');
            }
            f.extend(line);
            if !(i + 1 == nrec && l + 1 == nlines && !final_term) {
                f.extend_from_slice(term(rng, crlf_mode));
            }
        }
    }
    f
}

/// a well-formed FASTQ file
pub fn valid_fastq(rng: &mut Rng, nrec: usize, crlf_mode: u8, final_term: bool, trailing: usize) -> Vec<u8> {
    let mut f = vec![];
    for i in 0..nrec {
        let t: &[u8] = term(rng, crlf_mode);
        f.push(b'@');
        let h = rand_head(rng);
        f.extend(&h);
        f.extend_from_slice(t);
        let len = *rng.pick(&[0usize, 1, 2, 3, 4, 7, 12, 30]);
        f.extend(rand_bytes(rng, len, b"ACGTN"));
        f.extend_from_slice(t);
        f.push(b'+');
        if rng.chance(1, 4) {
            f.extend(&h);
        }
        f.extend_from_slice(t);
        f.extend(rand_bytes(rng, len, QUAL_CHARS));
        if !(i + 1 == nrec && !final_term) {
            f.extend_from_slice(t);
        }
    }
    if final_term {
        for _ in 0..trailing {
            f.extend_from_slice(term(rng, if crlf_mode == 2 { 0 } else { crlf_mode }));
        }
    }
    f
}

pub fn mutate(rng: &mut Rng, f: &mut Vec<u8>) {
    let special: &[u8] = b"\n\r>@+ A\x00\xff";
    let n = rng.range(1, 2);
    for _ in 0..n {
        let kind = rng.below(4);
        if f.is_empty() {
            f.push(*rng.pick(special));
            continue;
        }
        let pos = rng.below(f.len());
        match kind {
            0 => f[pos] = *rng.pick(special),
            1 => f.insert(pos, *rng.pick(special)),
            2 => {
                f.remove(pos);
            }
            _ => f.truncate(pos),
        }
    }
}

pub fn wf_policy(rng: &mut Rng) -> PolDesc {
    match rng.below(6) {
        0 | 1 => PolDesc::Std,
        2 => PolDesc::DoubleUntil(rng.range(1, 40)),
        3 => PolDesc::Add(rng.range(1, 9)),
        4 => PolDesc::Table((0..rng.range(1, 4)).map(|_| rng.range(1, 6)).collect()),
        _ => PolDesc::Limited(rng.range(1, 40), 1 << 20),
    }
}

pub fn refusing_policy(rng: &mut Rng, len: usize) -> PolDesc {
    match rng.below(4) {
        0 => PolDesc::RefuseAt(rng.range(3, len + 4)),
        1 => PolDesc::Limited(rng.range(1, 20), rng.range(3, len + 8)),
        2 => PolDesc::Table((0..rng.range(1, 4)).map(|_| rng.below(5)).collect()),
        _ => PolDesc::Table(vec![0]),
    }
}

pub fn rand_cap(rng: &mut Rng, len: usize) -> usize {
    match rng.below(10) {
        0 => 3,
        1 => 4,
        2 | 3 | 4 | 5 => rng.range(3, len.max(3) + 3),
        6 => rng.range(3, 12),
        7 => len.max(3) + rng.below(3),
        8 => 64,
        _ => 4096,
    }
}

pub fn rand_script(rng: &mut Rng, with_intr: bool) -> (Vec<ReadEv>, usize) {
    let chunk = *rng.pick(&[0usize, 0, 0, 1, 2, 3, 7]);
    let mut script = vec![];
    if rng.chance(1, 2) {
        for _ in 0..rng.below(10) {
            if with_intr && rng.chance(1, 3) {
                script.push(ReadEv::Intr);
            } else {
                script.push(ReadEv::Data(rng.range(1, 9)));
            }
        }
    }
    (script, chunk)
}

pub fn rand_input(fmt: &str, rng: &mut Rng, mutate_pct: usize) -> Vec<u8> {
    let nrec = *rng.pick(&[0usize, 1, 2, 2, 3, 3, 4, 5, 8]);
    let crlf = *rng.pick(&[0u8, 0, 1, 2]);
    let final_term = rng.chance(2, 3);
    let mut f = if fmt == "fa" {
        let bl = rng.chance(1, 3);
        valid_fasta(rng, nrec, crlf, final_term, bl)
    } else {
        let crlf = if crlf == 2 && rng.chance(3, 4) { 0 } else { crlf };
        let tr = *rng.pick(&[0usize, 0, 0, 1, 2, 3]);
        valid_fastq(rng, nrec, crlf, final_term, tr)
    };
    if rng.below(100) < mutate_pct {
        mutate(rng, &mut f);
    }
    f
}

/// grammar-based and mutated files, next-only, permissive policies, chunkings with interrupts
pub fn random_next(fmt: &str, rng: &mut Rng, n: usize, out: &mut Vec<String>) {
    for _ in 0..n {
        let input = rand_input(fmt, rng, 40);
        let (script, chunk) = rand_script(rng, true);
        let c = Case {
                kind: "R".to_string(),
            fmt: fmt.to_string(),
            cap: rand_cap(rng, input.len()),
            pol: wf_policy(rng),
            chunk,
            script,
            seek_fails: vec![],
            ops: next_only_ops(fmt, &input),
            input,
        };
        out.push(c.show());
    }
}

/// positions of all records (and of a final invalid FASTQ record) as a user would index them
pub fn index_positions(fmt: &str, input: &[u8]) -> Vec<(u64, u64)> {
    // The index is built with the crate itself (what a user would do).  The generator must never hang or die
    // because the crate under test does: the source panics after CALL_LIMIT reads, the panic is caught, the
    // number of records is bounded by the input length; whatever was collected until then is used.
    use std::cell::RefCell;
    use std::panic::{catch_unwind, AssertUnwindSafe};
    let v: RefCell<Vec<(u64, u64)>> = RefCell::new(vec![]);
    let limit = input.len() + 2;
    let _ = catch_unwind(AssertUnwindSafe(|| {
        let src = crate::util::ScriptedReader::new(input.to_vec(), vec![], 0, vec![]);
        if fmt == "fa" {
            let mut r = fasta::Reader::new(src);
            for _ in 0..limit {
                let ok = match r.next() {
                    None => break,
                    Some(x) => x.is_ok(),
                };
                if !ok {
                    break;
                }
                if let Some(p) = r.position() {
                    v.borrow_mut().push((p.line(), p.byte()));
                }
            }
        } else {
            let mut r = fastq::Reader::new(src);
            for _ in 0..limit {
                let (ok, ue) = match r.next() {
                    None => break,
                    Some(x) => (x.is_ok(), matches!(x, Err(fastq::Error::UnexpectedEnd { .. }))),
                };
                let p = r.position();
                if !ue {
                    v.borrow_mut().push((p.line(), p.byte()));
                }
                if !ok {
                    break;
                }
            }
        }
    }));
    v.into_inner()
}

pub fn rand_history(fmt: &str, rng: &mut Rng, input: &[u8], with_seek: bool, len: usize) -> Vec<Op> {
    let index = if with_seek { index_positions(fmt, input) } else { vec![] };
    let mut ops = vec![];
    for _ in 0..len {
        match rng.below(20) {
            0..=5 => {
                ops.push(Op::Next);
                if rng.chance(1, 2) {
                    ops.push(Op::Pos);
                }
            }
            6 | 7 => ops.push(Op::Owned),
            8..=10 => {
                ops.push(Op::Set(rng.below(3)));
                ops.extend([Op::Dump(0), Op::Dump(1), Op::Dump(2), Op::Pos]);
            }
            11..=13 => {
                ops.push(Op::Exact(rng.below(3), rng.range(1, 6)));
                ops.extend([Op::Dump(0), Op::Dump(1), Op::Dump(2), Op::Pos]);
            }
            14 => ops.push(Op::Capture(rng.below(4))),
            15 => {
                if rng.chance(1, 2) {
                    ops.push(Op::Capture(rng.below(4)));
                } else {
                    let j = rng.below(3);
                    ops.extend([Op::Shrink(j), Op::Dump(j)]);
                }
            }
            16 | 17 if with_seek => ops.push(Op::SeekSlot(rng.below(4))),
            18 if with_seek && !index.is_empty() => {
                let (l, b) = *rng.pick(&index);
                ops.push(Op::SeekTo(l, b));
            }
            19 if rng.chance(1, 3) => ops.push(Op::SetPolicy(wf_policy(rng))),
            _ => ops.push(Op::Next),
        }
    }
    ops
}

/// random histories over all read operations (and seeks), permissive policies
pub fn histories(fmt: &str, rng: &mut Rng, n: usize, with_seek: bool, mutate_pct: usize, out: &mut Vec<String>) {
    for _ in 0..n {
        let input = rand_input(fmt, rng, mutate_pct);
        let (script, chunk) = rand_script(rng, true);
        let len = rng.range(3, 12);
        let mut ops = rand_history(fmt, rng, &input, with_seek, len);
        // drain
        for _ in 0..3 {
            ops.push(Op::Next);
        }
        let c = Case {
                kind: "R".to_string(),
            fmt: fmt.to_string(),
            cap: rand_cap(rng, input.len()),
            pol: wf_policy(rng),
            chunk,
            script,
            seek_fails: vec![],
            ops,
            input,
        };
        out.push(c.show());
    }
}

/// histories under refusing policies, source faults and seek faults
pub fn faulty(fmt: &str, rng: &mut Rng, n: usize, out: &mut Vec<String>) {
    for _ in 0..n {
        let input = rand_input(fmt, rng, 30);
        let chunk = *rng.pick(&[0usize, 0, 1, 2, 5]);
        let mut script = vec![];
        let mut seek_fails = vec![];
        let pol;
        match rng.below(3) {
            0 => {
                pol = refusing_policy(rng, input.len());
            }
            _ => {
                pol = if rng.chance(1, 4) { refusing_policy(rng, input.len()) } else { wf_policy(rng) };
                let k = rng.below(12);
                for _ in 0..k {
                    if rng.chance(1, 4) {
                        script.push(ReadEv::Intr)
                    } else {
                        script.push(ReadEv::Data(rng.range(1, 9)))
                    }
                }
                script.push(ReadEv::Fail(rng.below(KINDS.len())));
                if rng.chance(1, 3) {
                    for _ in 0..rng.below(5) {
                        script.push(ReadEv::Data(rng.range(1, 9)));
                    }
                    script.push(ReadEv::Fail(rng.below(KINDS.len())));
                }
                if rng.chance(1, 3) {
                    seek_fails.push((rng.below(3), rng.below(KINDS.len())));
                }
            }
        }
        let len = rng.range(3, 10);
        let mut ops = rand_history(fmt, rng, &input, true, len);
        for _ in 0..3 {
            ops.push(Op::Next);
        }
        let c = Case {
                kind: "R".to_string(),
            fmt: fmt.to_string(),
            cap: rand_cap(rng, input.len()),
            pol,
            chunk,
            script,
            seek_fails,
            ops,
            input,
        };
        out.push(c.show());
    }
}

/// a failure at the k-th source call for every k (next-only), all kinds
pub fn fault_sweep(fmt: &str, rng: &mut Rng, n_inputs: usize, out: &mut Vec<String>) {
    for _ in 0..n_inputs {
        let input = rand_input(fmt, rng, 10);
        let cap = rand_cap(rng, input.len()).min(input.len().max(3) + 2);
        let chunk = *rng.pick(&[0usize, 1, 3]);
        let maxk = if chunk == 0 { input.len() / cap.max(1) + 4 } else { (input.len() / chunk + 4).min(40) };
        for k in 0..maxk {
            let mut script: Vec<ReadEv> = (0..k)
                .map(|_| if rng.chance(1, 5) { ReadEv::Intr } else { ReadEv::Data(if chunk == 0 { 1 << 20 } else { chunk }) })
                .collect();
            script.push(ReadEv::Fail(rng.below(KINDS.len())));
            let c = Case {
                kind: "R".to_string(),
                fmt: fmt.to_string(),
                cap,
                pol: PolDesc::Std,
                chunk,
                script,
                seek_fails: vec![],
                ops: next_only_ops(fmt, &input),
                input: input.clone(),
            };
            out.push(c.show());
        }
    }
}

pub fn generate(family: &str, size: usize, seed: u64) -> Vec<String> {
    let mut out = vec![];
    let mut rng = Rng::new(seed ^ family.bytes().fold(0u64, |a, b| a.wrapping_mul(131).wrapping_add(b as u64)));
    match family {
        "fa_exh" => exhaustive("fa", size, &mut out),
        "fq_exh" => exhaustive("fq", size, &mut out),
        "fa_rand" => random_next("fa", &mut rng, size, &mut out),
        "fq_rand" => random_next("fq", &mut rng, size, &mut out),
        "fa_hist" => histories("fa", &mut rng, size, false, 20, &mut out),
        "fq_hist" => histories("fq", &mut rng, size, false, 20, &mut out),
        "fa_seek" => histories("fa", &mut rng, size, true, 20, &mut out),
        "fq_seek" => histories("fq", &mut rng, size, true, 20, &mut out),
        "fa_fault" => faulty("fa", &mut rng, size, &mut out),
        "fq_fault" => faulty("fq", &mut rng, size, &mut out),
        "fa_sweep" => fault_sweep("fa", &mut rng, size, &mut out),
        "fq_sweep" => fault_sweep("fq", &mut rng, size, &mut out),
        "w_fa" => writer_cases("fa", &mut rng, if size >= 100000 { 8 } else { 6 }, size, &mut out),
        "w_fq" => writer_cases("fq", &mut rng, 0, size, &mut out),
        "par_x" => par_x(&mut rng, size, &mut out),
        "fa_path" => path_cases("fa", &mut rng, size, &mut out),
        "fq_path" => path_cases("fq", &mut rng, size, &mut out),
        "fa_zero" => zero_read_cases("fa", &mut rng, size, &mut out),
        "fq_zero" => zero_read_cases("fq", &mut rng, size, &mut out),
        "par_z" => par_z(&mut rng, size, &mut out),
        "iter" => iter_cases(size, &mut out),
        "fa_json" => json_cases("fa", &mut rng, size, &mut out),
        "fq_json" => json_cases("fq", &mut rng, size, &mut out),
        "fa_alloc" => alloc_cases("fa", &mut rng, size, &mut out),
        "fq_alloc" => alloc_cases("fq", &mut rng, size, &mut out),
        "fa_ahist" | "fq_ahist" | "fa_afault" | "fq_afault" => {
            // reader histories measured by the counting allocator (kind `A`): the same generators as the `R` families
            let fmt = &family[..2];
            let mut tmp = vec![];
            if family.ends_with("hist") {
                histories(fmt, &mut rng, size, true, 10, &mut tmp);
            } else {
                faulty(fmt, &mut rng, size, &mut tmp);
            }
            out.extend(tmp.into_iter().map(|l| format!("A{}", &l[1..])));
        }
        "pol" => policy_cases(&mut rng, size, &mut out),
        "fa_two" => two_reader_cases("fa", &mut rng, size, &mut out),
        "fq_two" => two_reader_cases("fq", &mut rng, size, &mut out),
        "fa_amix" => alloc_mixed("fa", &mut rng, size, &mut out),
        "fq_amix" => alloc_mixed("fq", &mut rng, size, &mut out),
        "fa_cfg" => config_lattice("fa", &mut rng, size, &mut out),
        "fq_cfg" => config_lattice("fq", &mut rng, size, &mut out),
        "fa_recode" => recode_groups("fa", &mut rng, size, &mut out),
        "fq_recode" => recode_groups("fq", &mut rng, size, &mut out),
        "par_y" => par_y(&mut rng, size, &mut out),
        _ => {
            eprintln!("unknown family {}", family);
            std::process::exit(2);
        }
    }
    out
}

// ---------------------------------------------------------------- writer cases

fn harg(b: &[u8]) -> String {
    hex_or_dash(b)
}

fn opt_arg(b: &Option<Vec<u8>>) -> String {
    match b {
        None => "~".to_string(),
        Some(x) => harg(x),
    }
}

fn wline(f: &str, w: usize, a: [String; 4]) -> String {
    format!("W {} {} {} {} {} {}", f, w, a[0], a[1], a[2], a[3])
}

fn t() -> String {
    "~".to_string()
}

/// all ways to cut `s` into consecutive non-empty chunks
fn compositions(s: &[u8]) -> Vec<Vec<Vec<u8>>> {
    if s.is_empty() {
        return vec![vec![]];
    }
    let n = s.len();
    let mut out = vec![];
    for mask in 0..(1u32 << (n - 1)) {
        let mut parts = vec![];
        let mut cur = vec![s[0]];
        for i in 1..n {
            if mask & (1 << (i - 1)) != 0 {
                parts.push(cur);
                cur = vec![];
            }
            cur.push(s[i]);
        }
        parts.push(cur);
        out.push(parts);
    }
    out
}

fn segs_arg(parts: &[Vec<u8>]) -> String {
    if parts.is_empty() {
        return "~".to_string();
    }
    parts.iter().map(|p| hex(p)).collect::<Vec<_>>().join("|")
}

pub fn writer_cases(fmt: &str, rng: &mut Rng, maxlen: usize, nrand: usize, out: &mut Vec<String>) {
    if fmt == "fa" {
        // exhaustive: every sequence over {A,C} up to maxlen x widths 1..5 x every chunking (+ empty chunks)
        let h = b"id d".to_vec();
        for s in all_strings(b"AC", maxlen) {
            out.push(wline("fa_to", 0, [harg(&h), harg(&s), t(), t()]));
            for w in 1..=5usize {
                out.push(wline("fa_wrap", w, [harg(b"id"), harg(b"d"), harg(&s), t()]));
                out.push(wline("fa_owned_wrap", w, [harg(&h), harg(&s), t(), t()]));
                for parts in compositions(&s) {
                    out.push(wline("fa_wrapiter", w, [harg(&h), segs_arg(&parts), t(), t()]));
                    if !parts.is_empty() && parts.len() <= 3 {
                        // with empty chunks at every position
                        for k in 0..=parts.len() {
                            let mut p2 = parts.clone();
                            p2.insert(k, vec![]);
                            out.push(wline("fa_wrapiter", w, [harg(&h), segs_arg(&p2), t(), t()]));
                        }
                    }
                }
            }
            for parts in compositions(&s) {
                out.push(wline("fa_seqiter", 0, [harg(&h), segs_arg(&parts), t(), t()]));
            }
        }
        out.push(wline("fa_wrap", 0, [harg(b"id"), t(), harg(b"ACGT"), t()]));
        out.push(wline("fa_wrapiter", 0, [harg(b"id"), harg(b"ACGT"), t(), t()]));
        for _ in 0..nrand {
            let in_domain = rng.chance(4, 5);
            let h = rand_head(rng);
            let seq_alpha: &[u8] = if in_domain { b"ACGTN @+;x" } else { b"ACG>\r\n T" };
            // one case in twenty: a long sequence (around the sizes at which a writer might switch between buffering and
            // writing through), cut into short AND long chunks, wrapped at small and large widths
            let big = rng.chance(1, 20);
            let slen = if big { *rng.pick(&[255usize, 256, 257, 511, 512, 513, 600, 1024, 1025, 1500, 4100]) } else { *rng.pick(&[0usize, 1, 2, 3, 5, 9, 20, 61]) };
            let s = rand_bytes(rng, slen, seq_alpha);
            let w = if big && rng.chance(1, 2) { *rng.pick(&[60usize, 255, 256, 511, 512, 513]) } else { rng.range(1, 12) };
            let (id, desc) = match h.iter().position(|b| *b == b' ') {
                Some(p) if rng.chance(2, 3) => (h[..p].to_vec(), Some(h[p + 1..].to_vec())),
                _ => (h.clone(), None),
            };
            match rng.below(9) {
                0 => out.push(wline(if w % 2 == 0 { "fa_to" } else { "fa_seq" }, 0, [harg(&h), harg(&s), t(), t()])),
                1 => out.push(wline("fa_parts", 0, [harg(&id), opt_arg(&desc), harg(&s), t()])),
                2 => out.push(wline("fa_wrap", w, [harg(&id), opt_arg(&desc), harg(&s), t()])),
                3 => out.push(wline("fa_wrapseq", w, [harg(&id), opt_arg(&desc), harg(&s), t()])),
                4 => out.push(wline("fa_owned", 0, [harg(&h), harg(&s), t(), t()])),
                5 => out.push(wline("fa_owned_wrap", w, [harg(&h), harg(&s), t(), t()])),
                6 | 7 => {
                    // random chunking with empty chunks
                    let mut parts: Vec<Vec<u8>> = vec![];
                    let mut i = 0;
                    while i < s.len() {
                        if rng.chance(1, 6) {
                            parts.push(vec![]);
                        }
                        let l = if big && rng.chance(1, 3) {
                            (*rng.pick(&[255usize, 256, 511, 512, 513, 1024])).min(s.len() - i)
                        } else {
                            rng.range(1, (s.len() - i).min(9))
                        };
                        parts.push(s[i..i + l].to_vec());
                        i += l;
                    }
                    if rng.chance(1, 6) {
                        parts.push(vec![]);
                    }
                    let f = if rng.chance(1, 2) { "fa_wrapiter" } else { "fa_seqiter" };
                    out.push(wline(f, w, [harg(&h), segs_arg(&parts), t(), t()]));
                }
                _ => {
                    let n = rng.range(1, 5);
                    let recs: Vec<String> = (0..n)
                        .map(|_| {
                            let h = rand_head(rng);
                            let l = *rng.pick(&[0usize, 1, 3, 8, 20]);
                            let s = rand_bytes(rng, l, b"ACGTN @+;x");
                            format!("{}:{}", hex(&h), hex(&s))
                        })
                        .collect();
                    out.push(wline("fa_many", 0, [recs.join("|"), t(), t(), t()]));
                }
            }
        }
    } else {
        for _ in 0..nrand {
            let in_domain = rng.chance(4, 5);
            let h = rand_head(rng);
            let slen = *rng.pick(&[0usize, 1, 2, 3, 5, 9, 20, 61]);
            let s = rand_bytes(rng, slen, if in_domain { b"ACGTN" } else { b"ACG\r\nT" });
            let qlen = if in_domain || rng.chance(1, 2) { slen } else { rng.below(8) };
            let q = rand_bytes(rng, qlen, if in_domain { QUAL_CHARS } else { b"I#\r\n@+" });
            let (id, desc) = match h.iter().position(|b| *b == b' ') {
                Some(p) if rng.chance(2, 3) => (h[..p].to_vec(), Some(h[p + 1..].to_vec())),
                _ => (h.clone(), None),
            };
            match rng.below(4) {
                0 => out.push(wline("fq_to", 0, [harg(&h), harg(&s), harg(&q), t()])),
                1 => out.push(wline("fq_parts", 0, [harg(&id), opt_arg(&desc), harg(&s), harg(&q)])),
                2 => out.push(wline("fq_owned", 0, [harg(&h), harg(&s), harg(&q), t()])),
                _ => {
                    let n = rng.range(1, 5);
                    let recs: Vec<String> = (0..n)
                        .map(|_| {
                            let h = rand_head(rng);
                            let l = *rng.pick(&[0usize, 1, 3, 8, 20]);
                            let s = rand_bytes(rng, l, b"ACGTN");
                            let q = rand_bytes(rng, l, QUAL_CHARS);
                            format!("{}:{}:{}", hex(&h), hex(&s), hex(&q))
                        })
                        .collect();
                    out.push(wline("fq_many", 0, [recs.join("|"), t(), t(), t()]));
                }
            }
        }
    }
}

// ---------------------------------------------------------------- parallel cases

pub fn par_x(rng: &mut Rng, size: usize, out: &mut Vec<String>) {
    for i in 0..size {
        let small = i % 2 == 0;
        let t = if small { rng.range(1, 2) } else { rng.range(1, 4) };
        let q = if small { rng.range(1, 2) } else { rng.range(1, 4) };
        let n = if small { rng.below(4) } else { *rng.pick(&[0usize, 1, 2, 3, 5, 8, 20, 40]) };
        let end_err = rng.chance(1, 3);
        let ri_fail = rng.chance(1, 15);
        let ds_fail = if rng.chance(1, 8) { Some(rng.below(q + 1)) } else { None };
        let stop = if rng.chance(1, 2) { None } else { Some(rng.below(n + 2)) };
        let cont = end_err && rng.chance(1, 2);
        let o = |x: Option<usize>| x.map(|v| v.to_string()).unwrap_or("-".to_string());
        out.push(format!(
            "X {} {} {} {} {} {} {} {} {}",
            t, q, n, end_err as u8, ri_fail as u8, o(ds_fail), o(stop), cont as u8, rng.next() % 1_000_000
        ));
    }
    // the corners of "every thread count, every queue length": queue length 0 with a consumer that never asks / that stops
    // before asking (fine), zero worker threads, and – last, because a call that does not come back keeps its threads –
    // queue length 0 with a consumer that asks (one input record, no input at all)
    for c in ["X 1 0 1 0 0 - 0 0", "X 2 0 3 1 0 - 0 0", "X 1 0 1 0 1 - - 0", "X 1 0 2 0 0 0 - 0", "X 0 1 1 0 0 - - 0", "X 0 2 0 0 0 - 0 0", "X 1 0 1 0 0 - - 0", "X 2 0 0 0 0 - - 0"] {
        out.push(format!("{} {}", c, rng.next() % 1_000_000));
    }
}

pub fn par_y(rng: &mut Rng, size: usize, out: &mut Vec<String>) {
    for _ in 0..size {
        let fmt = if rng.chance(1, 2) { "fa" } else { "fq" };
        let mut input = vec![];
        // several files glued only when valid: keep it simple, one generated file (0-8 records), often larger
        let reps = *rng.pick(&[1usize, 1, 2, 4]);
        let mutated = rng.chance(1, 4);
        for r in 0..reps {
            let mut f = rand_input(fmt, rng, 0);
            if !f.is_empty() && *f.last().unwrap() != b'\n' {
                f.push(b'\n');
            }
            // leading blank lines only in the first part
            if r > 0 {
                while f.first() == Some(&b'\n') || f.first() == Some(&b'\r') {
                    f.remove(0);
                }
            }
            if fmt == "fq" {
                while f.ends_with(b"\n\n") {
                    f.pop();
                }
                while f.ends_with(b"\r\n\r\n") {
                    f.pop();
                    f.pop();
                }
            }
            input.extend(f);
        }
        if mutated {
            mutate(rng, &mut input);
        }
        let t = rng.range(1, 4);
        let q = rng.range(1, 3);
        let mut cap = *rng.pick(&[3usize, 8, 16, 33, 64, 200, 4096]);
        // a tenth of the cases: many records of one size that divides the buffer capacity (every fill ends exactly on a
        // record boundary), input much longer than the queue of data sets
        let aligned = !mutated && rng.chance(1, 10);
        if aligned {
            let k = rng.range(2, 6);
            let n = rng.range(40, 200);
            input.clear();
            for i in 0..n {
                if fmt == "fa" {
                    input.extend_from_slice(format!(">r{:02}\nACGTACGTAC\n", i % 100).as_bytes());
                } else {
                    input.extend_from_slice(format!("@{:02}\nACGT\n+\nIIII\n", i % 100).as_bytes());
                }
            }
            cap = 16 * k;
        }
        let mut stop = if rng.chance(1, 4) { Some(rng.range(1, 6)) } else { None };
        // one case in forty: the worker of the first record is slow, the second record set is invalid, and the consumer
        // would stop at the first record: the reader's error reaches the consumer first and has to be returned
        let slow = !aligned && rng.chance(1, 100);
        if slow {
            input.clear();
            if fmt == "fa" {
                input.extend_from_slice(b">a one\nACGTACGT\n");
                cap = input.len() + 2;
                input.extend_from_slice(b">b\nAC\n>c\nGT\n");
            } else {
                input.extend_from_slice(b"@a one\nACGT\n+\nIIII\n");
                cap = input.len() + 2;
                input.extend_from_slice(b"@b\nAC\n-\nII\n@c\nGT\n+\nII\n");
            }
            stop = Some(1);
        }
        // a sixth of the cases: the byte source fails at one of its first read calls (any error kind)
        // (the first or the second call: those are reached by sequential and by batch-wise reading alike)
        let fault = if slow && fmt == "fa" {
            // FASTA has no format error after the first record: the source fails at its second read call instead
            "@2.3".to_string()
        } else if slow {
            String::new()
        } else if rng.chance(1, 6) { format!("@{}.{}", rng.range(1, 3), rng.below(crate::util::KINDS.len())) } else { String::new() };
        // a third of the cases go through the set-level API (`read_parallel` + `ReusableReader`)
        // a third of the cases go through the set-level API, half of those with a non-default growth policy
        let api = match rng.below(7) {
            0 => format!("{}2", fmt),
            1 => format!("{}3", fmt),
            // the generic per-record function `parallel_records`
            2 => format!("{}4", fmt),
            _ => fmt.to_string(),
        };
        let api = if slow { format!("{}{}", fmt, if rng.chance(1, 2) { 5 } else { 6 }) } else { api };
        let (t, q) = if slow { (2, 2) } else { (t, q) };
        out.push(format!(
            "Y {} {} {} {} {} {}",
            api, t, q, cap, stop.map(|v| v.to_string()).unwrap_or("-".to_string()) + &fault, hex_or_dash(&input)
        ));
    }
}

// ---------------------------------------------------------------- configuration lattice (C03)

pub const CFG_GROUP: usize = 6;

/// every input under six configurations (capacity x policy x chunking / interrupts)
fn config_free_history(fmt: &str, rng: &mut Rng, input: &[u8]) -> Vec<Op> {
    let len = rng.range(3, 10);
    let raw = rand_history(fmt, rng, input, true, len);
    let mut ops = vec![];
    let mut after_single = false;
    for op in raw {
        match op {
            Op::Set(j) => {
                ops.push(Op::Exact(j, rng.range(1, 5)));
                after_single = false;
            }
            Op::Exact(..) | Op::SeekSlot(_) | Op::SeekTo(..) => {
                ops.push(op);
                after_single = false;
            }
            Op::Next | Op::Owned | Op::OwnedJson => {
                ops.push(op);
                after_single = true;
            }
            Op::Pos | Op::Capture(_) => {
                if after_single {
                    ops.push(op);
                }
            }
            Op::SetPolicy(_) => {}
            other => ops.push(other),
        }
    }
    for _ in 0..3 {
        ops.push(Op::Next);
    }
    ops
}

/// see `config_lattice`
fn tight_input(fmt: &str, rng: &mut Rng, cap: usize) -> Vec<u8> {
    let mut f: Vec<u8> = vec![];
    let mut rec = |f: &mut Vec<u8>, total: usize, k: usize| {
        // one record of `total` bytes in all (terminators included)
        if fmt == "fa" {
            let id = format!(">r{}", k);
            f.extend_from_slice(id.as_bytes());
            f.push(b'\n');
            let body = total.saturating_sub(id.len() + 2);
            f.extend(std::iter::repeat(b'A').take(body));
            f.push(b'\n');
        } else {
            let id = format!("@r{}", k);
            let body = total.saturating_sub(id.len() + 5);
            f.extend_from_slice(id.as_bytes());
            if body % 2 == 1 {
                f.push(b'x');
            }
            f.push(b'\n');
            f.extend(std::iter::repeat(b'A').take(body / 2));
            f.extend_from_slice(b"\n+\n");
            f.extend(std::iter::repeat(b'I').take(body / 2));
            f.push(b'\n');
        }
    };
    // the short prefix
    match rng.below(4) {
        0 => f.extend(std::iter::repeat(b'\n').take(rng.range(1, 4))),
        1 => rec(&mut f, 6 + rng.below(4), 0),
        2 => {}
        _ => {
            if fmt == "fa" {
                f.extend_from_slice(b">\n");
            } else {
                f.extend_from_slice(b"@\n\n+\n\n");
            }
        }
    }
    for k in 1..rng.range(2, 5) {
        let total = if rng.chance(2, 3) { cap - rng.below(6) } else { rng.range(8, cap) };
        rec(&mut f, total.max(8), k);
    }
    f
}

pub fn config_lattice(fmt: &str, rng: &mut Rng, n_inputs: usize, out: &mut Vec<String>) {
    for _ in 0..n_inputs {
        // one group in five: a "tight" file for a buffer that may not grow – a few bytes (blank lines or a minimal record)
        // followed by a record about as long as the buffer: it fits only once it has been moved to the buffer's start
        let tight_cap = *rng.pick(&[64usize, 96, 128, 256]);
        let tight = rng.chance(1, 5);
        let input = if tight { tight_input(fmt, rng, tight_cap) } else { rand_input(fmt, rng, 30) };
        // half of the groups: plain record-by-record reading; the other half: a history whose observations do not
        // legitimately depend on the configuration (no plain set reads – their batch size may depend on the capacity –,
        // positions only asked right after a single read, no policy change)
        let plain = rng.chance(1, 2);
        let ops = if plain { next_only_ops(fmt, &input) } else { config_free_history(fmt, rng, &input) };
        let len = input.len().max(3);
        let mut intr_script = vec![];
        for _ in 0..rng.range(2, 12) {
            intr_script.push(if rng.chance(1, 2) { ReadEv::Intr } else { ReadEv::Data(rng.range(1, 5)) });
        }
        let (rs, rc) = rand_script(rng, true);
        // third configuration: DoubleUntil, or DoubleUntilLimited whose limit is a size its own growth chain reaches
        // exactly (the documentation permits sizes up to and including the limit)
        let third: (usize, PolDesc, usize, Vec<ReadEv>) = if rng.chance(1, 2) {
            (rng.range(3, len + 2), PolDesc::DoubleUntil(rng.range(1, 30)), 0, vec![])
        } else {
            let cap0 = rng.range(3, 9);
            let t = rng.range(1, 12);
            let target = rng.range(len / 2 + 1, len + 4);
            let mut c = cap0;
            while c < target {
                c = if c < t { c * 2 } else { c + t };
            }
            (cap0, PolDesc::Limited(t, c + *rng.pick(&[0usize, 0, 0, 1])), 0, vec![])
        };
        // fifth configuration: a capacity larger than the input; in half of the plain groups the reader is opened from a
        // file path with that capacity (`P` case) under a policy that allows no growth at all – none is needed
        let big = len + 1 + rng.below(4096);
        let from_path = plain && rng.chance(1, 2);
        let fifth = if from_path {
            let cap = len + 1 + rng.below(24);
            (cap, PolDesc::Limited(rng.range(1, 2 * cap), cap), 0, vec![])
        } else {
            (big, PolDesc::Std, rc, rs)
        };
        let cfgs: Vec<(usize, PolDesc, usize, Vec<ReadEv>)> = vec![
            (3, PolDesc::Std, 1, vec![]),
            (rng.range(3, 9), PolDesc::Add(1), 2, intr_script),
            third,
            if tight { (tight_cap, PolDesc::Limited(rng.range(1, 300), tight_cap), 0, vec![]) } else { (64, PolDesc::Std, 0, vec![]) },
            fifth,
            (rng.range(3, len + 2), PolDesc::Table((0..3).map(|_| rng.range(1, 7)).collect()), *rng.pick(&[0usize, 3, 7]), vec![]),
        ];
        for (k, (cap, pol, chunk, script)) in cfgs.into_iter().enumerate() {
            let kind = if k == 4 && from_path { "P" } else { "R" };
            let c = Case { kind: kind.to_string(), fmt: fmt.to_string(), cap, pol, chunk, script, seek_fails: vec![], input: input.clone(), ops: ops.clone() };
            out.push(c.show());
        }
    }
}

// ---------------------------------------------------------------- encodings of well-formed files (C11, C12)

pub const RECODE_GROUP: usize = 6;

fn field_bytes(rng: &mut Rng, len: usize, alphabet: &[u8]) -> Vec<u8> {
    rand_bytes(rng, len, alphabet)
}

pub fn recode_groups(fmt: &str, rng: &mut Rng, n_files: usize, out: &mut Vec<String>) {
    for _ in 0..n_files {
        let nrec = *rng.pick(&[1usize, 1, 2, 3, 4, 6]);
        // logical content, fields free of CR / LF
        let mut fa: Vec<(Vec<u8>, Vec<Vec<u8>>)> = vec![];
        let mut fq: Vec<(Vec<u8>, Vec<u8>, Vec<u8>, bool)> = vec![];
        for _ in 0..nrec {
            let mut h = rand_head(rng);
            h.retain(|b| *b != b'\r');
            if fmt == "fa" {
                let nl = *rng.pick(&[0usize, 1, 1, 2, 3, 5]);
                let lines = (0..nl)
                    .map(|_| {
                        let l = *rng.pick(&[1usize, 2, 3, 5, 9, 20]);
                        let mut x = field_bytes(rng, l, b"ACGTNacgt@+;. -");
                        if x[0] == b'>' {
                            x[0] = b'A';
                        }
                        x
                    })
                    .collect();
                let mut lines: Vec<Vec<u8>> = lines;
                // empty sequence lines (legal: they belong to the record and change no sequence) – not in the last
                // record, where an unterminated empty last line would not exist at all
                if fa.len() + 1 < nrec {
                    if !lines.is_empty() && rng.chance(1, 8) {
                        let at = rng.below(lines.len());
                        lines.insert(at, vec![]);
                    }
                    if rng.chance(1, 4) {
                        for _ in 0..rng.range(1, 3) {
                            lines.push(vec![]);
                        }
                    }
                }
                fa.push((h, lines));
            } else {
                let l = *rng.pick(&[0usize, 1, 2, 4, 9, 20]);
                fq.push((h, field_bytes(rng, l, b"ACGTN"), field_bytes(rng, l, b"IJ#!5@+>~ "), rng.chance(1, 4)));
            }
        }
        let lead_blank = *rng.pick(&[0usize, 0, 1, 2, 3, 5]);
        for variant in 0..RECODE_GROUP {
            // 0 LF+term, 1 LF-noterm, 2 CRLF+term, 3 CRLF-noterm, 4/5 format specific
            let mut f: Vec<u8> = vec![];
            let mut vr = Rng::new(rng.next());
            let mut term = |f: &mut Vec<u8>, vr: &mut Rng| match variant {
                0 | 1 => f.push(b'\n'),
                2 | 3 => f.extend_from_slice(b"\r\n"),
                4 if fmt == "fq" => f.push(b'\n'),
                5 if fmt == "fq" => f.extend_from_slice(b"\r\n"),
                _ => {
                    if vr.chance(1, 2) {
                        f.push(b'\n')
                    } else {
                        f.extend_from_slice(b"\r\n")
                    }
                }
            };
            let final_term = match variant {
                1 | 3 => false,
                5 if fmt == "fa" => false,
                _ => true,
            };
            if fmt == "fa" {
                let n = fa.len();
                // leading blank lines are part of the format: the same number in every encoding
                for _ in 0..lead_blank {
                    term(&mut f, &mut vr);
                }
                for (i, (h, lines)) in fa.iter().enumerate() {
                    f.push(b'>');
                    f.extend(h);
                    let last_rec = i + 1 == n;
                    if !(last_rec && lines.is_empty() && !final_term) {
                        term(&mut f, &mut vr);
                    }
                    for (j, l) in lines.iter().enumerate() {
                        f.extend(l);
                        if !(last_rec && j + 1 == lines.len() && !final_term) {
                            term(&mut f, &mut vr);
                        }
                    }
                }
            } else {
                let n = fq.len();
                for (i, (h, s, q, rep)) in fq.iter().enumerate() {
                    f.push(b'@');
                    f.extend(h);
                    term(&mut f, &mut vr);
                    f.extend(s);
                    term(&mut f, &mut vr);
                    f.push(b'+');
                    if *rep {
                        f.extend(h);
                    }
                    term(&mut f, &mut vr);
                    f.extend(q);
                    if !(i + 1 == n && !final_term) {
                        term(&mut f, &mut vr);
                    } else if variant == 3 && vr.chance(1, 2) {
                        // a CRLF file that lost only the final line feed
                        f.push(b'\r');
                    }
                }
                if variant >= 4 {
                    for _ in 0..vr.range(1, 2) {
                        term(&mut f, &mut vr);
                    }
                }
            }
            let c = Case {
                kind: "R".to_string(),
                fmt: fmt.to_string(),
                cap: rand_cap(rng, f.len()),
                pol: PolDesc::Std,
                chunk: *rng.pick(&[0usize, 0, 1, 5]),
                script: vec![],
                seek_fails: vec![],
                ops: next_only_ops(fmt, &f),
                input: f,
            };
            out.push(c.show());
        }
    }
}

// ---------------------------------------------------------------- serialisation (C19) and allocation (C18) cases

/// FASTA records wrapped at a fixed width – many lines of equal length – whose last line is shorter, equal, or LONGER
/// than the others, some with a CRLF terminator on single lines: regular enough for any compact encoding of line offsets
/// to apply, irregular exactly where such an encoding has to notice
pub fn wrapped_fasta(rng: &mut Rng) -> Vec<u8> {
    let mut f = vec![];
    for _ in 0..rng.range(1, 4) {
        f.push(b'>');
        f.extend(rand_head(rng));
        f.push(b'\n');
        let w = rng.range(1, 12);
        let nl = *rng.pick(&[2usize, 3, 7, 8, 9, 10, 14, 20]);
        for l in 0..nl {
            let last = l + 1 == nl;
            let len = if last { *rng.pick(&[1, w, w, w + 1, 2 * w, 3 * w + 1]) } else { w };
            f.extend(rand_bytes(rng, len, b"ACGT"));
            // a CR before the line feed: on the last full-width line, the last line, or (rarely) anywhere
            let cr = if last || l + 2 == nl { rng.chance(1, 4) } else { rng.chance(1, 40) };
            if cr {
                f.push(b'\r');
            }
            f.push(b'\n');
        }
    }
    f
}

pub fn json_cases(fmt: &str, rng: &mut Rng, n: usize, out: &mut Vec<String>) {
    for _ in 0..n {
        let input = if fmt == "fa" && rng.chance(1, 3) { wrapped_fasta(rng) } else { rand_input(fmt, rng, 15) };
        let mut ops = vec![];
        for _ in 0..rng.range(2, 8) {
            match rng.below(6) {
                0 | 1 => {
                    let j = rng.below(2);
                    ops.push(Op::Set(j));
                    ops.push(Op::Json(j));
                }
                2 | 3 => {
                    let j = rng.below(2);
                    ops.push(Op::Exact(j, rng.range(1, 4)));
                    ops.push(Op::Json(j));
                }
                4 => ops.push(Op::OwnedJson),
                _ => ops.push(Op::Next),
            }
        }
        ops.push(Op::Json(0));
        ops.push(Op::Json(1));
        let c = Case {
            kind: "R".to_string(),
            fmt: fmt.to_string(),
            cap: rand_cap(rng, input.len()),
            pol: PolDesc::Std,
            chunk: 0,
            script: vec![],
            seek_fails: vec![],
            ops,
            input,
        };
        out.push(c.show());
    }
}

pub fn alloc_cases(fmt: &str, rng: &mut Rng, n: usize, out: &mut Vec<String>) {
    for _ in 0..n {
        // uniform records: same shape throughout, so that "no larger than already seen" holds after warm-up
        let nrec = rng.range(12, 40);
        let hl = rng.range(1, 8);
        let sl = rng.range(1, 30);
        let nl = rng.range(1, 4);
        // line terminators: all LF, all CRLF, or chosen per line; in a quarter of the files the last line has none
        let mode = rng.below(4);
        let mut lines: Vec<Vec<u8>> = vec![];
        for _ in 0..nrec {
            if fmt == "fa" {
                let mut h = vec![b'>'];
                h.extend(rand_bytes(rng, hl, b"abcdef"));
                lines.push(h);
                for _ in 0..nl {
                    lines.push(rand_bytes(rng, sl, b"ACGT"));
                }
            } else {
                let mut h = vec![b'@'];
                h.extend(rand_bytes(rng, hl, b"abcdef"));
                lines.push(h);
                lines.push(rand_bytes(rng, sl, b"ACGT"));
                lines.push(vec![b'+']);
                lines.push(rand_bytes(rng, sl, b"IJK"));
            }
        }
        let open_end = rng.chance(1, 4);
        let mut f = vec![];
        let nlines = lines.len();
        for (i, l) in lines.into_iter().enumerate() {
            f.extend(l);
            if i + 1 == nlines && open_end {
                break;
            }
            let crlf = match mode {
                0 | 1 => false,
                2 => true,
                _ => rng.chance(1, 2),
            };
            f.extend_from_slice(if crlf { b"\r\n" } else { b"\n" });
        }
        let rec_size = f.len() / nrec;
        // (exact multiples of the record size: every fill then ends on a record boundary)
        let cap = *rng.pick(&[rec_size * 3 + 7, rec_size * 5 + 1, rec_size * 3, rec_size * 4, 1024, 4096, 65536]);
        let mut ops = vec![];
        match rng.below(6) {
            0 => {
                for _ in 0..nrec + 2 {
                    ops.push(Op::Next);
                }
            }
            1 => {
                for _ in 0..nrec {
                    ops.push(Op::Set(0));
                }
            }
            2 => {
                for i in 0..nrec {
                    ops.push(Op::Set(i % 2));
                }
            }
            3 => {
                // one record at a time into a reused set
                for _ in 0..nrec {
                    ops.push(Op::Exact(0, 1));
                }
            }
            _ => {
                // switches between single reads and set reads at every phase of the buffer
                let mut left = nrec + 4;
                while left > 0 {
                    let k = rng.range(1, 7).min(left);
                    for _ in 0..k {
                        ops.push(Op::Next);
                    }
                    ops.push(Op::Set(0));
                    left -= k;
                }
            }
        }
        let c = Case {
            kind: "A".to_string(),
            fmt: fmt.to_string(),
            cap: cap.max(3),
            pol: PolDesc::Std,
            chunk: *rng.pick(&[0usize, 0, 7]),
            script: vec![],
            seek_fails: vec![],
            ops,
            input: f,
        };
        out.push(c.show());
    }
}

/// Two readers that share the three record sets (and the position slots): a history on reader A, then a second
/// reader B is opened (`T<input>`) over (a) the same content with the other line terminator, (b) a file of exactly
/// the same length and line structure but different letters, or (c) an unrelated file; histories on B, switches
/// between the readers (`w`), dumps of all sets after every set read.
pub fn two_reader_cases(fmt: &str, rng: &mut Rng, n: usize, out: &mut Vec<String>) {
    for _ in 0..n {
        let a = rand_input(fmt, rng, 5);
        let b = match rng.below(4) {
            0 => {
                // other line terminator
                if a.windows(2).any(|w| w == b"\r\n") {
                    a.iter().cloned().filter(|&c| c != b'\r').collect::<Vec<u8>>()
                } else {
                    let mut v = vec![];
                    for &c in &a {
                        if c == b'\n' {
                            v.push(b'\r');
                        }
                        v.push(c);
                    }
                    v
                }
            }
            1 | 2 => a
                .iter()
                .map(|&c| match c {
                    b'A' => b'C',
                    b'C' => b'A',
                    b'G' => b'T',
                    b'T' => b'G',
                    b'a'..=b'y' => c + 1,
                    b'I' => b'J',
                    b'J' => b'I',
                    _ => c,
                })
                .collect(),
            _ => rand_input(fmt, rng, 5),
        };
        let big = a.len().max(b.len());
        let small = rng.range(3, 24);
        let cap = *rng.pick(&[big + 5, big + 5, 64, 256, 4096, small, big / 2 + 3]);
        let l1 = rng.range(1, 6);
        let mut ops = rand_history(fmt, rng, &a, true, l1);
        ops.push(Op::Second(b.clone()));
        let l2 = rng.range(1, 6);
        ops.extend(rand_history(fmt, rng, &b, true, l2));
        let rounds = rng.range(1, 5);
        for _ in 0..rounds {
            ops.push(Op::Toggle);
            let inp = if ops.iter().filter(|o| matches!(o, Op::Toggle)).count() % 2 == 1 { &a } else { &b };
            let l3 = rng.range(1, 4);
            ops.extend(rand_history(fmt, rng, inp, true, l3));
        }
        ops.extend([Op::Next, Op::Dump(0), Op::Dump(1), Op::Dump(2), Op::Toggle, Op::Next, Op::Next]);
        let c = Case {
            kind: "R".to_string(),
            fmt: fmt.to_string(),
            cap: cap.max(3),
            pol: wf_policy(rng),
            chunk: *rng.pick(&[0usize, 0, 1, 5]),
            script: vec![],
            seek_fails: vec![],
            ops,
            input: a,
        };
        out.push(c.show());
    }
}

/// The built-in policies asked directly (`Q <policy> <capacity>`): every capacity around the thresholds and limits
/// (t-1, t, t+1, l-t-1 … l+1, 2^23 ± 1, 0, 1, 2, 3) plus random ones.
pub fn policy_cases(rng: &mut Rng, n: usize, out: &mut Vec<String>) {
    let big = 1usize << 23;
    for c in [0, 1, 2, 3, 64, big / 2 - 1, big / 2, big / 2 + 1, big - 1, big, big + 1, 3 * big, (1usize << 40) + 5] {
        out.push(format!("Q std {}", c));
    }
    // readers with LARGE buffers (64 KiB .. 1 MiB) over one long record, under policies whose answers are not round numbers:
    // the byte-level model is not run at these sizes; the model side is the chain of requests alone
    for _ in 0..(n / 40).max(4) {
        let cap = *rng.pick(&[65536usize, 100000, 131072, 150001, 200000, 1 << 20]);
        let len = match rng.below(4) {
            0 => cap + rng.below(5) - 2,
            1 => 2 * cap + rng.below(5) - 2,
            2 => 3 * cap + 5 + rng.below(4096),
            _ => cap + rng.below(2 * cap),
        };
        let pol = match rng.below(5) {
            0 => "std".to_string(),
            1 => format!("du.{}", *rng.pick(&[70000usize, 100001, 262144])),
            2 => format!("dul.{}.{}", *rng.pick(&[70000usize, 100001, 262144]), len + rng.below(3 * cap) - rng.below(cap / 2)),
            3 => format!("add.{}", *rng.pick(&[50001usize, 100001, 131073])),
            _ => format!("dul.{}.{}", cap, 2 * cap + rng.below(3)),
        };
        out.push(format!("Q {} {} {} {}", pol, cap, if rng.chance(1, 2) { "fa" } else { "fq" }, len));
    }
    for _ in 0..n {
        let t = *rng.pick(&[1usize, 2, 3, 8, 64, 1000, 1 << 16, big]);
        let l = t * rng.range(1, 9) + rng.below(3);
        let around = |rng: &mut Rng, x: usize| (x + rng.below(5)).saturating_sub(2);
        let c = match rng.below(6) {
            0 => around(rng, t),
            1 => around(rng, l),
            2 => around(rng, l.saturating_sub(t)),
            3 => around(rng, l / 2),
            4 => around(rng, t / 2),
            _ => rng.below(4 * l + 4),
        };
        match rng.below(3) {
            0 => {
                let x = *rng.pick(&[big, big / 2, 7]);
                out.push(format!("Q std {}", around(rng, x)))
            }
            1 => out.push(format!("Q du.{} {}", t, c)),
            _ => out.push(format!("Q dul.{}.{} {}", t, l, c)),
        }
    }
}

/// Allocation cases with records of DIFFERENT shapes (number and length of lines vary from record to record, a few
/// records are much larger than the rest), long histories of single reads, set reads into reused and alternating sets,
/// exact-count reads and seeks back to captured positions; capacities from "largest record just fits" upwards.
pub fn alloc_mixed(fmt: &str, rng: &mut Rng, n: usize, out: &mut Vec<String>) {
    for _ in 0..n {
        let nrec = rng.range(8, 40);
        let big_every = rng.range(3, 12);
        let many_lines = rng.chance(1, 4);
        let crlf = rng.chance(1, 3);
        let term: &[u8] = if crlf { b"\r\n" } else { b"\n" };
        let mut f = vec![];
        let mut max_rec = 0usize;
        for i in 0..nrec {
            let start = f.len();
            let big = i % big_every == big_every - 1;
            let hl = rng.range(1, 10);
            if fmt == "fa" {
                f.push(b'>');
                f.extend(rand_bytes(rng, hl, b"abcdef "));
                f.extend_from_slice(term);
                // (in a quarter of the files the big records have very many short lines: the offset vector of a record
                // then needs far more room than those of its neighbours)
                let nl = if big { if many_lines { rng.range(70, 160) } else { rng.range(4, 12) } } else { rng.range(0, 4) };
                for _ in 0..nl {
                    let sl = if big { if many_lines { rng.range(1, 4) } else { rng.range(10, 60) } } else { rng.range(0, 12) };
                    f.extend(rand_bytes(rng, sl, b"ACGT"));
                    f.extend_from_slice(term);
                }
            } else {
                let sl = if big { rng.range(40, 300) } else { rng.range(0, 30) };
                f.push(b'@');
                f.extend(rand_bytes(rng, hl, b"abcdef "));
                f.extend_from_slice(term);
                f.extend(rand_bytes(rng, sl, b"ACGT"));
                f.extend_from_slice(term);
                f.push(b'+');
                f.extend_from_slice(term);
                f.extend(rand_bytes(rng, sl, b"IJK"));
                f.extend_from_slice(term);
            }
            max_rec = max_rec.max(f.len() - start);
        }
        if rng.chance(1, 4) {
            // no terminator after the last line
            f.truncate(f.len() - term.len());
        }
        let cap = *rng.pick(&[max_rec + 2, max_rec + 2, max_rec * 9 / 8 + 3, max_rec * 2 + 1, max_rec * 3 + 7, 1024, 4096, 65536]);
        let mut ops = vec![];
        let nops = rng.range(nrec / 2, nrec + 6);
        let mode = rng.below(5);
        for k in 0..nops {
            let op = match mode {
                0 => Op::Next,
                1 => Op::Set(0),
                2 => Op::Set(k % 2),
                3 => Op::Exact(rng.below(2), rng.range(1, 5)),
                _ => match rng.below(8) {
                    0..=2 => Op::Next,
                    3 => Op::Set(rng.below(3)),
                    4 => Op::Exact(rng.below(3), rng.range(1, 6)),
                    5 => Op::Capture(rng.below(2)),
                    6 => Op::SeekSlot(rng.below(2)),
                    _ => Op::Dump(rng.below(3)),
                },
            };
            ops.push(op);
        }
        let c = Case {
            kind: "A".to_string(),
            fmt: fmt.to_string(),
            cap: cap.max(3),
            pol: rng.pick(&[PolDesc::Std, PolDesc::Std, PolDesc::DoubleUntil(64), PolDesc::Add(7)]).clone(),
            chunk: *rng.pick(&[0usize, 0, 7, 1]),
            script: vec![],
            seek_fails: vec![],
            ops,
            input: f,
        };
        out.push(c.show());
    }
}

// ---------------------------------------------------------------- iterator step words (C20)

pub fn iter_cases(maxlen: usize, out: &mut Vec<String>) {
    for n in 0..=5usize {
        let mut words = vec![String::new()];
        let mut level = vec![String::new()];
        for _ in 0..maxlen {
            let mut next = vec![];
            for w in &level {
                next.push(format!("{}f", w));
                next.push(format!("{}b", w));
            }
            words.extend(next.iter().cloned());
            level = next;
        }
        for w in words {
            out.push(format!("I {} {}", n, if w.is_empty() { "-".to_string() } else { w }));
        }
    }
}

/// the `_init` variants of the per-record functions with failing initialisers and early exit
pub fn par_z(rng: &mut Rng, size: usize, out: &mut Vec<String>) {
    for _ in 0..size {
        let fmt = if rng.chance(1, 2) { "fa" } else { "fq" };
        let nrec = rng.range(1, 9);
        let crlf = if rng.chance(1, 4) { 1 } else { 0 };
        let input = if fmt == "fa" { valid_fasta(rng, nrec, crlf, true, false) } else { valid_fastq(rng, nrec, crlf, true, 0) };
        let t = rng.range(1, 3);
        let q = rng.range(1, 3);
        let cap = *rng.pick(&[4096usize, 4096, 4096, 16, 64]);
        let ri = rng.chance(1, 8);
        let rset = if rng.chance(1, 6) { Some(rng.below(q + 2)) } else { None };
        let rec = if rng.chance(1, 2) { Some(rng.below(nrec + 1)) } else { None };
        let stop = if rng.chance(1, 2) { Some(rng.range(1, nrec)) } else { None };
        let o = |x: Option<usize>| x.map(|v| v.to_string()).unwrap_or("-".to_string());
        out.push(format!("Z {} {} {} {} {} {} {} {} {}", fmt, t, q, cap, ri as u8, o(rset), o(rec), o(stop), hex_or_dash(&input)));
    }
}

// ---------------------------------------------------------------- sources that report Ok(0) and later deliver data (C20 fusedness)

/// `P` cases: the readers constructed from a file path (default and explicit capacity)
pub fn path_cases(fmt: &str, rng: &mut Rng, n: usize, out: &mut Vec<String>) {
    for _ in 0..n {
        let input = if rng.chance(1, 3) {
            // a file with exactly one record, with and without the final line terminator
            let n = rng.range(1, 12);
            let seq = rand_bytes(rng, n, b"ACGT");
            let mut f = if fmt == "fa" { b">id d\n".to_vec() } else { b"@id d\n".to_vec() };
            f.extend_from_slice(&seq);
            if fmt == "fq" {
                f.extend_from_slice(b"\n+\n");
                f.extend(std::iter::repeat(b'I').take(n));
            }
            if rng.chance(1, 2) {
                f.push(b'\n');
            }
            f
        } else {
            rand_input(fmt, rng, 20)
        };
        let mut ops = vec![];
        for _ in 0..rng.range(3, 14) {
            ops.push(if rng.chance(1, 4) { Op::Owned } else { Op::Next });
            if rng.chance(1, 2) {
                ops.push(Op::Pos);
            }
        }
        let cap = if rng.chance(1, 2) { 65536 } else { rand_cap(rng, input.len()) };
        // the growth policy is set on the reader that the path constructor returned, and its requests are logged
        let pol = match rng.below(4) {
            0 => PolDesc::Std,
            1 => refusing_policy(rng, input.len()),
            2 => PolDesc::Limited(rng.range(1, 40), cap.max(input.len()) + rng.below(8)),
            _ => wf_policy(rng),
        };
        let c = Case { kind: "P".to_string(), fmt: fmt.to_string(), cap, pol, chunk: 0, script: vec![], seek_fails: vec![], ops, input };
        out.push(c.show());
    }
}

pub fn zero_read_cases(fmt: &str, rng: &mut Rng, n: usize, out: &mut Vec<String>) {
    for _ in 0..n {
        let input = rand_input(fmt, rng, 0);
        let mut script = vec![];
        for _ in 0..rng.range(1, 6) {
            if rng.chance(1, 2) {
                script.push(ReadEv::Zero);
            } else {
                script.push(ReadEv::Data(rng.range(1, 20)));
            }
        }
        if !script.contains(&ReadEv::Zero) {
            script.insert(rng.below(script.len() + 1), ReadEv::Zero);
        }
        let mut ops = vec![];
        for _ in 0..rng.range(4, 10) {
            ops.push(if rng.chance(1, 4) { Op::Owned } else { Op::Next });
        }
        let c = Case {
            kind: "F".to_string(),
            fmt: fmt.to_string(),
            cap: rand_cap(rng, input.len()),
            pol: PolDesc::Std,
            chunk: 0,
            script,
            seek_fails: vec![],
            ops,
            input,
        };
        out.push(c.show());
    }
}
