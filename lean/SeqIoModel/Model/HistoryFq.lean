import SeqIoModel.Model.Stream
/-!
# Histories of operations on one FASTQ reader

* `stepM`: the concrete machine M under a history of API calls – single-record reads, owned
  reads, (exact-count) record-set reads into three live record sets, dumps of a set, position
  queries and seeks to the position of an item of the reference semantics S.
* `acceptA`: the abstract reader A – a cursor into the items of `Spec.fastq inp` plus the
  expected contents of the three sets.  It accepts exactly the observations the API
  documentation allows.

Executable, no proofs.
-/

namespace SeqIo.Fastq.Hist
open SeqIo SeqIo.Spec

/-- `set j none` = `read_record_set`, `set j (some n)` = `read_record_set_exact(n)`;
`seekItem i` = `seek` to the (line, byte) of the `i`-th item of `Spec.fastq inp` -/
inductive Op where
  | next
  | owned
  | set (j : Nat) (n : Option Nat)
  | dump (j : Nat)
  | pos
  | seekItem (i : Nat)
deriving Repr, DecidableEq

/-- operations the harness generates: set indices 0,1,2 and exact counts ≥ 1 -/
def Op.wf : Op → Bool
  | .set j (some n) => decide (j < 3) && decide (1 ≤ n)
  | .set j none => decide (j < 3)
  | .dump j => decide (j < 3)
  | _ => true

/-- the contents of a record as shown to the caller -/
structure Rec where
  head : List UInt8
  seq : List UInt8
  qual : List UInt8
deriving Repr, DecidableEq

inductive ObsH where
  | record (r : Rec)               -- `next` / owned read
  | batch (m : Nat)                -- successful record-set read with `m` records
  | dump (rs : List Rec)           -- the records of a set
  | position (line byte : Nat)
  | done                           -- successful seek
  | badOp                          -- `seekItem i` without an `i`-th item: nothing happens
  | none                           -- end of input
  | error (e : Err)
  | panic
  | fuel
deriving Repr, DecidableEq

/-! ## M -/

/-- the three views of the record at `bp` (`none` = a view panics) -/
def viewRec (buf : List UInt8) (bp : BufPos) : Option Rec :=
  match head buf bp, seq buf bp, qual buf bp with
  | some h, some s, some q => some { head := h, seq := s, qual := q }
  | _, _, _ => none

/-- all records of a set (`none` = some view panics) -/
def viewAll (buf : List UInt8) : List BufPos → Option (List Rec)
  | [] => some []
  | bp :: rest =>
    match viewRec buf bp, viewAll buf rest with
    | some x, some xs => some (x :: xs)
    | _, _ => none

structure MSt where
  r : Reader
  s0 : RecordSet := {}
  s1 : RecordSet := {}
  s2 : RecordSet := {}

def MSt.getSet (s : MSt) : Nat → RecordSet
  | 0 => s.s0
  | 1 => s.s1
  | _ => s.s2

def MSt.putSet (s : MSt) (j : Nat) (rs : RecordSet) : MSt :=
  match j with
  | 0 => { s with s0 := rs }
  | 1 => { s with s1 := rs }
  | _ => { s with s2 := rs }

def mkM (inp : List UInt8) (cap : Nat) (pol : Pol) (script : List ReadEv := []) (chunk : Nat := 0)
    (seekFails : List (Nat × IoKind) := []) : MSt :=
  { r := mkReader inp cap pol script chunk seekFails }

/-- (line, byte) of the start of an item: of a record, or of the offending group -/
def itemPos : FqItem → Nat × Nat
  | .record r => (r.line, r.byte)
  | .err _ byte line => (line, byte)

def fuelOf (r : Reader) : Nat := opFuel r.br.src.inp.length r.br.src.script.length

/-- what the caller sees of a single-record read -/
def obsNext (r : Reader) : Res Bool → ObsH
  | .ok true =>
    match viewRec r.br.buf r.bp with
    | some x => .record x
    | none => .panic
  | .ok false => .none
  | .err e => .error e
  | .panic => .panic
  | .fuel => .fuel

/-- what the caller sees of a record-set read -/
def obsSet (rs : RecordSet) : Res Bool → ObsH
  | .ok true => .batch rs.positions.length
  | .ok false => .none
  | .err e => .error e
  | .panic => .panic
  | .fuel => .fuel

def obsSeek : Res Unit → ObsH
  | .ok _ => .done
  | .err e => .error e
  | .panic => .panic
  | .fuel => .fuel

def obsDump (rs : RecordSet) : ObsH :=
  match viewAll rs.buffer rs.positions with
  | some xs => .dump xs
  | none => .panic

def stepNext (s : MSt) : MSt × ObsH :=
  let x := next (fuelOf s.r) s.r
  ({ s with r := x.1 }, obsNext x.1 x.2)

def stepSet (s : MSt) (j : Nat) (n : Option Nat) : MSt × ObsH :=
  let x := readRecordSetExact (fuelOf s.r) s.r (s.getSet j) n
  (({ s with r := x.1 } : MSt).putSet j x.2.1, obsSet x.2.1 x.2.2)

def stepSeek (s : MSt) (i : Nat) : MSt × ObsH :=
  match (Spec.fastq s.r.br.src.inp)[i]? with
  | none => (s, .badOp)
  | some it =>
    let x := seek s.r (itemPos it).1 (itemPos it).2
    ({ s with r := x.1 }, obsSeek x.2)

def stepM (s : MSt) (op : Op) : MSt × ObsH :=
  match op with
  | .next => stepNext s
  | .owned => stepNext s
  | .set j n => stepSet s j n
  | .dump j => (s, obsDump (s.getSet j))
  | .pos => (s, .position (position s.r).1 (position s.r).2)
  | .seekItem i => stepSeek s i

/-- run a history, observations in order -/
def runM : MSt → List Op → List ObsH
  | _, [] => []
  | s, op :: ops => let (s', o) := stepM s op; o :: runM s' ops

/-! ## A -/

def recOf (x : FqRec) : Rec := { head := x.head, seq := x.seq, qual := x.qual }

/-- what the last successful operation was, for the position check -/
inductive Last where
  | none
  | item (i : Nat)     -- item `i` was returned by `next`
  | set                -- a record set was filled
  | seek (i : Nat)     -- seek to item `i`
deriving Repr, DecidableEq

/-- expected contents of a record set; `altEmpty`: it was passed to a call that reported the
end or an error and may have been emptied -/
structure ASet where
  recs : List Rec := []
  altEmpty : Bool := false
deriving Repr, DecidableEq

structure AState where
  k : Nat := 0
  e0 : ASet := {}
  e1 : ASet := {}
  e2 : ASet := {}
  last : Last := .none
deriving Repr, DecidableEq

def AState.getSet (a : AState) : Nat → ASet
  | 0 => a.e0
  | 1 => a.e1
  | _ => a.e2

def AState.putSet (a : AState) (j : Nat) (e : ASet) : AState :=
  match j with
  | 0 => { a with e0 := e }
  | 1 => { a with e1 := e }
  | _ => { a with e2 := e }

def isRecord : FqItem → Bool
  | .record _ => true
  | .err _ _ _ => false

/-- the records at the front of a list of items -/
def leadRecs : List FqItem → List Rec
  | .record x :: rest => recOf x :: leadRecs rest
  | _ => []

/-- single-record read: item `k`, or the end iff there is none -/
def acceptNext (items : List FqItem) (a : AState) (o : ObsH) : Option AState :=
  match items[a.k]? with
  | none => if o = .none then some { a with last := .none } else none
  | some (.record x) =>
    if o = .record (recOf x) then some { a with k := a.k + 1, last := .item a.k } else none
  | some (.err e _ _) =>
    if o = .error (specErr e) then some { a with k := items.length, last := .none } else none

/-- may a set read with requested count `n` report the error that follows `aheadLen` valid
records? (an exact-count read only if it lies within the next `n` items) -/
def reachedErr (n : Option Nat) (aheadLen : Nat) : Bool :=
  match n with
  | none => true
  | some n' => decide (aheadLen < n')

/-- may a set read with requested count `n` deliver `m` records when `aheadLen` valid records
are ahead (followed by an error item iff `errAhead`)? -/
def batchOk (n : Option Nat) (m aheadLen : Nat) (errAhead : Bool) : Bool :=
  match n with
  | none => decide (1 ≤ m ∧ m ≤ aheadLen)
  | some n' => decide (1 ≤ m ∧ m = min n' aheadLen ∧ ¬ (errAhead = true ∧ aheadLen < n'))

/-- record-set read into set `j`; `n` = requested exact count -/
def acceptSet (items : List FqItem) (a : AState) (j : Nat) (n : Option Nat) (o : ObsH) :
    Option AState :=
  let ahead := leadRecs (items.drop a.k)       -- valid records before the next error / the end
  let errAhead := items[a.k + ahead.length]?   -- the error item after them, if any
  match o with
  | .none =>
    if items.length ≤ a.k then
      some (({ a with last := .none } : AState).putSet j { a.getSet j with altEmpty := true })
    else none
  | .error e =>
    match errAhead with
    | some (.err e' _ _) =>
      if e = specErr e' ∧ reachedErr n ahead.length = true then
        some (({ a with k := items.length, last := .none } : AState).putSet j
          { a.getSet j with altEmpty := true })
      else none
    | _ => none
  | .batch m =>
    if batchOk n m ahead.length errAhead.isSome then
      some (({ a with k := a.k + m, last := .set } : AState).putSet j
        { recs := ahead.take m, altEmpty := false })
    else none
  | _ => none

def acceptDump (a : AState) (j : Nat) (o : ObsH) : Option AState :=
  match o with
  | .dump rs =>
    let e := a.getSet j
    if rs = e.recs ∨ (e.altEmpty = true ∧ rs = []) then some a else none
  | _ => none

/-- the position A expects, if it expects one -/
def wantPos (items : List FqItem) (a : AState) : Option (Nat × Nat) :=
  match a.last with
  | .none => none
  | .item i => items[i]?.map itemPos
  | .set => match items[a.k]? with
    | some (.record x) => some (x.line, x.byte)
    | _ => none
  | .seek i => items[i]?.map itemPos

def acceptPos (items : List FqItem) (a : AState) (o : ObsH) : Option AState :=
  match o with
  | .position l b =>
    match wantPos items a with
    | none => some a
    | some p => if p = (l, b) then some a else none
  | _ => none

def acceptSeek (items : List FqItem) (a : AState) (i : Nat) (o : ObsH) : Option AState :=
  match o with
  | .done => if i < items.length then some { a with k := i, last := .seek i } else none
  | .badOp => if items.length ≤ i then some a else none
  | _ => none

/-- does the observation `o` fit the history so far, and what is the state afterwards? -/
def acceptA (items : List FqItem) (a : AState) (op : Op) (o : ObsH) : Option AState :=
  match op with
  | .next => acceptNext items a o
  | .owned => acceptNext items a o
  | .set j n => acceptSet items a j n o
  | .dump j => acceptDump a j o
  | .pos => acceptPos items a o
  | .seekItem i => acceptSeek items a i o

/-- A accepts the observations of a history, in order -/
def acceptsA (items : List FqItem) : AState → List Op → List ObsH → Bool
  | _, [], [] => true
  | a, op :: ops, o :: os =>
    match acceptA items a op o with
    | some a' => acceptsA items a' ops os
    | none => false
  | _, _, _ => false

/-- M's history is accepted by A -/
def accepted (inp : List UInt8) (s : MSt) (ops : List Op) : Bool :=
  acceptsA (Spec.fastq inp) {} ops (runM s ops)

end SeqIo.Fastq.Hist
