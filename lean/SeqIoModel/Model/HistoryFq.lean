import SeqIoModel.Model.Stream
/-!
# Histories of operations on one FASTQ reader

* `stepM`: the concrete machine M under a history of API calls – single-record reads, owned
  reads, (exact-count) record-set reads into three live record sets, dumps of a set, position
  queries and seeks to the position of an item of the reference semantics S.
* `acceptA`: the abstract reader A – a cursor into the items of `Spec.fastq inp` plus the
  expected contents of the three sets.  It accepts exactly the observations the API
  documentation allows.

Executable, no proofs.
-/

namespace SeqIo.Fastq.Hist
open SeqIo SeqIo.Spec

/-- `set j none` = `read_record_set`, `set j (some n)` = `read_record_set_exact(n)`;
`seekItem i` = `seek` to the (line, byte) of the `i`-th item of `Spec.fastq inp` -/
inductive Op where
  | next
  | owned
  | set (j : Nat) (n : Option Nat)
  | dump (j : Nat)
  | pos
  | seekItem (i : Nat)
deriving Repr, DecidableEq

/-- operations the harness generates: set indices 0,1,2 and exact counts ≥ 1 -/
def Op.wf : Op → Bool
  | .set j (some n) => decide (j < 3) && decide (1 ≤ n)
  | .set j none => decide (j < 3)
  | .dump j => decide (j < 3)
  | _ => true

/-- the contents of a record as shown to the caller -/
structure Rec where
  head : List UInt8
  seq : List UInt8
  qual : List UInt8
deriving Repr, DecidableEq

inductive ObsH where
  | record (r : Rec)               -- `next` / owned read
  | batch (m : Nat)                -- successful record-set read with `m` records
  | dump (rs : List Rec)           -- the records of a set
  | position (line byte : Nat)
  | done                           -- successful seek
  | badOp                          -- `seekItem i` without an `i`-th item: nothing happens
  | none                           -- end of input
  | error (e : Err)
  | panic
  | fuel
deriving Repr, DecidableEq

/-! ## M -/

/-- the three views of the record at `bp` (`none` = a view panics) -/
def viewRec (buf : List UInt8) (bp : BufPos) : Option Rec :=
  match head buf bp, seq buf bp, qual buf bp with
  | some h, some s, some q => some { head := h, seq := s, qual := q }
  | _, _, _ => none

/-- all records of a set (`none` = some view panics) -/
def viewAll (buf : List UInt8) : List BufPos → Option (List Rec)
  | [] => some []
  | bp :: rest =>
    match viewRec buf bp, viewAll buf rest with
    | some x, some xs => some (x :: xs)
    | _, _ => none

structure MSt where
  r : Reader
  s0 : RecordSet := {}
  s1 : RecordSet := {}
  s2 : RecordSet := {}

def MSt.getSet (s : MSt) : Nat → RecordSet
  | 0 => s.s0
  | 1 => s.s1
  | _ => s.s2

def MSt.putSet (s : MSt) (j : Nat) (rs : RecordSet) : MSt :=
  match j with
  | 0 => { s with s0 := rs }
  | 1 => { s with s1 := rs }
  | _ => { s with s2 := rs }

def mkM (inp : List UInt8) (cap : Nat) (pol : Pol) (script : List ReadEv := []) (chunk : Nat := 0)
    (seekFails : List (Nat × IoKind) := []) : MSt :=
  { r := mkReader inp cap pol script chunk seekFails }

/-- (line, byte) of the start of an item: of a record, or of the offending group -/
def itemPos : FqItem → Nat × Nat
  | .record r => (r.line, r.byte)
  | .err _ byte line => (line, byte)

def fuelOf (r : Reader) : Nat := opFuel r.br.src.inp.length r.br.src.script.length

def obsOut {α : Type} (res : Res α) (ok : α → ObsH) : ObsH :=
  match res with
  | .ok a => ok a
  | .err e => .error e
  | .panic => .panic
  | .fuel => .fuel

def stepM (s : MSt) (op : Op) : MSt × ObsH :=
  match op with
  | .next | .owned =>
    let (r, res) := next (fuelOf s.r) s.r
    ({ s with r := r }, obsOut res fun
      | true => match viewRec r.br.buf r.bp with
        | some x => .record x
        | none => .panic
      | false => .none)
  | .set j n =>
    let (r, rs, res) := readRecordSetExact (fuelOf s.r) s.r (s.getSet j) n
    (({ s with r := r } : MSt).putSet j rs, obsOut res fun
      | true => .batch rs.positions.length
      | false => .none)
  | .dump j =>
    let rs := s.getSet j
    (s, match viewAll rs.buffer rs.positions with
      | some xs => .dump xs
      | none => .panic)
  | .pos => let (l, b) := position s.r; (s, .position l b)
  | .seekItem i =>
    match (Spec.fastq s.r.br.src.inp)[i]? with
    | none => (s, .badOp)
    | some it =>
      let (l, b) := itemPos it
      let (r, res) := seek s.r l b
      ({ s with r := r }, obsOut res fun _ => .done)

/-- run a history, observations in order -/
def runM : MSt → List Op → List ObsH
  | _, [] => []
  | s, op :: ops => let (s', o) := stepM s op; o :: runM s' ops

/-! ## A -/

def recOf (x : FqRec) : Rec := { head := x.head, seq := x.seq, qual := x.qual }

/-- what the last successful operation was, for the position check -/
inductive Last where
  | none
  | item (i : Nat)     -- item `i` was returned by `next`
  | set                -- a record set was filled
  | seek (i : Nat)     -- seek to item `i`
deriving Repr, DecidableEq

/-- expected contents of a record set; `altEmpty`: it was passed to a call that reported the
end or an error and may have been emptied -/
structure ASet where
  recs : List Rec := []
  altEmpty : Bool := false
deriving Repr, DecidableEq

structure AState where
  k : Nat := 0
  e0 : ASet := {}
  e1 : ASet := {}
  e2 : ASet := {}
  last : Last := .none
deriving Repr, DecidableEq

def AState.getSet (a : AState) : Nat → ASet
  | 0 => a.e0
  | 1 => a.e1
  | _ => a.e2

def AState.putSet (a : AState) (j : Nat) (e : ASet) : AState :=
  match j with
  | 0 => { a with e0 := e }
  | 1 => { a with e1 := e }
  | _ => { a with e2 := e }

def isRecord : FqItem → Bool
  | .record _ => true
  | .err _ _ _ => false

/-- the records at the front of a list of items -/
def leadRecs : List FqItem → List Rec
  | .record x :: rest => recOf x :: leadRecs rest
  | _ => []

/-- does the observation `o` fit the history so far, and what is the state afterwards? -/
def acceptA (items : List FqItem) (a : AState) (op : Op) (o : ObsH) : Option AState :=
  match op with
  | .next | .owned =>
    match items[a.k]? with
    | none => if o = .none then some { a with last := .none } else none
    | some (.record x) =>
      if o = .record (recOf x) then some { a with k := a.k + 1, last := .item a.k } else none
    | some (.err e _ _) =>
      if o = .error (specErr e) then some { a with k := items.length, last := .none } else none
  | .set j n =>
    let ahead := leadRecs (items.drop a.k)       -- valid records before the next error / the end
    let errAhead := items[a.k + ahead.length]?   -- the error item after them, if any
    match o with
    | .none =>
      if items.length ≤ a.k then
        some (({ a with last := .none } : AState).putSet j { a.getSet j with altEmpty := true })
      else none
    | .error e =>
      match errAhead with
      | some (.err e' _ _) =>
        let reached : Bool := match n with
          | none => true
          | some n' => decide (ahead.length < n')
        if e = specErr e' ∧ reached = true then
          some (({ a with k := items.length, last := .none } : AState).putSet j
            { a.getSet j with altEmpty := true })
        else none
      | _ => none
    | .batch m =>
      let ok : Bool := match n with
        | none => decide (1 ≤ m ∧ m ≤ ahead.length)
        | some n' => decide (1 ≤ m ∧ m = min n' ahead.length ∧
            ¬ (errAhead.isSome ∧ ahead.length < n'))
      if ok then
        some (({ a with k := a.k + m, last := .set } : AState).putSet j
          { recs := ahead.take m, altEmpty := false })
      else none
    | _ => none
  | .dump j =>
    match o with
    | .dump rs =>
      let e := a.getSet j
      if rs = e.recs ∨ (e.altEmpty = true ∧ rs = []) then some a else none
    | _ => none
  | .pos =>
    match o with
    | .position l b =>
      let want : Option (Nat × Nat) := match a.last with
        | .none => none
        | .item i => items[i]?.map itemPos
        | .set => match items[a.k]? with
          | some (.record x) => some (x.line, x.byte)
          | _ => none
        | .seek i => items[i]?.map itemPos
      match want with
      | none => some a
      | some p => if p = (l, b) then some a else none
    | _ => none
  | .seekItem i =>
    match o with
    | .done => if i < items.length then some { a with k := i, last := .seek i } else none
    | .badOp => if items.length ≤ i then some a else none
    | _ => none

/-- A accepts the observations of a history, in order -/
def acceptsA (items : List FqItem) : AState → List Op → List ObsH → Bool
  | _, [], [] => true
  | a, op :: ops, o :: os =>
    match acceptA items a op o with
    | some a' => acceptsA items a' ops os
    | none => false
  | _, _, _ => false

/-- M's history is accepted by A -/
def accepted (inp : List UInt8) (s : MSt) (ops : List Op) : Bool :=
  acceptsA (Spec.fastq inp) {} ops (runM s ops)

end SeqIo.Fastq.Hist
