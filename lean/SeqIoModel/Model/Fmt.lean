import SeqIoModel.Model.Fasta
import SeqIoModel.Model.Fastq
/-!
# `Display` of the error types (as bytes)

`(found as char).escape_default()` for a byte, decimal numbers, and the message templates
of `fasta::Error` / `fastq::Error` / `fastq::ErrorPosition`.  The id is inserted as raw
bytes (the real code inserts `from_utf8_lossy` of them; the comparison canonicalises both
sides with the same lossy decoding).
-/

namespace SeqIo.Fmt

def str (s : String) : List UInt8 := s.toUTF8.toList

def hexDigit (n : Nat) : UInt8 :=
  if n < 10 then (48 + n).toUInt8 else (87 + n).toUInt8

/-- lowercase hex without leading zeros -/
def hexMin (n : Nat) : List UInt8 :=
  if n < 16 then [hexDigit n] else [hexDigit (n / 16 % 16), hexDigit (n % 16)]

/-- `(b as char).escape_default()` -/
def escapeDefault (b : UInt8) : List UInt8 :=
  if b = 9 then str "\\t"
  else if b = 13 then str "\\r"
  else if b = 10 then str "\\n"
  else if b = 39 then str "\\'"
  else if b = 34 then str "\\\""
  else if b = 92 then str "\\\\"
  else if 32 ≤ b ∧ b ≤ 126 then [b]
  else str "\\u{" ++ hexMin b.toNat ++ str "}"

def dec (n : Nat) : List UInt8 := str (toString n)

/-- message of the injected I/O errors (`io::Error::new(kind, "injected")`) -/
def ioMsg : List UInt8 := str "injected"

def fastaErr : Fasta.Err → List UInt8
  | .io _ => ioMsg
  | .invalidStart line found =>
    str "FASTA parse error: expected '>' but found '" ++ escapeDefault found ++
      str "' at file start, line " ++ dec line ++ str "."
  | .bufferLimit => str "FASTA parse error: buffer limit reached."

def errPos (p : Fastq.ErrPos) : List UInt8 :=
  (match p.id with
   | some id => str "record '" ++ id ++ str "' at "
   | none => []) ++ str "line " ++ dec p.line

def fastqErr : Fastq.Err → List UInt8
  | .io _ => ioMsg
  | .unequalLengths s q p =>
    str "FASTQ parse error: sequence length is " ++ dec s ++ str ", but quality length is " ++
      dec q ++ str " (" ++ errPos p ++ str ")."
  | .invalidStart f p =>
    str "FASTQ parse error: expected '@' at record start but found '" ++ escapeDefault f ++
      str "' (" ++ errPos p ++ str ")."
  | .invalidSep f p =>
    str "FASTQ parse error: Expected '+' separator but found '" ++ escapeDefault f ++
      str "' (" ++ errPos p ++ str ")."
  | .unexpectedEnd p => str "FASTQ parse error: unexpected end of input (" ++ errPos p ++ str ")."
  | .bufferLimit => str "FASTQ parse error: Buffer limit reached."

end SeqIo.Fmt
