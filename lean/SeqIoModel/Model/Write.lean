import SeqIoModel.Model.Basic
/-!
# Writers (`fasta::write_*`, `fastq::write_*`, record methods)

Each function returns the bytes the Rust function writes into an infallible `io::Write`.
`none` = the `assert!(wrap > 0)` panic.
-/

namespace SeqIo.Write

/-! ## FASTA -/

/-- `fasta::write_head` -/
def head (h : List UInt8) : List UInt8 := [GT] ++ h ++ [LF]

/-- `fasta::write_id_desc` -/
def idDesc (id : List UInt8) (desc : Option (List UInt8)) : List UInt8 :=
  [GT] ++ id ++ (match desc with | some d => [SP] ++ d | none => []) ++ [LF]

/-- `fasta::write_seq` -/
def seq (s : List UInt8) : List UInt8 := s ++ [LF]

/-- `slice.chunks(w)` for `w > 0` -/
def chunks (w : Nat) (s : List UInt8) : List (List UInt8) :=
  if h : w = 0 ∨ s = [] then []
  else s.take w :: chunks w (s.drop w)
termination_by s.length
decreasing_by
  have : s ≠ [] := fun e => h (Or.inr e)
  have : 0 < s.length := List.length_pos_iff.mpr this
  simp only [List.length_drop]
  omega

/-- `fasta::write_wrap_seq` -/
def wrapSeq (s : List UInt8) (w : Nat) : Option (List UInt8) :=
  if w = 0 then none
  else some ((chunks w s).flatMap (· ++ [LF]))

/-- `fasta::write_seq_iter` -/
def seqIter (segs : List (List UInt8)) : List UInt8 := segs.flatten ++ [LF]

/-- inner `loop` of `write_wrap_seq_iter` for one chunk: state = (`n_line`, output so far) -/
def wrapChunk (w : Nat) (chunk : List UInt8) (nLine : Nat) (out : List UInt8) : Nat × List UInt8 :=
  let remaining := w - nLine
  if chunk.length ≤ remaining then (nLine + chunk.length, out ++ chunk)
  else if w = 0 then (nLine, out)   -- not reachable: `wrap > 0` is asserted before
  else wrapChunk w (chunk.drop remaining) 0 (out ++ chunk.take remaining ++ [LF])
termination_by chunk.length + (if nLine = 0 then 0 else 1)
decreasing_by
  rename_i hlen hw
  simp only [List.length_drop]
  by_cases h0 : nLine = 0
  · subst h0; simp at hlen ⊢; omega
  · simp [h0]; omega

/-- `fasta::write_wrap_seq_iter` -/
def wrapSeqIter (segs : List (List UInt8)) (w : Nat) : Option (List UInt8) :=
  if w = 0 then none
  else
    let st := segs.foldl (fun (st : Nat × List UInt8) seg => wrapChunk w seg st.1 st.2) (0, [])
    some (st.2 ++ [LF])

/-- `fasta::write_to` -/
def faTo (h s : List UInt8) : List UInt8 := head h ++ seq s

/-- `fasta::write_parts` -/
def faParts (id : List UInt8) (desc : Option (List UInt8)) (s : List UInt8) : List UInt8 :=
  idDesc id desc ++ seq s

/-- `fasta::write_wrap` -/
def faWrap (id : List UInt8) (desc : Option (List UInt8)) (s : List UInt8) (w : Nat) : Option (List UInt8) :=
  (wrapSeq s w).map (idDesc id desc ++ ·)

/-- `OwnedRecord::write_wrap` -/
def faOwnedWrap (h s : List UInt8) (w : Nat) : Option (List UInt8) :=
  (wrapSeq s w).map (head h ++ ·)

/-- `RefRecord::write` (header, then the sequence lines through `write_seq_iter`) -/
def faRefWrite (h : List UInt8) (lines : List (List UInt8)) : List UInt8 := head h ++ seqIter lines

/-- `RefRecord::write_wrap` -/
def faRefWrap (h : List UInt8) (lines : List (List UInt8)) (w : Nat) : Option (List UInt8) :=
  (wrapSeqIter lines w).map (head h ++ ·)

/-! ## FASTQ -/

/-- `fastq::write_to` -/
def fqTo (h s q : List UInt8) : List UInt8 :=
  [AT] ++ h ++ [LF] ++ s ++ [LF, PLUS, LF] ++ q ++ [LF]

/-- `fastq::write_parts` -/
def fqParts (id : List UInt8) (desc : Option (List UInt8)) (s q : List UInt8) : List UInt8 :=
  [AT] ++ id ++ (match desc with | some d => [SP] ++ d | none => []) ++ [LF] ++ s ++ [LF, PLUS, LF] ++ q ++ [LF]

end SeqIo.Write
