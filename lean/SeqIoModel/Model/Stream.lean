import SeqIoModel.Model.Fasta
import SeqIoModel.Model.Fastq
import SeqIoModel.Model.Spec
/-!
# Observation streams: what a caller sees from repeated `next()` calls (M) and what the
reference semantics says it should see (S), in one common vocabulary.
-/

namespace SeqIo

/-- a policy that never refuses and always answers more than the capacity it is passed -/
def PolOk (p : Pol) : Prop := ∀ (h : List Nat) (cur : Nat), ∃ n, p.f (h ++ [cur]) = some n ∧ cur < n

/-- a policy that, when it answers, answers more than the capacity it is passed (it may refuse) -/
def PolWf (p : Pol) : Prop := ∀ (h : List Nat) (cur n : Nat), p.f (h ++ [cur]) = some n → cur < n

/-- fuel that is enough for every loop of one reader operation (theorem `*_fuel_enough`) -/
def opFuel (inpLen scriptLen : Nat) : Nat := 2 * inpLen + 2 * scriptLen + 16

namespace Fasta

/-- what one `next()` call shows to the caller, including `position()` afterwards -/
inductive Obs where
  | record (head : List UInt8) (lines : List (List UInt8)) (line byte : Nat)
  | error (e : Err)
  | none
  | panic
  | fuel
deriving Repr, DecidableEq

def observe (r : Reader) (res : Res Bool) : Obs :=
  match res with
  | .ok true =>
    match head r.br.buf r.bp, allSome (seqLines r.br.buf r.bp), position r with
    | some h, some ls, some (l, b) => .record h ls l b
    | _, _, _ => .panic
  | .ok false => .none
  | .err e => .error e
  | .panic => .panic
  | .fuel => .fuel

/-- `k` consecutive `next()` calls -/
def runNexts : Nat → Reader → List Obs
  | 0, _ => []
  | k + 1, r =>
    let (r', res) := next (opFuel r.br.src.inp.length r.br.src.script.length) r
    observe r' res :: runNexts k r'

/-- the stream S prescribes (without the trailing `none`s) -/
def specObs (inp : List UInt8) : List Obs :=
  match Spec.fasta inp with
  | .records rs => rs.map fun r => .record r.head r.seqLines r.line r.byte
  | .invalidStart line found => [.error (.invalidStart line found)]

end Fasta

namespace Fastq

inductive Obs where
  | record (head seq qual : List UInt8) (line byte : Nat)
  | error (e : Err)
  | none
  | panic
  | fuel
deriving Repr, DecidableEq

def observe (r : Reader) (res : Res Bool) : Obs :=
  match res with
  | .ok true =>
    match head r.br.buf r.bp, seq r.br.buf r.bp, qual r.br.buf r.bp with
    | some h, some s, some q => .record h s q r.line r.byte
    | _, _, _ => .panic
  | .ok false => .none
  | .err e => .error e
  | .panic => .panic
  | .fuel => .fuel

def runNexts : Nat → Reader → List Obs
  | 0, _ => []
  | k + 1, r =>
    let (r', res) := next (opFuel r.br.src.inp.length r.br.src.script.length) r
    observe r' res :: runNexts k r'

def specErr : Spec.FqErr → Err
  | .unequalLengths s q line id => .unequalLengths s q { line := line, id := id }
  | .invalidStart found line => .invalidStart found { line := line, id := none }
  | .invalidSep found line id => .invalidSep found { line := line, id := id }
  | .unexpectedEnd line id => .unexpectedEnd { line := line, id := id }

def specObs (inp : List UInt8) : List Obs :=
  (Spec.fastq inp).map fun
    | .record r => .record r.head r.seq r.qual r.line r.byte
    | .err e _ _ => .error (specErr e)

end Fastq
end SeqIo
