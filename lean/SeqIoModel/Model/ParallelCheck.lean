import SeqIoModel.Model.Parallel
import Std.Data.HashSet
/-!
# Executable helpers on the protocol model (driver only)

* `label`: which steps are visible in a trace recorded by the harness (closure boundaries) and which
  are internal channel operations (τ);
* `accept`: is a recorded trace a behaviour of the model? (set of model states consistent with the
  trace prefix, closed under τ steps);
* `explore`: all reachable states of a small configuration (sanity statistics for the evidence).
-/

namespace SeqIo.Par

inductive Ev where
  | ri (ok : Bool)            -- `reader_init` called
  | di (ok : Bool)            -- `dataset_init` called
  | fOk (d k : Nat)           -- `fill_data` on data set `d` produced batch `k`
  | fErr (d : Nat)            -- `fill_data` returned an error
  | fNone (d : Nat)           -- `fill_data` returned `None`
  | we (d k : Nat)            -- `work` finished on (data set, batch)
  | cr (d k : Nat)            -- `next()` returned (data set, batch) to the consumer
  | ce                        -- `next()` returned the error
  | cn                        -- `next()` returned `None`
  | cx                        -- the consumer closure returned
  | ret (code : Nat)          -- `read_parallel_init` returned: 0 ok, 1 data-set init error, 2 reader init error
deriving Repr, DecidableEq, BEq

/-- label of the step of thread `t` from state `s` (`none` = internal) -/
def label (c : Cfg) (s : St) (t : Tid) : Option Ev :=
  match t with
  | .reader =>
    match s.rd with
    | .start => some (.ri (!c.readerInitFails))
    | .fill d => some (if s.filled < c.N then .fOk d s.filled else if c.endErr then .fErr d else .fNone d)
    | _ => none
  | .workerFinish i => (s.working[i]?).map fun j => .we j.1 j.2
  | .main =>
    match s.mn with
    | .init _ => some (.di (c.dsInitFailAt != some s.dsCalls))
    | .recycle _ => (s.delivered.getLast?).map fun j => .cr j.1 j.2
    | .recvDone =>
      match s.doneCh with
      | .res _ _ :: _ => none
      | .err :: _ => some .ce
      | .fin :: _ => some .cn
      | [] => some .cn
    | .dropping => if s.mainErr then none else some .cx
    | .joining => some (.ret (if s.mainErr then 1 else if s.readerErr then 2 else 0))
    | .returned => none
  | _ => none

abbrev StSet := Std.HashSet St

/-- Acceptor state: a model state plus the result the consumer has received and recycled but not
yet logged (`cr` is logged by the consumer closure only after `next()` has returned, i.e. after the
previous data set was sent back, which may already have enabled the reader's next `fill_data`). -/
/- The third component: a failed `reader_init` has been logged (`ri0`) but the reader thread has not yet gone away –
the log entry is written inside the closure, the channel ends are dropped only when the thread function returns, so
sends of the main thread may still succeed in between.  The model's reader step `start → exited` is then taken later,
as an internal step.

The fourth component: a `dataset_init` call has been logged (`di`) but what the main thread does with the new data set
– the `send` into the empty-set channel, which succeeds or fails depending on whether the reader thread still exists at
THAT moment – has not happened yet.  The model's main step `init i` does both at once; in the code other threads run in
between (observed: `di1, ri0, di1, cn, cx, ret2` with `queue_len = 2` – the first set was created while the reader
thread still existed, the send found it gone).  The step is then taken later, as an internal step; nothing else of the
main thread happens in between. -/
abbrev ASt := St × Option (Nat × Nat) × Bool × Bool
abbrev AStSet := Std.HashSet ASt

def isMain : Tid → Bool
  | .main => true
  | _ => false

def isRecycle (s : St) : Bool :=
  match s.mn with
  | .recycle _ => true
  | _ => false

def isInit (s : St) : Bool :=
  match s.mn with
  | .init _ => true
  | _ => false

/-- internal steps of the acceptor from `(s, pending)` -/
def tauSteps (c : Cfg) (a : ASt) : List ASt :=
  let (s, pend, riPend, diPend) := a
  let late : List ASt :=
    if riPend then ((step c s .reader).map fun s' => (s', pend, false, diPend)).toList else []
  let lateDi : List ASt :=
    if diPend then ((step c s .main).map fun s' => (s', pend, riPend, false)).toList else []
  late ++ lateDi ++ (tids s).filterMap fun t =>
    if isMain t then
      if diPend then none                           -- the main thread's only step is the pending one
      else if pend.isSome then none                 -- the consumer logs `cr` before doing anything else
      else if isRecycle s then
        (step c s t).map fun s' => (s', s.delivered.getLast?, riPend, false)
      else if (label c s t).isNone then (step c s t).map fun s' => (s', none, riPend, false)
      else none
    else if riPend then none                        -- the reader's only step is the pending one
    else if (label c s t).isNone then (step c s t).map fun s' => (s', pend, riPend, diPend)
    else none

def tauClosure (c : Cfg) (fuel : Nat) (start : List ASt) : AStSet := Id.run do
  let mut seen : AStSet := {}
  let mut todo := start
  let mut f := fuel
  for s in start do seen := seen.insert s
  while !todo.isEmpty && f > 0 do
    f := f - 1
    match todo with
    | [] => pure ()
    | a :: rest =>
      todo := rest
      for a' in tauSteps c a do
        if !seen.contains a' then
          seen := seen.insert a'
          todo := a' :: todo
  return seen

def afterEvent (c : Cfg) (states : AStSet) (e : Ev) : List ASt := Id.run do
  let mut out : List ASt := []
  for (s, pend, riPend, diPend) in states do
    match e, pend with
    | .cr d k, some p => if p == (d, k) && !diPend then out := (s, none, riPend, false) :: out
    | .cr _ _, none => pure ()
    | _, _ =>
      -- a failed reader initialisation may be logged before the thread is gone
      if e == .ri false && !riPend && label c s .reader == some e then
        out := (s, pend, true, diPend) :: out
      -- a data set may be created before it is sent
      if !diPend && pend.isNone && isInit s && label c s .main == some e then
        out := (s, pend, riPend, true) :: out
      for t in tids s do
        let isReader := match t with | .reader => true | _ => false
        if !(isMain t && (pend.isSome || isRecycle s || diPend)) && !(riPend && isReader) && label c s t == some e then
          match step c s t with
          | some s' => out := (s', pend, riPend, diPend) :: out
          | none => pure ()
  return out

/-- `none` = accepted (and a final state is reachable at the end); `some i` = the trace is not a
behaviour of the model: event `i` (0-based) cannot happen, `i = length` = no final state -/
def accept (c : Cfg) (trace : List Ev) : Option Nat := Id.run do
  let mut cur : List ASt := [(init, none, false, false)]
  let mut i := 0
  for e in trace do
    let cl := tauClosure c 100000 cur
    let nxt := afterEvent c cl e
    if nxt.isEmpty then return some i
    cur := nxt
    i := i + 1
  let cl := tauClosure c 100000 cur
  if cl.toList.any (fun a => final a.1) then return none else return some i

/-- (states, transitions, deadlocked non-final states, final states) of the whole reachable graph -/
def explore (c : Cfg) (fuel : Nat) : Nat × Nat × Nat × Nat := Id.run do
  let mut seen : StSet := ({} : StSet).insert init
  let mut todo := [init]
  let mut trans := 0
  let mut dead := 0
  let mut fin := 0
  let mut f := fuel
  while !todo.isEmpty && f > 0 do
    f := f - 1
    match todo with
    | [] => pure ()
    | s :: rest =>
      todo := rest
      let ss := succs c s
      trans := trans + ss.length
      if final s then fin := fin + 1
      else if ss.isEmpty then dead := dead + 1
      for s' in ss do
        if !seen.contains s' then
          seen := seen.insert s'
          todo := s' :: todo
  return (seen.size, trans, dead, fin)

end SeqIo.Par
