import SeqIoModel.Model.Stream
/-!
# Histories of calls on one FASTA reader: the concrete machine M and the abstract reader A

A *history* is a list of `Op`s applied to one reader and three live record sets.

* `stepM` runs one operation on the concrete machine (`Model/Fasta.lean`) and says what the
  caller observes (`ObsH`).
* `acceptA` is the abstract reader A: a cursor `k` into the records that the reference
  semantics S (`Spec.fasta`) assigns to the input, plus the expected contents of the three
  sets.  It accepts exactly the observations the documentation of `fasta::Reader` allows
  and nothing else.  It never looks at buffers, capacities, policies or chunking.

Operations with an out-of-range argument (`j ≥ 3`, `n = 0`, `i ≥` number of records) do
nothing and are observed as `done`.
-/

namespace SeqIo.Fasta.Hist

inductive Op where
  /-- `Reader::next()`, looking at `head()` and all `seq_lines()` -/
  | next
  /-- `Reader::next()`, looking at `head()` and `owned_seq()` -/
  | owned
  /-- `read_record_set(&mut set[j])` (`n = none`) or `read_record_set_exact(&mut set[j], n)` -/
  | set (j : Nat) (n : Option Nat)
  /-- iterate over `set[j]`, looking at `head()` and all `seq_lines()` of every record -/
  | dump (j : Nat)
  /-- `Reader::position()` -/
  | pos
  /-- `Reader::seek()` to the (line, byte) position of the `i`-th record of the input -/
  | seekRec (i : Nat)
deriving Repr, DecidableEq

/-- header and sequence lines of a record -/
abbrev RecView := List UInt8 × List (List UInt8)

/-- what the caller observes from one operation -/
inductive ObsH where
  | record (head : List UInt8) (lines : List (List UInt8))
  | owned (head : List UInt8) (seq : List UInt8)
  /-- `Some(Ok(()))` from a record set read; `m` = number of records in the set -/
  | batch (m : Nat)
  | dump (recs : List RecView)
  | pos (p : Option (Nat × Nat))
  /-- `Ok(())` from `seek`; also the observation of an operation that does nothing -/
  | done
  /-- `None`: end of input -/
  | none
  | error (e : Err)
  | panic
  | fuel
deriving Repr, DecidableEq

/-! ## what S says about the input -/

structure Items where
  recs : List Spec.FaRec
  /-- the only possible format error of FASTA (then there are no records) -/
  err : Option Err
deriving Repr

def items (inp : List UInt8) : Items :=
  match Spec.fasta inp with
  | .records rs => { recs := rs, err := none }
  | .invalidStart line found => { recs := [], err := some (.invalidStart line found) }

/-! ## the concrete machine -/

structure MSt where
  r : Reader
  sets : List RecordSet := [{}, {}, {}]

def mkMSt (inp : List UInt8) (cap : Nat) (pol : Pol) (script : List ReadEv := [])
    (chunk : Nat := 0) : MSt :=
  { r := mkReader inp cap pol script chunk }

def fuelOf (r : Reader) : Nat := opFuel r.br.src.inp.length r.br.src.script.length

/-- `head()` and `seq_lines()` of the record at `bp` in `buf` (`none` = a slice panics) -/
def viewRec (buf : List UInt8) (bp : BufPos) : Option RecView :=
  match head buf bp, allSome (seqLines buf bp) with
  | some h, some ls => some (h, ls)
  | _, _ => none

def obsNext (r : Reader) : Res Bool → ObsH
  | .ok true =>
    match viewRec r.br.buf r.bp with
    | some (h, ls) => .record h ls
    | none => .panic
  | .ok false => .none
  | .err e => .error e
  | .panic => .panic
  | .fuel => .fuel

def obsOwned (r : Reader) : Res Bool → ObsH
  | .ok true =>
    match head r.br.buf r.bp, ownedSeq r.br.buf r.bp with
    | some h, some s => .owned h s
    | _, _ => .panic
  | .ok false => .none
  | .err e => .error e
  | .panic => .panic
  | .fuel => .fuel

def obsSet (rs : RecordSet) : Res Bool → ObsH
  | .ok true => .batch rs.npos
  | .ok false => .none
  | .err e => .error e
  | .panic => .panic
  | .fuel => .fuel

/-- `for rec in &set { … }`: the first `npos` stored positions, viewed in the set's own buffer -/
def obsDump (rs : RecordSet) : ObsH :=
  match allSome ((rs.positions.take rs.npos).map (viewRec rs.buffer)) with
  | some l => .dump l
  | none => .panic

def obsSeek : Res Unit → ObsH
  | .ok () => .done
  | .err e => .error e
  | .panic => .panic
  | .fuel => .fuel

def stepM (m : MSt) : Op → MSt × ObsH
  | .next =>
    let (r', res) := next (fuelOf m.r) m.r
    ({ m with r := r' }, obsNext r' res)
  | .owned =>
    let (r', res) := next (fuelOf m.r) m.r
    ({ m with r := r' }, obsOwned r' res)
  | .set _ (some 0) => (m, .done)
  | .set j n =>
    match m.sets[j]? with
    | none => (m, .done)
    | some rs =>
      let (r', rs', res) := readRecordSetExact (fuelOf m.r) m.r rs n
      ({ r := r', sets := m.sets.set j rs' }, obsSet rs' res)
  | .dump j =>
    match m.sets[j]? with
    | none => (m, .done)
    | some rs => (m, obsDump rs)
  | .pos => (m, .pos (position m.r))
  | .seekRec i =>
    match (items m.r.br.src.inp).recs[i]? with
    | none => (m, .done)
    | some rc =>
      let (r', res) := seek m.r rc.line rc.byte
      ({ m with r := r' }, obsSeek res)

/-- the observations of a whole history -/
def runM (m : MSt) : List Op → List ObsH
  | [] => []
  | op :: ops => (stepM m op).2 :: runM (stepM m op).1 ops

/-! ## the abstract reader A -/

/-- what `position()` has to report -/
inductive Last where
  /-- the last read returned record `i` -/
  | record (i : Nat)
  /-- the last read filled a record set -/
  | set
  /-- the last call was a seek to record `i` -/
  | seek (i : Nat)
  /-- nothing is promised (start, end of input, error) -/
  | other
deriving Repr, DecidableEq

/-- expected contents of a live record set: the records `lo, …, lo + len - 1`;
`orEmpty`: the set was passed to a call that reported end of input or an error and may
have been emptied -/
structure SetExp where
  lo : Nat := 0
  len : Nat := 0
  orEmpty : Bool := false
deriving Repr, DecidableEq

structure AState where
  /-- number of records delivered (or skipped by a seek) so far -/
  k : Nat := 0
  /-- the format error has been reported -/
  errDone : Bool := false
  sets : List SetExp := [{}, {}, {}]
  last : Last := .other
deriving Repr, DecidableEq

def aInit : AState := {}

def view (rc : Spec.FaRec) : RecView := (rc.head, rc.seqLines)

def posOf (rc : Spec.FaRec) : Nat × Nat := (rc.line, rc.byte)

/-- the next read of any kind has to report the format error -/
def errDue (it : Items) (a : AState) : Option Err :=
  if a.errDone then none else it.err

def markOrEmpty (a : AState) (j : Nat) : AState :=
  match a.sets[j]? with
  | none => a
  | some e => { a with sets := a.sets.set j { e with orEmpty := true } }

/-- `acceptA it a op o = some a'`: in abstract state `a`, operation `op` may be observed as `o`,
and `a'` is the abstract state afterwards. -/
def acceptA (it : Items) (a : AState) : Op → ObsH → Option AState
  | .next, o =>
    match errDue it a with
    | some e => if o = .error e then some { a with errDone := true, last := .other } else none
    | none =>
      match it.recs[a.k]? with
      | some rc => if o = .record rc.head rc.seqLines then some { a with k := a.k + 1, last := .record a.k } else none
      | none => if o = .none then some { a with last := .other } else none
  | .owned, o =>
    match errDue it a with
    | some e => if o = .error e then some { a with errDone := true, last := .other } else none
    | none =>
      match it.recs[a.k]? with
      | some rc => if o = .owned rc.head rc.seq then some { a with k := a.k + 1, last := .record a.k } else none
      | none => if o = .none then some { a with last := .other } else none
  | .set _ (some 0), o => if o = .done then some a else none
  | .set j n, o =>
    if j < a.sets.length then
      match errDue it a with
      | some e =>
        if o = .error e then some { markOrEmpty a j with errDone := true, last := .other } else none
      | none =>
        let left := it.recs.length - a.k
        match o with
        | .none => if left = 0 then some { markOrEmpty a j with last := .other } else none
        | .batch m =>
          let ok : Bool := match n with
            | none => decide (1 ≤ m ∧ m ≤ left)
            | some n => decide (1 ≤ m ∧ m = min n left)
          if ok then
            some { a with k := a.k + m, sets := a.sets.set j { lo := a.k, len := m }, last := .set }
          else none
        | _ => none
    else if o = .done then some a else none
  | .dump j, o =>
    match a.sets[j]? with
    | none => if o = .done then some a else none
    | some e =>
      if o = .dump (((it.recs.drop e.lo).take e.len).map view) ∨ (e.orEmpty ∧ o = .dump []) then some a
      else none
  | .pos, o =>
    match o with
    | .pos p =>
      let ok : Bool := match a.last with
        | .record i => decide (p = it.recs[i]?.map posOf)
        | .set => decide (p = none ∨ (p.isSome ∧ p = it.recs[a.k]?.map posOf))
        | .seek i => decide (p = none ∨ (p.isSome ∧ p = it.recs[i]?.map posOf))
        | .other => true
      if ok then some a else none
    | _ => none
  | .seekRec i, o =>
    if i < it.recs.length then
      if o = .done then some { a with k := i, last := .seek i } else none
    else if o = .done then some a else none

/-- all observations of a history are accepted, in order -/
def runA (it : Items) (a : AState) : List Op → List ObsH → Bool
  | [], [] => true
  | op :: ops, o :: os =>
    match acceptA it a op o with
    | some a' => runA it a' ops os
    | none => false
  | _, _ => false

/-! ## property C06: no crash, no fabricated record -/

/-- the observation is a panic or a loop that ran out of fuel -/
def ObsH.crash : ObsH → Bool
  | .panic => true
  | .fuel => true
  | _ => false

/-- every record the observation shows is a record of S -/
def Genuine (it : Items) : ObsH → Prop
  | .record h ls => ∃ rc ∈ it.recs, rc.head = h ∧ rc.seqLines = ls
  | .owned h s => ∃ rc ∈ it.recs, rc.head = h ∧ rc.seq = s
  | .dump l => ∀ v ∈ l, ∃ rc ∈ it.recs, view rc = v
  | _ => True

end SeqIo.Fasta.Hist
