import SeqIoModel.Model.Fasta
import SeqIoModel.Model.Fastq
/-!
# Serialisation of owned records and record sets (serde data model, rendered as compact JSON)

`#[derive(Serialize, Deserialize)]` on a struct maps it to a map of its fields in declaration order;
`Vec<u8>` is a sequence of numbers, `usize` a number, a tuple a sequence.  `ser*` produce that
value, `de*` read it back (rejecting what serde rejects: missing fields, bytes ≥ 256), `render`
prints it the way `serde_json::to_string` does.
-/

namespace SeqIo.Serde

inductive Json where
  | num (n : Nat)
  | arr (l : List Json)
  | obj (fields : List (String × Json))

mutual
  def Json.render : Json → String
    | .num n => toString n
    | .arr l => "[" ++ renderList l ++ "]"
    | .obj fs => "{" ++ renderFields fs ++ "}"
  def renderList : List Json → String
    | [] => ""
    | [x] => x.render
    | x :: xs => x.render ++ "," ++ renderList xs
  def renderFields : List (String × Json) → String
    | [] => ""
    | [(k, v)] => "\"" ++ k ++ "\":" ++ v.render
    | (k, v) :: fs => "\"" ++ k ++ "\":" ++ v.render ++ "," ++ renderFields fs
end

def serBytes (l : List UInt8) : Json := .arr (l.map fun b => .num b.toNat)
def serNats (l : List Nat) : Json := .arr (l.map .num)

def deNum : Json → Option Nat
  | .num n => some n
  | _ => none

def deNats : Json → Option (List Nat)
  | .arr l => l.mapM deNum
  | _ => none

def deByte : Json → Option UInt8
  | .num n => if n < 256 then some n.toUInt8 else none
  | _ => none

def deBytes : Json → Option (List UInt8)
  | .arr l => l.mapM deByte
  | _ => none

/-! ## FASTA -/

structure FaOwned where
  head : List UInt8
  seq : List UInt8
deriving Repr, DecidableEq

def serFaOwned (r : FaOwned) : Json := .obj [("head", serBytes r.head), ("seq", serBytes r.seq)]

def deFaOwned : Json → Option FaOwned
  | .obj [("head", h), ("seq", s)] => do
    let h ← deBytes h
    let s ← deBytes s
    some { head := h, seq := s }
  | _ => none

def serFaPos (p : Fasta.BufPos) : Json := .obj [("start", .num p.start), ("seq_pos", serNats p.seqPos)]

def deFaPos : Json → Option Fasta.BufPos
  | .obj [("start", s), ("seq_pos", q)] => do
    let s ← deNum s
    let q ← deNats q
    some { start := s, seqPos := q }
  | _ => none

def serFaSet (rs : Fasta.RecordSet) : Json :=
  .obj [("buffer", serBytes rs.buffer), ("positions", .arr (rs.positions.map serFaPos)), ("npos", .num rs.npos)]

def deFaSet : Json → Option Fasta.RecordSet
  | .obj [("buffer", b), ("positions", .arr ps), ("npos", n)] => do
    let b ← deBytes b
    let ps ← ps.mapM deFaPos
    let n ← deNum n
    some { buffer := b, positions := ps, npos := n }
  | _ => none

/-! ## FASTQ -/

structure FqOwned where
  head : List UInt8
  seq : List UInt8
  qual : List UInt8
deriving Repr, DecidableEq

def serFqOwned (r : FqOwned) : Json :=
  .obj [("head", serBytes r.head), ("seq", serBytes r.seq), ("qual", serBytes r.qual)]

def deFqOwned : Json → Option FqOwned
  | .obj [("head", h), ("seq", s), ("qual", q)] => do
    let h ← deBytes h
    let s ← deBytes s
    let q ← deBytes q
    some { head := h, seq := s, qual := q }
  | _ => none

def serFqPos (p : Fastq.BufPos) : Json :=
  .obj [("pos", .arr [.num p.pos0, .num p.pos1]), ("seq", .num p.seq), ("sep", .num p.sep), ("qual", .num p.qual)]

def deFqPos : Json → Option Fastq.BufPos
  | .obj [("pos", .arr [a, b]), ("seq", s), ("sep", p), ("qual", q)] => do
    let a ← deNum a
    let b ← deNum b
    let s ← deNum s
    let p ← deNum p
    let q ← deNum q
    some { pos0 := a, pos1 := b, seq := s, sep := p, qual := q }
  | _ => none

def serFqSet (rs : Fastq.RecordSet) : Json :=
  .obj [("buffer", serBytes rs.buffer), ("buf_positions", .arr (rs.positions.map serFqPos))]

def deFqSet : Json → Option Fastq.RecordSet
  | .obj [("buffer", b), ("buf_positions", .arr ps)] => do
    let b ← deBytes b
    let ps ← ps.mapM deFqPos
    some { buffer := b, positions := ps }
  | _ => none

end SeqIo.Serde
