/-!
# Thread protocol of `parallel::read_parallel_init` as a transition system

Threads: the main thread (initialises the data sets, runs the consumer closure, drops the
`ParallelRecordsets`, joins), the reader thread (initialises the reader, recycles empty data
sets, fills them, hands them to the pool, finally joins the pool and sends the end marker) and
up to `T` pool workers.  Two bounded channels of capacity `Q`: `empty` (main → reader) and `done`
(reader/workers → main).  The transition rules are the documented semantics of
`std::sync::mpsc::sync_channel` (a send blocks while the buffer is full and fails at once when
the receiver is gone; a receive blocks while the buffer is empty and fails when it is empty and
all senders are gone), `crossbeam_utils::thread::scope` (returns when all spawned threads have
ended) and `scoped_threadpool` (`join_all` / the end of `scoped` wait for all submitted jobs).

Data sets are identified by the index of the `dataset_init` call that created them; batches by
the index of the successful `fill_data` call.
-/

namespace SeqIo.Par

structure Cfg where
  T : Nat                       -- worker threads (≥ 1)
  Q : Nat                       -- queue_len (≥ 1)
  N : Nat                       -- successful fills before the reader ends
  endErr : Bool                 -- the reader ends with an error (true) or with `None` (false)
  readerInitFails : Bool
  dsInitFailAt : Option Nat     -- index of the failing `dataset_init` call
  stopAfter : Option Nat        -- the consumer returns after this many results (none = drains)
  contAfterErr : Bool := false  -- the consumer keeps calling `next()` after it received the error
deriving Repr, DecidableEq, BEq, Hashable

inductive Msg where
  | res (ds batch : Nat)
  | err
  | fin
deriving Repr, DecidableEq, BEq, Hashable

/-- program counter of the reader thread -/
inductive RPc where
  | start | recvEmpty | fill (ds : Nat) | sendErr | joinAll (sendFin : Bool) | sendFin | exited
deriving Repr, DecidableEq, BEq, Hashable

/-- program counter of the main thread -/
inductive MPc where
  | init (i : Nat)        -- about to create the data set for queue slot `i` (`i = Q`: the current set)
  | recvDone              -- consumer inside `next()`, waiting on the done channel
  | recycle (prev : Nat)  -- consumer inside `next()`, sending the previous set back
  | dropping              -- closure finished (or failed): about to drop the channel ends
  | joining               -- waiting for the reader thread
  | returned
deriving Repr, DecidableEq, BEq, Hashable

structure St where
  emptyCh : List Nat := []
  doneCh : List Msg := []
  consumerAlive : Bool := true      -- main still holds `empty_send` and `done_recv`
  rd : RPc := .start
  filled : Nat := 0
  jobs : List (Nat × Nat) := []     -- queued in the pool
  working : List (Nat × Nat) := []  -- `work` running
  sending : List (Nat × Nat) := []  -- worker blocked in / about to do `done_send.send`
  mn : MPc := .init 0
  dsCalls : Nat := 0                -- `dataset_init` calls so far
  cur : Option Nat := none          -- data set held by the consumer
  got : Nat := 0                    -- results the consumer received
  delivered : List (Nat × Nat) := []
  errsSeen : Nat := 0
  finSeen : Bool := false
  mainErr : Bool := false           -- a `dataset_init` failure is being returned
  readerErr : Bool := false         -- `reader_init` failed (returned through `join`)
deriving Repr, DecidableEq, BEq, Hashable

inductive Tid where
  | main | reader | workerTake | workerFinish (i : Nat) | workerSend (i : Nat)
deriving Repr, DecidableEq

def readerAlive (s : St) : Bool := s.rd != .exited

/-- some `done_send` handle still exists -/
def doneSenders (s : St) : Bool :=
  readerAlive s || !s.jobs.isEmpty || !s.working.isEmpty || !s.sending.isEmpty

def afterResult (c : Cfg) (got : Nat) : MPc :=
  if c.stopAfter = some got then .dropping else .recvDone

def step (c : Cfg) (s : St) : Tid → Option St
  | .reader =>
    match s.rd with
    | .start =>
      if c.readerInitFails then some { s with rd := .exited, readerErr := true }
      else some { s with rd := .recvEmpty }
    | .recvEmpty =>
      match s.emptyCh with
      | d :: rest => some { s with emptyCh := rest, rd := .fill d }
      | [] => if s.consumerAlive then none else some { s with rd := .joinAll false }
    | .fill d =>
      if s.filled < c.N then
        some { s with jobs := s.jobs ++ [(d, s.filled)], filled := s.filled + 1, rd := .recvEmpty }
      else if c.endErr then some { s with rd := .sendErr }
      else some { s with rd := .joinAll true }
    | .sendErr =>
      if !s.consumerAlive then some { s with rd := .joinAll true }
      else if s.doneCh.length < c.Q then some { s with doneCh := s.doneCh ++ [.err], rd := .joinAll true }
      else none
    | .joinAll fin =>
      if s.jobs.isEmpty && s.working.isEmpty && s.sending.isEmpty then
        some { s with rd := if fin then .sendFin else .exited }
      else none
    | .sendFin =>
      if !s.consumerAlive then some { s with rd := .exited }
      else if s.doneCh.length < c.Q then some { s with doneCh := s.doneCh ++ [.fin], rd := .exited }
      else none
    | .exited => none
  | .workerTake =>
    match s.jobs with
    | j :: rest =>
      if s.working.length + s.sending.length < c.T then some { s with jobs := rest, working := s.working ++ [j] }
      else none
    | [] => none
  | .workerFinish i =>
    match s.working[i]? with
    | some j => some { s with working := s.working.eraseIdx i, sending := s.sending ++ [j] }
    | none => none
  | .workerSend i =>
    match s.sending[i]? with
    | some j =>
      if !s.consumerAlive then some { s with sending := s.sending.eraseIdx i }
      else if s.doneCh.length < c.Q then
        some { s with sending := s.sending.eraseIdx i, doneCh := s.doneCh ++ [.res j.1 j.2] }
      else none
    | none => none
  | .main =>
    match s.mn with
    | .init i =>
      if c.dsInitFailAt = some s.dsCalls then
        some { s with dsCalls := s.dsCalls + 1, mainErr := true, mn := .dropping }
      else if i < c.Q then
        if readerAlive s then
          if s.emptyCh.length < c.Q then
            some { s with dsCalls := s.dsCalls + 1, emptyCh := s.emptyCh ++ [s.dsCalls], mn := .init (i + 1) }
          else none
        else some { s with dsCalls := s.dsCalls + 1, mn := .init c.Q }     -- send failed: `break`
      else
        some { s with dsCalls := s.dsCalls + 1, cur := some s.dsCalls, mn := afterResult c 0 }
    | .recvDone =>
      match s.doneCh with
      | m :: rest =>
        match m with
        | .res d b =>
          some { s with doneCh := rest, cur := some d, got := s.got + 1,
                        delivered := s.delivered ++ [(d, b)], mn := .recycle (s.cur.getD 0) }
        | .err =>
          some { s with doneCh := rest, errsSeen := s.errsSeen + 1,
                        mn := (if c.contAfterErr then MPc.recvDone else MPc.dropping) }
        | .fin => some { s with doneCh := rest, finSeen := true, mn := .dropping }
      | [] => if doneSenders s then none else some { s with mn := .dropping }   -- closed channel = end
    | .recycle p =>
      if !readerAlive s then some { s with mn := afterResult c s.got }          -- `.ok()`
      else if s.emptyCh.length < c.Q then some { s with emptyCh := s.emptyCh ++ [p], mn := afterResult c s.got }
      else none
    | .dropping => some { s with consumerAlive := false, mn := .joining }
    | .joining => if s.rd = .exited then some { s with mn := .returned } else none
    | .returned => none

def tids (s : St) : List Tid :=
  [.main, .reader, .workerTake] ++ (List.range s.working.length).map .workerFinish ++
    (List.range s.sending.length).map .workerSend

def succs (c : Cfg) (s : St) : List St := (tids s).filterMap (step c s)

def final (s : St) : Bool := s.mn == .returned

def init : St := {}

/-- run a schedule (list of thread choices); `none` if some chosen thread is not enabled -/
def runSched (c : Cfg) : St → List Tid → Option St
  | s, [] => some s
  | s, t :: ts =>
    match step c s t with
    | some s' => runSched c s' ts
    | none => none

/-- reachable states -/
inductive Reach (c : Cfg) : St → Prop where
  | init : Reach c init
  | step {s s' : St} {t : Tid} : Reach c s → step c s t = some s' → Reach c s'

/-! ## The per-record output vector (`parallel_record_impl!`)

`out` is the recycled `Vec<D>` of a data set (any previous length), `recs` the records of the
new batch.  First loop: `out.iter_mut().zip(&mut record_iter)` – note that `Zip` pulls from
`out` first and stops without touching the record iterator when `out` is exhausted; second
loop: the remaining records are pushed. -/

/-- returns the new output vector: position `i < recs.length` holds `work recs[i] (old value or init)` -/
def recycleZip {R D : Type} (work : R → D → D) (initD : D) : List D → List R → List D
  | o :: os, r :: rs => work r o :: recycleZip work initD os rs
  | [], r :: rs => work r initD :: recycleZip work initD [] rs
  | os, [] => os

/-- what the consumer sees: `records.into_iter().zip(out.iter_mut())` -/
def consumerZip {R D : Type} (recs : List R) (out : List D) : List (R × D) := recs.zip out

end SeqIo.Par
