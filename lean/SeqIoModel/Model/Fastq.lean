import SeqIoModel.Model.Source
import SeqIoModel.Model.Policy
/-!
# Concrete machine M for `fastq.rs`

A function-by-function mirror of `fastq::Reader`.
-/

namespace SeqIo.Fastq

inductive State where
  | new | parsing | positioned | finished
deriving Repr, DecidableEq

/-- `fastq::RecordPos` -/
inductive RecordPos where
  | head | seq | sep | qual
deriving Repr, DecidableEq

def RecordPos.ord : RecordPos → Nat
  | .head => 0 | .seq => 1 | .sep => 2 | .qual => 3

/-- `fastq::ErrorPosition` (the id as raw bytes; the real one is `from_utf8_lossy` of them) -/
structure ErrPos where
  line : Nat
  id : Option (List UInt8)
deriving Repr, DecidableEq

inductive Err where
  | io (k : IoKind)
  | unequalLengths (seq qual : Nat) (pos : ErrPos)
  | invalidStart (found : UInt8) (pos : ErrPos)
  | invalidSep (found : UInt8) (pos : ErrPos)
  | unexpectedEnd (pos : ErrPos)
  | bufferLimit
deriving Repr, DecidableEq

/-- `fastq::BufferPosition` -/
structure BufPos where
  pos0 : Nat := 0
  pos1 : Nat := 0
  seq : Nat := 0
  sep : Nat := 0
  qual : Nat := 0
deriving Repr, DecidableEq

structure Reader where
  br : BufRd
  bp : BufPos := {}
  incompletePos : Option RecordPos := none
  line : Nat := 1
  byte : Nat := 0
  state : State := .new
  pol : Pol
  log : List (Nat × Option Nat) := []

structure RecordSet where
  buffer : List UInt8 := []
  positions : List BufPos := []
deriving Repr, DecidableEq

abbrev Res (α : Type) := Out Err α

def mkReader (inp : List UInt8) (cap : Nat) (pol : Pol) (script : List ReadEv := [])
    (chunk : Nat := 0) (seekFails : List (Nat × IoKind) := []) : Reader :=
  { br := { cap := cap, src := { inp := inp, script := script, chunk := chunk, seekFails := seekFails } },
    pol := pol }

/-! ## Views -/

/-- `BufferPosition::head` -/
def head (buf : List UInt8) (bp : BufPos) : Option (List UInt8) :=
  match csub bp.seq 1 with
  | none => none
  | some e => (slice buf (bp.pos0 + 1) e).map trimCr

/-- `BufferPosition::seq` -/
def seq (buf : List UInt8) (bp : BufPos) : Option (List UInt8) :=
  match csub bp.sep 1 with
  | none => none
  | some e => (slice buf bp.seq e).map trimCr

/-- `BufferPosition::qual` -/
def qual (buf : List UInt8) (bp : BufPos) : Option (List UInt8) :=
  (slice buf bp.qual bp.pos1).map trimCr

/-- `RefRecord::write_unchanged` output -/
def writeUnchanged (buf : List UInt8) (bp : BufPos) : Option (List UInt8) :=
  (slice buf bp.pos0 bp.pos1).map (· ++ [LF])

/-! ## Reader -/

/-- `Reader::find_line` (outer `none` = slice panic) -/
def findLine (buf : List UInt8) (start : Nat) : Option (Option Nat) :=
  if start ≤ buf.length then some ((findLF (buf.drop start)).map (fun p => start + p + 1)) else none

/-- `Reader::get_error_pos` (`none` = panic) -/
def getErrorPos (r : Reader) (lineOffset : Nat) (parseId : Bool) : Option ErrPos :=
  if parseId then
    match csub r.bp.seq r.bp.pos0 with
    | none => none
    | some d =>
      if d > 1 then
        match head r.br.buf r.bp with
        | none => none
        | some h => some { line := r.line + lineOffset, id := some (idBytes h) }
      else some { line := r.line + lineOffset, id := none }
  else some { line := r.line + lineOffset, id := none }

/-- `Reader::validate` -/
def validate (r : Reader) : Reader × Res Unit :=
  match r.br.buf[r.bp.pos0]? with
  | none => (r, .panic)
  | some startByte =>
    if startByte ≠ AT then
      let r := { r with state := .finished }
      match getErrorPos r 0 false with
      | none => (r, .panic)
      | some p => (r, .err (.invalidStart startByte p))
    else
      match r.br.buf[r.bp.sep]? with
      | none => (r, .panic)
      | some sepByte =>
        if sepByte ≠ PLUS then
          let r := { r with state := .finished }
          match getErrorPos r 2 true with
          | none => (r, .panic)
          | some p => (r, .err (.invalidSep sepByte p))
        else
          match csub r.bp.pos1 r.bp.qual, csub r.bp.sep r.bp.seq with
          | some q, some s =>
            if s ≠ q + 1 then
              match seq r.br.buf r.bp, qual r.br.buf r.bp with
              | some sq, some ql =>
                if sq.length ≠ ql.length then
                  let r := { r with state := .finished }
                  match getErrorPos r 0 true with
                  | none => (r, .panic)
                  | some p => (r, .err (.unequalLengths sq.length ql.length p))
                else (r, .ok ())
              | _, _ => (r, .panic)
            else (r, .ok ())
          | _, _ => (r, .panic)

/-- lift `validate` into the `Ok(true)` of `search` -/
def validated (r : Reader) : Reader × Res Bool :=
  match validate r with
  | (r, .ok ()) => (r, .ok true)
  | (r, .err e) => (r, .err e)
  | (r, .panic) => (r, .panic)
  | (r, .fuel) => (r, .fuel)

/-- `Reader::search` -/
def search (r : Reader) : Reader × Res Bool :=
  match findLine r.br.buf r.bp.pos0 with
  | none => (r, .panic)
  | some none => ({ r with incompletePos := some .head }, .ok false)
  | some (some sq) =>
    let r := { r with bp := { r.bp with seq := sq } }
    match findLine r.br.buf sq with
    | none => (r, .panic)
    | some none => ({ r with incompletePos := some .seq }, .ok false)
    | some (some sp) =>
      let r := { r with bp := { r.bp with sep := sp } }
      match findLine r.br.buf sp with
      | none => (r, .panic)
      | some none => ({ r with incompletePos := some .sep }, .ok false)
      | some (some ql) =>
        let r := { r with bp := { r.bp with qual := ql } }
        match findLine r.br.buf ql with
        | none => (r, .panic)
        | some none => ({ r with incompletePos := some .qual }, .ok false)
        | some (some e) =>
          match csub e 1 with
          | none => (r, .panic)
          | some p1 => validated { r with bp := { r.bp with pos1 := p1 } }

/-- `Reader::search_incomplete`; `.ok none` = complete and valid -/
def searchIncomplete (r : Reader) (pos : RecordPos) : Reader × Res (Option RecordPos) :=
  -- head
  let s1 : Option (Reader × Bool) :=
    if pos = .head then
      match findLine r.br.buf r.bp.pos0 with
      | none => none
      | some none => some ({ r with incompletePos := some .head }, false)
      | some (some x) => some ({ r with bp := { r.bp with seq := x } }, true)
    else some (r, true)
  match s1 with
  | none => (r, .panic)
  | some (r, false) => (r, .ok r.incompletePos)
  | some (r, true) =>
    let s2 : Option (Reader × Bool) :=
      if pos.ord ≤ RecordPos.seq.ord then
        match findLine r.br.buf r.bp.seq with
        | none => none
        | some none => some ({ r with incompletePos := some .seq }, false)
        | some (some x) => some ({ r with bp := { r.bp with sep := x } }, true)
      else some (r, true)
    match s2 with
    | none => (r, .panic)
    | some (r, false) => (r, .ok r.incompletePos)
    | some (r, true) =>
      let s3 : Option (Reader × Bool) :=
        if pos.ord ≤ RecordPos.sep.ord then
          match findLine r.br.buf r.bp.sep with
          | none => none
          | some none => some ({ r with incompletePos := some .sep }, false)
          | some (some x) => some ({ r with bp := { r.bp with qual := x } }, true)
        else some (r, true)
      match s3 with
      | none => (r, .panic)
      | some (r, false) => (r, .ok r.incompletePos)
      | some (r, true) =>
        -- `pos <= RecordPos::Qual` always holds
        match findLine r.br.buf r.bp.qual with
        | none => (r, .panic)
        | some none => ({ r with incompletePos := some .qual }, .ok (some .qual))
        | some (some e) =>
          match csub e 1 with
          | none => (r, .panic)
          | some p1 =>
            let r := { r with bp := { r.bp with pos1 := p1 }, incompletePos := none }
            match validate r with
            | (r, .ok ()) => (r, .ok none)
            | (r, .err e) => (r, .err e)
            | (r, .panic) => (r, .panic)
            | (r, .fuel) => (r, .fuel)

/-- `Reader::check_end` -/
def checkEnd (r : Reader) (pos : RecordPos) : Reader × Res Bool :=
  if pos = .qual then
    match validate { r with bp := { r.bp with pos1 := r.br.buf.length } } with
    | (r, .ok ()) =>
      -- the quality line has no terminator here: the actual lengths decide
      match seq r.br.buf r.bp, qual r.br.buf r.bp with
      | some sq, some ql =>
        if sq.length ≠ ql.length then
          match getErrorPos r 0 true with
          | none => (r, .panic)
          | some p => (r, .err (.unequalLengths sq.length ql.length p))
        else (r, .ok true)
      | _, _ => (r, .panic)
    | (r, .err e) => (r, .err e)
    | (r, .panic) => (r, .panic)
    | (r, .fuel) => (r, .fuel)
  else
    if r.bp.pos0 ≤ r.br.buf.length then
      let rest := r.br.buf.drop r.bp.pos0
      if (splitLF rest).all (fun l => (trimCr l).isEmpty) then (r, .ok false)
      else
        match getErrorPos r pos.ord (pos.ord > RecordPos.head.ord) with
        | none => (r, .panic)
        | some p => (r, .err (.unexpectedEnd p))
    else (r, .panic)

/-- `Reader::grow` -/
def grow (r : Reader) : Reader × Res Unit :=
  let cap := r.br.cap
  let (ans, pol) := r.pol.growTo cap
  let r := { r with pol := pol, log := r.log ++ [(cap, ans)] }
  match ans with
  | none => (r, .err .bufferLimit)
  | some n =>
    match csub n cap with
    | none => (r, .panic)
    | some add => ({ r with br := r.br.reserve add }, .ok ())

/-- `Reader::make_room` -/
def makeRoom (r : Reader) (ip : RecordPos) : Option Reader :=
  let c := r.bp.pos0
  let sq := if ip.ord ≥ RecordPos.seq.ord then csub r.bp.seq c else some r.bp.seq
  let sp := if ip.ord ≥ RecordPos.sep.ord then csub r.bp.sep c else some r.bp.sep
  let ql := if ip.ord ≥ RecordPos.qual.ord then csub r.bp.qual c else some r.bp.qual
  match sq, sp, ql with
  | some sq, some sp, some ql =>
    some { r with br := r.br.consume c, bp := { r.bp with pos0 := 0, seq := sq, sep := sp, qual := ql } }
  | _, _, _ => none

/-- `Reader::resume_incomplete_search` -/
def resume : Nat → RecordPos → Bool → Reader → Reader × Res Bool
  | 0, _, _, r => (r, .fuel)
  | f + 1, ip, mk, r =>
    if r.br.buf.length < r.br.cap then
      checkEnd { r with state := .finished } ip
    else
      let step1 : Reader × Res Unit :=
        if !mk || r.bp.pos0 = 0 then
          match grow r with
          | (r, .ok ()) => (r, .ok ())
          | (r, .err e) => ({ r with state := .finished }, .err e)
          | x => x
        else match makeRoom r ip with
          | some r' => (r', .ok ())
          | none => (r, .panic)
      match step1 with
      | (r, .ok ()) =>
        match fillBuf r.br with
        | (br, .error k) => ({ r with br := br, state := .finished }, .err (.io k))
        | (br, .ok _) =>
          match searchIncomplete { r with br := br } ip with
          | (r, .ok (some ip')) => resume f ip' mk r
          | (r, .ok none) => (r, .ok true)
          | (r, .err e) => (r, .err e)
          | (r, .panic) => (r, .panic)
          | (r, .fuel) => (r, .fuel)
      | (r, .err e) => (r, .err e)
      | (r, .panic) => (r, .panic)
      | (r, .fuel) => (r, .fuel)

/-- `Reader::init` -/
def init (r : Reader) : Reader × Res Bool :=
  match fillBuf r.br with
  | (br, .error k) => ({ r with br := br }, .err (.io k))
  | (br, .ok 0) => ({ r with br := br, state := .finished }, .ok false)
  | (br, .ok _) => ({ r with br := br }, .ok true)

/-- `Reader::increment_record` -/
def incrementRecord (r : Reader) : Option Reader :=
  match csub (r.bp.pos1 + 1) r.bp.pos0 with
  | none => none
  | some d => some { r with byte := r.byte + d, line := r.line + 4, bp := { r.bp with pos0 := r.bp.pos1 + 1 } }

def nextCont (fuel : Nat) (r : Reader) : Reader × Res Bool :=
  let s1 : Reader × Res Bool := if r.incompletePos.isNone then search r else (r, .ok true)
  match s1 with
  | (r, .ok _) =>
    match r.incompletePos with
    | some ip => resume fuel ip true r
    | none => (r, .ok true)
  | x => x

/-- `Reader::next`; `.ok true` = `Some(Ok(record))`, `.ok false` = `None` -/
def next (fuel : Nat) (r : Reader) : Reader × Res Bool :=
  match r.state with
  | .new =>
    match init r with
    | (r, .ok true) => nextCont fuel { r with state := .parsing }
    | x => x
  | .positioned => nextCont fuel { r with state := .parsing }
  | .finished => (r, .ok false)
  | .parsing =>
    match incrementRecord r with
    | some r => nextCont fuel r
    | none => (r, .panic)

def storeStep (n : Option Nat) (r : Reader) (rs : RecordSet) : Option (Reader × RecordSet × Bool) :=
  let rs := { rs with positions := rs.positions ++ [r.bp] }
  match incrementRecord r with
  | none => none
  | some r => some (r, rs, n = some rs.positions.length)

/-- the loop of `read_record_set_exact`; `.ok true` = left normally, `.ok false` = `return None` -/
def setLoop : Nat → Nat → Option Nat → Bool → Reader → RecordSet → Reader × RecordSet × Res Bool
  | 0, _, _, _, r, rs => (r, rs, .fuel)
  | f + 1, fuel, n, isNew, r, rs =>
    if r.state = .finished then (r, rs, .ok true)
    else
      match r.incompletePos with
      | some ip =>
        match resume fuel ip isNew { r with incompletePos := none } with
        | (r, .ok true) =>
          match storeStep n r rs with
          | none => (r, rs, .panic)
          | some (r, rs, true) => (r, rs, .ok true)
          | some (r, rs, false) => setLoop f fuel n isNew r rs
        | (r, .ok false) =>
          if rs.positions.isEmpty then (r, rs, .ok false) else (r, rs, .ok true)
        | (r, .err e) => (r, { rs with positions := [] }, .err e)
        | (r, .panic) => (r, rs, .panic)
        | (r, .fuel) => (r, rs, .fuel)
      | none =>
        match search r with
        | (r, .err e) => (r, { rs with positions := [] }, .err e)
        | (r, .panic) => (r, rs, .panic)
        | (r, .fuel) => (r, rs, .fuel)
        | (r, .ok false) =>
          if rs.positions.isEmpty then setLoop f fuel n isNew r rs
          else match n with
            | some n' => if rs.positions.length < n' then setLoop f fuel n false r rs else (r, rs, .ok true)
            | none => (r, rs, .ok true)
        | (r, .ok true) =>
          match storeStep n r rs with
          | none => (r, rs, .panic)
          | some (r, rs, true) => (r, rs, .ok true)
          | some (r, rs, false) => setLoop f fuel n isNew r rs

/-- `Reader::read_record_set_exact` -/
def readRecordSetExact (fuel : Nat) (r : Reader) (rs : RecordSet) (n : Option Nat) :
    Reader × RecordSet × Res Bool :=
  let pre : Reader × Res Bool :=
    match r.state with
    | .new =>
      match init r with
      | (r, .ok true) => ({ r with state := .positioned }, .ok true)
      | x => x
    | .finished => (r, .ok false)
    | .parsing =>
      match incrementRecord r with
      | some r => ({ r with state := .positioned }, .ok true)
      | none => (r, .panic)
    | .positioned => (r, .ok true)
  match pre with
  | (r, .ok true) =>
    match setLoop fuel fuel n true r { rs with positions := [] } with
    | (r, rs, .ok true) => (r, { rs with buffer := r.br.buf }, .ok true)
    | x => x
  | (r, .ok false) => (r, rs, .ok false)
  | (r, .err e) => (r, rs, .err e)
  | (r, .panic) => (r, rs, .panic)
  | (r, .fuel) => (r, rs, .fuel)

/-- `Reader::position` -/
def position (r : Reader) : Nat × Nat := (r.line, r.byte)

/-- `Reader::seek` -/
def seek (r : Reader) (toLine toByte : Nat) : Reader × Res Unit :=
  let pos : Int := (r.bp.pos0 : Int) + ((toByte : Int) - (r.byte : Int))
  if 0 ≤ pos ∧ pos < (r.br.buf.length : Int) then
    -- a partly filled buffer (an earlier read failed) is completed first
    let filled : BufRd × Except IoKind Nat :=
      if r.br.buf.length < r.br.cap then fillBuf r.br else (r.br, .ok 0)
    match filled with
    | (br, .error k) => ({ r with br := br }, .err (.io k))
    | (br, .ok _) =>
      ({ r with br := br, line := toLine, byte := toByte, incompletePos := none, state := .positioned,
                bp := { r.bp with pos0 := pos.toNat, pos1 := 0 } }, .ok ())
  else
    match r.br.seek toByte with
    | (br, some k) => ({ r with br := br }, .err (.io k))
    | (br, none) =>
      let r := { r with br := br, line := toLine, byte := toByte, incompletePos := none,
                        bp := { r.bp with pos0 := 0, pos1 := 0 }, state := .finished }
      match fillBuf br with
      | (br, .error k) => ({ r with br := br }, .err (.io k))
      | (br, .ok _) => ({ r with br := br, state := .positioned }, .ok ())

def setPolicy (r : Reader) (p : Pol) : Reader := { r with pol := p }

end SeqIo.Fastq
