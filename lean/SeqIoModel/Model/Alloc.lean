import SeqIoModel.Model.Fasta
import SeqIoModel.Model.Fastq
/-!
# Ghost capacities: which reader calls can allocate (C18)

The readers own a small number of `Vec`s: the FASTA reader's `buf_pos.seq_pos`, and per record set
`buffer`, `positions` / `buf_positions` and (FASTA) one `seq_pos` per stored position.  All of them are
only ever *cleared and refilled* (`clear`, `push`, `extend`, `update`) – never replaced – so their
capacities never shrink, and a call allocates exactly when some `Vec` has to hold more elements than its
capacity.  This file adds these capacities as ghost state on top of the concrete machines M
(`Model/Fasta.lean`, `Model/Fastq.lean`): the ghost step of an operation is computed from M's state
before and after the operation (the lengths the `Vec`s reached), following `alloc::raw_vec`'s amortised
growth rule.  The number of allocator calls it predicts is compared with a counting global allocator
around every `next()` / `read_record_set(_exact)` call of the real readers on every run (`A` cases).

What is modelled of `Vec` (Rust 1.7x–1.9x `RawVec::grow_amortized`): pushing onto a full vector of
capacity `c` re-allocates to `max (2c) (c+1) m`, `extend` of `n` elements onto an empty vector of capacity
`c < n` re-allocates once to `max (2c) n m` (`m` = 8 for bytes, 4 for the offset types), `clear` keeps the
capacity, `clone` of a `Vec` of length `n > 0` allocates capacity `n`.
-/

namespace SeqIo.Alloc

/-- `RawVec::grow_amortized` -/
def amortized (mnz cap need : Nat) : Nat := max (max (2 * cap) need) mnz

/-- Single `push`es until the vector holds `target` elements: (new capacity, re-allocations).
The first argument is fuel; `target` is always enough. -/
def pushTo (mnz : Nat) : Nat → Nat → Nat → Nat × Nat
  | 0, cap, _ => (cap, 0)
  | f + 1, cap, target =>
    if target ≤ cap then (cap, 0)
    else
      let r := pushTo mnz f (amortized mnz cap (cap + 1)) target
      (r.1, r.2 + 1)

/-- A capacity known exactly (`exact`) or only from below (after a call whose number of pushes the
model state does not show, i.e. a FASTQ set read that ended in an error). -/
structure Cap where
  lb : Nat := 0
  exact : Bool := true
deriving Repr, DecidableEq

/-- allocation count of a step: `none` = not determined by the model -/
abbrev Cnt := Option Nat

def Cnt.add (a b : Cnt) : Cnt :=
  match a, b with
  | some x, some y => some (x + y)
  | _, _ => none

/-- elements pushed one at a time until the length is `target` -/
def Cap.push (mnz : Nat) (c : Cap) (target : Nat) : Cap × Cnt :=
  if target ≤ c.lb then (c, some 0)
  else if c.exact then
    let r := pushTo mnz target c.lb target
    ({ lb := r.1, exact := true }, some r.2)
  else ({ lb := target, exact := false }, none)

/-- `clear(); extend(slice of n elements)` -/
def Cap.extend (mnz : Nat) (c : Cap) (n : Nat) : Cap × Cnt :=
  if n ≤ c.lb then (c, some 0)
  else if c.exact then ({ lb := amortized mnz c.lb n, exact := true }, some 1)
  else ({ lb := n, exact := false }, none)

/-- ghost capacities of one record set -/
structure SetCaps where
  buf : Cap := {}
  pos : Cap := {}
  /-- FASTA: capacity of `positions[i].seq_pos` -/
  slots : List Cap := []
deriving Repr, DecidableEq

/-! ## FASTA -/

namespace Fa
open Fasta

/-- `Reader::next`, `seek`, …: `seq_pos` is cleared at most at the start of the call and then only
pushed to, so the length it has afterwards is the largest it had. -/
def readerStep (seqCap : Cap) (r' : Reader) : Cap × Cnt :=
  seqCap.push 4 r'.bp.seqPos.length

/-- the slots of the set after the call: `update` (clear + extend) for existing ones, `push(clone)`
for new ones -/
def slotsStep : List Cap → List BufPos → List Cap × Cnt
  | _, [] => ([], some 0)
  | [], bp :: bps =>
    let r := slotsStep [] bps
    ({ lb := bp.seqPos.length, exact := true } :: r.1,
      Cnt.add (some (if bp.seqPos.length = 0 then 0 else 1)) r.2)
  | c :: cs, bp :: bps =>
    let e := c.extend 4 bp.seqPos.length
    let r := slotsStep cs bps
    (e.1 :: r.1, Cnt.add e.2 r.2)

def maxLen (l : List BufPos) : Nat := l.foldl (fun m bp => max m bp.seqPos.length) 0

/-- `read_record_set(_exact)`: `rs'` / `r'` are the set and the reader after the call, `copied` =
the call ended with `Some(Ok(()))` (only then the buffer is copied into the set). -/
def setStep (seqCap : Cap) (sc : SetCaps) (rs' : RecordSet) (r' : Reader) (copied : Bool) :
    Cap × SetCaps × Cnt :=
  let a := seqCap.push 4 (max (maxLen rs'.positions) r'.bp.seqPos.length)
  let s := slotsStep sc.slots rs'.positions
  let p := sc.pos.push 4 rs'.positions.length
  let b := if copied then sc.buf.extend 8 rs'.buffer.length else (sc.buf, some 0)
  (a.1, { buf := b.1, pos := p.1, slots := s.1 }, Cnt.add (Cnt.add a.2 s.2) (Cnt.add p.2 b.2))

end Fa

/-! ## FASTQ (the reader itself owns no `Vec`; a stored position is plain data) -/

namespace Fq
open Fastq

/-- `read_record_set(_exact)`: `buf_positions.clear()`, one `push` per record, buffer copied on
success.  After an error the set is empty again and the model state does not show how many positions
had been pushed: the capacity is then only known from below. -/
def setStep (sc : SetCaps) (rs' : RecordSet) (copied failed : Bool) : SetCaps × Cnt :=
  if failed then ({ sc with pos := { sc.pos with exact := false } }, none)
  else
    let p := sc.pos.push 4 rs'.positions.length
    let b := if copied then sc.buf.extend 8 rs'.buffer.length else (sc.buf, some 0)
    ({ sc with buf := b.1, pos := p.1 }, Cnt.add p.2 b.2)

end Fq

/-- `RecordSet::shrink_buffer_to_fit`: afterwards the capacity is the length, whatever it was -/
def shrinkStep (sc : SetCaps) (len : Nat) : SetCaps :=
  { sc with buf := { lb := len, exact := true } }

end SeqIo.Alloc
