import SeqIoModel.Model.Basic
/-!
# Buffer policies (`policy.rs`)

`BufPolicy::grow_to(&mut self, current_size) -> Option<usize>` is a deterministic stateful
object; such an object is fully described by a function from the list of all arguments it
has been called with so far (latest last) to its answer.  The built-in policies are stateless.
-/

namespace SeqIo

/-- `StdPolicy::grow_to` -/
def stdGrow (cur : Nat) : Option Nat :=
  some (if cur < 2 ^ 23 then cur * 2 else cur + 2 ^ 23)

/-- `DoubleUntil(t)::grow_to` -/
def doubleUntilGrow (t cur : Nat) : Option Nat :=
  some (if cur < t then cur * 2 else cur + t)

/-- `DoubleUntilLimited::new(t, l)::grow_to` -/
def limitedGrow (t l cur : Nat) : Option Nat :=
  let n := if cur < t then cur * 2 else cur + t
  if n ≤ l then some n else none

/-- A deterministic policy object: answer as a function of the call history. -/
structure Pol where
  f : List Nat → Option Nat
  hist : List Nat := []

def Pol.growTo (p : Pol) (cur : Nat) : Option Nat × Pol :=
  let h := p.hist ++ [cur]
  (p.f h, { p with hist := h })

/-- Policy descriptions understood by the driver and the harness. -/
inductive PolDesc where
  | std
  | doubleUntil (t : Nat)
  | limited (t l : Nat)
  | add (k : Nat)          -- `cur + k`  (slowly growing)
  | refuseAt (c : Nat)     -- `None` if `cur ≥ c`, else `cur * 2`
  | table (l : List Nat)   -- i-th call answers `cur + l[i]` (`0` = refuse); afterwards `cur * 2`
deriving Repr, DecidableEq

def PolDesc.toPol : PolDesc → Pol
  | .std => { f := fun h => stdGrow (h.getLastD 0) }
  | .doubleUntil t => { f := fun h => doubleUntilGrow t (h.getLastD 0) }
  | .limited t l => { f := fun h => limitedGrow t l (h.getLastD 0) }
  | .add k => { f := fun h => some (h.getLastD 0 + k) }
  | .refuseAt c => { f := fun h => let cur := h.getLastD 0; if cur ≥ c then none else some (cur * 2) }
  | .table l => { f := fun h =>
      let cur := h.getLastD 0
      match l[h.length - 1]? with
      | some 0 => none
      | some k => some (cur + k)
      | none => some (cur * 2) }

end SeqIo
