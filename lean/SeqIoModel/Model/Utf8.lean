import SeqIoModel.Model.Basic
/-!
# UTF-8 well-formedness (`str::from_utf8(..).is_ok()`)

The well-formed byte sequences of the Unicode standard (Table 3-7), which is what
`core::str::from_utf8` accepts.  Compared with Rust's verdict on every generated header by the
correspondence run.
-/

namespace SeqIo

def isCont (b : UInt8) : Bool := 0x80 ≤ b && b ≤ 0xBF

def validUtf8 : List UInt8 → Bool
  | [] => true
  | b0 :: rest =>
    if b0 < 0x80 then validUtf8 rest
    else if 0xC2 ≤ b0 && b0 ≤ 0xDF then
      match rest with
      | b1 :: r => isCont b1 && validUtf8 r
      | _ => false
    else if b0 = 0xE0 then
      match rest with
      | b1 :: b2 :: r => (0xA0 ≤ b1 && b1 ≤ 0xBF) && isCont b2 && validUtf8 r
      | _ => false
    else if (0xE1 ≤ b0 && b0 ≤ 0xEC) || b0 = 0xEE || b0 = 0xEF then
      match rest with
      | b1 :: b2 :: r => isCont b1 && isCont b2 && validUtf8 r
      | _ => false
    else if b0 = 0xED then
      match rest with
      | b1 :: b2 :: r => (0x80 ≤ b1 && b1 ≤ 0x9F) && isCont b2 && validUtf8 r
      | _ => false
    else if b0 = 0xF0 then
      match rest with
      | b1 :: b2 :: b3 :: r => (0x90 ≤ b1 && b1 ≤ 0xBF) && isCont b2 && isCont b3 && validUtf8 r
      | _ => false
    else if 0xF1 ≤ b0 && b0 ≤ 0xF3 then
      match rest with
      | b1 :: b2 :: b3 :: r => isCont b1 && isCont b2 && isCont b3 && validUtf8 r
      | _ => false
    else if b0 = 0xF4 then
      match rest with
      | b1 :: b2 :: b3 :: r => (0x80 ≤ b1 && b1 ≤ 0x8F) && isCont b2 && isCont b3 && validUtf8 r
      | _ => false
    else false

end SeqIo
