import SeqIoModel.Model.Basic
/-!
# Reference semantics S

Total pure functions from the whole input to "the records the format rules define", with
true byte offsets and 1-based line numbers, or the first error with all of its fields.
Independent of buffers, capacities and chunking by construction.
-/

namespace SeqIo.Spec

/-- a piece is blank iff it is empty or a lone CR -/
def blank (p : List UInt8) : Bool := (trimCr p).isEmpty

/-! ## FASTA -/

structure FaRec where
  byte : Nat
  line : Nat
  head : List UInt8
  seqLines : List (List UInt8)
deriving Repr, DecidableEq

def FaRec.seq (r : FaRec) : List UInt8 := r.seqLines.flatten

/-- Lines of the input: the pieces between LFs, without an empty final piece. -/
def lines (inp : List UInt8) : List (List UInt8) :=
  let ps := splitLF inp
  match ps.getLast? with
  | some [] => ps.dropLast
  | _ => ps

/-- Skip leading blank lines; returns the remaining lines with the offset and 1-based
number of the first of them. -/
def skipBlank : List (List UInt8) → Nat → Nat → List (List UInt8) × Nat × Nat
  | [], byte, line => ([], byte, line)
  | p :: ps, byte, line =>
    if blank p then skipBlank ps (byte + p.length + 1) (line + 1) else (p :: ps, byte, line)

/-- Group lines into records. `cur` is the record being built (sequence lines reversed). -/
def faGroup : List (List UInt8) → Nat → Nat → Option FaRec → List FaRec
  | [], _, _, none => []
  | [], _, _, some r => [{ r with seqLines := r.seqLines.reverse }]
  | l :: ls, byte, line, cur =>
    if l.head? = some GT then
      let new : FaRec := { byte := byte, line := line, head := trimCr (l.drop 1), seqLines := [] }
      match cur with
      | none => faGroup ls (byte + l.length + 1) (line + 1) (some new)
      | some r => { r with seqLines := r.seqLines.reverse } :: faGroup ls (byte + l.length + 1) (line + 1) (some new)
    else
      match cur with
      | none => faGroup ls (byte + l.length + 1) (line + 1) none   -- not reachable from `fasta`
      | some r => faGroup ls (byte + l.length + 1) (line + 1) (some { r with seqLines := trimCr l :: r.seqLines })

inductive FaResult where
  | records (rs : List FaRec)
  | invalidStart (line : Nat) (found : UInt8)
deriving Repr, DecidableEq

/-- The FASTA reference semantics. -/
def fasta (inp : List UInt8) : FaResult :=
  match skipBlank (lines inp) 0 1 with
  | ([], _, _) => .records []
  | (l :: ls, byte, line) =>
    match l.head? with
    | some c => if c = GT then .records (faGroup (l :: ls) byte line none) else .invalidStart line c
    | none => .records []   -- a non-blank line is not empty

/-! ## FASTQ -/

structure FqRec where
  byte : Nat
  line : Nat
  head : List UInt8
  seq : List UInt8
  qual : List UInt8
deriving Repr, DecidableEq

inductive FqErr where
  | unequalLengths (seq qual line : Nat) (id : Option (List UInt8))
  | invalidStart (found : UInt8) (line : Nat)
  | invalidSep (found : UInt8) (line : Nat) (id : Option (List UInt8))
  | unexpectedEnd (line : Nat) (id : Option (List UInt8))
deriving Repr, DecidableEq

inductive FqItem where
  | record (r : FqRec)
  /-- the first error, with the start (byte offset, line) of the offending group -/
  | err (e : FqErr) (byte line : Nat)
deriving Repr, DecidableEq

/-- id reported with an error: present iff the header line is not empty -/
def errId (h : List UInt8) : Option (List UInt8) :=
  if h.isEmpty then none else some (idBytes (trimCr (h.drop 1)))

/-- Verdict on one four-line group. `strict := true` compares the raw line lengths only
(the pinned `validate`); `false` lets the trimmed lengths decide when the raw ones differ
(the repaired code).  `atEof`: the quality line is ended by the end of the input, not by a
terminator – then the trimmed lengths alone decide (repaired code). -/
def fqGroup (strict : Bool) (h s p q : List UInt8) (byte line : Nat) (atEof : Bool := false) : FqItem :=
  let c0 := h.headD LF
  if c0 ≠ AT then .err (.invalidStart c0 line) byte line
  else
    let c2 := p.headD LF
    if c2 ≠ PLUS then .err (.invalidSep c2 (line + 2) (errId h)) byte line
    else
      let ts := trimCr s
      let tq := trimCr q
      if (s.length ≠ q.length ∧ (strict ∨ ts.length ≠ tq.length)) ∨ (atEof ∧ ¬ strict ∧ ts.length ≠ tq.length) then
        .err (.unequalLengths ts.length tq.length line (errId h)) byte line
      else .record { byte := byte, line := line, head := trimCr (h.drop 1), seq := ts, qual := tq }

/-- `ps` = the pieces ahead, the last one being the unterminated rest of the input. -/
def fqGo (strict : Bool) : List (List UInt8) → Nat → Nat → List FqItem
  | h :: s :: p :: q :: r :: rest, byte, line =>
    -- at least four terminated pieces
    match fqGroup strict h s p q byte line with
    | .record x => .record x :: fqGo strict (r :: rest) (byte + h.length + s.length + p.length + q.length + 4) (line + 4)
    | .err e b l => [.err e b l]
  | [h, s, p, q], byte, line =>
    -- three terminated pieces, the quality line is ended by the end of the input
    [fqGroup strict h s p q byte line true]
  | ps, byte, line =>
    -- fewer than three terminated pieces
    if ps.all blank then []
    else
      let k := ps.length - 1
      [.err (.unexpectedEnd (line + k) (if k ≥ 1 then errId (ps.headD []) else none)) byte line]

/-- The FASTQ reference semantics (`strict = false`: repaired tree). -/
def fastq (inp : List UInt8) (strict : Bool := false) : List FqItem :=
  fqGo strict (splitLF inp) 0 1

end SeqIo.Spec
