import SeqIoModel.Model.Source
import SeqIoModel.Model.Policy
/-!
# Concrete machine M for `fasta.rs`

A function-by-function mirror of `fasta::Reader` (same fields, same buffer-relative
offsets, same order of side effects).  Every slice / index / checked subtraction that can
panic in a build with overflow checks yields `Out.panic`.
-/

namespace SeqIo.Fasta

inductive State where
  | new | parsing | incomplete | positioned | finished
deriving Repr, DecidableEq

inductive Err where
  | io (k : IoKind)
  | invalidStart (line : Nat) (found : UInt8)
  | bufferLimit
deriving Repr, DecidableEq

/-- `fasta::BufferPosition` -/
structure BufPos where
  start : Nat := 0
  seqPos : List Nat := []
deriving Repr, DecidableEq

/-- `fasta::Reader` -/
structure Reader where
  br : BufRd
  bp : BufPos := {}
  line : Nat := 0
  byte : Nat := 0
  searchPos : Nat := 0
  state : State := .new
  pol : Pol
  /-- ghost: every policy request `(capacity passed, answer)` -/
  log : List (Nat × Option Nat) := []

/-- `fasta::RecordSet` -/
structure RecordSet where
  buffer : List UInt8 := []
  positions : List BufPos := []
  npos : Nat := 0
deriving Repr, DecidableEq

abbrev Res (α : Type) := Out Err α

def mkReader (inp : List UInt8) (cap : Nat) (pol : Pol) (script : List ReadEv := [])
    (chunk : Nat := 0) (seekFails : List (Nat × IoKind) := []) : Reader :=
  { br := { cap := cap, src := { inp := inp, script := script, chunk := chunk, seekFails := seekFails } },
    pol := pol }

/-- The `Memchr` loop of `_search`, structurally over the unsearched rest of the buffer.
`i` is the buffer offset of the head of `rest`.  Result: (found, new `search_pos`, new `seq_pos`). -/
def scan : List UInt8 → Nat → List Nat → Bool × Nat × List Nat
  | [], i, acc => (false, i, acc)
  | [b], i, acc => if b = LF then (false, i, acc) else (false, i + 1, acc)
  | b :: c :: rest, i, acc =>
    if b = LF then
      if c = GT then (true, i + 1, acc ++ [i])
      else scan (c :: rest) (i + 1) (acc ++ [i])
    else scan (c :: rest) (i + 1) acc

/-- `Reader::_search` (`none` = slice index panic). -/
def search_ (r : Reader) : Option (Reader × Bool) :=
  if r.searchPos ≤ r.br.buf.length then
    let res := scan (r.br.buf.drop r.searchPos) r.searchPos r.bp.seqPos
    some ({ r with searchPos := res.2.1, bp := { r.bp with seqPos := res.2.2 } }, res.1)
  else none

/-- `Reader::search` -/
def search (r : Reader) : Option (Reader × Bool) :=
  match search_ r with
  | none => none
  | some (r, true) => some (r, true)
  | some (r, false) =>
    if r.br.buf.length < r.br.cap then
      some ({ r with state := .finished, bp := { r.bp with seqPos := r.bp.seqPos ++ [r.searchPos] } }, true)
    else
      some ({ r with state := .incomplete }, false)

/-- The `for line in buf.split('\n')` loop of `first_byte`. -/
def scanBlank : List (List UInt8) → Nat → Nat → Nat → Sum (Nat × Nat × UInt8) (Nat × Nat × Nat)
  | [], ln, pos, ll => .inr (ln, pos, ll)
  | p :: ps, ln, pos, _ =>
    match p with
    | [] => scanBlank ps (ln + 1) (pos + 1) 0
    | c :: tl =>
      if c = CR ∧ tl = [] then scanBlank ps (ln + 1) (pos + 2) 1
      else .inl (ln + 1, pos, c)

/-- `Reader::first_byte` -/
def firstByte : Nat → Reader → Reader × Res (Option (Nat × Nat × UInt8))
  | 0, r => (r, .fuel)
  | f + 1, r =>
    match fillBuf r.br with
    | (br, .error k) => ({ r with br := br }, .err (.io k))
    | (br, .ok 0) => ({ r with br := br }, .ok none)
    | (br, .ok _) =>
      let r := { r with br := br }
      match scanBlank (splitLF br.buf) r.line 0 0 with
      | .inl x => (r, .ok (some x))
      | .inr (ln, pos, ll) =>
        match csub pos (1 + ll), csub ln 1 with
        | some c, some l1 =>
          firstByte f { r with line := l1, byte := r.byte + c, br := br.consume c }
        | _, _ => (r, .panic)

/-- `Reader::init` -/
def init (fuel : Nat) (r : Reader) : Reader × Res Bool :=
  match firstByte fuel r with
  | (r, .ok (some (ln, pos, b))) =>
    if b = GT then
      ({ r with bp := { r.bp with start := pos }, byte := r.byte + pos, line := ln, searchPos := pos + 1 }, .ok true)
    else
      ({ r with state := .finished }, .err (.invalidStart ln b))
  | (r, .ok none) => ({ r with state := .finished }, .ok false)
  | (r, .err e) => (r, .err e)
  | (r, .panic) => (r, .panic)
  | (r, .fuel) => (r, .fuel)

/-- `Reader::increment_record` (`none` = subtraction overflow) -/
def incrementRecord (r : Reader) : Option Reader :=
  match csub r.searchPos r.bp.start with
  | none => none
  | some d =>
    some { r with line := r.line + r.bp.seqPos.length, byte := r.byte + d,
                  bp := { start := r.searchPos, seqPos := [] } }

/-- `Reader::grow` -/
def grow (r : Reader) : Reader × Res Unit :=
  let cap := r.br.cap
  let (ans, pol) := r.pol.growTo cap
  let r := { r with pol := pol, log := r.log ++ [(cap, ans)] }
  match ans with
  | none => (r, .err .bufferLimit)
  | some n =>
    match csub n cap with
    | none => (r, .panic)
    | some add => ({ r with br := r.br.reserve add }, .ok ())

def mapSub (c : Nat) : List Nat → Option (List Nat)
  | [] => some []
  | x :: xs =>
    match csub x c, mapSub c xs with
    | some y, some ys => some (y :: ys)
    | _, _ => none

/-- `Reader::make_room` -/
def makeRoom (r : Reader) : Option Reader :=
  let c := r.bp.start
  match csub r.searchPos c, mapSub c r.bp.seqPos with
  | some sp, some sq =>
    some { r with br := r.br.consume c, bp := { start := 0, seqPos := sq }, searchPos := sp }
  | _, _ => none

/-- `Reader::resume_incomplete_search(make_room)` -/
def resume : Nat → Bool → Reader → Reader × Res Bool
  | 0, _, r => (r, .fuel)
  | f + 1, mk, r =>
    let step1 : Reader × Res Unit :=
      if !mk || r.bp.start = 0 then grow r
      else match makeRoom r with
        | some r' => (r', .ok ())
        | none => (r, .panic)
    match step1 with
    | (r, .ok ()) =>
      match fillBuf r.br with
      | (br, .error k) => ({ r with br := br }, .err (.io k))
      | (br, .ok _) =>
        match search { r with br := br } with
        | none => (r, .panic)
        | some (r, true) => (r, .ok true)
        | some (r, false) => resume f mk r
    | (r, .err e) => (r, .err e)
    | (r, .panic) => (r, .panic)
    | (r, .fuel) => (r, .fuel)

/-- Second half of `Reader::next` (after the `match self.state`). -/
def nextCont (fuel : Nat) (r : Reader) : Reader × Res Bool :=
  let r1? := if r.state ≠ .incomplete then (search r).map (·.1) else some r
  match r1? with
  | none => (r, .panic)
  | some r1 =>
    if r1.state = .incomplete then
      match resume fuel true r1 with
      | (r2, .ok true) => (if r2.state ≠ .finished then { r2 with state := .parsing } else r2, .ok true)
      | (r2, o) => (r2, o)
    else (r1, .ok true)

/-- `Reader::next`: `.ok true` = `Some(Ok(record))` (the record is `(r.br.buf, r.bp)`),
`.ok false` = `None`. -/
def next (fuel : Nat) (r : Reader) : Reader × Res Bool :=
  match r.state with
  | .new =>
    match init fuel r with
    | (r, .ok true) => nextCont fuel { r with state := .parsing }
    | (r, o) => (r, o)
  | .positioned => nextCont fuel { r with state := .parsing }
  | .finished => (r, .ok false)
  | .parsing =>
    match incrementRecord r with
    | some r => nextCont fuel r
    | none => (r, .panic)
  | .incomplete => nextCont fuel r

/-- `pos.update(&self.buf_pos)` / `push(self.buf_pos.clone())` -/
def RecordSet.store (rs : RecordSet) (bp : BufPos) : RecordSet :=
  { rs with
    positions := if rs.npos < rs.positions.length then rs.positions.set rs.npos bp else rs.positions ++ [bp],
    npos := rs.npos + 1 }

/-- store the current record in the set, advance; `true` = the requested number is reached -/
def storeStep (n : Option Nat) (r : Reader) (rs : RecordSet) : Option (Reader × RecordSet × Bool) :=
  let rs := rs.store r.bp
  match incrementRecord r with
  | none => none
  | some r => some (r, rs, n = some rs.npos)

/-- The `while self.state != State::Finished` loop of `read_record_set_exact`.
`.ok true` = loop left normally, `.ok false` = `return None`. -/
def setLoop : Nat → Nat → Option Nat → Bool → Reader → RecordSet → Reader × RecordSet × Res Bool
  | 0, _, _, _, r, rs => (r, rs, .fuel)
  | f + 1, fuel, n, isNew, r, rs =>
    if r.state = .finished then (r, rs, .ok true)
    else if r.state = .incomplete then
      match resume fuel isNew r with
      | (r, .ok true) =>
        let r := if r.state ≠ .finished then { r with state := .positioned } else r
        match storeStep n r rs with
        | none => (r, rs, .panic)
        | some (r, rs, true) => (r, rs, .ok true)
        | some (r, rs, false) => setLoop f fuel n isNew r rs
      | (r, .ok false) => (r, rs, .ok false)
      | (r, .err e) => (r, { rs with npos := 0 }, .err e)
      | (r, .panic) => (r, rs, .panic)
      | (r, .fuel) => (r, rs, .fuel)
    else
      match search r with
      | none => (r, rs, .panic)
      | some (r, false) =>
        if rs.npos = 0 then setLoop f fuel n isNew r rs
        else match n with
          | some n' => if rs.npos < n' then setLoop f fuel n false r rs else (r, rs, .ok true)
          | none => (r, rs, .ok true)
      | some (r, true) =>
        match storeStep n r rs with
        | none => (r, rs, .panic)
        | some (r, rs, true) => (r, rs, .ok true)
        | some (r, rs, false) => setLoop f fuel n isNew r rs

/-- `Reader::read_record_set_exact`; `.ok true` = `Some(Ok(()))`, `.ok false` = `None`. -/
def readRecordSetExact (fuel : Nat) (r : Reader) (rs : RecordSet) (n : Option Nat) :
    Reader × RecordSet × Res Bool :=
  let pre : Reader × Res Bool :=
    match r.state with
    | .new =>
      match init fuel r with
      | (r, .ok true) => ({ r with state := .positioned }, .ok true)
      | x => x
    | .finished => (r, .ok false)
    | .parsing =>
      match incrementRecord r with
      | some r => ({ r with state := .positioned }, .ok true)
      | none => (r, .panic)
    | .positioned => (r, .ok true)
    | .incomplete => (r, .ok true)
  match pre with
  | (r, .ok true) =>
    match setLoop fuel fuel n true r { rs with npos := 0 } with
    | (r, rs, .ok true) => (r, { rs with buffer := r.br.buf }, .ok true)
    | x => x
  | (r, .ok false) => (r, rs, .ok false)
  | (r, .err e) => (r, rs, .err e)
  | (r, .panic) => (r, rs, .panic)
  | (r, .fuel) => (r, rs, .fuel)

/-- `Reader::position` -/
def position (r : Reader) : Option (Nat × Nat) :=
  if r.bp.seqPos.isEmpty then none else some (r.line, r.byte)

/-- `Reader::seek` (to `(line, byte)`) -/
def seek (r : Reader) (toLine toByte : Nat) : Reader × Res Unit :=
  let pos : Int := (r.bp.start : Int) + ((toByte : Int) - (r.byte : Int))
  if 0 ≤ pos ∧ pos < (r.br.buf.length : Int) then
    -- a partly filled buffer (an earlier read failed) is completed first
    let filled : BufRd × Except IoKind Nat :=
      if r.br.buf.length < r.br.cap then fillBuf r.br else (r.br, .ok 0)
    match filled with
    | (br, .error k) => ({ r with br := br }, .err (.io k))
    | (br, .ok _) =>
      ({ r with br := br, line := toLine, byte := toByte, state := .positioned, searchPos := pos.toNat,
                bp := { start := pos.toNat, seqPos := [] } }, .ok ())
  else
    match r.br.seek toByte with
    | (br, some k) => ({ r with br := br }, .err (.io k))
    | (br, none) =>
      let r := { r with br := br, line := toLine, byte := toByte, searchPos := 0,
                        bp := { start := 0, seqPos := [] }, state := .finished }
      match fillBuf br with
      | (br, .error k) => ({ r with br := br }, .err (.io k))
      | (br, .ok _) => ({ r with br := br, state := .positioned }, .ok ())

/-- `Reader::set_policy` -/
def setPolicy (r : Reader) (p : Pol) : Reader := { r with pol := p }

/-! ## Record views (`RefRecord`), on the pair (buffer, offsets) the record borrows -/

/-- `RefRecord::head` -/
def head (buf : List UInt8) (bp : BufPos) : Option (List UInt8) :=
  match bp.seqPos.head? with
  | none => none
  | some e => (slice buf (bp.start + 1) e).map trimCr

/-- `RefRecord::seq` (raw) -/
def seqRaw (buf : List UInt8) (bp : BufPos) : Option (List UInt8) :=
  if bp.seqPos.length > 1 then
    match bp.seqPos.head?, bp.seqPos.getLast? with
    | some f, some l => (slice buf (f + 1) l).map trimCr
    | _, _ => none
  else some []

/-- the items of `RefRecord::seq_lines()` taken from the front to the end -/
def seqLines (buf : List UInt8) (bp : BufPos) : List (Option (List UInt8)) :=
  (bp.seqPos.zip (bp.seqPos.drop 1)).map fun (s, e) => (slice buf (s + 1) e).map trimCr

def allSome {α : Type} : List (Option α) → Option (List α)
  | [] => some []
  | none :: _ => none
  | some x :: xs => (allSome xs).map (x :: ·)

/-- `RefRecord::owned_seq` -/
def ownedSeq (buf : List UInt8) (bp : BufPos) : Option (List UInt8) :=
  (allSome (seqLines buf bp)).map List.flatten

/-- `RefRecord::num_seq_lines` (`none`: `len() - 1` underflow cannot happen any more; kept total) -/
def numSeqLines (bp : BufPos) : Nat := min bp.seqPos.length (bp.seqPos.length - 1)

/-- `RefRecord::write_unchanged` output -/
def writeUnchanged (buf : List UInt8) (bp : BufPos) : Option (List UInt8) :=
  match bp.seqPos.getLast? with
  | none => none
  | some l =>
    match slice buf bp.start l with
    | none => none
    | some d =>
      match d.getLast? with
      | none => none
      | some c => some (if c ≠ LF then d ++ [LF] else d)

/-! ## `SeqLines`: `Zip<slice::Iter, Skip<slice::Iter>>` step by step -/

structure SeqLinesIt where
  a : List Nat
  b : List Nat
deriving Repr, DecidableEq

def SeqLinesIt.mk' (bp : BufPos) : SeqLinesIt := { a := bp.seqPos, b := bp.seqPos.drop 1 }

/-- `Zip::next`: the first iterator is advanced even if the second is exhausted. -/
def SeqLinesIt.next (it : SeqLinesIt) : SeqLinesIt × Option (Nat × Nat) :=
  match it.a with
  | [] => (it, none)
  | x :: a' =>
    match it.b with
    | [] => ({ it with a := a' }, none)
    | y :: b' => ({ a := a', b := b' }, some (x, y))

/-- `Zip::next_back` for `ExactSizeIterator`s: trim the longer one, then pop both. -/
def SeqLinesIt.nextBack (it : SeqLinesIt) : SeqLinesIt × Option (Nat × Nat) :=
  let n := min it.a.length it.b.length
  let a := it.a.take n
  let b := it.b.take n
  match a.getLast?, b.getLast? with
  | some x, some y => ({ a := a.dropLast, b := b.dropLast }, some (x, y))
  | _, _ => ({ a := a, b := b }, none)

/-- `ExactSizeIterator::len` (after the repair: the inner iterator's length) -/
def SeqLinesIt.len (it : SeqLinesIt) : Nat := min it.a.length it.b.length

def lineOf (buf : List UInt8) (p : Nat × Nat) : Option (List UInt8) :=
  (slice buf (p.1 + 1) p.2).map trimCr

end SeqIo.Fasta
