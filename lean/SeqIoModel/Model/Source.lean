import SeqIoModel.Model.Basic
/-!
# Byte source and `buffer_redux::BufReader`

The source is the whole input plus a cursor and a *script* that decides, call by call,
how `io::Read::read` behaves: how many bytes it hands out, whether it is interrupted,
whether it fails. An exhausted script behaves like an ideal reader (optionally limited to
`chunk` bytes per call). `seek` calls fail at the scripted call indices.

`BufRd` models what seq_io can observe of `buffer_redux::BufReader`: `buffer()`,
`capacity()`, `consume` + `make_room`, `reserve`, `read_into_buf`, `seek`.
-/

namespace SeqIo

inductive ReadEv where
  | data (n : Nat)      -- hand out at most `n` (≥ 1) bytes
  | intr                -- `ErrorKind::Interrupted`
  | fail (k : IoKind)   -- any other error
deriving Repr, DecidableEq

structure Src where
  inp : List UInt8
  cursor : Nat := 0
  script : List ReadEv := []
  /-- per-call limit once the script is exhausted; 0 = unlimited -/
  chunk : Nat := 0
  /-- (index of the seek call, error kind) -/
  seekFails : List (Nat × IoKind) := []
  seekCount : Nat := 0
deriving Repr

inductive ReadRes where
  | n (k : Nat)
  | intr
  | fail (k : IoKind)
deriving Repr, DecidableEq

def Src.remaining (s : Src) : Nat := s.inp.length - s.cursor

/-- One call of `io::Read::read` with a destination of `space` (> 0) bytes.
Returns the bytes handed out. -/
def Src.read (s : Src) (space : Nat) : Src × ReadRes × List UInt8 :=
  match s.script with
  | .data n :: rest =>
    let m := min (min (max n 1) space) s.remaining
    ({ s with script := rest, cursor := s.cursor + m }, .n m, (s.inp.drop s.cursor).take m)
  | .intr :: rest => ({ s with script := rest }, .intr, [])
  | .fail k :: rest => ({ s with script := rest }, .fail k, [])
  | [] =>
    let lim := if s.chunk = 0 then space else min s.chunk space
    let m := min lim s.remaining
    ({ s with cursor := s.cursor + m }, .n m, (s.inp.drop s.cursor).take m)

/-- `io::Seek::seek(SeekFrom::Start(to))` of the source. -/
def Src.seek (s : Src) (to : Nat) : Src × Option IoKind :=
  match s.seekFails.find? (·.1 = s.seekCount) with
  | some (_, k) => ({ s with seekCount := s.seekCount + 1 }, some k)
  | none => ({ s with seekCount := s.seekCount + 1, cursor := to }, none)

structure BufRd where
  buf : List UInt8 := []
  cap : Nat
  src : Src
deriving Repr

/-- `BufReader::read_into_buf`: no call of the source if there is no usable space. -/
def BufRd.readIntoBuf (b : BufRd) : BufRd × ReadRes :=
  if b.cap ≤ b.buf.length then (b, .n 0)
  else
    let (src', r, bytes) := b.src.read (b.cap - b.buf.length)
    ({ b with src := src', buf := b.buf ++ bytes }, r)

/-- `consume(n)` followed by `make_room()`: drop a prefix (at most the whole buffer). -/
def BufRd.consume (b : BufRd) (n : Nat) : BufRd := { b with buf := b.buf.drop n }

/-- `BufReader::reserve(additional)` (data, if any, starts at offset 0). -/
def BufRd.reserve (b : BufRd) (additional : Nat) : BufRd :=
  let usable := b.cap - b.buf.length
  if additional ≤ usable then b
  else if b.buf.isEmpty then { b with cap := b.cap + additional }
  else { b with cap := b.cap + (additional - usable) }

/-- `BufReader::seek(SeekFrom::Start(to))`: the buffer is discarded only if the seek succeeds. -/
def BufRd.seek (b : BufRd) (to : Nat) : BufRd × Option IoKind :=
  match b.src.seek to with
  | (src', some k) => ({ b with src := src' }, some k)
  | (src', none) => ({ b with src := src', buf := [] }, none)

/-- Measure for the refill loop: every call of the source either consumes a script element
or, with the script exhausted, hands out at least one byte or reports 0. -/
def BufRd.fillMeasure (b : BufRd) : Nat := b.src.script.length + b.src.remaining

/-- `lib.rs::fill_buf`: read until the buffer is full or the source reports 0 bytes.
Returns the number of bytes added, or the first non-`Interrupted` error. -/
def fillBufAux : Nat → BufRd → Nat → BufRd × Except IoKind Nat
  | 0, b, num => (b, .ok num)     -- unreachable with `fuel ≥ fillMeasure + 1`, see `fillBuf`
  | fuel + 1, b, num =>
    if b.buf.length < b.cap then
      match b.readIntoBuf with
      | (b', .n 0) => (b', .ok num)
      | (b', .n k) => fillBufAux fuel b' (num + k)
      | (b', .intr) => fillBufAux fuel b' num
      | (b', .fail k) => (b', .error k)
    else (b, .ok num)

def fillBuf (b : BufRd) : BufRd × Except IoKind Nat :=
  fillBufAux (b.fillMeasure + 1) b 0

end SeqIo
