import SeqIoModel.Model.Basic
/-!
# Decidable domain predicates used as hypotheses of the property theorems
-/

namespace SeqIo

/-- a header that can be written on one line: no LF, and no final CR (it would be taken for a
line terminator) -/
def HeadOk (h : List UInt8) : Prop := LF ∉ h ∧ h.getLast? ≠ some CR

/-- a sequence that can be written as FASTA sequence text -/
def SeqOk (s : List UInt8) : Prop := LF ∉ s ∧ CR ∉ s ∧ GT ∉ s

/-- a FASTQ sequence or quality string -/
def FieldOk (s : List UInt8) : Prop := LF ∉ s ∧ CR ∉ s

instance (h : List UInt8) : Decidable (HeadOk h) := by unfold HeadOk; infer_instance
instance (s : List UInt8) : Decidable (SeqOk s) := by unfold SeqOk; infer_instance
instance (s : List UInt8) : Decidable (FieldOk s) := by unfold FieldOk; infer_instance

end SeqIo
