/-!
# Basic definitions shared by all model files

Bytes are `UInt8`, buffers and inputs are `List UInt8`, offsets are `Nat`.
Rust panics are values (`Out.panic`), loops over I/O take fuel (`Out.fuel`).
This file (like everything under `Model/`) imports nothing, so that the driver
links as a plain executable.
-/

namespace SeqIo

def LF : UInt8 := 10
def CR : UInt8 := 13
def GT : UInt8 := 62
def AT : UInt8 := 64
def PLUS : UInt8 := 43
def SP : UInt8 := 32

/-- `lib.rs::trim_cr`: remove one final CR. -/
def trimCr (l : List UInt8) : List UInt8 :=
  match l.getLast? with
  | some c => if c = CR then l.dropLast else l
  | none => l

/-- `&buf[a..b]` with Rust's bounds checks (`none` = panic). -/
def slice (buf : List UInt8) (a b : Nat) : Option (List UInt8) :=
  if a ≤ b ∧ b ≤ buf.length then some ((buf.take b).drop a) else none

/-- `memchr(b'\n', l)`. -/
def findLF : List UInt8 → Option Nat
  | [] => none
  | b :: rest => if b = LF then some 0 else (findLF rest).map (· + 1)

/-- `slice.split(|b| *b == b'\n')`: `k` LFs give `k+1` pieces. -/
def splitLF : List UInt8 → List (List UInt8)
  | [] => [[]]
  | b :: rest =>
    if b = LF then [] :: splitLF rest
    else match splitLF rest with
      | [] => [[b]]
      | p :: ps => (b :: p) :: ps

/-- `slice.split(|b| *b == b' ').next().unwrap()` -/
def idBytes (head : List UInt8) : List UInt8 := head.takeWhile (· ≠ SP)

/-- `slice.splitn(2, |b| *b == b' ').nth(1)` -/
def descBytes (head : List UInt8) : Option (List UInt8) :=
  match head.dropWhile (· ≠ SP) with
  | [] => none
  | _ :: rest => some rest

/-- checked `usize` subtraction (`none` = panic in a build with overflow checks). -/
def csub (a b : Nat) : Option Nat := if b ≤ a then some (a - b) else none

/-- I/O error kinds are small codes; the harness maps them to `io::ErrorKind`s. -/
abbrev IoKind := Nat

/-- Outcome of an operation of the concrete machine. -/
inductive Out (ε α : Type) where
  | ok (a : α)
  | err (e : ε)
  | panic
  | fuel
deriving Repr, DecidableEq

end SeqIo
