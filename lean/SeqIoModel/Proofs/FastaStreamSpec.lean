import SeqIoModel.Proofs.FastaStreamScan
/-!
# FASTA stream proof, part 1b: `scan` / `scanBlank` on the whole rest of the input agree with S

* `rec_spec`: the LF positions found by scanning from a record start are, through the record
  views, exactly the first record of `faGroup ∘ lines`, and the scan stops where S's next
  record starts.
* `blank_spec`: `scanBlank` over the pieces of a buffer skips what `skipBlank` skips.
-/
open SeqIo SeqIo.Spec SeqIo.WriteProofs
namespace SeqIo.Fasta

/-! ## `lines` by line -/

theorem lines_line (a rest : List UInt8) (h : LF ∉ a) :
    lines (a ++ LF :: rest) = a :: lines rest := by
  unfold lines
  rw [splitLF_append a rest h]
  have hne := splitLF_ne_nil rest
  generalize splitLF rest = S at hne
  cases S with
  | nil => exact absurd rfl hne
  | cons x xs =>
    simp only [List.getLast?_cons_cons]
    split <;> simp_all [List.dropLast]

theorem lines_noLF (a : List UInt8) (h : LF ∉ a) : lines a = if a = [] then [] else [a] := by
  unfold lines
  rw [splitLF_noLF a h]
  cases a <;> simp

theorem lines_nil : lines [] = [] := by
  simp [lines, splitLF]

/-- the first line of `a ++ y` extends a nonempty LF-free `a` -/
theorem lines_prefix (a y : List UInt8) (h : LF ∉ a) (hne : a ≠ []) :
    ∃ l1 ls, lines (a ++ y) = (a ++ l1) :: ls := by
  rcases exists_line_split y with hy | ⟨b, rest, hb, rfl⟩
  · refine ⟨y, [], ?_⟩
    have : LF ∉ a ++ y := by simp [h, hy]
    rw [lines_noLF _ this]
    simp [hne]
  · refine ⟨b, lines rest, ?_⟩
    have : LF ∉ a ++ b := by simp [h, hb]
    rw [← List.append_assoc, lines_line _ _ this]

/-! ## `blank` -/

theorem blank_iff (l : List UInt8) : blank l = true ↔ l = [] ∨ l = [CR] := by
  unfold blank trimCr
  match l with
  | [] => simp
  | [x] => by_cases hx : x = CR <;> simp [hx]
  | x :: y :: r =>
    simp only [List.getLast?_cons_cons]
    split
    · split <;> simp
    · simp

/-! ## `scanBlank` / `skipBlank` steps -/

theorem scanBlank_blank (a : List UInt8) (ha : blank a = true) (ps : List (List UInt8))
    (ln pos ll0 : Nat) :
    scanBlank (a :: ps) ln pos ll0 = scanBlank ps (ln + 1) (pos + a.length + 1) a.length := by
  rcases (blank_iff a).1 ha with rfl | rfl
  · simp [scanBlank]
  · simp [scanBlank]

theorem scanBlank_nonblank (c : UInt8) (tl : List UInt8) (ha : blank (c :: tl) = false)
    (ps : List (List UInt8)) (ln pos ll0 : Nat) :
    scanBlank ((c :: tl) :: ps) ln pos ll0 = .inl (ln + 1, pos, c) := by
  have : ¬ (c = CR ∧ tl = []) := by
    rintro ⟨rfl, rfl⟩
    have := (blank_iff [CR]).2 (Or.inr rfl)
    simp [this] at ha
  simp [scanBlank, this]

theorem skipBlank_blank (a : List UInt8) (ha : blank a = true) (L : List (List UInt8))
    (byte line : Nat) :
    skipBlank (a :: L) byte line = skipBlank L (byte + a.length + 1) (line + 1) := by
  simp [skipBlank, ha]

theorem skipBlank_nonblank (a : List UInt8) (ha : blank a = false) (L : List (List UInt8))
    (byte line : Nat) :
    skipBlank (a :: L) byte line = (a :: L, byte, line) := by
  simp [skipBlank, ha]

theorem drop_line (a z : List UInt8) (k : Nat) :
    (a ++ LF :: z).drop (k + (a.length + 1)) = z.drop k := by
  rw [Nat.add_comm, ← List.drop_drop]
  have : (a ++ LF :: z).drop (a.length + 1) = z := by
    rw [← List.drop_drop]
    simp
  rw [this]

theorem blank_spec (w ext : List UInt8) (ln pos ll0 byte : Nat) :
    match scanBlank (splitLF w) ln pos ll0 with
    | .inl (ln', pos', c) =>
        pos ≤ pos' ∧ pos' - pos < w.length ∧
        skipBlank (lines (w ++ ext)) byte (ln + 1) = (lines ((w ++ ext).drop (pos' - pos)), byte + (pos' - pos), ln') ∧
        (w.drop (pos' - pos)).head? = some c ∧
        ∃ l ls, lines ((w ++ ext).drop (pos' - pos)) = l :: ls ∧ l.head? = some c
    | .inr (ln', pos', ll) =>
        pos' = pos + w.length + 1 ∧ ll ≤ 1 ∧ ll ≤ w.length ∧ 1 ≤ ln' ∧
        (w.drop (w.length - ll) = [] ∨ w.drop (w.length - ll) = [CR]) ∧
        (w.drop (w.length - ll)).length = ll ∧
        skipBlank (lines (w ++ ext)) byte (ln + 1) =
          skipBlank (lines (w.drop (w.length - ll) ++ ext)) (byte + w.length - ll) ln' := by
  induction w using line_induction generalizing ln pos ll0 byte with
  | h0 a ha =>
    rw [splitLF_noLF a ha]
    by_cases hb : blank a = true
    · rw [scanBlank_blank a hb]
      rcases (blank_iff a).1 hb with rfl | rfl
      · simp [scanBlank]
      · simp [scanBlank]
    · have hb : blank a = false := by simpa using hb
      cases a with
      | nil => simp [blank, trimCr] at hb
      | cons c tl =>
        rw [scanBlank_nonblank c tl hb]
        obtain ⟨l1, ls, hl⟩ := lines_prefix (c :: tl) ext ha (by simp)
        have hb' : blank (c :: tl ++ l1) = false := by
          cases hx : blank (c :: tl ++ l1) with
          | false => rfl
          | true =>
            rcases (blank_iff _).1 hx with h | h
            · simp at h
            · simp only [List.cons_append, List.cons.injEq, List.append_eq_nil_iff] at h
              obtain ⟨rfl, rfl, _⟩ := h
              rw [(blank_iff [CR]).2 (Or.inr rfl)] at hb
              exact absurd hb (by simp)
        simp only [Nat.sub_self, List.drop_zero, Nat.add_zero, Nat.le_refl, true_and]
        rw [hl, skipBlank_nonblank _ hb']
        simp
  | h1 a w' ha ih =>
    rw [splitLF_append a w' ha]
    have hwe : a ++ LF :: w' ++ ext = a ++ LF :: (w' ++ ext) := by simp
    have hlen : (a ++ LF :: w').length = w'.length + (a.length + 1) := by simp; omega
    by_cases hb : blank a = true
    · rw [scanBlank_blank a hb]
      have ih := ih (ln + 1) (pos + a.length + 1) a.length (byte + a.length + 1)
      generalize scanBlank (splitLF w') (ln + 1) (pos + a.length + 1) a.length = res at ih
      rw [hwe, lines_line a _ ha, skipBlank_blank a hb]
      rcases res with ⟨ln', pos', c⟩ | ⟨ln', pos', ll⟩
      · simp only at ih ⊢
        obtain ⟨h1, h2, h3, h4, h5⟩ := ih
        have hk : pos' - pos = (pos' - (pos + a.length + 1)) + (a.length + 1) := by omega
        rw [hk, drop_line, drop_line, hlen]
        refine ⟨by omega, by omega, ?_, h4, h5⟩
        rw [h3]
        simp only [Prod.mk.injEq, true_and, and_true]
        omega
      · simp only at ih ⊢
        obtain ⟨h1, h2, h3, h4, h5, h6, h7⟩ := ih
        have hk : (a ++ LF :: w').length - ll = (w'.length - ll) + (a.length + 1) := by
          rw [hlen]; omega
        rw [hk, drop_line]
        refine ⟨by rw [hlen]; omega, h2, by rw [hlen]; omega, h4, h5, h6, ?_⟩
        rw [h7, hlen]
        congr 1
        omega
    · have hb : blank a = false := by simpa using hb
      cases a with
      | nil => simp [blank, trimCr] at hb
      | cons c tl =>
        rw [scanBlank_nonblank c tl hb]
        simp only [Nat.sub_self, List.drop_zero, Nat.add_zero, Nat.le_refl, true_and]
        rw [hwe, lines_line _ _ ha, skipBlank_nonblank _ hb]
        simp

/-! ## `faGroup` without accumulators -/

/-- the leading non-header lines -/
def recBody : List (List UInt8) → List (List UInt8)
  | [] => []
  | l :: ls => if l.head? = some GT then [] else l :: recBody ls

/-- the lines from the first header line on -/
def recRest : List (List UInt8) → List (List UInt8)
  | [] => []
  | l :: ls => if l.head? = some GT then l :: ls else recRest ls

/-- bytes of terminated lines -/
def lineBytes : List (List UInt8) → Nat
  | [] => 0
  | l :: ls => l.length + 1 + lineBytes ls

theorem faGroup_hdr (l : List UInt8) (hl : l.head? = some GT) (ls : List (List UInt8)) (b n : Nat) :
    faGroup (l :: ls) b n none =
      faGroup ls (b + l.length + 1) (n + 1) (some ⟨b, n, trimCr (l.drop 1), []⟩) := by
  simp [faGroup, hl]

theorem faGroup_some (ls : List (List UInt8)) (b n : Nat) (r : FaRec) :
    faGroup ls b n (some r) =
      { r with seqLines := r.seqLines.reverse ++ (recBody ls).map trimCr } ::
        faGroup (recRest ls) (b + lineBytes (recBody ls)) (n + (recBody ls).length) none := by
  induction ls generalizing b n r with
  | nil => simp [faGroup, recBody, recRest, lineBytes]
  | cons l ls ih =>
    by_cases hl : l.head? = some GT
    · simp [faGroup, recBody, recRest, lineBytes, hl]
    · simp only [faGroup, recBody, recRest, lineBytes, hl, if_false]
      rw [ih]
      simp only [List.reverse_cons, List.append_assoc, List.singleton_append, List.map_cons,
        List.length_cons]
      have e1 : b + l.length + 1 + lineBytes (recBody ls) = b + (l.length + 1 + lineBytes (recBody ls)) := by omega
      have e2 : n + 1 + (recBody ls).length = n + ((recBody ls).length + 1) := by omega
      rw [e1, e2]

/-! ## views as a recursion over positions -/

def segsFrom (buf : List UInt8) : Nat → List Nat → List (Option (List UInt8))
  | _, [] => []
  | a, p :: ps => (slice buf a p).map trimCr :: segsFrom buf (p + 1) ps

theorem seqLines_cons (buf : List UInt8) (st p0 : Nat) (ps : List Nat) :
    seqLines buf ⟨st, p0 :: ps⟩ = segsFrom buf (p0 + 1) ps := by
  unfold seqLines
  simp only [List.drop_succ_cons, List.drop_zero]
  induction ps generalizing p0 with
  | nil => simp [segsFrom]
  | cons p ps ih =>
    simp only [List.zip_cons_cons, List.map_cons, segsFrom]
    rw [ih]

theorem head_cons (buf : List UInt8) (st p0 : Nat) (ps : List Nat) :
    head buf ⟨st, p0 :: ps⟩ = (slice buf (st + 1) p0).map trimCr := by
  simp [head]

theorem slice_mid (inp pre a post : List UInt8) (i : Nat) (h : inp = pre ++ a ++ post)
    (hi : i = pre.length) : slice inp i (i + a.length) = some a := by
  subst h hi
  unfold slice
  rw [if_pos (by simp)]
  congr 1
  rw [← List.length_append, List.take_left' rfl]
  simp

theorem finalPos_acc (f : Bool) (sp : Nat) (acc ys : List Nat) :
    finalPos (f, sp, acc ++ ys) = acc ++ finalPos (f, sp, ys) := by
  unfold finalPos
  split <;> simp

/-! ## the scan of a record against the lines of the input -/

theorem drop_pre_line (inp pre a z : List UInt8) (i : Nat) (h : inp = pre ++ (a ++ LF :: z))
    (hi : i = pre.length) : inp.drop (i + a.length + 1) = z := by
  subst h hi
  rw [Nat.add_assoc, ← List.drop_drop, List.drop_left]
  simp

/-- what a complete scan from the start of a line computes, in terms of `lines` -/
def ScanLines (inp t : List UInt8) (i : Nat) : Prop :=
  ∃ l0 Ls ps post, lines t = l0 :: Ls ∧ t = l0 ++ post ∧
    (∀ c, c ≠ LF → t.head? = some c → l0.head? = some c) ∧
    finalPos (scan t i []) = (i + l0.length) :: ps ∧
    allSome (segsFrom inp (i + l0.length + 1) ps) = some ((recBody Ls).map trimCr) ∧
    ps.length = (recBody Ls).length ∧
    (if (scan t i []).1 = true then
       (scan t i []).2.1 = i + l0.length + 1 + lineBytes (recBody Ls) ∧
       recRest Ls = lines (inp.drop (scan t i []).2.1) ∧
       (inp.drop (scan t i []).2.1).head? = some GT
     else recRest Ls = [])

theorem scan_lines (t : List UInt8) : t ≠ [] → ∀ (inp pre : List UInt8) (i : Nat),
    inp = pre ++ t → i = pre.length → ScanLines inp t i := by
  induction t using line_induction with
  | h0 a ha =>
    intro hne inp pre i hinp hi
    refine ⟨a, [], [], [], ?_, by simp, fun c _ h => h, ?_, ?_, ?_, ?_⟩
    · rw [lines_noLF a ha]; simp [hne]
    · simp [scan_noLF a ha, finalPos]
    · simp [segsFrom, allSome, recBody]
    · simp [recBody]
    · simp [scan_noLF a ha, recRest]
  | h1 a t' ha ih =>
    intro _ inp pre i hinp hi
    have hhead : ∀ c, c ≠ LF → (a ++ LF :: t').head? = some c → a.head? = some c := by
      intro c hc h
      cases a with
      | nil => simp at h; exact absurd h.symm hc
      | cons x xs => simp at h; simp [h]
    cases t' with
    | nil =>
      refine ⟨a, [], [], [LF], ?_, rfl, hhead, ?_, ?_, ?_, ?_⟩
      · rw [lines_line a [] ha, lines_nil]
      · simp [scan_line_end a ha, finalPos]
      · simp [segsFrom, allSome, recBody]
      · simp [recBody]
      · simp [scan_line_end a ha, recRest]
    | cons c r =>
      by_cases hc : c = GT
      · subst hc
        obtain ⟨l1, ls, hl⟩ := lines_prefix [GT] r (by simp [GT, LF]) (by simp)
        simp only [List.singleton_append] at hl
        have hd := drop_pre_line inp pre a (GT :: r) i hinp hi
        refine ⟨a, lines (GT :: r), [], LF :: GT :: r, ?_, rfl, hhead, ?_, ?_, ?_, ?_⟩
        · rw [lines_line a _ ha]
        · simp [scan_line_gt a ha, finalPos]
        · simp [segsFrom, allSome, recBody, hl]
        · simp [recBody, hl]
        · simp only [scan_line_gt a ha, if_true, hd]
          simp [hl, recBody, recRest, lineBytes]
      · have hinp' : inp = (pre ++ a ++ [LF]) ++ (c :: r) := by simp [hinp]
        have hi' : i + a.length + 1 = (pre ++ a ++ [LF]).length := by simp [hi]; omega
        obtain ⟨l0', Ls', ps', post', hlines, hpost, hh, hfin, hsegs, hlen, hrest⟩ :=
          ih (by simp) inp (pre ++ a ++ [LF]) (i + a.length + 1) hinp' hi'
        have hsc : scan (a ++ LF :: c :: r) i [] =
            ((scan (c :: r) (i + a.length + 1) []).1, (scan (c :: r) (i + a.length + 1) []).2.1,
              [i + a.length] ++ (scan (c :: r) (i + a.length + 1) []).2.2) := by
          rw [scan_line_next a ha c hc r i [], scan_acc]
          rfl
        generalize scan (c :: r) (i + a.length + 1) [] = x' at hsc hfin hrest
        obtain ⟨f, sp, ys⟩ := x'
        simp only at hsc hrest
        have hl0' : l0'.head? ≠ some GT := by
          cases l0' with
          | nil => simp
          | cons y ys =>
            simp only [List.cons_append, List.cons.injEq] at hpost
            simp only [List.head?_cons, ne_eq, Option.some.injEq]
            rw [← hpost.1]; exact hc
        have hslice : slice inp (i + a.length + 1) (i + a.length + 1 + l0'.length) = some l0' :=
          slice_mid inp (pre ++ a ++ [LF]) l0' post' _ (by rw [hinp', hpost]; simp) hi'
        refine ⟨a, l0' :: Ls', (i + a.length + 1 + l0'.length) :: ps', LF :: c :: r,
          ?_, rfl, hhead, ?_, ?_, ?_, ?_⟩
        · rw [lines_line a _ ha, hlines]
        · rw [hsc, finalPos_acc, hfin]; rfl
        · simp only [segsFrom, hslice, Option.map_some, allSome, recBody, hl0', if_false,
            List.map_cons, hsegs]
        · simp [recBody, hl0', hlen]
        · rw [hsc]
          simp only [recBody, recRest, lineBytes, hl0', if_false]
          split at hrest
          · rename_i hf
            simp only [hf, if_true]
            refine ⟨?_, hrest.2.1, hrest.2.2⟩
            rw [hrest.1]; omega
          · rename_i hf
            simp only [hf]
            exact hrest

/-! ## Theorem 1 -/

theorem rec_spec (inp : List UInt8) (s ln : Nat) (h : (inp.drop s).head? = some GT) :
    ∃ H SL, head inp ⟨s, finalPos (scan (inp.drop s) s [])⟩ = some H ∧
      allSome (seqLines inp ⟨s, finalPos (scan (inp.drop s) s [])⟩) = some SL ∧
      specFrom inp s ln = Obs.record H SL ln s ::
        (if (scan (inp.drop s) s []).1 then
           specFrom inp (scan (inp.drop s) s []).2.1 (ln + (finalPos (scan (inp.drop s) s [])).length)
         else []) ∧
      ((scan (inp.drop s) s []).1 = true → (inp.drop (scan (inp.drop s) s []).2.1).head? = some GT) := by
  have hne : inp.drop s ≠ [] := by
    intro e; rw [e] at h; simp at h
  have hs : s < inp.length := by
    simpa using hne
  have hlen : s = (inp.take s).length := by simp; omega
  have hinp : inp = inp.take s ++ inp.drop s := (List.take_append_drop s inp).symm
  obtain ⟨l0, Ls, ps, post, hlines, hpost, hh, hfin, hsegs, hpl, hrest⟩ :=
    scan_lines (inp.drop s) hne inp (inp.take s) s hinp hlen
  have hl0 := hh GT (by simp [GT, LF]) h
  cases l0 with
  | nil => simp at hl0
  | cons g a' =>
    simp only [List.head?_cons, Option.some.injEq] at hl0
    subst hl0
    have hslice : slice inp (s + 1) (s + 1 + a'.length) = some a' := by
      apply slice_mid inp (inp.take s ++ [GT]) a' post
      · rw [hpost] at hinp
        simpa using hinp
      · simp; omega
    refine ⟨trimCr a', (recBody Ls).map trimCr, ?_, ?_, ?_, ?_⟩
    · rw [hfin, head_cons]
      have e : s + (GT :: a').length = s + 1 + a'.length := by simp; omega
      rw [e, hslice]; rfl
    · rw [hfin, seqLines_cons, hsegs]
    · unfold specFrom
      rw [hlines, faGroup_hdr _ (by simp), faGroup_some, hfin]
      simp only [List.map_cons, toObs, List.reverse_nil, List.nil_append, List.drop_succ_cons,
        List.drop_zero, List.length_cons, hpl]
      congr 1
      split at hrest
      · rename_i hf
        simp only [hf, if_true]
        rw [hrest.2.1, hrest.1]
        simp only [List.length_cons]
        have e : ln + 1 + (recBody Ls).length = ln + ((recBody Ls).length + 1) := by omega
        rw [e]
      · rename_i hf
        simp only [hf]
        rw [hrest]
        simp [faGroup]
    · intro hf
      rw [if_pos hf] at hrest
      exact hrest.2.2

end SeqIo.Fasta
