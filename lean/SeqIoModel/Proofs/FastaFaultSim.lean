import SeqIoModel.Proofs.FastaHistoryTotal
/-!
# Source failures, part 1: a run with a failing script against a run with a clean script

Let the read script be `y ++ fail k :: rest` with `NoFail y` (so `fail k` is its FIRST failing
event).  We run the machine side by side with a copy whose script is `y ++ T`, where `T` is any
failure-free list of the same length as `fail k :: rest`.  As long as no refill reaches the failing
event, the two machines do exactly the same (same observations, same states up to the script, same
fuel); the refill that reaches it makes the operation that called it return `Err(Io(k))`.
-/
open SeqIo SeqIo.FillProofs SeqIo.Spec

namespace SeqIo.Fasta.Fault

/-- the first failing event, the events behind it, and their failure-free replacement -/
structure Par where
  k : IoKind
  rest : List ReadEv
  T : List ReadEv
  nofail : NoFail T
  len : T.length = rest.length + 1

def Par.tail (p : Par) : List ReadEv := .fail p.k :: p.rest

theorem Par.tail_len (p : Par) : p.tail.length = p.T.length := by
  simp [Par.tail, p.len]

def bws (b : BufRd) (s : List ReadEv) : BufRd := { b with src := { b.src with script := s } }

@[simp] theorem bws_buf (b : BufRd) (s : List ReadEv) : (bws b s).buf = b.buf := rfl
@[simp] theorem bws_cap (b : BufRd) (s : List ReadEv) : (bws b s).cap = b.cap := rfl
@[simp] theorem bws_script (b : BufRd) (s : List ReadEv) : (bws b s).src.script = s := rfl
@[simp] theorem bws_bws (b : BufRd) (s t : List ReadEv) : bws (bws b s) t = bws b t := rfl

theorem noFail_cons_inv {e : ReadEv} {y : List ReadEv} (h : NoFail (e :: y)) :
    (∀ k, e ≠ .fail k) ∧ NoFail y :=
  ⟨fun k => h e (by simp) k, fun x hx => h x (by simp [hx])⟩

/-- one call of the source -/
theorem readIntoBuf_sim (p : Par) (b : BufRd) (y : List ReadEv) (hy : NoFail y)
    (hs : b.src.script = y ++ p.tail) :
    (∃ b' y' res, NoFail y' ∧ b'.src.script = y' ++ p.tail ∧ b.readIntoBuf = (b', res) ∧
      (bws b (y ++ p.T)).readIntoBuf = (bws b' (y' ++ p.T), res) ∧ (∀ kk, res ≠ .fail kk) ∧
      y'.length ≤ y.length) ∨
    (∃ b', b.readIntoBuf = (b', .fail p.k)) := by
  unfold BufRd.readIntoBuf
  by_cases hc : b.cap ≤ b.buf.length
  · left
    exact ⟨b, y, .n 0, hy, hs, by simp [hc], by simp [hc], (fun kk h => by cases h), Nat.le_refl _⟩
  · simp only [bws_cap, bws_buf, hc, if_false]
    cases y with
    | nil =>
      right
      simp only [List.nil_append, Par.tail] at hs
      simp only [Src.read, hs]
      exact ⟨_, rfl⟩
    | cons e y' =>
      left
      obtain ⟨hne, hy'⟩ := noFail_cons_inv hy
      simp only [List.cons_append] at hs
      cases e with
      | fail kk => exact absurd rfl (hne kk)
      | intr =>
        refine ⟨{ b with src := { b.src with script := y' ++ p.tail }, buf := b.buf ++ [] }, y', .intr, hy',
          rfl, by simp only [Src.read, hs], ?_, (fun kk h => by cases h), by simp⟩
        simp only [Src.read, bws, List.cons_append]
      | data n =>
        refine ⟨{ b with
            src := { b.src with script := y' ++ p.tail,
                                cursor := b.src.cursor + min (min (max n 1) (b.cap - b.buf.length)) b.src.remaining },
            buf := b.buf ++ (b.src.inp.drop b.src.cursor).take (min (min (max n 1) (b.cap - b.buf.length)) b.src.remaining) },
          y', .n (min (min (max n 1) (b.cap - b.buf.length)) b.src.remaining), hy', rfl,
          by simp only [Src.read, hs], ?_, (fun kk h => by cases h), by simp⟩
        simp only [Src.read, bws, List.cons_append, Src.remaining]

/-- the refill loop -/
theorem fillBufAux_sim (p : Par) : ∀ (fuel : Nat) (b : BufRd) (y : List ReadEv) (num : Nat),
    NoFail y → b.src.script = y ++ p.tail →
    (∃ b' y' r, NoFail y' ∧ b'.src.script = y' ++ p.tail ∧ fillBufAux fuel b num = (b', .ok r) ∧
      fillBufAux fuel (bws b (y ++ p.T)) num = (bws b' (y' ++ p.T), .ok r)) ∨
    (∃ b', fillBufAux fuel b num = (b', .error p.k)) := by
  intro fuel
  induction fuel with
  | zero =>
    intro b y num hy hs
    exact Or.inl ⟨b, y, num, hy, hs, rfl, rfl⟩
  | succ f ih =>
    intro b y num hy hs
    by_cases hlt : b.buf.length < b.cap
    · have hlt' : (bws b (y ++ p.T)).buf.length < (bws b (y ++ p.T)).cap := hlt
      rw [fillBufAux_succ f b num hlt, fillBufAux_succ f _ num hlt']
      rcases readIntoBuf_sim p b y hy hs with ⟨b', y', res, hy', hs', h1, h2, hnf, _⟩ | ⟨b', h1⟩
      · rw [h1, h2]
        cases res with
        | n k =>
          simp only
          by_cases hk : k = 0
          · simp only [hk, if_true]
            exact Or.inl ⟨b', y', num, hy', hs', rfl, rfl⟩
          · simp only [hk, if_false]
            exact ih b' y' (num + k) hy' hs'
        | intr => exact ih b' y' num hy' hs'
        | fail kk => exact absurd rfl (hnf kk)
      · rw [h1]
        exact Or.inr ⟨b', rfl⟩
    · have hlt' : ¬ (bws b (y ++ p.T)).buf.length < (bws b (y ++ p.T)).cap := hlt
      rw [fillBufAux_full _ b num hlt, fillBufAux_full _ _ num hlt']
      exact Or.inl ⟨b, y, num, hy, hs, rfl, rfl⟩

/-- `fill_buf`: both machines do the same, or the failing one reports the first failing event -/
theorem fillBuf_sim (p : Par) (b : BufRd) (y : List ReadEv) (hy : NoFail y)
    (hs : b.src.script = y ++ p.tail) :
    (∃ b' y' n, NoFail y' ∧ b'.src.script = y' ++ p.tail ∧ fillBuf b = (b', .ok n) ∧
      fillBuf (bws b (y ++ p.T)) = (bws b' (y' ++ p.T), .ok n)) ∨
    (∃ b', fillBuf b = (b', .error p.k)) := by
  unfold fillBuf
  have hm : (bws b (y ++ p.T)).fillMeasure = b.fillMeasure := by
    simp only [BufRd.fillMeasure, bws, hs, List.length_append, p.tail_len, Src.remaining]
  rw [hm]
  exact fillBufAux_sim p _ b y 0 hy hs

end SeqIo.Fasta.Fault
