import SeqIoModel.Model.Fasta
import SeqIoModel.Model.Utf8
/-!
# Iterator contracts of `SeqLines`, agreement of record views, id/desc split, UTF-8 split

Everything here is proved about the executable model under `SeqIoModel/Model/`; no axioms beyond
the ones of core Lean.
-/
open SeqIo SeqIo.Fasta

namespace SeqIo.IterProofs

/-! ## A. The sequence-line iterator -/

/-- the items still to come -/
def items (it : SeqLinesIt) : List (Nat × Nat) := it.a.zip it.b

/-- shape invariant of every reachable iterator state -/
def Inv (it : SeqLinesIt) : Prop := it.b.length ≤ it.a.length ∧ it.a.length ≤ it.b.length + 1

theorem inv_mk (bp : BufPos) : Inv (SeqLinesIt.mk' bp) := by
  simp [Inv, SeqLinesIt.mk']; omega

theorem items_mk (bp : BufPos) : items (SeqLinesIt.mk' bp) = bp.seqPos.zip (bp.seqPos.drop 1) := rfl

theorem len_eq (it : SeqLinesIt) : it.len = (items it).length := by
  simp [SeqLinesIt.len, items]

theorem next_spec (it : SeqLinesIt) (h : Inv it) :
    Inv it.next.1 ∧ it.next.2 = (items it).head? ∧ items it.next.1 = (items it).tail := by
  obtain ⟨a, b⟩ := it
  cases a with
  | nil => cases b <;> simp_all [Inv, SeqLinesIt.next, items]
  | cons x a' =>
    cases b with
    | nil => simp_all [Inv, SeqLinesIt.next, items]
    | cons y b' => simp_all [Inv, SeqLinesIt.next, items]

/-- zipping only looks at the common prefix -/
theorem zip_take_min (a b : List Nat) :
    (a.take (min a.length b.length)).zip (b.take (min a.length b.length)) = a.zip b := by
  induction a generalizing b with
  | nil => simp
  | cons x a ih =>
    cases b with
    | nil => simp
    | cons y b =>
      have : min (a.length + 1) (b.length + 1) = min a.length b.length + 1 := by omega
      simp [this, ih]

theorem zip_getLast? (a b : List Nat) (h : a.length = b.length) :
    (a.zip b).getLast? =
      match a.getLast?, b.getLast? with
      | some x, some y => some (x, y)
      | _, _ => none := by
  induction a generalizing b with
  | nil => cases b <;> simp_all
  | cons x a ih =>
    cases b with
    | nil => simp at h
    | cons y b =>
      simp at h
      cases a with
      | nil =>
        cases b with
        | nil => simp
        | cons _ _ => simp at h
      | cons x' a' =>
        cases b with
        | nil => simp at h
        | cons y' b' =>
          have := ih (y' :: b') h
          simp only [List.zip_cons_cons, List.getLast?_cons_cons] at this ⊢
          exact this

theorem zip_dropLast (a b : List Nat) (h : a.length = b.length) :
    (a.zip b).dropLast = a.dropLast.zip b.dropLast := by
  induction a generalizing b with
  | nil => cases b <;> simp_all
  | cons x a ih =>
    cases b with
    | nil => simp at h
    | cons y b =>
      simp at h
      cases a with
      | nil =>
        cases b with
        | nil => simp
        | cons _ _ => simp at h
      | cons x' a' =>
        cases b with
        | nil => simp at h
        | cons y' b' =>
          have := ih (y' :: b') h
          simp only [List.zip_cons_cons, List.dropLast_cons_cons] at this ⊢
          rw [this]

theorem nextBack_spec (it : SeqLinesIt) (h : Inv it) :
    Inv it.nextBack.1 ∧ it.nextBack.2 = (items it).getLast? ∧
      items it.nextBack.1 = (items it).dropLast := by
  obtain ⟨a, b⟩ := it
  have hl : (a.take (min a.length b.length)).length = (b.take (min a.length b.length)).length := by
    simp <;> omega
  have hz := zip_take_min a b
  have hg := zip_getLast? _ _ hl
  have hd := zip_dropLast _ _ hl
  rw [hz] at hg hd
  simp only [SeqLinesIt.nextBack, items]
  generalize a.take (min a.length b.length) = a1 at *
  generalize b.take (min a.length b.length) = b1 at *
  rw [hg, hd]
  cases ha : a1.getLast? <;> cases hb : b1.getLast? <;> simp only [Inv]
  · have : a1 = [] := by simpa using ha
    subst this
    have : b1 = [] := by simpa using hl.symm
    subst this
    simp
  · have : a1 = [] := by simpa using ha
    subst this
    have : b1 = [] := by simpa using hl.symm
    subst this
    simp
  · have : b1 = [] := by simpa using hb
    subst this
    have : a1 = [] := by simpa using hl
    subst this
    simp
  · simp [hl]

inductive Step | front | back
deriving Repr, DecidableEq

def stepIt (it : SeqLinesIt) : Step → SeqLinesIt × Option (Nat × Nat)
  | .front => it.next
  | .back => it.nextBack

/-- deque semantics on a plain list -/
def stepList (l : List (Nat × Nat)) : Step → List (Nat × Nat) × Option (Nat × Nat)
  | .front => (l.tail, l.head?)
  | .back => (l.dropLast, l.getLast?)

/-- fold of `stepIt` collecting outputs in order -/
def runIt (it : SeqLinesIt) : List Step → SeqLinesIt × List (Option (Nat × Nat))
  | [] => (it, [])
  | s :: ss =>
    let r := stepIt it s
    let q := runIt r.1 ss
    (q.1, r.2 :: q.2)

def runList (l : List (Nat × Nat)) : List Step → List (Nat × Nat) × List (Option (Nat × Nat))
  | [] => (l, [])
  | s :: ss =>
    let r := stepList l s
    let q := runList r.1 ss
    (q.1, r.2 :: q.2)

theorem step_spec (it : SeqLinesIt) (h : Inv it) (s : Step) :
    Inv (stepIt it s).1 ∧ (stepIt it s).2 = (stepList (items it) s).2 ∧
      items (stepIt it s).1 = (stepList (items it) s).1 := by
  cases s
  · exact next_spec it h
  · exact nextBack_spec it h

theorem run_spec (it : SeqLinesIt) (h : Inv it) (steps : List Step) :
    Inv (runIt it steps).1 ∧ (runIt it steps).2 = (runList (items it) steps).2 ∧
      items (runIt it steps).1 = (runList (items it) steps).1 := by
  induction steps generalizing it with
  | nil => simp [runIt, runList, h]
  | cons s ss ih =>
    obtain ⟨h1, h2, h3⟩ := step_spec it h s
    obtain ⟨i1, i2, i3⟩ := ih _ h1
    simp only [runIt, runList]
    rw [← h3, ← h2]
    exact ⟨i1, by rw [i2], i3⟩

/-- main theorem: any sequence of front/back steps on the iterator of a record behaves like a
double-ended queue over the record's line offsets; the exact length reported after the steps is
the number of items still to come -/
theorem run_deque (bp : BufPos) (steps : List Step) :
    (runIt (SeqLinesIt.mk' bp) steps).2 = (runList (bp.seqPos.zip (bp.seqPos.drop 1)) steps).2 ∧
    items (runIt (SeqLinesIt.mk' bp) steps).1 = (runList (bp.seqPos.zip (bp.seqPos.drop 1)) steps).1 ∧
    (runIt (SeqLinesIt.mk' bp) steps).1.len =
      (runList (bp.seqPos.zip (bp.seqPos.drop 1)) steps).1.length := by
  obtain ⟨_, h2, h3⟩ := run_spec _ (inv_mk bp) steps
  rw [items_mk] at h2 h3
  exact ⟨h2, h3, by rw [len_eq, h3]⟩

theorem stepList_none (l : List (Nat × Nat)) (s : Step) (h : (stepList l s).2 = none) : l = [] := by
  cases s <;> simpa [stepList] using h

/-- fused: once the end has been reported (from either side) every further step reports the end -/
theorem fused (bp : BufPos) (steps : List Step) (s s' : Step)
    (h : (stepIt (runIt (SeqLinesIt.mk' bp) steps).1 s).2 = none) :
    (stepIt (stepIt (runIt (SeqLinesIt.mk' bp) steps).1 s).1 s').2 = none := by
  obtain ⟨hi, _, _⟩ := run_spec _ (inv_mk bp) steps
  generalize (runIt (SeqLinesIt.mk' bp) steps).1 = it at *
  obtain ⟨h1, h2, h3⟩ := step_spec it hi s
  obtain ⟨_, k2, _⟩ := step_spec _ h1 s'
  rw [h2] at h
  have e := stepList_none _ _ h
  rw [k2, h3, e]
  cases s <;> cases s' <;> simp [stepList]

theorem runList_front (l : List (Nat × Nat)) (k : Nat) (h : l.length ≤ k) :
    (runList l (List.replicate k Step.front)).2.filterMap id = l := by
  induction k generalizing l with
  | zero => simp_all [runList]
  | succ k ih =>
    cases l with
    | nil => simpa [List.replicate, runList, stepList] using ih [] (by simp)
    | cons x l =>
      simp at h
      simp [List.replicate, runList, stepList, ih l h]

theorem runList_back (l : List (Nat × Nat)) (k : Nat) (h : l.length ≤ k) :
    (runList l (List.replicate k Step.back)).2.filterMap id = l.reverse := by
  induction k generalizing l with
  | zero => simp_all [runList]
  | succ k ih =>
    cases hl : l.getLast? with
    | none =>
      have : l = [] := by simpa using hl
      subst this
      simpa [List.replicate, runList, stepList] using ih [] (by simp)
    | some x =>
      have hne : l ≠ [] := by intro e; simp [e] at hl
      have hd : l = l.dropLast ++ [x] := by
        have h1 := List.dropLast_concat_getLast hne
        have h2 : l.getLast hne = x := by
          rw [List.getLast?_eq_some_getLast hne] at hl
          simpa using hl
        rw [h2] at h1
        exact h1.symm
      have hk : l.dropLast.length ≤ k := by simp; omega
      simp only [List.replicate, runList, stepList, hl, List.filterMap_cons, id]
      rw [ih _ hk]
      conv => rhs; rw [hd]
      simp

/-- every item is yielded exactly once, complete consumption from the front -/
theorem exhaust_front (bp : BufPos) :
    ((runIt (SeqLinesIt.mk' bp) (List.replicate (bp.seqPos.length) Step.front)).2.filterMap id)
      = bp.seqPos.zip (bp.seqPos.drop 1) := by
  rw [(run_deque bp _).1]
  apply runList_front
  simp <;> omega

theorem exhaust_back (bp : BufPos) :
    ((runIt (SeqLinesIt.mk' bp) (List.replicate (bp.seqPos.length) Step.back)).2.filterMap id)
      = (bp.seqPos.zip (bp.seqPos.drop 1)).reverse := by
  rw [(run_deque bp _).1]
  apply runList_back
  simp <;> omega

/-! ## B. Views of a record agree -/

theorem numSeqLines_eq (buf : List UInt8) (bp : BufPos) :
    numSeqLines bp = (seqLines buf bp).length := by
  simp [numSeqLines, seqLines]

theorem numSeqLines_eq_items (bp : BufPos) : numSeqLines bp = (SeqLinesIt.mk' bp).len := by
  simp [numSeqLines, SeqLinesIt.len, SeqLinesIt.mk']

theorem ownedSeq_eq_flatten (buf : List UInt8) (bp : BufPos) (ls : List (List UInt8))
    (h : allSome (seqLines buf bp) = some ls) : ownedSeq buf bp = some ls.flatten := by
  simp [ownedSeq, h]

theorem allSome_length {α : Type} (l : List (Option α)) (ls : List α) (h : allSome l = some ls) :
    l.length = ls.length := by
  induction l generalizing ls with
  | nil => simp [allSome] at h; simp [h]
  | cons o l ih =>
    cases o with
    | none => simp [allSome] at h
    | some x =>
      simp [allSome] at h
      obtain ⟨ls', h1, rfl⟩ := h
      simp [ih ls' h1]

/-- with exactly one line the raw sequence is that line (so `full_seq` may borrow it) -/
theorem single_line_raw (buf : List UInt8) (bp : BufPos) (l : List UInt8)
    (h : allSome (seqLines buf bp) = some [l]) : seqRaw buf bp = some l := by
  have hlen := allSome_length _ _ h
  obtain ⟨start, sp⟩ := bp
  simp only [seqLines, List.length_map, List.length_zip, List.length_drop, List.length_cons,
    List.length_nil] at hlen
  match sp, hlen with
  | [], hlen => simp at hlen
  | [_], hlen => simp at hlen
  | [s, e], _ =>
    cases hs : slice buf (s + 1) e with
    | none => simp [seqLines, allSome, hs] at h
    | some d =>
      simp [seqLines, allSome, hs] at h
      simp [seqRaw, hs, h]
  | _ :: _ :: _ :: r, hlen => simp at hlen

/-! ## C. id / description split -/

theorem id_desc_join (h : List UInt8) :
    idBytes h ++ (match descBytes h with | some d => SP :: d | none => []) = h := by
  induction h with
  | nil => simp [idBytes, descBytes]
  | cons b t ih =>
    by_cases hb : b = SP
    · simp [idBytes, descBytes, hb]
    · simp only [idBytes, descBytes] at ih ⊢
      simp only [List.takeWhile_cons, List.dropWhile_cons, hb, ne_eq, not_false_eq_true,
        decide_true, if_true, List.cons_append]
      rw [ih]

theorem id_no_space (h : List UInt8) : SP ∉ idBytes h := by
  induction h with
  | nil => simp [idBytes]
  | cons b t ih =>
    by_cases hb : b = SP
    · simp [idBytes, hb]
    · have hb' : ¬ SP = b := fun e => hb e.symm
      simp only [idBytes] at ih ⊢
      simp only [List.takeWhile_cons, hb, ne_eq, not_false_eq_true, decide_true, if_true,
        List.mem_cons, hb', false_or]
      exact ih

theorem desc_none_iff (h : List UInt8) : descBytes h = none ↔ SP ∉ h := by
  induction h with
  | nil => simp [descBytes]
  | cons b t ih =>
    by_cases hb : b = SP
    · simp [descBytes, hb]
    · have hb' : ¬ SP = b := fun e => hb e.symm
      simp only [descBytes] at ih ⊢
      simp only [List.dropWhile_cons, hb, ne_eq, not_false_eq_true, decide_true, if_true,
        List.mem_cons, hb', false_or]
      exact ih

/-! ## D. UTF-8 validity splits at an ASCII byte -/

/-- an ASCII byte is not a continuation byte (nor in any of the restricted second-byte ranges) -/
theorem ascii_not_cont (c : UInt8) (hc : c < 0x80) :
    isCont c = false ∧ ¬ (128 ≤ c) ∧ ¬ (144 ≤ c) ∧ ¬ (160 ≤ c) := by
  simp only [UInt8.lt_iff_toNat_lt, UInt8.le_iff_toNat_le, isCont] at *
  simp at *
  omega

theorem validUtf8_cons_ascii (c : UInt8) (r : List UInt8) (hc : c < 0x80) :
    validUtf8 (c :: r) = validUtf8 r := by
  rw [validUtf8.eq_def]; simp [hc]

/-- closes the cases where the multi-byte sequence is cut short by the ASCII byte -/
local macro "utf8_short" : tactic =>
  `(tactic| (rw [validUtf8.eq_def]; simp [*]; try (split <;> simp_all); try (intro h; exact absurd h (UInt8.not_le.mpr (by assumption)))))

theorem validUtf8_append_ascii (a b : List UInt8) (c : UInt8) (hc : c < 0x80) :
    validUtf8 (a ++ c :: b) = (validUtf8 a && validUtf8 b) := by
  obtain ⟨k0, k1, k2, k3⟩ := ascii_not_cont c hc
  fun_induction validUtf8 a
  case case1 => simp [validUtf8_cons_ascii, hc]
  case case2 => simp [validUtf8_cons_ascii, *]
  case case3 => simp [validUtf8, *, Bool.and_assoc]
  case case5 => simp [validUtf8, *, Bool.and_assoc]
  case case7 => simp [validUtf8, *, Bool.and_assoc]
  case case9 => simp [validUtf8, *, Bool.and_assoc]
  case case11 => simp [validUtf8, *, Bool.and_assoc]
  case case13 => simp [validUtf8, *, Bool.and_assoc]
  case case15 => simp [validUtf8, *, Bool.and_assoc]
  case case17 => utf8_short
  case case4 rest _ _ hx =>
    match rest, hx with
    | [], _ => utf8_short
    | b1 :: r, hx => exact (hx _ _ rfl).elim
  case case6 rest hx _ _ =>
    match rest, hx with
    | [], _ => utf8_short
    | [b1], _ => utf8_short
    | b1 :: b2 :: r, hx => exact (hx _ _ _ rfl).elim
  case case8 rest _ _ _ _ hx =>
    match rest, hx with
    | [], _ => utf8_short
    | [b1], _ => utf8_short
    | b1 :: b2 :: r, hx => exact (hx _ _ _ rfl).elim
  case case10 rest hx _ _ _ _ =>
    match rest, hx with
    | [], _ => utf8_short
    | [b1], _ => utf8_short
    | b1 :: b2 :: r, hx => exact (hx _ _ _ rfl).elim
  case case12 rest hx _ _ _ _ _ =>
    match rest, hx with
    | [], _ => utf8_short
    | [b1], _ => utf8_short
    | [b1, b2], _ => utf8_short
    | b1 :: b2 :: b3 :: r, hx => exact (hx _ _ _ _ rfl).elim
  case case14 rest _ _ _ _ _ _ _ hx =>
    match rest, hx with
    | [], _ => utf8_short
    | [b1], _ => utf8_short
    | [b1, b2], _ => utf8_short
    | b1 :: b2 :: b3 :: r, hx => exact (hx _ _ _ _ rfl).elim
  case case16 rest hx _ _ _ _ _ _ _ =>
    match rest, hx with
    | [], _ => utf8_short
    | [b1], _ => utf8_short
    | [b1, b2], _ => utf8_short
    | b1 :: b2 :: b3 :: r, hx => exact (hx _ _ _ _ rfl).elim

theorem validUtf8_id_desc (h : List UInt8) :
    validUtf8 h = (validUtf8 (idBytes h) &&
      (match descBytes h with | some d => validUtf8 d | none => true)) := by
  have hj := id_desc_join h
  cases hd : descBytes h with
  | none =>
    rw [hd] at hj
    simp at hj
    simp [hj]
  | some d =>
    rw [hd] at hj
    simp only at hj ⊢
    conv => lhs; rw [← hj]
    exact validUtf8_append_ascii _ _ SP (by decide)

end SeqIo.IterProofs
