import SeqIoModel.Model.Parallel
/-!
# Termination of the `read_parallel_init` thread protocol (C08)

A potential function on protocol states that strictly decreases with every step of every thread.
Hence every schedule from a state `s` has at most `pot c s` steps (`sched_bounded`): the protocol
has no livelock, whatever the interleaving.
-/

namespace SeqIo.Par

set_option linter.unusedSimpArgs false

/-- weight of a message in the done channel -/
def msgW : Msg → Nat
  | .res _ _ => 2
  | .err => 1
  | .fin => 1

/-- reader part of the potential -/
def rdPot (c : Cfg) (s : St) : Nat :=
  match s.rd with
  | .start => 8 * (c.N - s.filled) + 9
  | .recvEmpty => 8 * (c.N - s.filled) + 8
  | .fill _ => 8 * (c.N - s.filled) + 7
  | .sendErr => 5
  | .joinAll _ => 3
  | .sendFin => 2
  | .exited => 0

/-- main thread part of the potential -/
def mnPot (c : Cfg) (s : St) : Nat :=
  match s.mn with
  | .init i => 2 * (c.Q - i) + 6
  | .recycle _ => 4
  | .recvDone => 3
  | .dropping => 2
  | .joining => 1
  | .returned => 0

/-- The potential: reader and main program counters, 5/4/3 per job queued/working/sending and the
weights of the messages in the done channel (an error message weighs 1, so a consumer that keeps
calling `next()` after the error still pays for it: the message leaves the channel). -/
def pot (c : Cfg) (s : St) : Nat :=
  rdPot c s + mnPot c s + 5 * s.jobs.length + 4 * s.working.length + 3 * s.sending.length
    + (s.doneCh.map msgW).sum

theorem reader_step_decreases (c : Cfg) (s s' : St) (h : step c s .reader = some s') :
    pot c s' < pot c s := by
  unfold step at h
  simp only at h
  split at h <;> (try split at h) <;> (try split at h) <;> (try split at h) <;>
    simp_all [pot, rdPot, mnPot, msgW] <;> (try subst h) <;>
    simp_all [pot, rdPot, mnPot, msgW] <;> (try omega)

theorem main_step_decreases (c : Cfg) (s s' : St) (h : step c s .main = some s') :
    pot c s' < pot c s := by
  unfold step at h
  simp only [afterResult] at h
  split at h <;> (try split at h) <;> (try split at h) <;> (try split at h) <;> (try split at h) <;>
    simp_all [pot, rdPot, mnPot, msgW] <;> (try subst h) <;>
    simp_all [pot, rdPot, mnPot, msgW] <;> (try split) <;> (try omega)

theorem take_step_decreases (c : Cfg) (s s' : St) (h : step c s .workerTake = some s') :
    pot c s' < pot c s := by
  unfold step at h
  simp only at h
  split at h <;> (try split at h) <;>
    simp_all [pot, rdPot, mnPot, msgW] <;> (try subst h) <;>
    simp_all [pot, rdPot, mnPot, msgW] <;> (try omega)

theorem finish_step_decreases (c : Cfg) (s s' : St) (i : Nat)
    (h : step c s (.workerFinish i) = some s') : pot c s' < pot c s := by
  unfold step at h
  simp only at h
  split at h
  · rename_i j hj
    have hi : i < s.working.length := by
      rcases Nat.lt_or_ge i s.working.length with h1 | h1
      · exact h1
      · simp [List.getElem?_eq_none h1] at hj
    injection h with h; subst h
    simp [pot, rdPot, mnPot, List.length_eraseIdx, hi]
    omega
  · simp at h

theorem send_step_decreases (c : Cfg) (s s' : St) (i : Nat)
    (h : step c s (.workerSend i) = some s') : pot c s' < pot c s := by
  unfold step at h
  simp only at h
  split at h
  · rename_i j hj
    have hi : i < s.sending.length := by
      rcases Nat.lt_or_ge i s.sending.length with h1 | h1
      · exact h1
      · simp [List.getElem?_eq_none h1] at hj
    split at h
    · injection h with h; subst h
      simp [pot, rdPot, mnPot, List.length_eraseIdx, hi]; omega
    · split at h
      · injection h with h; subst h
        simp [pot, rdPot, mnPot, msgW, List.length_eraseIdx, hi]; omega
      · simp at h
  · simp at h

/-- C08: every step of every thread strictly decreases the potential. -/
theorem step_decreases (c : Cfg) (s s' : St) (t : Tid) (h : step c s t = some s') :
    pot c s' < pot c s := by
  cases t with
  | main => exact main_step_decreases c s s' h
  | reader => exact reader_step_decreases c s s' h
  | workerTake => exact take_step_decreases c s s' h
  | workerFinish i => exact finish_step_decreases c s s' i h
  | workerSend i => exact send_step_decreases c s s' i h

/-- C08: every schedule (list of thread choices, each enabled) from `s` is at most `pot c s` long. -/
theorem sched_bounded (c : Cfg) (s s' : St) (ts : List Tid) (h : runSched c s ts = some s') :
    ts.length + pot c s' ≤ pot c s := by
  induction ts generalizing s with
  | nil => simp [runSched] at h; subst h; simp
  | cons t ts ih =>
    simp only [runSched] at h
    split at h
    · rename_i s1 hs1
      have := ih s1 h
      have := step_decreases c s s1 t hs1
      simp; omega
    · simp at h

/-- closed form of the bound for the initial state -/
theorem pot_init (c : Cfg) : pot c init = 8 * c.N + 2 * c.Q + 15 := by
  simp [pot, rdPot, mnPot, init]; omega

/-- every schedule from the initial state has at most `8 N + 2 Q + 15` steps -/
theorem sched_bounded_init (c : Cfg) (s : St) (ts : List Tid) (h : runSched c init ts = some s) :
    ts.length ≤ 8 * c.N + 2 * c.Q + 15 := by
  have := sched_bounded c init s ts h
  rw [pot_init] at this; omega

end SeqIo.Par

/-! Axioms used (expected: only `propext`, `Classical.choice`, `Quot.sound`). -/
#print axioms SeqIo.Par.sched_bounded
