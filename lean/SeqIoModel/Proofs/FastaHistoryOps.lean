import SeqIoModel.Proofs.FastaHistorySpec
import SeqIoModel.Proofs.FastaHistoryFrame
/-!
# FASTA histories, part 2: the building blocks of all read operations

`resume_any`: `resume_incomplete_search(make_room)` for both values of `make_room`
(`false` = grow instead of shifting, so that offsets into the buffer stay valid).
`find_rec`: from the start of a pending record, `search` (+ `resume`) finds exactly that record.
-/
open SeqIo SeqIo.FillProofs SeqIo.Spec

namespace SeqIo.Fasta.Hist

/-- what every operation leaves alone -/
structure Frame (r r' : Reader) : Prop where
  polf : r'.pol.f = r.pol.f
  seekFails : r'.br.src.seekFails = r.br.src.seekFails

theorem Frame.refl (r : Reader) : Frame r r := ⟨rfl, rfl⟩

theorem Frame.trans {a b c : Reader} (h1 : Frame a b) (h2 : Frame b c) : Frame a c :=
  ⟨by rw [h2.polf, h1.polf], by rw [h2.seekFails, h1.seekFails]⟩

theorem not_grows_of_refusal {p : Pol} {h : List Nat} {c : Nat} (hc : 1 ≤ c)
    (hn : p.f (h ++ [c]) = none) : ¬ PolGrows p := by
  intro hg
  obtain ⟨n, hn', _⟩ := hg h c hc
  rw [hn] at hn'
  cases hn'

theorem grow_refuse {r : Reader} (hn : r.pol.f (r.pol.hist ++ [r.br.cap]) = none) :
    grow r = ({ r with pol := { r.pol with hist := r.pol.hist ++ [r.br.cap] },
                       log := r.log ++ [(r.br.cap, none)] }, .err .bufferLimit) := by
  simp only [grow, Pol.growTo, hn]

theorem grow_answer {r : Reader} {n : Nat} (hn : r.pol.f (r.pol.hist ++ [r.br.cap]) = some n)
    (hle : r.br.cap ≤ n) :
    grow r = ({ r with pol := { r.pol with hist := r.pol.hist ++ [r.br.cap] },
                       log := r.log ++ [(r.br.cap, some n)],
                       br := r.br.reserve (n - r.br.cap) }, .ok ()) := by
  simp only [grow, Pol.growTo, hn, csub, hle, if_true]

/-- the first half of an iteration of `resume_incomplete_search`: shift or grow -/
def step1 (mk : Bool) (r : Reader) : Reader × Res Unit :=
  if !mk || r.bp.start = 0 then grow r
  else match makeRoom r with
    | some r' => (r', .ok ())
    | none => (r, .panic)

/-- make space in a full buffer: shift (only if allowed and useful) or grow -/
theorem step1_any {inp : List UInt8} {r : Reader} {s : Nat} (mk : Bool) (hw : Win inp r)
    (hs : ScanSt inp r s) (hfull : r.br.cap ≤ r.br.buf.length) :
    ∃ r1 res, step1 mk r = (r1, res) ∧
      Frame r r1 ∧ Win inp r1 ∧ ScanSt inp r1 s ∧ r1.state = r.state ∧ r1.line = r.line ∧
      r1.byte = r.byte ∧ r1.br.src.cursor = r.br.src.cursor ∧
      r1.searchPos + base r1 = r.searchPos + base r ∧
      (mk = false → base r1 = base r ∧ r1.br.buf = r.br.buf) ∧
      ((res = .ok () ∧ r1.br.buf.length < r1.br.cap) ∨
       (res = .err .bufferLimit ∧ ¬ PolGrows r.pol ∧ r1.br = r.br ∧ r1.searchPos = r.searchPos)) := by
  have hcap3 := hw.b.cap_ge
  unfold step1
  by_cases hc : (!mk || decide (r.bp.start = 0)) = true
  · rw [if_pos hc]
    cases hn : r.pol.f (r.pol.hist ++ [r.br.cap]) with
    | none =>
      refine ⟨_, _, grow_refuse hn, ⟨rfl, rfl⟩, ⟨hw.b, hw.pol⟩, ?_, rfl, rfl, rfl, rfl, rfl,
        fun _ => ⟨rfl, rfl⟩, Or.inr ⟨rfl, not_grows_of_refusal (by omega) hn, rfl, rfl⟩⟩
      exact scanSt_of_br hs rfl rfl rfl (Nat.le_refl _)
    | some n =>
      have hlt : r.br.cap < n := hw.pol _ _ _ (by omega) hn
      obtain ⟨hwb, hbase⟩ := reserve_win hw.b (n - r.br.cap)
      refine ⟨_, _, grow_answer hn (by omega), ⟨rfl, by show (r.br.reserve _).src.seekFails = _; rw [reserve_src]⟩,
        ⟨hwb, hw.pol⟩, ?_, rfl, rfl, rfl, by show (r.br.reserve _).src.cursor = _; rw [reserve_src],
        by show r.searchPos + baseB (r.br.reserve _) = _; rw [hbase]; rfl,
        fun _ => ⟨hbase, reserve_buf _ _⟩, Or.inl ⟨rfl, ?_⟩⟩
      · exact scanSt_of_br hs hbase rfl rfl (by show r.br.buf.length ≤ (r.br.reserve _).buf.length; rw [reserve_buf]; exact Nat.le_refl _)
      · show (r.br.reserve _).buf.length < (r.br.reserve _).cap
        have := hw.b.len_cap
        rw [reserve_cap_full _ _ hfull hlt, reserve_buf]; omega
  · rw [if_neg hc]
    have hmk : mk = true := by
      cases mk with
      | true => rfl
      | false => simp at hc
    have h0 : r.bp.start ≠ 0 := by
      intro h; rw [hmk, h] at hc; simp at hc
    have hsl := hs.start_le
    have hsp := hs.sp_le
    have hme := makeRoom_eq r hsl (fun p hp => (hs.pos_lt p hp).1)
    obtain ⟨r1, hm, hw1, hs1, hst, hlen, hcap, hcur, hl, hb, hlog, hpol⟩ := makeRoom_scanSt hw hs
    have hr1 : r1 = { r with br := r.br.consume r.bp.start,
                             bp := { start := 0, seqPos := r.bp.seqPos.map (· - r.bp.start) },
                             searchPos := r.searchPos - r.bp.start } := by
      rw [hme] at hm; exact (Option.some.inj hm).symm
    have hsp1 : r1.searchPos + base r1 = r.searchPos + base r := by
      have e1 := hs1.start_eq
      have e2 := hs.start_eq
      have e3 : r1.bp.start = 0 := by rw [hr1]
      have e4 : r1.searchPos = r.searchPos - r.bp.start := by rw [hr1]
      omega
    refine ⟨r1, .ok (), by rw [hm], ⟨by rw [hpol], by rw [hr1]; rfl⟩, hw1, hs1, hst, hl, hb, hcur, hsp1,
      (fun h => by rw [hmk] at h; cases h), Or.inl ⟨rfl, ?_⟩⟩
    have := hw.b.len_cap
    rw [hlen, hcap]; omega

theorem search_mono {r r' : Reader} {f : Bool} (h : search r = some (r', f))
    (hsp : r.searchPos ≤ r.br.buf.length) :
    r.searchPos ≤ r'.searchPos ∧ r'.bp.start = r.bp.start := by
  have hge := (scan_sp_ge (r.br.buf.drop r.searchPos) r.searchPos r.bp.seqPos).1
  rw [search_eq r hsp] at h
  split at h
  · simp only [Option.some.injEq, Prod.mk.injEq] at h
    obtain ⟨rfl, _⟩ := h
    exact ⟨hge, rfl⟩
  · split at h
    · simp only [Option.some.injEq, Prod.mk.injEq] at h
      obtain ⟨rfl, _⟩ := h
      exact ⟨hge, rfl⟩
    · simp only [Option.some.injEq, Prod.mk.injEq] at h
      obtain ⟨rfl, _⟩ := h
      exact ⟨hge, rfl⟩

theorem resume_unfold (f : Nat) (mk : Bool) (r : Reader) :
    resume (f + 1) mk r =
      match step1 mk r with
      | (r, .ok ()) =>
        match fillBuf r.br with
        | (br, .error k) => ({ r with br := br }, .err (.io k))
        | (br, .ok _) =>
          match search { r with br := br } with
          | none => (r, .panic)
          | some (r, true) => (r, .ok true)
          | some (r, false) => resume f mk r
      | (r, .err e) => (r, .err e)
      | (r, .panic) => (r, .panic)
      | (r, .fuel) => (r, .fuel) := by
  rw [resume]
  rfl

/-- `resume_incomplete_search`: the pending record is found completely (possibly after growing
the buffer several times), unless the policy refuses; in that case nothing but the policy has
changed since the last refill.  With `mk = false` the buffer is only extended. -/
theorem resume_any {inp : List UInt8} (mk : Bool) : ∀ (fuel : Nat) (r : Reader) (s : Nat),
    Win inp r → ScanSt inp r s → r.state = .incomplete → r.br.cap ≤ r.br.buf.length →
    r.br.buf.length ≤ r.searchPos + 1 → inp.length - r.br.src.cursor < fuel →
    ∃ r' res, resume fuel mk r = (r', res) ∧ Frame r r' ∧ Win inp r' ∧ r'.line = r.line ∧
      r'.byte = r.byte ∧
      (mk = false → base r' = base r ∧ r.br.buf.length ≤ r'.br.buf.length) ∧
      ((res = .ok true ∧ Eof inp r' ∧ RecDone inp r' s ∧
          (r'.state = .incomplete ∨ r'.state = .finished) ∧ r'.bp.start ≤ r'.searchPos ∧
          r.searchPos + base r ≤ r'.searchPos + base r') ∨
       (res = .err .bufferLimit ∧ ¬ PolGrows r.pol ∧ ScanSt inp r' s ∧ r'.state = .incomplete ∧
          r'.br.cap ≤ r'.br.buf.length ∧ r'.br.buf.length ≤ r'.searchPos + 1)) := by
  intro fuel
  induction fuel with
  | zero => intro r s _ _ _ _ _ h; omega
  | succ f ih =>
    intro r s hw hs hst hfull hnear hfuel
    obtain ⟨r1, res1, hstep, hfr1, hw1, hs1, hst1, hl1, hb1, hcur1, hspb1, hmk1, hcase⟩ :=
      step1_any mk hw hs hfull
    rw [resume_unfold, hstep]
    rcases hcase with ⟨hres1, hlt1⟩ | ⟨hres1, hng, hbr1, hsp1⟩
    · subst hres1
      obtain ⟨br2, n, hfill, hwb2, heof2, hbase2, hcap2, hbuf2, hcur2, hn, _⟩ := fill_win hw1.b
      have hw2 : Win inp { r1 with br := br2 } := ⟨hwb2, hw1.pol⟩
      have hs2 : ScanSt inp { r1 with br := br2 } s :=
        scanSt_of_br hs1 hbase2 rfl rfl (by show r1.br.buf.length ≤ br2.buf.length; rw [hbuf2]; simp)
      have hst2 : ({ r1 with br := br2 } : Reader).state ≠ .finished := by
        show r1.state ≠ .finished
        rw [hst1, hst]; intro h; cases h
      obtain ⟨r3, fnd, hsearch, hbr3, hpol3, hlog3, hl3, hb3, hstart3, htrue, hfalse⟩ :=
        search_step hw2 heof2 hs2 hst2
      simp only [hfill, hsearch]
      have hw3 : Win inp r3 := ⟨by rw [hbr3]; exact hwb2, by rw [hpol3]; exact hw1.pol⟩
      have hfr3 : Frame r r3 := by
        refine hfr1.trans ⟨by rw [hpol3], ?_⟩
        rw [hbr3]; exact fillBuf_seekFails' hfill
      have hlen2 : r1.br.buf.length ≤ br2.buf.length := by rw [hbuf2]; simp
      have hmk3 : mk = false → base r3 = base r ∧ r.br.buf.length ≤ r3.br.buf.length := by
        intro h
        obtain ⟨h1, h2⟩ := hmk1 h
        refine ⟨?_, ?_⟩
        · show baseB r3.br = _; rw [hbr3]; show baseB br2 = _; rw [hbase2]; exact h1
        · rw [hbr3]; show _ ≤ br2.buf.length; rw [← h2]; exact hlen2
      obtain ⟨hmono3, hstart3'⟩ := search_mono hsearch hs2.sp_le
      have hspb3 : r.searchPos + base r ≤ r3.searchPos + base r3 := by
        have e1 : base r3 = base r1 := by show baseB r3.br = _; rw [hbr3]; exact hbase2
        have e2 : r1.searchPos ≤ r3.searchPos := hmono3
        omega
      cases fnd with
      | true =>
        obtain ⟨hdone, hstate⟩ := htrue rfl
        refine ⟨r3, .ok true, rfl, hfr3, hw3, by rw [hl3]; exact hl1, by rw [hb3]; exact hb1, hmk3,
          Or.inl ⟨rfl, by unfold Eof; rw [hbr3]; exact heof2, hdone, ?_, ?_, hspb3⟩⟩
        · rcases hstate with h | h
          · left; rw [h]; show r1.state = _; rw [hst1, hst]
          · right; exact h
        · have e1 : r1.bp.start ≤ r1.searchPos := hs1.start_le
          have e2 : r1.searchPos ≤ r3.searchPos := hmono3
          have e3 : r3.bp.start = r1.bp.start := hstart3'
          omega
      | false =>
        obtain ⟨hs3, hst3, hfull3, hnear3⟩ := hfalse rfl
        have hfull3' : br2.cap ≤ br2.buf.length := hfull3
        have hlenn : br2.buf.length = r1.br.buf.length + n := by
          rw [hbuf2, List.length_append, List.length_take, List.length_drop]; omega
        have hcl := hw1.b.cur_le
        obtain ⟨r', res', hres', hfr', hw', hl', hb', hmk', hcase'⟩ := ih r3 s hw3 hs3 hst3
          (by rw [hbr3]; exact hfull3') (by rw [hbr3]; exact hnear3) (by rw [hbr3, hcur2]; omega)
        refine ⟨r', res', hres', hfr3.trans hfr', hw', by rw [hl', hl3]; exact hl1,
          by rw [hb', hb3]; exact hb1, ?_, ?_⟩
        · intro h
          obtain ⟨h1, h2⟩ := hmk3 h
          obtain ⟨h3, h4⟩ := hmk' h
          exact ⟨by rw [h3, h1], by omega⟩
        · rcases hcase' with ⟨h1, h2, h3, h4, h5, h6⟩ | ⟨h1, h2, h3⟩
          · exact Or.inl ⟨h1, h2, h3, h4, h5, by omega⟩
          · refine Or.inr ⟨h1, ?_, h3⟩
            intro hg
            exact h2 (polGrows_congr hfr3.polf hg)
    · subst hres1
      refine ⟨r1, _, rfl, hfr1, hw1, hl1, hb1, ?_, Or.inr ⟨rfl, hng, hs1, by rw [hst1, hst],
        by rw [hbr1]; exact hfull, by rw [hbr1, hsp1]; exact hnear⟩⟩
      intro h
      obtain ⟨h1, h2⟩ := hmk1 h
      exact ⟨h1, by rw [h2]; exact Nat.le_refl _⟩

end SeqIo.Fasta.Hist
