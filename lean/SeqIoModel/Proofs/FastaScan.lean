import SeqIoModel.Model.Fasta
/-! # FASTA record scan: bounds and resumability (helper lemmas) -/
open SeqIo

namespace SeqIo.Fasta
theorem scan_sp_ge (b1 : List UInt8) (i : Nat) (acc : List Nat) :
    i ≤ (scan b1 i acc).2.1 ∧ (scan b1 i acc).2.1 ≤ i + b1.length := by
  fun_induction scan b1 i acc <;> simp_all <;> omega

theorem scan_resume_found (b1 ext : List UInt8) (i : Nat) (acc : List Nat) (sp : Nat) (acc1 : List Nat)
    (h : scan b1 i acc = (true, sp, acc1)) :
    scan (b1 ++ ext) i acc = (true, sp, acc1) := by
  fun_induction scan b1 i acc <;> grind [scan]

theorem scan_resume_notfound (b1 ext : List UInt8) (i : Nat) (acc : List Nat) (sp : Nat) (acc1 : List Nat)
    (h : scan b1 i acc = (false, sp, acc1)) :
    scan (b1 ++ ext) i acc = scan (b1.drop (sp - i) ++ ext) sp acc1 := by
  fun_induction scan b1 i acc
  · simp_all
  · simp_all
  · rename_i b i acc hb
    simp at h
    obtain ⟨rfl, rfl⟩ := h
    cases ext <;> simp [scan, hb]
  · simp_all
  · rename_i c rest i acc hc ih
    have hge := (scan_sp_ge (c :: rest) (i+1) (acc ++ [i])).1
    rw [h] at hge
    simp at hge
    have e : sp - i = (sp - (i+1)) + 1 := by omega
    rw [e]
    simp only [List.cons_append, List.drop_succ_cons]
    rw [scan.eq_3]
    simp only [hc, if_true, if_false]
    have := ih h
    simpa using this
  · rename_i b c rest i acc hb ih
    have hge := (scan_sp_ge (c :: rest) (i+1) acc).1
    rw [h] at hge
    simp at hge
    have e : sp - i = (sp - (i+1)) + 1 := by omega
    rw [e]
    simp only [List.cons_append, List.drop_succ_cons]
    rw [scan.eq_3]
    simp only [hb, if_false]
    have := ih h
    simpa using this

end SeqIo.Fasta
