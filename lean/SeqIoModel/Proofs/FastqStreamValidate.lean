import SeqIoModel.Proofs.FastqStreamLines
import SeqIoModel.Proofs.FastqStreamVerdict
/-!
# FASTQ stream proof, part 2: `validate`, the views and `get_error_pos` against `Spec.fqGroup`
-/

namespace SeqIo.Fastq
open SeqIo SeqIo.Spec SeqIo.WriteProofs

/-- the four lines of the record at `bp` are laid out in `buf` -/
structure Rec4 (buf : List UInt8) (bp : BufPos) : Prop where
  h1 : bp.pos0 < bp.seq
  h2 : bp.seq < bp.sep
  h3 : bp.sep < bp.qual
  h4 : bp.qual ≤ bp.pos1
  h5 : bp.pos1 ≤ buf.length
  lf1 : buf[bp.seq - 1]? = some LF
  lf3 : buf[bp.qual - 1]? = some LF

def hP (buf : List UInt8) (bp : BufPos) : List UInt8 := piece buf bp.pos0 bp.seq
def sP (buf : List UInt8) (bp : BufPos) : List UInt8 := piece buf bp.seq bp.sep
def pP (buf : List UInt8) (bp : BufPos) : List UInt8 := piece buf bp.sep bp.qual
def qP (buf : List UInt8) (bp : BufPos) : List UInt8 := piece buf bp.qual (bp.pos1 + 1)

theorem piece_headD (t : List UInt8) (a b : Nat) (hab : a < b) (hb : b ≤ t.length)
    (hlf : t[b - 1]? = some LF) : t[a]? = some ((piece t a b).headD LF) := by
  by_cases h : a = b - 1
  · have : piece t a b = [] := by
      simp only [piece, List.drop_eq_nil_iff, List.length_take]; omega
    rw [this, h, hlf]; rfl
  · have hlt : a < b - 1 := by omega
    rw [List.headD_eq_head?_getD]
    simp only [piece, List.head?_drop, List.getElem?_take, hlt, if_true]
    have : a < t.length := by omega
    simp [this]

theorem piece_eq_nil_iff (t : List UInt8) (a b : Nat) (hb : b ≤ t.length) :
    piece t a b = [] ↔ b - 1 ≤ a := by
  rw [← List.length_eq_zero_iff, piece_length t a b (by omega)]; omega

theorem piece_drop_one (t : List UInt8) (a b : Nat) : (piece t a b).drop 1 = piece t (a + 1) b := by
  simp only [piece, List.drop_drop]

theorem csub_of_le {a b : Nat} (h : b ≤ a) : csub a b = some (a - b) := by
  simp only [csub]; rw [if_pos h]

theorem slice_of_le {buf : List UInt8} {a b : Nat} (h : a ≤ b) (hb : b ≤ buf.length) :
    slice buf a b = some ((buf.take b).drop a) := by
  simp only [slice]; rw [if_pos ⟨h, hb⟩]

/-- `get_error_pos` with `parse_id = true` reports `errId` of the header piece -/
theorem getErrorPos_true (r : Reader) (off : Nat) (h1 : r.bp.pos0 < r.bp.seq)
    (hs : r.bp.seq ≤ r.br.buf.length) :
    getErrorPos r off true = some { line := r.line + off, id := errId (hP r.br.buf r.bp) } := by
  have hc : csub r.bp.seq r.bp.pos0 = some (r.bp.seq - r.bp.pos0) := csub_of_le (by omega)
  have hc1 : csub r.bp.seq 1 = some (r.bp.seq - 1) := csub_of_le (by omega)
  simp only [getErrorPos, if_true, hc]
  by_cases hd : r.bp.seq - r.bp.pos0 > 1
  · have hsl : slice r.br.buf (r.bp.pos0 + 1) (r.bp.seq - 1) =
        some (piece r.br.buf (r.bp.pos0 + 1) r.bp.seq) := slice_of_le (by omega) (by omega)
    have he : ¬ piece r.br.buf r.bp.pos0 r.bp.seq = [] := by
      rw [piece_eq_nil_iff _ _ _ hs]; omega
    rw [if_pos hd]
    simp only [head, hc1, hsl, Option.map_some, errId, List.isEmpty_iff, he, if_false, hP,
      piece_drop_one]
  · have he : hP r.br.buf r.bp = [] := by
      rw [hP, piece_eq_nil_iff _ _ _ hs]; omega
    rw [if_neg hd]
    simp only [errId, he, List.isEmpty_nil, if_true]

theorem getErrorPos_false (r : Reader) (off : Nat) :
    getErrorPos r off false = some { line := r.line + off, id := none } := by
  simp [getErrorPos]

/-- `validate` as a chain of tests on values read from the buffer -/
theorem validate_eq (r : Reader) (c0 c2 : UInt8) (sq ql : List UInt8) (e0 e2 : ErrPos)
    (g0 : r.br.buf[r.bp.pos0]? = some c0) (g2 : r.br.buf[r.bp.sep]? = some c2)
    (hseq : seq r.br.buf r.bp = some sq) (hqual : qual r.br.buf r.bp = some ql)
    (hq : r.bp.qual ≤ r.bp.pos1) (hs : r.bp.seq ≤ r.bp.sep)
    (he0 : getErrorPos { r with state := .finished } 0 true = some e0)
    (he2 : getErrorPos { r with state := .finished } 2 true = some e2) :
    validate r =
      if c0 ≠ AT then ({ r with state := .finished }, .err (.invalidStart c0 { line := r.line, id := none }))
      else if c2 ≠ PLUS then ({ r with state := .finished }, .err (.invalidSep c2 e2))
      else if r.bp.sep - r.bp.seq ≠ r.bp.pos1 - r.bp.qual + 1 ∧ sq.length ≠ ql.length then
        ({ r with state := .finished }, .err (.unequalLengths sq.length ql.length e0))
      else (r, .ok ()) := by
  simp only [validate, g0, g2, csub_of_le hq, csub_of_le hs, hseq, hqual, he0, he2,
    getErrorPos_false, Nat.add_zero]
  by_cases c0h : c0 ≠ AT
  · rw [if_pos c0h, if_pos c0h]
  · rw [if_neg c0h, if_neg c0h]
    by_cases c2h : c2 ≠ PLUS
    · rw [if_pos c2h, if_pos c2h]
    · rw [if_neg c2h, if_neg c2h]
      by_cases hr : r.bp.sep - r.bp.seq ≠ r.bp.pos1 - r.bp.qual + 1
      · rw [if_pos hr]
        by_cases hl : sq.length ≠ ql.length
        · rw [if_pos hl, if_pos ⟨hr, hl⟩]
        · rw [if_neg hl, if_neg (fun h => hl h.2)]
      · rw [if_neg hr, if_neg (fun h => hr h.1)]

/-- `validate` computes the verdict of `Spec.fqGroup` on the four pieces, and on success the
views show the record of `S`. -/
theorem validate_spec (r : Reader) (hrec : Rec4 r.br.buf r.bp) :
    match fqGroup false (hP r.br.buf r.bp) (sP r.br.buf r.bp) (pP r.br.buf r.bp) (qP r.br.buf r.bp)
        r.byte r.line with
    | .record x => validate r = (r, .ok ()) ∧ head r.br.buf r.bp = some x.head ∧
        seq r.br.buf r.bp = some x.seq ∧ qual r.br.buf r.bp = some x.qual ∧
        x.byte = r.byte ∧ x.line = r.line
    | .err e b l => validate r = ({ r with state := .finished }, .err (specErr e)) ∧
        b = r.byte ∧ l = r.line := by
  obtain ⟨h1, h2, h3, h4, h5, lf1, lf3⟩ := hrec
  have g0 : r.br.buf[r.bp.pos0]? = some ((hP r.br.buf r.bp).headD LF) :=
    piece_headD r.br.buf r.bp.pos0 r.bp.seq h1 (by omega) lf1
  have g2 : r.br.buf[r.bp.sep]? = some ((pP r.br.buf r.bp).headD LF) :=
    piece_headD r.br.buf r.bp.sep r.bp.qual h3 (by omega) lf3
  have hseq : seq r.br.buf r.bp = some (trimCr (sP r.br.buf r.bp)) := by
    simp only [seq, csub_of_le (show 1 ≤ r.bp.sep by omega),
      slice_of_le (show r.bp.seq ≤ r.bp.sep - 1 by omega) (show r.bp.sep - 1 ≤ r.br.buf.length by omega)]
    rfl
  have hqual : qual r.br.buf r.bp = some (trimCr (qP r.br.buf r.bp)) := by
    simp only [qual, slice_of_le h4 h5]
    rfl
  have hsl : (sP r.br.buf r.bp).length = r.bp.sep - 1 - r.bp.seq :=
    piece_length r.br.buf r.bp.seq r.bp.sep (by omega)
  have hql : (qP r.br.buf r.bp).length = r.bp.pos1 - r.bp.qual := by
    rw [qP, piece_length r.br.buf r.bp.qual (r.bp.pos1 + 1) (by omega)]; omega
  have ge0 := getErrorPos_true { r with state := .finished } 0 h1 (by simp only; omega)
  have ge2 := getErrorPos_true { r with state := .finished } 2 h1 (by simp only; omega)
  rw [validate_eq r _ _ _ _ _ _ g0 g2 hseq hqual h4 (by omega) ge0 ge2, fqGroup_false_eq]
  by_cases c0 : (hP r.br.buf r.bp).headD LF ≠ AT
  · rw [if_pos c0, if_pos c0]
    exact ⟨rfl, rfl, rfl⟩
  · rw [if_neg c0, if_neg c0]
    by_cases c2 : (pP r.br.buf r.bp).headD LF ≠ PLUS
    · rw [if_pos c2, if_pos c2]
      exact ⟨rfl, rfl, rfl⟩
    · rw [if_neg c2, if_neg c2]
      by_cases cl : ((sP r.br.buf r.bp).length ≠ (qP r.br.buf r.bp).length ∨ false = true) ∧
          (trimCr (sP r.br.buf r.bp)).length ≠ (trimCr (qP r.br.buf r.bp)).length
      · have cr : (sP r.br.buf r.bp).length ≠ (qP r.br.buf r.bp).length := by
          rcases cl.1 with a | a
          · exact a
          · cases a
        rw [if_pos cl, if_pos ⟨by omega, cl.2⟩]
        exact ⟨rfl, rfl, rfl⟩
      · have cl' : ¬ (r.bp.sep - r.bp.seq ≠ r.bp.pos1 - r.bp.qual + 1 ∧
            (trimCr (sP r.br.buf r.bp)).length ≠ (trimCr (qP r.br.buf r.bp)).length) := by
          intro hh
          exact cl ⟨Or.inl (by omega), hh.2⟩
        rw [if_neg cl, if_neg cl']
        have hhead : head r.br.buf r.bp = some (trimCr ((hP r.br.buf r.bp).drop 1)) := by
          have hne : r.bp.pos0 + 1 ≤ r.bp.seq - 1 := by
            by_cases hh : r.bp.pos0 = r.bp.seq - 1
            · exfalso
              have : hP r.br.buf r.bp = [] := by
                rw [hP, piece_eq_nil_iff r.br.buf _ _ (by omega)]; omega
              rw [this] at c0
              exact c0 (by decide)
            · omega
          simp only [head, csub_of_le (show 1 ≤ r.bp.seq by omega),
            slice_of_le hne (show r.bp.seq - 1 ≤ r.br.buf.length by omega), hP, piece_drop_one]
          rfl
        exact ⟨rfl, hhead, hseq, hqual, rfl, rfl⟩

end SeqIo.Fastq
