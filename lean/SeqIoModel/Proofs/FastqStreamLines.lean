import SeqIoModel.Model.Stream
import SeqIoModel.Proofs.WriteRoundtrip
/-!
# FASTQ stream proof, part 1: lines

`nl t a` = offset just after the first LF at or after offset `a` of the text `t`
(what `Reader::find_line` computes), its algebra (prefix stability, shift), the relation to
`splitLF`, and the case analysis of the reference `Spec.fqGo`.
-/

namespace SeqIo.Fastq
open SeqIo SeqIo.Spec SeqIo.WriteProofs

/-! ## `findLF` -/

theorem findLF_some {l : List UInt8} {p : Nat} (h : findLF l = some p) :
    p < l.length ∧ l[p]? = some LF ∧ LF ∉ l.take p ∧ l = l.take p ++ LF :: l.drop (p + 1) := by
  induction l generalizing p with
  | nil => simp [findLF] at h
  | cons b rest ih =>
    simp only [findLF] at h
    split at h
    · rename_i hb
      simp only [Option.some.injEq] at h
      subst h; subst hb
      simp
    · rename_i hb
      cases hr : findLF rest with
      | none => simp [hr] at h
      | some q =>
        simp only [hr, Option.map_some, Option.some.injEq] at h
        subst h
        obtain ⟨h1, h0, h2, h3⟩ := ih hr
        refine ⟨by simp; omega, by simpa using h0, ?_, ?_⟩
        · simp only [List.take_succ_cons, List.mem_cons, not_or]
          exact ⟨fun e => hb e.symm, h2⟩
        · simp only [List.take_succ_cons, List.drop_succ_cons, List.cons_append, List.cons.injEq,
            true_and]
          exact h3

theorem findLF_none {l : List UInt8} (h : findLF l = none) : LF ∉ l := by
  induction l with
  | nil => simp
  | cons b rest ih =>
    simp only [findLF] at h
    split at h
    · simp at h
    · rename_i hb
      simp only [Option.map_eq_none_iff] at h
      simp only [List.mem_cons, not_or]
      exact ⟨fun e => hb e.symm, ih h⟩

theorem findLF_append {l : List UInt8} {p : Nat} (e : List UInt8) (h : findLF l = some p) :
    findLF (l ++ e) = some p := by
  induction l generalizing p with
  | nil => simp [findLF] at h
  | cons b rest ih =>
    simp only [findLF, List.cons_append] at h ⊢
    split
    · rename_i hb; simpa [hb] using h
    · rename_i hb
      simp only [hb, if_false] at h
      cases hr : findLF rest with
      | none => simp [hr] at h
      | some q =>
        simp only [hr, Option.map_some, Option.some.injEq] at h
        simp [ih hr, h]

/-! ## `nl` -/

/-- offset after the first LF at or after `a` -/
def nl (t : List UInt8) (a : Nat) : Option Nat := (findLF (t.drop a)).map (fun p => a + p + 1)

theorem findLine_eq (buf : List UInt8) (a : Nat) :
    findLine buf a = if a ≤ buf.length then some (nl buf a) else none := rfl

theorem findLine_of_le {buf : List UInt8} {a : Nat} (h : a ≤ buf.length) :
    findLine buf a = some (nl buf a) := by simp [findLine_eq, h]

/-- the piece of `t` between offset `a` and the LF before offset `b` -/
def piece (t : List UInt8) (a b : Nat) : List UInt8 := (t.take (b - 1)).drop a

theorem piece_length (t : List UInt8) (a b : Nat) (hb : b - 1 ≤ t.length) :
    (piece t a b).length = b - 1 - a := by
  simp only [piece, List.length_drop, List.length_take]; omega

theorem nl_some {t : List UInt8} {a b : Nat} (h : nl t a = some b) :
    a < b ∧ b ≤ t.length ∧ t[b - 1]? = some LF ∧ LF ∉ piece t a b ∧
      t.drop a = piece t a b ++ LF :: t.drop b := by
  unfold nl at h
  cases hf : findLF (t.drop a) with
  | none => simp [hf] at h
  | some p =>
    simp only [hf, Option.map_some, Option.some.injEq] at h
    subst h
    obtain ⟨h1, h0, h2, h3⟩ := findLF_some hf
    simp only [List.length_drop] at h1
    have hp : piece t a (a + p + 1) = (t.drop a).take p := by
      simp only [piece, Nat.add_sub_cancel, List.take_drop]
    refine ⟨by omega, by omega, ?_, by rw [hp]; exact h2, ?_⟩
    · simpa [List.getElem?_drop] using h0
    · rw [hp]
      have : t.drop (a + p + 1) = (t.drop a).drop (p + 1) := by
        rw [List.drop_drop]; congr 1
      rw [this]
      exact h3

theorem nl_none {t : List UInt8} {a : Nat} (h : nl t a = none) : LF ∉ t.drop a := by
  unfold nl at h
  simp only [Option.map_eq_none_iff] at h
  exact findLF_none h

theorem nl_append {t : List UInt8} {a b : Nat} (e : List UInt8) (h : nl t a = some b) :
    nl (t ++ e) a = some b := by
  have hb := (nl_some h)
  unfold nl at h ⊢
  cases hf : findLF (t.drop a) with
  | none => simp [hf] at h
  | some p =>
    simp only [hf, Option.map_some, Option.some.injEq] at h
    rw [List.drop_append_of_le_length (by omega), findLF_append e hf]
    simp [h]

theorem nl_drop {t : List UInt8} {a : Nat} (c : Nat) (hc : c ≤ a) :
    nl (t.drop c) (a - c) = (nl t a).map (· - c) := by
  unfold nl
  have : (t.drop c).drop (a - c) = t.drop a := by
    rw [List.drop_drop]; congr 1; omega
  rw [this]
  cases findLF (t.drop a) with
  | none => rfl
  | some p => simp; omega

theorem nl_drop_some {t : List UInt8} {a b : Nat} (c : Nat) (hc : c ≤ a) (h : nl t a = some b) :
    nl (t.drop c) (a - c) = some (b - c) := by
  rw [nl_drop c hc, h]; rfl

/-! ## `splitLF` along `nl` -/

theorem splitLF_nl_some {t : List UInt8} {a b : Nat} (e : List UInt8) (h : nl t a = some b) :
    splitLF (t.drop a ++ e) = piece t a b :: splitLF (t.drop b ++ e) := by
  obtain ⟨_, _, _, h4, h5⟩ := nl_some h
  rw [h5, List.append_assoc, List.cons_append, splitLF_append _ _ h4]

theorem splitLF_nl_none {t : List UInt8} {a : Nat} (h : nl t a = none) :
    splitLF (t.drop a) = [t.drop a] :=
  splitLF_noLF _ (nl_none h)

/-! ## the cases of `fqGo` -/

theorem fqGo_four (strict : Bool) (h s p q : List UInt8) (ps : List (List UInt8)) (hps : ps ≠ [])
    (byte line : Nat) :
    fqGo strict (h :: s :: p :: q :: ps) byte line =
      match fqGroup strict h s p q byte line with
      | .record x => .record x :: fqGo strict ps
          (byte + h.length + s.length + p.length + q.length + 4) (line + 4)
      | .err e b l => [.err e b l] := by
  cases ps with
  | nil => exact absurd rfl hps
  | cons r rest => rw [fqGo]; split <;> simp_all

theorem fqGo_three (strict : Bool) (h s p q : List UInt8) (byte line : Nat) :
    fqGo strict [h, s, p, q] byte line = [fqGroup strict h s p q byte line true] := by
  rw [fqGo]

theorem fqGo_few (strict : Bool) (ps : List (List UInt8)) (hps : ps.length ≤ 3) (byte line : Nat) :
    fqGo strict ps byte line =
      if ps.all blank then []
      else [.err (.unexpectedEnd (line + (ps.length - 1))
        (if ps.length - 1 ≥ 1 then errId (ps.headD []) else none)) byte line] := by
  match ps, hps with
  | [], _ => rw [fqGo]; all_goals simp
  | [a], _ => rw [fqGo]; all_goals simp
  | [a, b], _ => rw [fqGo]; all_goals simp
  | [a, b, c], _ => rw [fqGo]; all_goals simp

end SeqIo.Fastq
