import SeqIoModel.Proofs.FastqHistorySeek
/-!
# C14 for the FASTQ reader: the first failure of the source surfaces in the call that hits it

An interrupted read is never visible; any other error raised by the source during a read or a seek
is returned by the very call that encountered it as `Err(Io(kind))` with the original kind – never
swallowed, never turned into end of input, a truncated record or a format error; everything returned
before the failure is exactly what the reference semantics prescribes.

Method (as for FASTA, `FastaFault*.lean`): write the read script as `y ++ tail` with `NoFail y` and
`tail` empty or starting with the FIRST failing event `fail k`.  The machine is run side by side
with a *clean* copy whose script is `y ++ T` (`T` failure-free, as long as `tail`) and which has no
scripted seek failures.  As long as no refill reaches the failing event and no seek of the source
fails, the two machines do exactly the same (same observations, same states up to the source, same
fuel); the operation that hits the failure returns `Err(Io(k))`.  The clean run is accepted by the
abstract reader A (`fastq_history_accepted`), and A never accepts an I/O error.

* part 1: the source (`fillBuf_sim`)
* part 2: reader operations that do not read the source commute with the change of the source
* part 3: `resume`, `init`, `next`, `read_record_set(_exact)`, `seek` on both machines
* part 4: histories; `fastq_first_fault_surfaces`, `fastq_first_fault_surfaces_read`,
  `fastq_fault_not_swallowed`
-/
open SeqIo SeqIo.FillProofs SeqIo.Spec SeqIo.Fastq.Hist

namespace SeqIo.Fastq.Fault

/-! ## part 1: the source -/

/-- what is left of the read script behind its failure-free prefix (`tail`: nothing, or the first
failing event `fail k` and the events behind it), a failure-free replacement `T` of the same length,
and the scripted seek failures `sf` of the failing machine -/
structure Par where
  k : IoKind
  tail : List ReadEv
  T : List ReadEv
  nofail : NoFail T
  len : T.length = tail.length
  live : tail = [] ∨ ∃ rest, tail = .fail k :: rest
  sf : List (Nat × IoKind)

/-- the script really contains a failing event -/
def Par.Live (p : Par) : Prop := ∃ rest, p.tail = .fail p.k :: rest

/-- the clean copy of a buffered reader: another script, no seek failures -/
def bws (b : BufRd) (s : List ReadEv) : BufRd :=
  { b with src := { b.src with script := s, seekFails := [] } }

@[simp] theorem bws_buf (b : BufRd) (s : List ReadEv) : (bws b s).buf = b.buf := rfl
@[simp] theorem bws_cap (b : BufRd) (s : List ReadEv) : (bws b s).cap = b.cap := rfl
@[simp] theorem bws_script (b : BufRd) (s : List ReadEv) : (bws b s).src.script = s := rfl
@[simp] theorem bws_bws (b : BufRd) (s t : List ReadEv) : bws (bws b s) t = bws b t := rfl

/-- the failing machine's source: the script is `y ++ p.tail`, the seek failures are `p.sf` -/
def Sc (p : Par) (y : List ReadEv) (b : BufRd) : Prop :=
  b.src.script = y ++ p.tail ∧ b.src.seekFails = p.sf

theorem Sc.of_src {p : Par} {y : List ReadEv} {b b' : BufRd} (h : Sc p y b) (e : b'.src = b.src) :
    Sc p y b' := by
  unfold Sc; rw [e]; exact h

theorem noFail_cons_inv {e : ReadEv} {y : List ReadEv} (h : NoFail (e :: y)) :
    (∀ k, e ≠ .fail k) ∧ NoFail y :=
  ⟨fun k => h e (by simp) k, fun x hx => h x (by simp [hx])⟩

/-- one call of the source -/
theorem readIntoBuf_sim (p : Par) (b : BufRd) (y : List ReadEv) (hy : NoFail y) (hs : Sc p y b) :
    (∃ b' y' res, NoFail y' ∧ Sc p y' b' ∧ b.readIntoBuf = (b', res) ∧
      (bws b (y ++ p.T)).readIntoBuf = (bws b' (y' ++ p.T), res) ∧ (∀ kk, res ≠ .fail kk)) ∨
    (p.Live ∧ ∃ b', b.readIntoBuf = (b', .fail p.k)) := by
  obtain ⟨hs, hsf⟩ := hs
  unfold BufRd.readIntoBuf
  by_cases hc : b.cap ≤ b.buf.length
  · left
    exact ⟨b, y, .n 0, hy, ⟨hs, hsf⟩, by simp [hc], by simp [hc], (fun kk h => by cases h)⟩
  · simp only [bws_cap, bws_buf, hc, if_false]
    cases y with
    | nil =>
      rcases p.live with ht | ⟨rest, ht⟩
      · left
        have hT : p.T = [] := List.eq_nil_of_length_eq_zero (by rw [p.len, ht]; rfl)
        simp only [List.nil_append, ht] at hs
        refine ⟨{ b with
            src := { b.src with
              cursor := b.src.cursor + min (if b.src.chunk = 0 then b.cap - b.buf.length
                else min b.src.chunk (b.cap - b.buf.length)) b.src.remaining },
            buf := b.buf ++ (b.src.inp.drop b.src.cursor).take
              (min (if b.src.chunk = 0 then b.cap - b.buf.length
                else min b.src.chunk (b.cap - b.buf.length)) b.src.remaining) },
          [], .n (min (if b.src.chunk = 0 then b.cap - b.buf.length
                else min b.src.chunk (b.cap - b.buf.length)) b.src.remaining),
          noFail_nil, ⟨by simp [hs, ht], hsf⟩, by simp only [Src.read, hs], ?_,
          (fun kk h => by cases h)⟩
        simp only [Src.read, bws, hT, List.append_nil, Src.remaining]
      · right
        simp only [List.nil_append, ht] at hs
        simp only [Src.read, hs]
        exact ⟨⟨rest, ht⟩, _, rfl⟩
    | cons e y' =>
      left
      obtain ⟨hne, hy'⟩ := noFail_cons_inv hy
      simp only [List.cons_append] at hs
      cases e with
      | fail kk => exact absurd rfl (hne kk)
      | intr =>
        refine ⟨{ b with src := { b.src with script := y' ++ p.tail }, buf := b.buf ++ [] }, y', .intr, hy',
          ⟨rfl, hsf⟩, by simp only [Src.read, hs], ?_, (fun kk h => by cases h)⟩
        simp only [Src.read, bws, List.cons_append]
      | data n =>
        refine ⟨{ b with
            src := { b.src with script := y' ++ p.tail,
                                cursor := b.src.cursor + min (min (max n 1) (b.cap - b.buf.length)) b.src.remaining },
            buf := b.buf ++ (b.src.inp.drop b.src.cursor).take (min (min (max n 1) (b.cap - b.buf.length)) b.src.remaining) },
          y', .n (min (min (max n 1) (b.cap - b.buf.length)) b.src.remaining), hy', ⟨rfl, hsf⟩,
          by simp only [Src.read, hs], ?_, (fun kk h => by cases h)⟩
        simp only [Src.read, bws, List.cons_append, Src.remaining]

/-- the refill loop -/
theorem fillBufAux_sim (p : Par) : ∀ (fuel : Nat) (b : BufRd) (y : List ReadEv) (num : Nat),
    NoFail y → Sc p y b →
    (∃ b' y' r, NoFail y' ∧ Sc p y' b' ∧ fillBufAux fuel b num = (b', .ok r) ∧
      fillBufAux fuel (bws b (y ++ p.T)) num = (bws b' (y' ++ p.T), .ok r)) ∨
    (p.Live ∧ ∃ b', fillBufAux fuel b num = (b', .error p.k)) := by
  intro fuel
  induction fuel with
  | zero =>
    intro b y num hy hs
    exact Or.inl ⟨b, y, num, hy, hs, rfl, rfl⟩
  | succ f ih =>
    intro b y num hy hs
    by_cases hlt : b.buf.length < b.cap
    · have hlt' : (bws b (y ++ p.T)).buf.length < (bws b (y ++ p.T)).cap := hlt
      rw [fillBufAux_succ f b num hlt, fillBufAux_succ f _ num hlt']
      rcases readIntoBuf_sim p b y hy hs with ⟨b', y', res, hy', hs', h1, h2, hnf⟩ | ⟨hl, b', h1⟩
      · rw [h1, h2]
        cases res with
        | n k =>
          simp only
          by_cases hk : k = 0
          · simp only [hk, if_true]
            exact Or.inl ⟨b', y', num, hy', hs', rfl, rfl⟩
          · simp only [hk, if_false]
            exact ih b' y' (num + k) hy' hs'
        | intr => exact ih b' y' num hy' hs'
        | fail kk => exact absurd rfl (hnf kk)
      · rw [h1]
        exact Or.inr ⟨hl, b', rfl⟩
    · have hlt' : ¬ (bws b (y ++ p.T)).buf.length < (bws b (y ++ p.T)).cap := hlt
      rw [fillBufAux_full _ b num hlt, fillBufAux_full _ _ num hlt']
      exact Or.inl ⟨b, y, num, hy, hs, rfl, rfl⟩

/-- `fill_buf`: both machines do the same, or the failing one reports the first failing event -/
theorem fillBuf_sim (p : Par) (b : BufRd) (y : List ReadEv) (hy : NoFail y) (hs : Sc p y b) :
    (∃ b' y' n, NoFail y' ∧ Sc p y' b' ∧ fillBuf b = (b', .ok n) ∧
      fillBuf (bws b (y ++ p.T)) = (bws b' (y' ++ p.T), .ok n)) ∨
    (p.Live ∧ ∃ b', fillBuf b = (b', .error p.k)) := by
  unfold fillBuf
  have hm : (bws b (y ++ p.T)).fillMeasure = b.fillMeasure := by
    simp only [BufRd.fillMeasure, bws, hs.1, List.length_append, p.len, Src.remaining]
  rw [hm]
  exact fillBufAux_sim p _ b y 0 hy hs

/-! ## part 2: reader operations that do not read the source -/

/-- the clean copy of a reader -/
def rws (r : Reader) (s : List ReadEv) : Reader := { r with br := bws r.br s }

@[simp] theorem rws_br (r : Reader) (s : List ReadEv) : (rws r s).br = bws r.br s := rfl
@[simp] theorem rws_state (r : Reader) (s : List ReadEv) : (rws r s).state = r.state := rfl
@[simp] theorem rws_bp (r : Reader) (s : List ReadEv) : (rws r s).bp = r.bp := rfl
@[simp] theorem rws_ip (r : Reader) (s : List ReadEv) : (rws r s).incompletePos = r.incompletePos := rfl
@[simp] theorem rws_line (r : Reader) (s : List ReadEv) : (rws r s).line = r.line := rfl
@[simp] theorem rws_byte (r : Reader) (s : List ReadEv) : (rws r s).byte = r.byte := rfl
@[simp] theorem rws_pol (r : Reader) (s : List ReadEv) : (rws r s).pol = r.pol := rfl
@[simp] theorem rws_log (r : Reader) (s : List ReadEv) : (rws r s).log = r.log := rfl
@[simp] theorem rws_rws (r : Reader) (s t : List ReadEv) : rws (rws r s) t = rws r t := rfl

theorem getErrorPos_mk (b : BufRd) (s : List ReadEv) (bp : BufPos) (ip : Option RecordPos) (l by' : Nat)
    (st : State) (pol : Pol) (lg : List (Nat × Option Nat)) (lo : Nat) (pid : Bool) :
    getErrorPos ⟨bws b s, bp, ip, l, by', st, pol, lg⟩ lo pid =
      getErrorPos ⟨b, bp, ip, l, by', st, pol, lg⟩ lo pid := rfl

set_option linter.unusedSimpArgs false in
theorem validate_rws (r : Reader) (s : List ReadEv) :
    validate (rws r s) = (rws (validate r).1 s, (validate r).2) := by
  unfold validate
  simp only [rws_br, bws_buf, rws_bp, rws_ip, rws_line, rws_byte, rws_pol, rws_log, getErrorPos_mk]
  repeat' split
  all_goals first | rfl | (simp_all; done)

theorem validated_rws (r : Reader) (s : List ReadEv) :
    validated (rws r s) = (rws (validated r).1 s, (validated r).2) := by
  unfold validated
  rw [validate_rws]
  rcases validate r with ⟨r', (_ | _ | _ | _)⟩ <;> rfl

theorem validated_mk (b : BufRd) (s : List ReadEv) (bp : BufPos) (ip : Option RecordPos) (l by' : Nat)
    (st : State) (pol : Pol) (lg : List (Nat × Option Nat)) :
    validated ⟨bws b s, bp, ip, l, by', st, pol, lg⟩ =
      (rws (validated ⟨b, bp, ip, l, by', st, pol, lg⟩).1 s, (validated ⟨b, bp, ip, l, by', st, pol, lg⟩).2) :=
  validated_rws ⟨b, bp, ip, l, by', st, pol, lg⟩ s

theorem validate_mk (b : BufRd) (s : List ReadEv) (bp : BufPos) (ip : Option RecordPos) (l by' : Nat)
    (st : State) (pol : Pol) (lg : List (Nat × Option Nat)) :
    validate ⟨bws b s, bp, ip, l, by', st, pol, lg⟩ =
      (rws (validate ⟨b, bp, ip, l, by', st, pol, lg⟩).1 s, (validate ⟨b, bp, ip, l, by', st, pol, lg⟩).2) :=
  validate_rws ⟨b, bp, ip, l, by', st, pol, lg⟩ s

set_option linter.unusedSimpArgs false in
theorem search_rws (r : Reader) (s : List ReadEv) :
    search (rws r s) = (rws (search r).1 s, (search r).2) := by
  unfold search
  simp only [rws_br, bws_buf, rws_bp, rws_ip, rws_line, rws_byte, rws_pol, rws_log, rws_state, validated_mk]
  repeat' split
  all_goals first | rfl | (simp_all; done)

set_option linter.unusedSimpArgs false in
theorem searchIncomplete_rws (r : Reader) (ip : RecordPos) (s : List ReadEv) :
    searchIncomplete (rws r s) ip = (rws (searchIncomplete r ip).1 s, (searchIncomplete r ip).2) := by
  cases ip <;>
  · simp only [searchIncomplete, RecordPos.ord, reduceCtorEq, if_true, if_false, Nat.le_refl, Nat.reduceLeDiff,
      rws_br, bws_buf, rws_bp, rws_ip, rws_line, rws_byte, rws_pol, rws_log, rws_state, validate_mk]
    iterate 4
      try (generalize findLine _ _ = v; rcases v with _ | _ | x) <;>
        simp only [RecordPos.ord, reduceCtorEq, if_true, if_false, Nat.le_refl, Nat.reduceLeDiff,
          rws_br, bws_buf, rws_bp, rws_ip, rws_line, rws_byte, rws_pol, rws_log, rws_state, validate_mk] <;>
        try rfl
    all_goals
      repeat' split
      all_goals first | rfl | (simp_all; done)

theorem getErrorPos_rws (r : Reader) (s : List ReadEv) (lo : Nat) (pid : Bool) :
    getErrorPos (rws r s) lo pid = getErrorPos r lo pid := rfl

set_option linter.unusedSimpArgs false in
theorem checkEnd_rws (r : Reader) (ip : RecordPos) (s : List ReadEv) :
    checkEnd (rws r s) ip = (rws (checkEnd r ip).1 s, (checkEnd r ip).2) := by
  unfold checkEnd
  by_cases hq : ip = .qual
  · simp only [hq, if_true, rws_br, bws_buf, rws_bp, rws_ip, rws_line, rws_byte, rws_pol, rws_log,
      rws_state, validate_mk]
    generalize validate _ = v
    rcases v with ⟨r', (_ | _ | _ | _)⟩ <;>
      simp only [rws_br, bws_buf, rws_bp, rws_ip, rws_line, rws_byte, rws_pol, rws_log, rws_state,
        getErrorPos_rws]
    · repeat' split
      all_goals first | rfl | (simp_all; done)
    all_goals rfl
  · simp only [hq, if_false, rws_br, bws_buf, rws_bp, rws_ip, rws_line, rws_byte, rws_pol, rws_log,
      rws_state, getErrorPos_rws]
    by_cases h0 : r.bp.pos0 ≤ r.br.buf.length
    · simp only [h0, if_true]
      by_cases hall : (splitLF (r.br.buf.drop r.bp.pos0)).all (fun l => (trimCr l).isEmpty) = true
      · simp only [hall, if_true]
      · simp only [hall]
        cases getErrorPos r ip.ord (decide (ip.ord > RecordPos.head.ord)) <;> rfl
    · simp only [h0, if_false]

/-! operations that do not read the source do not touch it either -/

theorem search_br (r : Reader) : (search r).1.br = r.br := by
  simp only [search]
  repeat' split
  all_goals first | rfl | exact validated_br _

theorem wrapV_validate_br (r : Reader) :
    (match validate r with
      | (r, .ok ()) => ((r, .ok none) : Reader × Res (Option RecordPos))
      | (r, .err e) => (r, .err e)
      | (r, .panic) => (r, .panic)
      | (r, .fuel) => (r, .fuel)).1.br = r.br := by
  have := validate_br r
  revert this
  generalize validate r = v
  rcases v with ⟨r', (_ | _ | _ | _)⟩ <;> exact id

set_option linter.unusedSimpArgs false in
theorem searchIncomplete_br (r : Reader) (ip : RecordPos) : (searchIncomplete r ip).1.br = r.br := by
  cases ip <;>
  · simp only [searchIncomplete, RecordPos.ord, reduceCtorEq, if_true, if_false, Nat.le_refl, Nat.reduceLeDiff]
    iterate 4
      try (generalize findLine _ _ = v; rcases v with _ | _ | x) <;>
        simp only [RecordPos.ord, reduceCtorEq, if_true, if_false, Nat.le_refl, Nat.reduceLeDiff] <;>
        try rfl
    all_goals
      split
      · rfl
      · exact wrapV_validate_br _

theorem reserve_src (b : BufRd) (a : Nat) : (b.reserve a).src = b.src := by
  unfold BufRd.reserve
  simp only
  split
  · rfl
  · split <;> rfl

theorem reserve_bws (b : BufRd) (a : Nat) (s : List ReadEv) :
    (bws b s).reserve a = bws (b.reserve a) s := by
  unfold BufRd.reserve
  simp only [bws_cap, bws_buf]
  by_cases h1 : a ≤ b.cap - b.buf.length
  · simp only [h1, if_true]
  · simp only [h1, if_false]
    by_cases h2 : b.buf.isEmpty = true
    · simp only [h2, if_true]; rfl
    · simp only [h2]; rfl

theorem grow_rws (r : Reader) (s : List ReadEv) :
    grow (rws r s) = (rws (grow r).1 s, (grow r).2) := by
  simp only [grow, Pol.growTo, rws_pol, rws_br, bws_cap, rws_log]
  cases r.pol.f (r.pol.hist ++ [r.br.cap]) with
  | none => rfl
  | some n =>
    simp only
    cases csub n r.br.cap with
    | none => rfl
    | some add =>
      simp only [reserve_bws]
      rfl

theorem grow_src (r : Reader) : (grow r).1.br.src = r.br.src := by
  simp only [grow, Pol.growTo]
  cases r.pol.f (r.pol.hist ++ [r.br.cap]) with
  | none => rfl
  | some n =>
    simp only
    cases csub n r.br.cap with
    | none => rfl
    | some add => exact reserve_src _ _

theorem makeRoom_rws (r : Reader) (ip : RecordPos) (s : List ReadEv) :
    makeRoom (rws r s) ip = (makeRoom r ip).map (rws · s) := by
  simp only [makeRoom, rws_bp]
  repeat' split
  all_goals first | rfl | (simp_all; done)

theorem makeRoom_src {r r' : Reader} {ip : RecordPos} (h : makeRoom r ip = some r') :
    r'.br.src = r.br.src := by
  simp only [makeRoom] at h
  split at h
  · simp only [Option.some.injEq] at h
    subst h
    rfl
  · cases h

theorem incrementRecord_rws (r : Reader) (s : List ReadEv) :
    incrementRecord (rws r s) = (incrementRecord r).map (rws · s) := by
  unfold incrementRecord
  simp only [rws_bp]
  cases csub (r.bp.pos1 + 1) r.bp.pos0 <;> rfl

theorem incrementRecord_br {r r1 : Reader} (h : incrementRecord r = some r1) : r1.br = r.br := by
  unfold incrementRecord at h
  split at h
  · cases h
  · simp only [Option.some.injEq] at h
    subst h
    rfl

theorem storeStep_rws (n : Option Nat) (r : Reader) (rs : RecordSet) (s : List ReadEv) :
    storeStep n (rws r s) rs = (storeStep n r rs).map fun q => (rws q.1 s, q.2) := by
  unfold storeStep
  simp only [incrementRecord_rws, rws_bp]
  cases incrementRecord r <;> rfl

theorem storeStep_br {n : Option Nat} {r r1 : Reader} {rs rs1 : RecordSet} {b : Bool}
    (h : storeStep n r rs = some (r1, rs1, b)) : r1.br = r.br := by
  unfold storeStep at h
  simp only at h
  split at h
  · cases h
  · rename_i r3 hinc
    simp only [Option.some.injEq, Prod.mk.injEq] at h
    obtain ⟨rfl, _⟩ := h
    exact incrementRecord_br hinc

/-! ## part 3: reader operations that read the source -/

/-- the kind a failing read reports: that of the first failing event of the script -/
def RB (p : Par) (k : IoKind) : Prop := p.Live ∧ k = p.k

/-- `x'` is what the clean machine gets where the failing machine gets `x`: the same, unless the
failing machine reports a failure of the source (of a kind `k` with `B k`) -/
def SimR (p : Par) (B : IoKind → Prop) {α : Type} (x x' : Reader × Res α) : Prop :=
  (∃ y, NoFail y ∧ Sc p y x.1.br ∧ x' = (rws x.1 (y ++ p.T), x.2)) ∨
  (∃ k, x.2 = .err (.io k) ∧ B k)

/-- first part of a loop iteration of `resume`: make space -/
def step1 (mk : Bool) (ip : RecordPos) (r : Reader) : Reader × Res Unit :=
  if !mk || r.bp.pos0 = 0 then
    match grow r with
    | (r, .ok ()) => (r, .ok ())
    | (r, .err e) => ({ r with state := .finished }, .err e)
    | x => x
  else match makeRoom r ip with
    | some r' => (r', .ok ())
    | none => (r, .panic)

theorem resume_unfold (f : Nat) (ip : RecordPos) (mk : Bool) (r : Reader) :
    resume (f + 1) ip mk r =
      if r.br.buf.length < r.br.cap then checkEnd { r with state := .finished } ip
      else
        match step1 mk ip r with
        | (r, .ok ()) =>
          match fillBuf r.br with
          | (br, .error k) => ({ r with br := br, state := .finished }, .err (.io k))
          | (br, .ok _) => resumeK f ip mk { r with br := br }
        | (r, .err e) => (r, .err e)
        | (r, .panic) => (r, .panic)
        | (r, .fuel) => (r, .fuel) := by
  rw [resume]
  rfl

theorem step1_grow (mk : Bool) (ip : RecordPos) (r : Reader)
    (h : (!mk || decide (r.bp.pos0 = 0)) = true) :
    step1 mk ip r = match grow r with
      | (r, .ok ()) => (r, .ok ())
      | (r, .err e) => ({ r with state := .finished }, .err e)
      | x => x := by
  unfold step1
  rw [if_pos h]

theorem step1_room (mk : Bool) (ip : RecordPos) (r : Reader)
    (h : ¬ (!mk || decide (r.bp.pos0 = 0)) = true) :
    step1 mk ip r = match makeRoom r ip with
      | some r' => (r', .ok ())
      | none => (r, .panic) := by
  unfold step1
  rw [if_neg h]

theorem step1_rws (mk : Bool) (ip : RecordPos) (r : Reader) (s : List ReadEv) :
    step1 mk ip (rws r s) = (rws (step1 mk ip r).1 s, (step1 mk ip r).2) := by
  by_cases h : (!mk || decide (r.bp.pos0 = 0)) = true
  · rw [step1_grow mk ip r h, step1_grow mk ip (rws r s) h, grow_rws]
    rcases grow r with ⟨r', (⟨⟩ | _ | _ | _)⟩ <;> rfl
  · rw [step1_room mk ip r h, step1_room mk ip (rws r s) h, makeRoom_rws]
    cases makeRoom r ip <;> rfl

theorem step1_src (mk : Bool) (ip : RecordPos) (r : Reader) : (step1 mk ip r).1.br.src = r.br.src := by
  by_cases h : (!mk || decide (r.bp.pos0 = 0)) = true
  · rw [step1_grow mk ip r h]
    have := grow_src r
    revert this
    rcases grow r with ⟨r', (⟨⟩ | _ | _ | _)⟩ <;> exact id
  · rw [step1_room mk ip r h]
    cases hm : makeRoom r ip with
    | none => rfl
    | some r' => exact makeRoom_src hm

theorem resumeK_rws_step (f : Nat) (ip : RecordPos) (mk : Bool) (r : Reader) (s : List ReadEv) :
    resumeK f ip mk (rws r s) =
      match searchIncomplete r ip with
      | (r, .ok (some ip')) => resume f ip' mk (rws r s)
      | (r, .ok none) => (rws r s, .ok true)
      | (r, .err e) => (rws r s, .err e)
      | (r, .panic) => (rws r s, .panic)
      | (r, .fuel) => (rws r s, .fuel) := by
  unfold resumeK
  rw [searchIncomplete_rws]
  rcases searchIncomplete r ip with ⟨r', ((_ | _) | _ | _ | _)⟩ <;> rfl

theorem resume_sim (p : Par) (mk : Bool) : ∀ (fu : Nat) (ip : RecordPos) (r : Reader) (y : List ReadEv),
    NoFail y → Sc p y r.br →
    SimR p (RB p) (resume fu ip mk r) (resume fu ip mk (rws r (y ++ p.T))) := by
  intro fu
  induction fu with
  | zero => intro ip r y hy hs; exact Or.inl ⟨y, hy, hs, rfl⟩
  | succ f ih =>
    intro ip r y hy hs
    rw [resume_unfold, resume_unfold]
    by_cases hlt : r.br.buf.length < r.br.cap
    · have hlt' : (rws r (y ++ p.T)).br.buf.length < (rws r (y ++ p.T)).br.cap := hlt
      rw [if_pos hlt, if_pos hlt']
      have : ({ rws r (y ++ p.T) with state := .finished } : Reader) =
          rws { r with state := .finished } (y ++ p.T) := rfl
      rw [this, checkEnd_rws]
      exact Or.inl ⟨y, hy, hs.of_src (by rw [checkEnd_br]), rfl⟩
    · have hlt' : ¬ (rws r (y ++ p.T)).br.buf.length < (rws r (y ++ p.T)).br.cap := hlt
      rw [if_neg hlt, if_neg hlt', step1_rws]
      have hs1 : Sc p y (step1 mk ip r).1.br := hs.of_src (step1_src mk ip r)
      rcases hst : step1 mk ip r with ⟨r1, res1⟩
      rw [hst] at hs1
      simp only at hs1 ⊢
      cases res1 with
      | ok u =>
        simp only
        rcases fillBuf_sim p r1.br y hy hs1 with ⟨b', y', n, hy', hs', h1, h2⟩ | ⟨hl, b', h1⟩
        · have h2' : fillBuf (rws r1 (y ++ p.T)).br = (bws b' (y' ++ p.T), .ok n) := h2
          rw [h1, h2']
          simp only
          have : ({ rws r1 (y ++ p.T) with br := bws b' (y' ++ p.T) } : Reader) =
              rws { r1 with br := b' } (y' ++ p.T) := rfl
          rw [this, resumeK_rws_step]
          unfold resumeK
          have hbr := searchIncomplete_br { r1 with br := b' } ip
          rcases hsr : searchIncomplete { r1 with br := b' } ip with ⟨r2, res2⟩
          rw [hsr] at hbr
          have hs2 : Sc p y' r2.br := hs'.of_src (by rw [hbr])
          rcases res2 with (_ | ip') | _ | _ | _
          · exact Or.inl ⟨y', hy', hs2, rfl⟩
          · exact ih ip' r2 y' hy' hs2
          · exact Or.inl ⟨y', hy', hs2, rfl⟩
          · exact Or.inl ⟨y', hy', hs2, rfl⟩
          · exact Or.inl ⟨y', hy', hs2, rfl⟩
        · rw [h1]
          exact Or.inr ⟨p.k, rfl, hl, rfl⟩
      | err e => exact Or.inl ⟨y, hy, hs1, rfl⟩
      | panic => exact Or.inl ⟨y, hy, hs1, rfl⟩
      | fuel => exact Or.inl ⟨y, hy, hs1, rfl⟩

theorem SimR.mono {p : Par} {B B' : IoKind → Prop} {α : Type} {x x' : Reader × Res α}
    (h : SimR p B x x') (hB : ∀ k, B k → B' k) : SimR p B' x x' := by
  rcases h with h | ⟨k, hk, hb⟩
  · exact Or.inl h
  · exact Or.inr ⟨k, hk, hB k hb⟩

theorem init_sim (p : Par) (r : Reader) (y : List ReadEv) (hy : NoFail y) (hs : Sc p y r.br) :
    SimR p (RB p) (init r) (init (rws r (y ++ p.T))) := by
  unfold init
  rcases fillBuf_sim p r.br y hy hs with ⟨b', y', n, hy', hs', h1, h2⟩ | ⟨hl, b', h1⟩
  · have h2' : fillBuf (rws r (y ++ p.T)).br = (bws b' (y' ++ p.T), .ok n) := h2
    rw [h1, h2']
    cases n with
    | zero => exact Or.inl ⟨y', hy', hs', rfl⟩
    | succ n => exact Or.inl ⟨y', hy', hs', rfl⟩
  · rw [h1]
    exact Or.inr ⟨p.k, rfl, hl, rfl⟩

/-- the part of `nextCont` behind the first `search` -/
def nextTail (fu : Nat) (x : Reader × Res Bool) : Reader × Res Bool :=
  match x with
  | (r, .ok _) =>
    match r.incompletePos with
    | some ip => resume fu ip true r
    | none => (r, .ok true)
  | x => x

theorem nextCont_eq (fu : Nat) (r : Reader) :
    nextCont fu r = nextTail fu (if r.incompletePos.isNone then search r else (r, .ok true)) := rfl

theorem nextTail_sim (p : Par) (fu : Nat) (r1 : Reader) (res : Res Bool) (y : List ReadEv)
    (hy : NoFail y) (hs1 : Sc p y r1.br) :
    SimR p (RB p) (nextTail fu (r1, res)) (nextTail fu (rws r1 (y ++ p.T), res)) := by
  unfold nextTail
  cases res with
  | ok b =>
    simp only [rws_ip]
    cases hip : r1.incompletePos with
    | none => exact Or.inl ⟨y, hy, hs1, rfl⟩
    | some ip => exact resume_sim p true fu ip r1 y hy hs1
  | err e => exact Or.inl ⟨y, hy, hs1, rfl⟩
  | panic => exact Or.inl ⟨y, hy, hs1, rfl⟩
  | fuel => exact Or.inl ⟨y, hy, hs1, rfl⟩

theorem nextCont_sim (p : Par) (fu : Nat) (r : Reader) (y : List ReadEv) (hy : NoFail y)
    (hs : Sc p y r.br) :
    SimR p (RB p) (nextCont fu r) (nextCont fu (rws r (y ++ p.T))) := by
  rw [nextCont_eq, nextCont_eq]
  by_cases hip : r.incompletePos.isNone = true
  · have hip' : (rws r (y ++ p.T)).incompletePos.isNone = true := hip
    rw [if_pos hip, if_pos hip', search_rws]
    have hs1 : Sc p y (search r).1.br := hs.of_src (by rw [search_br])
    rcases hsr : search r with ⟨r1, res⟩
    rw [hsr] at hs1
    exact nextTail_sim p fu r1 res y hy hs1
  · have hip' : ¬ (rws r (y ++ p.T)).incompletePos.isNone = true := hip
    rw [if_neg hip, if_neg hip']
    exact nextTail_sim p fu r (.ok true) y hy hs

theorem next_sim (p : Par) (fu : Nat) (r : Reader) (y : List ReadEv) (hy : NoFail y)
    (hs : Sc p y r.br) :
    SimR p (RB p) (next fu r) (next fu (rws r (y ++ p.T))) := by
  unfold next
  simp only [rws_state]
  cases hst : r.state with
  | new =>
    simp only
    rcases init_sim p r y hy hs with ⟨y', hy', hs', h⟩ | ⟨k, h, hb⟩
    · rw [h]
      rcases hres : init r with ⟨r1, res⟩
      rw [hres] at hs'
      simp only at hs' ⊢
      cases res with
      | ok b =>
        cases b with
        | true => exact nextCont_sim p fu { r1 with state := .parsing } y' hy' hs'
        | false => exact Or.inl ⟨y', hy', hs', rfl⟩
      | err e => exact Or.inl ⟨y', hy', hs', rfl⟩
      | panic => exact Or.inl ⟨y', hy', hs', rfl⟩
      | fuel => exact Or.inl ⟨y', hy', hs', rfl⟩
    · rcases hres : init r with ⟨r1, res⟩
      rw [hres] at h
      simp only at h
      subst h
      exact Or.inr ⟨k, rfl, hb⟩
  | positioned => exact nextCont_sim p fu { r with state := .parsing } y hy hs
  | finished => exact Or.inl ⟨y, hy, hs, rfl⟩
  | parsing =>
    simp only [incrementRecord_rws]
    cases hinc : incrementRecord r with
    | none => exact Or.inl ⟨y, hy, hs, rfl⟩
    | some r1 =>
      simp only [Option.map_some]
      have hs1 : Sc p y r1.br := hs.of_src (by rw [incrementRecord_br hinc])
      exact nextCont_sim p fu r1 y hy hs1

/-! ### record set reads -/

def SimR3 (p : Par) (x x' : Reader × RecordSet × Res Bool) : Prop :=
  (∃ y, NoFail y ∧ Sc p y x.1.br ∧ x' = (rws x.1 (y ++ p.T), x.2.1, x.2.2)) ∨
  (∃ k, x.2.2 = .err (.io k) ∧ RB p k)

/-- store the record and go on -/
def storeK (f fu : Nat) (n : Option Nat) (isNew : Bool) (r : Reader) (rs : RecordSet) :
    Reader × RecordSet × Res Bool :=
  match storeStep n r rs with
  | none => (r, rs, .panic)
  | some (r, rs, true) => (r, rs, .ok true)
  | some (r, rs, false) => setLoop f fu n isNew r rs

/-- the loop behind an unsuccessful `search` -/
def afterMiss (f fu : Nat) (n : Option Nat) (isNew : Bool) (r : Reader) (rs : RecordSet) :
    Reader × RecordSet × Res Bool :=
  if rs.positions.isEmpty then setLoop f fu n isNew r rs
  else match n with
    | some n' => if rs.positions.length < n' then setLoop f fu n false r rs else (r, rs, .ok true)
    | none => (r, rs, .ok true)

theorem setLoop_eq (f fu : Nat) (n : Option Nat) (isNew : Bool) (r : Reader) (rs : RecordSet) :
    setLoop (f + 1) fu n isNew r rs =
      if r.state = .finished then (r, rs, .ok true)
      else
        match r.incompletePos with
        | some ip =>
          match resume fu ip isNew { r with incompletePos := none } with
          | (r, .ok true) => storeK f fu n isNew r rs
          | (r, .ok false) =>
            if rs.positions.isEmpty then (r, rs, .ok false) else (r, rs, .ok true)
          | (r, .err e) => (r, { rs with positions := [] }, .err e)
          | (r, .panic) => (r, rs, .panic)
          | (r, .fuel) => (r, rs, .fuel)
        | none =>
          match search r with
          | (r, .err e) => (r, { rs with positions := [] }, .err e)
          | (r, .panic) => (r, rs, .panic)
          | (r, .fuel) => (r, rs, .fuel)
          | (r, .ok false) => afterMiss f fu n isNew r rs
          | (r, .ok true) => storeK f fu n isNew r rs := by
  rw [setLoop]
  rfl

theorem setLoop_sim (p : Par) (fu : Nat) (n : Option Nat) : ∀ (f : Nat) (isNew : Bool) (r : Reader)
    (rs : RecordSet) (y : List ReadEv), NoFail y → Sc p y r.br →
    SimR3 p (setLoop f fu n isNew r rs) (setLoop f fu n isNew (rws r (y ++ p.T)) rs) := by
  intro f
  induction f with
  | zero => intro isNew r rs y hy hs; exact Or.inl ⟨y, hy, hs, rfl⟩
  | succ f ih =>
    intro isNew r rs y hy hs
    have hstore : ∀ (r1 : Reader) (y1 : List ReadEv), NoFail y1 → Sc p y1 r1.br →
        SimR3 p (storeK f fu n isNew r1 rs) (storeK f fu n isNew (rws r1 (y1 ++ p.T)) rs) := by
      intro r1 y1 hy1 hs1
      unfold storeK
      rw [storeStep_rws]
      cases hss : storeStep n r1 rs with
      | none => exact Or.inl ⟨y1, hy1, hs1, rfl⟩
      | some q =>
        obtain ⟨r2, rs2, b⟩ := q
        have hs2 : Sc p y1 r2.br := hs1.of_src (by rw [storeStep_br hss])
        cases b with
        | true => exact Or.inl ⟨y1, hy1, hs2, rfl⟩
        | false => exact ih isNew r2 rs2 y1 hy1 hs2
    rw [setLoop_eq, setLoop_eq]
    by_cases hfin : r.state = .finished
    · have hfin' : (rws r (y ++ p.T)).state = .finished := hfin
      rw [if_pos hfin, if_pos hfin']
      exact Or.inl ⟨y, hy, hs, rfl⟩
    · have hfin' : ¬ (rws r (y ++ p.T)).state = .finished := hfin
      rw [if_neg hfin, if_neg hfin']
      have hipe : (rws r (y ++ p.T)).incompletePos = r.incompletePos := rfl
      rw [hipe]
      cases hipv : r.incompletePos with
      | some ip =>
        simp only
        have : ({ rws r (y ++ p.T) with incompletePos := none } : Reader) =
            rws { r with incompletePos := none } (y ++ p.T) := rfl
        rw [this]
        rcases resume_sim p isNew fu ip { r with incompletePos := none } y hy hs with
          ⟨y', hy', hs', h⟩ | ⟨k, h, hb⟩
        · rw [h]
          rcases hres : resume fu ip isNew { r with incompletePos := none } with ⟨r2, res⟩
          rw [hres] at hs'
          simp only at hs' ⊢
          cases res with
          | ok b =>
            cases b with
            | true => exact hstore r2 y' hy' hs'
            | false =>
              simp only
              split
              · exact Or.inl ⟨y', hy', hs', rfl⟩
              · exact Or.inl ⟨y', hy', hs', rfl⟩
          | err e => exact Or.inl ⟨y', hy', hs', rfl⟩
          | panic => exact Or.inl ⟨y', hy', hs', rfl⟩
          | fuel => exact Or.inl ⟨y', hy', hs', rfl⟩
        · rcases hres : resume fu ip isNew { r with incompletePos := none } with ⟨r2, res⟩
          rw [hres] at h
          simp only at h
          subst h
          exact Or.inr ⟨k, rfl, hb⟩
      | none =>
        simp only [search_rws]
        have hs1 : Sc p y (search r).1.br := hs.of_src (by rw [search_br])
        rcases hsr : search r with ⟨r1, res⟩
        rw [hsr] at hs1
        simp only at hs1 ⊢
        cases res with
        | ok b =>
          cases b with
          | true => exact hstore r1 y hy hs1
          | false =>
            show SimR3 p (afterMiss f fu n isNew r1 rs) (afterMiss f fu n isNew (rws r1 (y ++ p.T)) rs)
            unfold afterMiss
            by_cases h0 : rs.positions.isEmpty = true
            · rw [if_pos h0, if_pos h0]
              exact ih isNew r1 rs y hy hs1
            · rw [if_neg h0, if_neg h0]
              cases n with
              | none => exact Or.inl ⟨y, hy, hs1, rfl⟩
              | some n' =>
                simp only
                by_cases hlt : rs.positions.length < n'
                · rw [if_pos hlt, if_pos hlt]
                  exact ih false r1 rs y hy hs1
                · rw [if_neg hlt, if_neg hlt]
                  exact Or.inl ⟨y, hy, hs1, rfl⟩
        | err e => exact Or.inl ⟨y, hy, hs1, rfl⟩
        | panic => exact Or.inl ⟨y, hy, hs1, rfl⟩
        | fuel => exact Or.inl ⟨y, hy, hs1, rfl⟩

/-- first part of `read_record_set_exact`: get to the start of a record -/
def setPre (r : Reader) : Reader × Res Bool :=
  match r.state with
  | .new =>
    match init r with
    | (r, .ok true) => ({ r with state := .positioned }, .ok true)
    | x => x
  | .finished => (r, .ok false)
  | .parsing =>
    match incrementRecord r with
    | some r => ({ r with state := .positioned }, .ok true)
    | none => (r, .panic)
  | .positioned => (r, .ok true)

/-- second part: the loop and the copy of the buffer -/
def setPost (fu : Nat) (n : Option Nat) (rs : RecordSet) (pre : Reader × Res Bool) :
    Reader × RecordSet × Res Bool :=
  match pre with
  | (r, .ok true) =>
    match setLoop fu fu n true r { rs with positions := [] } with
    | (r, rs, .ok true) => (r, { rs with buffer := r.br.buf }, .ok true)
    | x => x
  | (r, .ok false) => (r, rs, .ok false)
  | (r, .err e) => (r, rs, .err e)
  | (r, .panic) => (r, rs, .panic)
  | (r, .fuel) => (r, rs, .fuel)

theorem readSet_eq (fu : Nat) (r : Reader) (rs : RecordSet) (n : Option Nat) :
    readRecordSetExact fu r rs n = setPost fu n rs (setPre r) := rfl

theorem setPre_sim (p : Par) (r : Reader) (y : List ReadEv) (hy : NoFail y) (hs : Sc p y r.br) :
    SimR p (RB p) (setPre r) (setPre (rws r (y ++ p.T))) := by
  unfold setPre
  simp only [rws_state]
  cases hst : r.state with
  | new =>
    simp only
    rcases init_sim p r y hy hs with ⟨y', hy', hs', h⟩ | ⟨k, h, hb⟩
    · rw [h]
      rcases hres : init r with ⟨r1, res⟩
      rw [hres] at hs'
      simp only at hs' ⊢
      cases res with
      | ok b =>
        cases b with
        | true => exact Or.inl ⟨y', hy', hs', rfl⟩
        | false => exact Or.inl ⟨y', hy', hs', rfl⟩
      | err e => exact Or.inl ⟨y', hy', hs', rfl⟩
      | panic => exact Or.inl ⟨y', hy', hs', rfl⟩
      | fuel => exact Or.inl ⟨y', hy', hs', rfl⟩
    · rcases hres : init r with ⟨r1, res⟩
      rw [hres] at h
      simp only at h
      subst h
      exact Or.inr ⟨k, rfl, hb⟩
  | positioned => exact Or.inl ⟨y, hy, hs, rfl⟩
  | finished => exact Or.inl ⟨y, hy, hs, rfl⟩
  | parsing =>
    simp only [incrementRecord_rws]
    cases hinc : incrementRecord r with
    | none => exact Or.inl ⟨y, hy, hs, rfl⟩
    | some r1 =>
      have hs1 : Sc p y r1.br := hs.of_src (by rw [incrementRecord_br hinc])
      exact Or.inl ⟨y, hy, hs1, rfl⟩

theorem readSet_sim (p : Par) (fu : Nat) (r : Reader) (rs : RecordSet) (n : Option Nat)
    (y : List ReadEv) (hy : NoFail y) (hs : Sc p y r.br) :
    SimR3 p (readRecordSetExact fu r rs n) (readRecordSetExact fu (rws r (y ++ p.T)) rs n) := by
  rw [readSet_eq, readSet_eq]
  rcases setPre_sim p r y hy hs with ⟨y', hy', hs', h⟩ | ⟨k, h, hb⟩
  · rw [h]
    rcases hres : setPre r with ⟨r1, res⟩
    rw [hres] at hs'
    simp only at hs' ⊢
    unfold setPost
    cases res with
    | ok b =>
      cases b with
      | true =>
        simp only
        rcases setLoop_sim p fu n fu true r1 { rs with positions := [] } y' hy' hs' with
          ⟨y2, hy2, hs2, h2⟩ | ⟨k, h2, hb⟩
        · rw [h2]
          rcases hl : setLoop fu fu n true r1 { rs with positions := [] } with ⟨r2, rs2, res2⟩
          rw [hl] at hs2
          simp only at hs2 ⊢
          cases res2 with
          | ok b2 =>
            cases b2 with
            | true => exact Or.inl ⟨y2, hy2, hs2, rfl⟩
            | false => exact Or.inl ⟨y2, hy2, hs2, rfl⟩
          | err e => exact Or.inl ⟨y2, hy2, hs2, rfl⟩
          | panic => exact Or.inl ⟨y2, hy2, hs2, rfl⟩
          | fuel => exact Or.inl ⟨y2, hy2, hs2, rfl⟩
        · rcases hl : setLoop fu fu n true r1 { rs with positions := [] } with ⟨r2, rs2, res2⟩
          rw [hl] at h2
          simp only at h2
          subst h2
          exact Or.inr ⟨k, rfl, hb⟩
      | false => exact Or.inl ⟨y', hy', hs', rfl⟩
    | err e => exact Or.inl ⟨y', hy', hs', rfl⟩
    | panic => exact Or.inl ⟨y', hy', hs', rfl⟩
    | fuel => exact Or.inl ⟨y', hy', hs', rfl⟩
  · rcases hres : setPre r with ⟨r1, res⟩
    rw [hres] at h
    simp only at h
    subst h
    exact Or.inr ⟨k, rfl, hb⟩

/-! ### `seek` -/

/-- the scripted failure of the next seek of the source, if any -/
def SeekBad (b : BufRd) (k : IoKind) : Prop :=
  ∃ q, b.src.seekFails.find? (·.1 = b.src.seekCount) = some q ∧ q.2 = k

/-- a seek of the source: it fails as scripted, or both machines do the same -/
theorem bufSeek_sim (b : BufRd) (to : Nat) (s : List ReadEv) :
    (∃ b1 k, b.seek to = (b1, some k) ∧ SeekBad b k) ∨
    (∃ b1, b.seek to = (b1, none) ∧ (bws b s).seek to = (bws b1 s, none) ∧
      b1.src.script = b.src.script ∧ b1.src.seekFails = b.src.seekFails) := by
  cases hf : b.src.seekFails.find? (·.1 = b.src.seekCount) with
  | some q =>
    left
    exact ⟨{ b with src := { b.src with seekCount := b.src.seekCount + 1 } }, q.2,
      by simp only [BufRd.seek, Src.seek, hf], q, hf, rfl⟩
  | none =>
    right
    refine ⟨{ b with src := { b.src with seekCount := b.src.seekCount + 1, cursor := to }, buf := [] },
      by simp only [BufRd.seek, Src.seek, hf], ?_, rfl, rfl⟩
    simp only [BufRd.seek, Src.seek, bws, List.find?_nil]

/-- complete a partly filled buffer -/
def seekFill (b : BufRd) : BufRd × Except IoKind Nat :=
  if b.buf.length < b.cap then fillBuf b else (b, .ok 0)

theorem seekFill_sim (p : Par) (b : BufRd) (y : List ReadEv) (hy : NoFail y) (hs : Sc p y b) :
    (∃ b' y' n, NoFail y' ∧ Sc p y' b' ∧ seekFill b = (b', .ok n) ∧
      seekFill (bws b (y ++ p.T)) = (bws b' (y' ++ p.T), .ok n)) ∨
    (p.Live ∧ ∃ b', seekFill b = (b', .error p.k)) := by
  unfold seekFill
  by_cases hc : b.buf.length < b.cap
  · have hc' : (bws b (y ++ p.T)).buf.length < (bws b (y ++ p.T)).cap := hc
    rw [if_pos hc, if_pos hc']
    exact fillBuf_sim p b y hy hs
  · have hc' : ¬ (bws b (y ++ p.T)).buf.length < (bws b (y ++ p.T)).cap := hc
    rw [if_neg hc, if_neg hc']
    exact Or.inl ⟨b, y, 0, hy, hs, rfl, rfl⟩

/-- in-buffer branch of `seek` -/
def seekIn (r : Reader) (l b : Nat) : Reader × Res Unit :=
  let pos : Int := (r.bp.pos0 : Int) + ((b : Int) - (r.byte : Int))
  match seekFill r.br with
  | (br, .error k) => ({ r with br := br }, .err (.io k))
  | (br, .ok _) =>
    ({ r with br := br, line := l, byte := b, incompletePos := none, state := .positioned,
              bp := { r.bp with pos0 := pos.toNat, pos1 := 0 } }, .ok ())

/-- the branch of `seek` that seeks in the source -/
def seekOut (r : Reader) (l b : Nat) : Reader × Res Unit :=
  match r.br.seek b with
  | (br, some k) => ({ r with br := br }, .err (.io k))
  | (br, none) =>
    let r := { r with br := br, line := l, byte := b, incompletePos := none,
                      bp := { r.bp with pos0 := 0, pos1 := 0 }, state := .finished }
    match fillBuf br with
    | (br, .error k) => ({ r with br := br }, .err (.io k))
    | (br, .ok _) => ({ r with br := br, state := .positioned }, .ok ())

def seekCond (r : Reader) (b : Nat) : Prop :=
  0 ≤ (r.bp.pos0 : Int) + ((b : Int) - (r.byte : Int)) ∧
    (r.bp.pos0 : Int) + ((b : Int) - (r.byte : Int)) < (r.br.buf.length : Int)

instance (r : Reader) (b : Nat) : Decidable (seekCond r b) := by unfold seekCond; infer_instance

theorem seek_eq (r : Reader) (l b : Nat) :
    seek r l b = if seekCond r b then seekIn r l b else seekOut r l b := by
  rfl

theorem seek_eq_rws (r : Reader) (l b : Nat) (s : List ReadEv) :
    seek (rws r s) l b = if seekCond r b then seekIn (rws r s) l b else seekOut (rws r s) l b := by
  rw [seek_eq]
  rfl

theorem seek_sim (p : Par) (r : Reader) (l b : Nat) (y : List ReadEv) (hy : NoFail y)
    (hs : Sc p y r.br) :
    SimR p (fun k => RB p k ∨ SeekBad r.br k) (seek r l b) (seek (rws r (y ++ p.T)) l b) := by
  rw [seek_eq, seek_eq_rws]
  by_cases hin : seekCond r b
  · rw [if_pos hin, if_pos hin]
    unfold seekIn
    simp only [rws_br]
    rcases seekFill_sim p r.br y hy hs with ⟨b', y', n, hy', hs', h1, h2⟩ | ⟨hl, b', h1⟩
    · rw [h1, h2]
      exact Or.inl ⟨y', hy', hs', rfl⟩
    · rw [h1]
      exact Or.inr ⟨p.k, rfl, Or.inl ⟨hl, rfl⟩⟩
  · rw [if_neg hin, if_neg hin]
    unfold seekOut
    simp only [rws_br]
    rcases bufSeek_sim r.br b (y ++ p.T) with ⟨b1, k, h1, hbad⟩ | ⟨b1, h1, h2, hsc, hsf⟩
    · rw [h1]
      exact Or.inr ⟨k, rfl, Or.inr hbad⟩
    · rw [h1, h2]
      simp only
      have hs1 : Sc p y b1 := ⟨by rw [hsc]; exact hs.1, by rw [hsf]; exact hs.2⟩
      rcases fillBuf_sim p b1 y hy hs1 with ⟨b', y', n, hy', hs', h3, h4⟩ | ⟨hl, b', h3⟩
      · rw [h3, h4]
        exact Or.inl ⟨y', hy', hs', rfl⟩
      · rw [h3]
        exact Or.inr ⟨p.k, rfl, Or.inl ⟨hl, rfl⟩⟩

/-! ## part 4: histories -/

/-- the failing machine `m` and the clean machine `m'` -/
def SimM (p : Par) (m m' : MSt) : Prop :=
  ∃ y, NoFail y ∧ Sc p y m.r.br ∧ m' = { m with r := rws m.r (y ++ p.T) }

theorem fuelOf_rws (p : Par) (r : Reader) (y : List ReadEv) (hs : Sc p y r.br) :
    fuelOf (rws r (y ++ p.T)) = fuelOf r := by
  simp only [fuelOf, rws, bws, hs.1, List.length_append, p.len]

theorem obsNext_rws (r : Reader) (s : List ReadEv) (res : Res Bool) :
    obsNext (rws r s) res = obsNext r res := by
  cases res with
  | ok b => cases b <;> rfl
  | err e => rfl
  | panic => rfl
  | fuel => rfl

/-- the kinds the source may report in operation `op` from state `m`: that of the first failing
event of the read script, or (in a seek) that of the scripted failure of this seek -/
def FB (p : Par) (m : MSt) (op : Op) (k : IoKind) : Prop :=
  RB p k ∨ ((∃ i, op = .seekItem i) ∧
    ∃ q, p.sf.find? (·.1 = m.r.br.src.seekCount) = some q ∧ q.2 = k)

/-- one operation on both machines: the same observation and again corresponding states, or the
failing machine observes a failure of the source -/
def StepSim (p : Par) (m : MSt) (op : Op) (x x' : MSt × ObsH) : Prop :=
  (x.2 = x'.2 ∧ SimM p x.1 x'.1) ∨ ∃ k, x.2 = .error (.io k) ∧ FB p m op k

theorem putSet_rws (m : MSt) (r' : Reader) (j : Nat) (rs : RecordSet) :
    (({ m with r := r' } : MSt).putSet j rs) = { m.putSet j rs with r := r' } := by
  unfold MSt.putSet
  split <;> rfl

theorem step_sim (p : Par) (m m' : MSt) (h : SimM p m m') (op : Op) :
    StepSim p m op (stepM m op) (stepM m' op) := by
  obtain ⟨y, hy, hs, rfl⟩ := h
  have hfu := fuelOf_rws p m.r y hs
  cases op with
  | next =>
    simp only [stepM, stepNext, hfu]
    rcases next_sim p (fuelOf m.r) m.r y hy hs with ⟨y', hy', hs', h⟩ | ⟨k, h, hb⟩
    · rw [h]
      exact Or.inl ⟨(obsNext_rws _ _ _).symm, y', hy', hs', rfl⟩
    · right
      refine ⟨k, ?_, Or.inl hb⟩
      show obsNext _ (next (fuelOf m.r) m.r).2 = _
      rw [h]; rfl
  | owned =>
    simp only [stepM, stepNext, hfu]
    rcases next_sim p (fuelOf m.r) m.r y hy hs with ⟨y', hy', hs', h⟩ | ⟨k, h, hb⟩
    · rw [h]
      exact Or.inl ⟨(obsNext_rws _ _ _).symm, y', hy', hs', rfl⟩
    · right
      refine ⟨k, ?_, Or.inl hb⟩
      show obsNext _ (next (fuelOf m.r) m.r).2 = _
      rw [h]; rfl
  | pos => exact Or.inl ⟨rfl, y, hy, hs, rfl⟩
  | dump j =>
    refine Or.inl ⟨?_, y, hy, hs, rfl⟩
    simp only [stepM]
    cases j with
    | zero => rfl
    | succ j => cases j <;> rfl
  | seekItem i =>
    simp only [stepM, stepSeek]
    have : (rws m.r (y ++ p.T)).br.src.inp = m.r.br.src.inp := rfl
    rw [this]
    cases (Spec.fastq m.r.br.src.inp)[i]? with
    | none => exact Or.inl ⟨rfl, y, hy, hs, rfl⟩
    | some it =>
      simp only
      rcases seek_sim p m.r (itemPos it).1 (itemPos it).2 y hy hs with ⟨y', hy', hs', h⟩ | ⟨k, h, hb⟩
      · rw [h]
        exact Or.inl ⟨rfl, y', hy', hs', rfl⟩
      · right
        refine ⟨k, ?_, ?_⟩
        · show obsSeek (seek m.r (itemPos it).1 (itemPos it).2).2 = _
          rw [h]; rfl
        · rcases hb with hb | hb
          · exact Or.inl hb
          · obtain ⟨q, hq, hk⟩ := hb
            rw [hs.2] at hq
            exact Or.inr ⟨⟨i, rfl⟩, q, hq, hk⟩
  | set j n =>
    simp only [stepM, stepSet, hfu]
    have hg : ({ m with r := rws m.r (y ++ p.T) } : MSt).getSet j = m.getSet j := by
      unfold MSt.getSet
      split <;> rfl
    rw [hg]
    rcases readSet_sim p (fuelOf m.r) m.r (m.getSet j) n y hy hs with ⟨y', hy', hs', h⟩ | ⟨k, h, hb⟩
    · rw [h]
      refine Or.inl ⟨rfl, y', hy', ?_, ?_⟩
      · simp only [putSet_rws]
        exact hs'
      · simp only [putSet_rws]
    · right
      refine ⟨k, ?_, Or.inl hb⟩
      show obsSet _ (readRecordSetExact (fuelOf m.r) m.r (m.getSet j) n).2.2 = _
      rw [h]; rfl

/-! ### whole histories -/

/-- the machine state after a history -/
def endM (m : MSt) : List Op → MSt
  | [] => m
  | op :: ops => endM (stepM m op).1 ops

/-- the two machines agree up to the operation that hits a failure of the source -/
theorem run_sim (p : Par) : ∀ (ops : List Op) (m m' : MSt), SimM p m m' →
    ∃ j, j ≤ ops.length ∧ (runM m ops).take j = (runM m' ops).take j ∧
      (∀ op, ops[j]? = some op → ∃ k, (runM m ops)[j]? = some (.error (.io k)) ∧
        FB p (endM m (ops.take j)) op k) ∧
      (j = ops.length → ∃ y, NoFail y ∧ Sc p y (endM m ops).r.br) := by
  intro ops
  induction ops with
  | nil =>
    intro m m' h
    obtain ⟨y, hy, hs, _⟩ := h
    exact ⟨0, Nat.le_refl _, rfl, fun op h => (by simp at h), fun _ => ⟨y, hy, hs⟩⟩
  | cons op ops ih =>
    intro m m' h
    rcases step_sim p m m' h op with ⟨hobs, hsim⟩ | ⟨k, hio, hb⟩
    · obtain ⟨j, hj, htake, hlim, hend⟩ := ih _ _ hsim
      refine ⟨j + 1, by simp only [List.length_cons]; omega, ?_, ?_, ?_⟩
      · rw [runM, runM, List.take_succ_cons, List.take_succ_cons, hobs, htake]
      · intro op' hop'
        rw [List.getElem?_cons_succ] at hop'
        obtain ⟨k, h1, h2⟩ := hlim op' hop'
        refine ⟨k, ?_, ?_⟩
        · rw [runM, List.getElem?_cons_succ]; exact h1
        · rw [List.take_succ_cons]; exact h2
      · intro hje
        exact hend (by simp only [List.length_cons] at hje; omega)
    · refine ⟨0, Nat.zero_le _, rfl, fun op' hop' => ?_, fun h => ?_⟩
      · rw [List.getElem?_cons_zero] at hop'
        cases hop'
        exact ⟨k, by rw [runM, List.getElem?_cons_zero, hio], hb⟩
      · simp at h

theorem acceptsA_take (items : List FqItem) : ∀ (ops : List Op) (os : List ObsH) (a : AState) (j : Nat),
    acceptsA items a ops os = true → acceptsA items a (ops.take j) (os.take j) = true := by
  intro ops
  induction ops with
  | nil =>
    intro os a j h
    cases os with
    | nil => simp [acceptsA]
    | cons o os => simp [acceptsA] at h
  | cons op ops ih =>
    intro os a j h
    cases os with
    | nil => simp [acceptsA] at h
    | cons o os =>
      cases j with
      | zero => rfl
      | succ j =>
        simp only [acceptsA] at h
        cases hacc : acceptA items a op o with
        | none => rw [hacc] at h; cases h
        | some a' =>
          rw [hacc] at h
          simp only [List.take_succ_cons, acceptsA, hacc]
          exact ih os a' j h

/-- an observation of the form `Err(Io(_))` -/
def isIoErr : ObsH → Bool
  | .error (.io _) => true
  | _ => false

theorem specErr_ne_io (e : FqErr) (k : IoKind) : specErr e ≠ .io k := by
  cases e <;> (intro h; cases h)

/-- A never accepts an I/O error -/
theorem accept_not_io (items : List FqItem) (a a' : AState) (op : Op) (o : ObsH)
    (h : acceptA items a op o = some a') : isIoErr o = false := by
  cases o with
  | error e =>
    cases e with
    | io k =>
      exfalso
      cases op with
      | next =>
        simp only [acceptA, acceptNext] at h
        split at h
        · split at h
          · rename_i hh; cases hh
          · cases h
        · split at h
          · rename_i hh; cases hh
          · cases h
        · split at h
          · rename_i hh
            simp only [ObsH.error.injEq] at hh
            exact specErr_ne_io _ _ hh.symm
          · cases h
      | owned =>
        simp only [acceptA, acceptNext] at h
        split at h
        · split at h
          · rename_i hh; cases hh
          · cases h
        · split at h
          · rename_i hh; cases hh
          · cases h
        · split at h
          · rename_i hh
            simp only [ObsH.error.injEq] at hh
            exact specErr_ne_io _ _ hh.symm
          · cases h
      | set j n =>
        simp only [acceptA, acceptSet] at h
        split at h
        · split at h
          · rename_i hh
            exact specErr_ne_io _ _ hh.1.symm
          · cases h
        · cases h
      | dump j => simp [acceptA, acceptDump] at h
      | pos => simp [acceptA, acceptPos] at h
      | seekItem i => simp [acceptA, acceptSeek] at h
    | unequalLengths _ _ _ => rfl
    | invalidStart _ _ => rfl
    | invalidSep _ _ => rfl
    | unexpectedEnd _ => rfl
    | bufferLimit => rfl
  | record _ => rfl
  | batch _ => rfl
  | dump _ => rfl
  | position _ _ => rfl
  | done => rfl
  | badOp => rfl
  | none => rfl
  | panic => rfl
  | fuel => rfl

theorem acceptsA_no_io (items : List FqItem) : ∀ (ops : List Op) (os : List ObsH) (a : AState),
    acceptsA items a ops os = true → ∀ o ∈ os, isIoErr o = false := by
  intro ops
  induction ops with
  | nil =>
    intro os a h o ho
    cases os with
    | nil => cases ho
    | cons _ _ => simp [acceptsA] at h
  | cons op ops ih =>
    intro os a h o ho
    cases os with
    | nil => cases ho
    | cons o1 os =>
      simp only [acceptsA] at h
      cases hacc : acceptA items a op o1 with
      | none => rw [hacc] at h; cases h
      | some a' =>
        rw [hacc] at h
        rcases List.mem_cons.mp ho with rfl | ho
        · exact accept_not_io items a a' op _ hacc
        · exact ih os a' h o ho

/-! ## the theorems -/

/-- a script is a failure-free prefix, followed by nothing or by its first failing event and the
events behind it -/
theorem first_fail_split (script : List ReadEv) :
    ∃ y tail, script = y ++ tail ∧ NoFail y ∧ (tail = [] ∨ ∃ k rest, tail = ReadEv.fail k :: rest) := by
  induction script with
  | nil => exact ⟨[], [], rfl, noFail_nil, Or.inl rfl⟩
  | cons e s ih =>
    obtain ⟨y, tail, hs, hy, ht⟩ := ih
    cases e with
    | fail k => exact ⟨[], .fail k :: s, rfl, noFail_nil, Or.inr ⟨k, s, rfl⟩⟩
    | data n => exact ⟨.data n :: y, tail, by rw [hs]; rfl, noFail_append (noFail_data n) hy, ht⟩
    | intr => exact ⟨.intr :: y, tail, by rw [hs]; rfl, noFail_append noFail_intr hy, ht⟩

theorem noFail_replicate_intr (n : Nat) : NoFail (List.replicate n ReadEv.intr) := by
  intro e he k
  rw [List.mem_replicate] at he
  rw [he.2]
  intro h; cases h

theorem runM_length : ∀ (ops : List Op) (m : MSt), (runM m ops).length = ops.length := by
  intro ops
  induction ops with
  | nil => intro m; rfl
  | cons op ops ih => intro m; simp only [runM, List.length_cons, ih]

theorem mem_of_getElem?' {α : Type} {l : List α} {i : Nat} {x : α} (h : l[i]? = some x) : x ∈ l := by
  obtain ⟨hi, rfl⟩ := List.getElem?_eq_some_iff.mp h
  exact List.getElem_mem hi

/-- the core: the history is accepted up to some operation `j`, which observes a failure of the
source; if there is no such operation the machine still corresponds to the clean one (in
particular the first failing event of the script has not been consumed) -/
theorem fault_core (inp : List UInt8) (cap : Nat) (hcap : 3 ≤ cap) (pol : Pol) (hpol : PolGrows pol)
    (p : Par) (y : List ReadEv) (hy : NoFail y) (chunk : Nat) (ops : List Op)
    (hops : ∀ op ∈ ops, op.wf = true) :
    ∃ j, j ≤ ops.length ∧
      acceptsA (Spec.fastq inp) {} (ops.take j)
        ((runM (mkM inp cap pol (y ++ p.tail) chunk p.sf) ops).take j) = true ∧
      (∀ i o, i < j → (runM (mkM inp cap pol (y ++ p.tail) chunk p.sf) ops)[i]? = some o →
        isIoErr o = false) ∧
      (∀ op, ops[j]? = some op → ∃ k,
        (runM (mkM inp cap pol (y ++ p.tail) chunk p.sf) ops)[j]? = some (.error (.io k)) ∧
        FB p (endM (mkM inp cap pol (y ++ p.tail) chunk p.sf) (ops.take j)) op k) ∧
      (j = ops.length → ∃ y', NoFail y' ∧
        Sc p y' (endM (mkM inp cap pol (y ++ p.tail) chunk p.sf) ops).r.br) := by
  have hsim : SimM p (mkM inp cap pol (y ++ p.tail) chunk p.sf)
      (mkM inp cap pol (y ++ p.T) chunk) := ⟨y, hy, ⟨rfl, rfl⟩, rfl⟩
  obtain ⟨j, hj, htake, hlim, hend⟩ := run_sim p ops _ _ hsim
  have hacc : acceptsA (Spec.fastq inp) {} ops (runM (mkM inp cap pol (y ++ p.T) chunk) ops) = true :=
    fastq_history_accepted inp cap hcap pol hpol (y ++ p.T) (noFail_append hy p.nofail) chunk ops hops
  have hnoio := acceptsA_no_io _ ops _ {} hacc
  refine ⟨j, hj, ?_, ?_, hlim, hend⟩
  · rw [htake]
    exact acceptsA_take _ ops _ {} j hacc
  · intro i o hi ho
    have h1 : ((runM (mkM inp cap pol (y ++ p.tail) chunk p.sf) ops).take j)[i]? = some o := by
      rw [List.getElem?_take, if_pos hi]; exact ho
    rw [htake, List.getElem?_take, if_pos hi] at h1
    exact hnoio o (mem_of_getElem?' h1)

/-- the parameters for a script `y ++ tail` -/
def parOf (k : IoKind) (tail : List ReadEv) (h : tail = [] ∨ ∃ rest, tail = .fail k :: rest)
    (sf : List (Nat × IoKind)) : Par :=
  { k := k, tail := tail, T := List.replicate tail.length .intr,
    nofail := noFail_replicate_intr _, len := List.length_replicate, live := h, sf := sf }

/-- **C14 at reader level (FASTQ).** For every input, capacity ≥ 3, `PolGrows` policy, ARBITRARY
read script, chunk limit, ARBITRARY scripted seek failures and every well-formed history of
operations (single-record reads, record-set reads, dumps, position queries, seeks to items of S):

* (c) if no I/O error is observed the whole history is accepted by the abstract reader A;
* (a) the observations before the first `Err(Io(_))` are accepted by A – the records delivered
  before the failure are exactly the leading records of the input, S's own format error if it comes
  first, nothing invented, no premature end (interrupted reads, short reads, chunking invisible);
* (b) that first `Err(Io(k))` is returned by the very call that hit the failure and carries its
  kind: `k` is the kind of the FIRST failing event of the read script, or the operation is a seek
  and `k` is the kind scripted for this seek call of the source;
* (d) without failing events and seek failures no I/O error is ever observed. -/
theorem fastq_first_fault_surfaces (inp : List UInt8) (cap : Nat) (hcap : 3 ≤ cap) (pol : Pol)
    (hpol : PolGrows pol) (script : List ReadEv) (chunk : Nat) (seekFails : List (Nat × IoKind))
    (ops : List Op) (hops : ∀ op ∈ ops, op.wf = true) :
    ((∀ o ∈ runM (mkM inp cap pol script chunk seekFails) ops, isIoErr o = false) →
      acceptsA (Spec.fastq inp) {} ops (runM (mkM inp cap pol script chunk seekFails) ops) = true) ∧
    (∀ j o, (runM (mkM inp cap pol script chunk seekFails) ops)[j]? = some o → isIoErr o = true →
      (∀ i o', i < j → (runM (mkM inp cap pol script chunk seekFails) ops)[i]? = some o' →
        isIoErr o' = false) →
      acceptsA (Spec.fastq inp) {} (ops.take j)
        ((runM (mkM inp cap pol script chunk seekFails) ops).take j) = true ∧
      ∃ k, o = .error (.io k) ∧
        ((∃ used rest, script = used ++ .fail k :: rest ∧ NoFail used) ∨
         ((∃ i, ops[j]? = some (.seekItem i)) ∧
           ∃ q, seekFails.find?
             (·.1 = (endM (mkM inp cap pol script chunk seekFails) (ops.take j)).r.br.src.seekCount) =
               some q ∧ q.2 = k))) ∧
    (NoFail script → seekFails = [] →
      ∀ o ∈ runM (mkM inp cap pol script chunk seekFails) ops, isIoErr o = false) := by
  have hd : NoFail script → seekFails = [] →
      ∀ o ∈ runM (mkM inp cap pol script chunk seekFails) ops, isIoErr o = false := by
    intro hs hsf
    subst hsf
    exact acceptsA_no_io _ ops _ {} (fastq_history_accepted inp cap hcap pol hpol script hs chunk ops hops)
  obtain ⟨y, tail, rfl, hy, ht⟩ := first_fail_split script
  -- the kind of the first failing event (irrelevant if there is none)
  have hk : ∃ k, tail = [] ∨ ∃ rest, tail = ReadEv.fail k :: rest := by
    rcases ht with h | ⟨k, rest, h⟩
    · exact ⟨0, Or.inl h⟩
    · exact ⟨k, Or.inr ⟨rest, h⟩⟩
  obtain ⟨k0, hk0⟩ := hk
  have hfc := fault_core inp cap hcap pol hpol (parOf k0 tail hk0 seekFails) y hy chunk ops hops
  simp only [show (parOf k0 tail hk0 seekFails).tail = tail from rfl,
    show (parOf k0 tail hk0 seekFails).sf = seekFails from rfl] at hfc
  obtain ⟨j0, hj0, hacc, hnoio, hlim, _⟩ := hfc
  have hlen := runM_length ops (mkM inp cap pol (y ++ tail) chunk seekFails)
  refine ⟨?_, ?_, hd⟩
  · intro hall
    have hje : j0 = ops.length := by
      rcases Nat.lt_or_ge j0 ops.length with hlt | hge
      · obtain ⟨k, h1, -⟩ := hlim ops[j0] (List.getElem?_eq_getElem hlt)
        have := hall _ (mem_of_getElem?' h1)
        cases this
      · omega
    rw [hje] at hacc
    rw [List.take_of_length_le (Nat.le_refl _),
      List.take_of_length_le (by rw [hlen]; exact Nat.le_refl _)] at hacc
    exact hacc
  · intro j o ho hio hfirst
    have hjlt : j < ops.length := by
      rcases Nat.lt_or_ge j ops.length with h | h
      · exact h
      · rw [List.getElem?_eq_none (by rw [hlen]; exact h)] at ho; cases ho
    have hge : j0 ≤ j := by
      rcases Nat.lt_or_ge j j0 with h | h
      · have := hnoio j o h ho
        rw [hio] at this; cases this
      · exact h
    have hle : j ≤ j0 := by
      rcases Nat.lt_or_ge j0 j with h | h
      · obtain ⟨k, h1, -⟩ := hlim ops[j0] (List.getElem?_eq_getElem (by omega))
        have := hfirst j0 _ h h1
        cases this
      · exact h
    have hjj : j = j0 := by omega
    subst hjj
    obtain ⟨k, h1, hfb⟩ := hlim ops[j] (List.getElem?_eq_getElem hjlt)
    refine ⟨hacc, k, ?_, ?_⟩
    · rw [ho] at h1
      exact Option.some.inj h1
    · rcases hfb with ⟨⟨rest, hl⟩, hkk⟩ | ⟨⟨i, hop⟩, q, hq, hqk⟩
      · left
        refine ⟨y, rest, ?_, hy⟩
        rw [hkk]
        exact congrArg (y ++ ·) hl
      · right
        exact ⟨⟨i, by rw [List.getElem?_eq_getElem hjlt, hop]⟩, q, hq, hqk⟩

/-- the same without seek failures, in the form: the first I/O error carries the kind of the
first failing event of the read script -/
theorem fastq_first_fault_surfaces_read (inp : List UInt8) (cap : Nat) (hcap : 3 ≤ cap) (pol : Pol)
    (hpol : PolGrows pol) (script : List ReadEv) (chunk : Nat)
    (ops : List Op) (hops : ∀ op ∈ ops, op.wf = true) :
    ((∀ o ∈ runM (mkM inp cap pol script chunk) ops, isIoErr o = false) →
      acceptsA (Spec.fastq inp) {} ops (runM (mkM inp cap pol script chunk) ops) = true) ∧
    (∀ j o, (runM (mkM inp cap pol script chunk) ops)[j]? = some o → isIoErr o = true →
      (∀ i o', i < j → (runM (mkM inp cap pol script chunk) ops)[i]? = some o' →
        isIoErr o' = false) →
      acceptsA (Spec.fastq inp) {} (ops.take j) ((runM (mkM inp cap pol script chunk) ops).take j) = true ∧
      ∃ used k rest, script = used ++ .fail k :: rest ∧ NoFail used ∧ o = .error (.io k)) ∧
    (NoFail script → ∀ o ∈ runM (mkM inp cap pol script chunk) ops, isIoErr o = false) := by
  obtain ⟨hc, hab, hd⟩ := fastq_first_fault_surfaces inp cap hcap pol hpol script chunk [] ops hops
  refine ⟨hc, ?_, fun hs => hd hs rfl⟩
  intro j o ho hio hfirst
  obtain ⟨hacc, k, hok, hkind⟩ := hab j o ho hio hfirst
  refine ⟨hacc, ?_⟩
  rcases hkind with ⟨used, rest, hs, hn⟩ | ⟨-, q, hq, -⟩
  · exact ⟨used, k, rest, hs, hn, hok⟩
  · simp at hq

/-- a failure is never swallowed: as long as no I/O error has been observed, the first failing
event of the read script has not been consumed by any read -/
theorem fastq_fault_not_swallowed (inp : List UInt8) (cap : Nat) (hcap : 3 ≤ cap) (pol : Pol)
    (hpol : PolGrows pol) (y : List ReadEv) (hy : NoFail y) (k : IoKind) (rest : List ReadEv)
    (chunk : Nat) (seekFails : List (Nat × IoKind)) (ops : List Op) (hops : ∀ op ∈ ops, op.wf = true)
    (hall : ∀ o ∈ runM (mkM inp cap pol (y ++ .fail k :: rest) chunk seekFails) ops, isIoErr o = false) :
    ∃ y', NoFail y' ∧
      (endM (mkM inp cap pol (y ++ .fail k :: rest) chunk seekFails) ops).r.br.src.script =
        y' ++ .fail k :: rest := by
  have hfc := fault_core inp cap hcap pol hpol
    (parOf k (.fail k :: rest) (Or.inr ⟨rest, rfl⟩) seekFails) y hy chunk ops hops
  simp only [show (parOf k (.fail k :: rest) (Or.inr ⟨rest, rfl⟩) seekFails).tail = .fail k :: rest from rfl,
    show (parOf k (.fail k :: rest) (Or.inr ⟨rest, rfl⟩) seekFails).sf = seekFails from rfl] at hfc
  obtain ⟨j0, hj0, _, _, hlim, hend⟩ := hfc
  have hje : j0 = ops.length := by
    rcases Nat.lt_or_ge j0 ops.length with hlt | hge
    · obtain ⟨k', h1, -⟩ := hlim ops[j0] (List.getElem?_eq_getElem hlt)
      have := hall _ (mem_of_getElem?' h1)
      cases this
    · omega
  obtain ⟨y', hy', hs'⟩ := hend hje
  exact ⟨y', hy', hs'.1⟩

end SeqIo.Fastq.Fault
