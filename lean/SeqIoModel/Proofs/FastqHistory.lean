import SeqIoModel.Proofs.FastqHistorySet
/-!
# FASTQ histories, part 2: every history is accepted by the abstract reader A

Simulation between the concrete machine under a history of API calls (`Hist.stepM`) and the
abstract reader (`Hist.acceptA`): cursor `k` into S's items ↔ `Good` reader state for the items
from `k` on; the record sets show the expected records in their buffer snapshots.
-/

namespace SeqIo.Fastq
open SeqIo SeqIo.Spec SeqIo.FillProofs SeqIo.Fastq.Hist

/-! ## list facts -/

theorem drop_eq_cons {α : Type} {l : List α} {k : Nat} {x : α} {rest : List α}
    (h : l.drop k = x :: rest) : l[k]? = some x ∧ l.drop (k + 1) = rest := by
  constructor
  · have : (l.drop k)[0]? = some x := by rw [h]; rfl
    simpa [List.getElem?_drop] using this
  · have : (l.drop k).drop 1 = rest := by rw [h]; rfl
    rw [List.drop_drop] at this
    rw [← this]

theorem drop_eq_append {α : Type} {l : List α} {k : Nat} {a b : List α}
    (h : l.drop k = a ++ b) : l.drop (k + a.length) = b := by
  have : (l.drop k).drop a.length = b := by rw [h]; simp
  rw [List.drop_drop] at this
  exact this

theorem getElem?_of_drop {α : Type} {l : List α} {k i : Nat} :
    l[k + i]? = (l.drop k)[i]? := by
  simp [List.getElem?_drop]

theorem leadRecs_append (ys : List FqRec) (rest : List FqItem) :
    leadRecs (ys.map FqItem.record ++ rest) = ys.map recOf ++ leadRecs rest := by
  induction ys with
  | nil => rfl
  | cons y ys ih => simp only [List.map_cons, List.cons_append, leadRecs, ih]

theorem leadRecs_err (e : FqErr) (b l : Nat) (rest : List FqItem) :
    leadRecs (FqItem.err e b l :: rest) = [] := rfl

/-! ## sets -/

def slot (j : Nat) : Nat := min j 2

theorem MSt.getSet_putSet (m : MSt) (j i : Nat) (rs : RecordSet) :
    (m.putSet j rs).getSet i = if slot i = slot j then rs else m.getSet i := by
  match j, i with
  | 0, 0 => rfl
  | 0, 1 => rfl
  | 0, (_ + 2) => simp [MSt.putSet, MSt.getSet, slot]
  | 1, 0 => rfl
  | 1, 1 => rfl
  | 1, (_ + 2) => simp [MSt.putSet, MSt.getSet, slot]
  | (_ + 2), 0 => simp [MSt.putSet, MSt.getSet, slot]
  | (_ + 2), 1 => simp [MSt.putSet, MSt.getSet, slot]
  | (_ + 2), (_ + 2) => simp [MSt.putSet, MSt.getSet, slot]

theorem AState.getSet_putSet (a : AState) (j i : Nat) (e : ASet) :
    (a.putSet j e).getSet i = if slot i = slot j then e else a.getSet i := by
  match j, i with
  | 0, 0 => rfl
  | 0, 1 => rfl
  | 0, (_ + 2) => simp [AState.putSet, AState.getSet, slot]
  | 1, 0 => rfl
  | 1, 1 => rfl
  | 1, (_ + 2) => simp [AState.putSet, AState.getSet, slot]
  | (_ + 2), 0 => simp [AState.putSet, AState.getSet, slot]
  | (_ + 2), 1 => simp [AState.putSet, AState.getSet, slot]
  | (_ + 2), (_ + 2) => simp [AState.putSet, AState.getSet, slot]

theorem MSt.putSet_r (m : MSt) (j : Nat) (rs : RecordSet) : (m.putSet j rs).r = m.r := by
  match j with
  | 0 => rfl
  | 1 => rfl
  | _ + 2 => rfl

theorem AState.putSet_k (a : AState) (j : Nat) (e : ASet) :
    (a.putSet j e).k = a.k ∧ (a.putSet j e).last = a.last := by
  match j with
  | 0 => exact ⟨rfl, rfl⟩
  | 1 => exact ⟨rfl, rfl⟩
  | _ + 2 => exact ⟨rfl, rfl⟩

/-- the set shows the expected records (or nothing, if it may have been emptied) -/
def SetSim (rs : RecordSet) (e : ASet) : Prop :=
  ∃ recs, viewAll rs.buffer rs.positions = some recs ∧
    (recs = e.recs ∨ (e.altEmpty = true ∧ recs = []))

/-- the reported position is the one A expects -/
def LastOk (all : List FqItem) (r : Reader) (a : AState) : Prop :=
  match a.last with
  | .none => True
  | .item i => ∃ it, all[i]? = some it ∧ itemPos it = (r.line, r.byte)
  | .set => ∀ x, all[a.k]? = some (.record x) → (x.line, x.byte) = (r.line, r.byte)
  | .seek i => ∃ it, all[i]? = some it ∧ itemPos it = (r.line, r.byte)

/-- simulation relation -/
structure Sim (inp : List UInt8) (G : Prop) (all : List FqItem) (m : MSt) (a : AState) : Prop where
  good : Good inp G m.r (all.drop a.k)
  sets : ∀ j, SetSim (m.getSet j) (a.getSet j)
  last : LastOk all m.r a

theorem good_inp {inp G r its} (h : Good inp G r its) : r.br.src.inp = inp := by
  unfold Good at h
  split at h
  · exact h.1.inp_eq
  · exact h.1.inp_eq
  · exact h.1.inp_eq
  · exact h.1.inp_eq


/-- one step of the history is accepted and the simulation goes on – or the environment is not
ideal (a refusing policy, a failing read or seek) -/
def StepOk (inp : List UInt8) (G : Prop) (all : List FqItem) (a : AState) (op : Op)
    (x : MSt × ObsH) : Prop :=
  (∃ a', acceptA all a op x.2 = some a' ∧ Sim inp G all x.1 a') ∨ ¬ G

theorem fuelOf_ge (r : Reader) : 2 * r.br.src.inp.length + 4 ≤ fuelOf r := by
  simp only [fuelOf, opFuel]; omega

/-- `next` and owned reads -/
theorem step_next (inp : List UInt8) (G : Prop) (all : List FqItem) (m : MSt) (a : AState)
    (hs : Sim inp G all m a) :
    (∃ a', acceptNext all a (stepNext m).2 = some a' ∧ Sim inp G all (stepNext m).1 a') ∨
    ¬ G := by
  have hfuel := fuelOf_ge m.r
  have hF := next_found inp G (fuelOf m.r) m.r _ hs.good (by omega)
  simp only [stepNext]
  rcases hx : next (fuelOf m.r) m.r with ⟨r', res⟩
  rw [hx] at hF
  rcases hF with (⟨hr, x, its', hi, hsh⟩ | ⟨hr, hi, hfin⟩ | ⟨e, b, l, hr, hi, hfin⟩ |
    ⟨e, hr, henv, hG, hfin⟩) | ⟨hG, -⟩
  · simp only at hr hi hsh
    subst hr
    obtain ⟨hk, hd⟩ := drop_eq_cons hi
    refine Or.inl ⟨{ a with k := a.k + 1, last := .item a.k }, ?_, ?_, hs.sets, ?_⟩
    · simp only [acceptNext, hk, obsNext, hsh.view, if_true]
    · simp only [hd]; exact hsh.good
    · exact ⟨_, hk, by simp only [itemPos, hsh.line_eq, hsh.byte_eq]⟩
  · simp only at hr hi hfin
    subst hr
    have hk : all[a.k]? = none := by
      rw [List.getElem?_eq_none_iff]; exact List.drop_eq_nil_iff.mp hi
    refine Or.inl ⟨{ a with last := .none }, ?_, ?_, hs.sets, trivial⟩
    · simp only [acceptNext, hk, obsNext, if_true]
    · simp only [hi]; exact hfin.good
  · simp only at hr hi hfin
    subst hr
    obtain ⟨hk, hd⟩ := drop_eq_cons hi
    refine Or.inl ⟨{ a with k := all.length, last := .none }, ?_, ?_, hs.sets, trivial⟩
    · simp only [acceptNext, hk, obsNext, if_true]
    · simp only [List.drop_length]; exact hfin.good
  · exact Or.inr hG
  · exact Or.inr hG

/-- dumping a set -/
theorem step_dump (inp : List UInt8) (G : Prop) (all : List FqItem) (m : MSt) (a : AState)
    (hs : Sim inp G all m a) (j : Nat) :
    acceptDump a j (obsDump (m.getSet j)) = some a := by
  obtain ⟨recs, hv, hc⟩ := hs.sets j
  simp only [obsDump, hv, acceptDump]
  rw [if_pos]
  rcases hc with h | ⟨h1, h2⟩
  · exact Or.inl h
  · exact Or.inr ⟨h1, h2⟩

/-- asking for the position -/
theorem step_pos (inp : List UInt8) (G : Prop) (all : List FqItem) (m : MSt) (a : AState)
    (hs : Sim inp G all m a) :
    acceptPos all a (.position (position m.r).1 (position m.r).2) = some a := by
  have hl := hs.last
  simp only [position, acceptPos, wantPos]
  unfold LastOk at hl
  cases hlast : a.last with
  | none => simp only
  | item i =>
    rw [hlast] at hl
    obtain ⟨it, hi, hp⟩ := hl
    simp only [hi, Option.map_some, hp, if_true]
  | seek i =>
    rw [hlast] at hl
    obtain ⟨it, hi, hp⟩ := hl
    simp only [hi, Option.map_some, hp, if_true]
  | set =>
    rw [hlast] at hl
    simp only at hl
    cases hk : all[a.k]? with
    | none => simp only
    | some it =>
      cases it with
      | record x => simp only [hl x hk, if_true]
      | err e b l => simp only


theorem setSim_empty (rs : RecordSet) (e : ASet) (h : rs.positions = []) :
    SetSim rs { e with altEmpty := true } :=
  ⟨[], by rw [h]; rfl, Or.inr ⟨rfl, rfl⟩⟩

theorem setSim_alt {rs : RecordSet} {e : ASet} (h : SetSim rs e) :
    SetSim rs { e with altEmpty := true } := by
  obtain ⟨recs, hv, hc⟩ := h
  refine ⟨recs, hv, ?_⟩
  rcases hc with h | ⟨-, h⟩
  · exact Or.inl h
  · exact Or.inr ⟨rfl, h⟩

/-- the sets after a call that was handed set `j` -/
theorem sets_after (m : MSt) (a : AState) (r' : Reader) (a0 : AState) (j : Nat) (rs' : RecordSet)
    (e' : ASet) (hs : ∀ i, SetSim (m.getSet i) (a.getSet i))
    (ha0 : ∀ i, a0.getSet i = a.getSet i) (hnew : SetSim rs' e') :
    ∀ i, SetSim ((({ m with r := r' } : MSt).putSet j rs').getSet i) ((a0.putSet j e').getSet i) := by
  intro i
  rw [MSt.getSet_putSet, AState.getSet_putSet]
  by_cases h : slot i = slot j
  · rw [if_pos h, if_pos h]; exact hnew
  · rw [if_neg h, if_neg h, ha0]
    have : ({ m with r := r' } : MSt).getSet i = m.getSet i := by
      match i with
      | 0 => rfl
      | 1 => rfl
      | _ + 2 => rfl
    rw [this]; exact hs i

/-- record-set reads -/
theorem step_set (inp : List UInt8) (G : Prop) (all : List FqItem) (m : MSt) (a : AState)
    (hs : Sim inp G all m a) (j : Nat) (n : Option Nat) (hn : ∀ n', n = some n' → 1 ≤ n') :
    (∃ a', acceptSet all a j n (stepSet m j n).2 = some a' ∧ Sim inp G all (stepSet m j n).1 a') ∨
    ¬ G := by
  have hR := readSet_spec inp G (fuelOf m.r) m.r (m.getSet j) n _ hs.good (fuelOf_ge m.r) hn
  simp only [stepSet]
  rcases hx : readRecordSetExact (fuelOf m.r) m.r (m.getSet j) n with ⟨r', rs', res⟩
  rw [hx] at hR
  rcases hR with ⟨hr, ys, its', hi, hv, hne, hl, hc⟩ | ⟨hr, hi, hfin, hrs⟩ |
    ⟨ys, e, b, l, hr, hi, hp, hfin, hc⟩ | ⟨e, hr, henv, hG, hp, hfin⟩ | ⟨hG, -⟩
  · -- a batch
    simp only at hr hv hl hc
    subst hr
    have hlen : rs'.positions.length = ys.length := by
      have := viewAll_length hv; simp only [List.length_map] at this; exact this.symm
    have hahead : leadRecs (all.drop a.k) = ys.map recOf ++ leadRecs its' := by
      rw [hi, leadRecs_append]
    have htake : (leadRecs (all.drop a.k)).take ys.length = ys.map recOf := by
      rw [hahead, List.take_append_of_le_length (by simp), List.take_of_length_le (by simp)]
    have hdrop : all.drop (a.k + ys.length) = its' := by
      have := drop_eq_append hi
      simpa only [List.length_map] using this
    have hpos : 1 ≤ ys.length := by
      cases ys with
      | nil => exact absurd rfl hne
      | cons => simp
    have hok : batchOk n ys.length (leadRecs (all.drop a.k)).length
        (all[a.k + (leadRecs (all.drop a.k)).length]?).isSome = true := by
      have hal : (leadRecs (all.drop a.k)).length = ys.length + (leadRecs its').length := by
        rw [hahead]; simp
      cases n with
      | none => simp only [batchOk, decide_eq_true_eq]; omega
      | some n' =>
        simp only [batchOk, decide_eq_true_eq]
        rcases hc n' rfl with h1 | ⟨h1, h2⟩
        · refine ⟨hpos, by omega, ?_⟩
          intro hh; omega
        · subst h1
          have hal' : (leadRecs (all.drop a.k)).length = ys.length := by
            rw [hal]; simp [leadRecs]
          refine ⟨hpos, by omega, ?_⟩
          intro hh
          have : all[a.k + (leadRecs (all.drop a.k)).length]? = none := by
            rw [hal', getElem?_of_drop, hi]; simp
          rw [this] at hh
          simp at hh
    refine Or.inl ⟨({ a with k := a.k + ys.length, last := .set } : AState).putSet j
      { recs := ys.map recOf, altEmpty := false }, ?_, ?_, ?_, ?_⟩
    · simp only [acceptSet, obsSet, hlen, hok, if_true, htake]
    · rw [MSt.putSet_r, (AState.putSet_k _ _ _).1]
      simp only [hdrop]
      exact hl.1
    · exact sets_after m a r' _ j rs' _ hs.sets (fun i => by
        match i with
        | 0 => rfl
        | 1 => rfl
        | _ + 2 => rfl) ⟨_, hv, Or.inl rfl⟩
    · unfold LastOk
      rw [MSt.putSet_r, (AState.putSet_k _ _ _).2, (AState.putSet_k _ _ _).1]
      simp only
      intro x hxk
      have hx0 : its'[0]? = some (.record x) := by
        rw [← hdrop]; simpa [List.getElem?_drop] using hxk
      rcases hl.2 with hst | hst
      · have hg := hl.1
        simp only [Good, hst] at hg
        obtain ⟨-, -, -, hits⟩ := hg
        cases hits' : its' with
        | nil => rw [hits'] at hx0; cases hx0
        | cons y rest =>
          rw [hits'] at hx0
          simp only [List.getElem?_cons_zero, Option.some.injEq] at hx0
          subst hx0
          have := itemsAt_head_record (hits ▸ hits')
          rw [this.1, this.2]
      · have hg := hl.1
        simp only [Good, hst] at hg
        rw [hg.2] at hx0
        cases hx0
  · -- the end
    simp only at hr hi hfin hrs
    subst hr
    have hk : all.length ≤ a.k := List.drop_eq_nil_iff.mp hi
    refine Or.inl ⟨({ a with last := .none } : AState).putSet j
      { a.getSet j with altEmpty := true }, ?_, ?_, ?_, ?_⟩
    · simp only [acceptSet, obsSet, hk, if_true]
    · rw [MSt.putSet_r, (AState.putSet_k _ _ _).1]
      simp only [hi]
      exact hfin.good
    · refine sets_after m a r' _ j rs' _ hs.sets (fun i => by
        match i with
        | 0 => rfl
        | 1 => rfl
        | _ + 2 => rfl) ?_
      rcases hrs with h | h
      · rw [h]; exact setSim_alt (hs.sets j)
      · exact setSim_empty rs' _ h
    · unfold LastOk
      rw [(AState.putSet_k _ _ _).2]
      trivial
  · -- the error ahead
    simp only at hr hi hfin hp hc
    subst hr
    have hahead : leadRecs (all.drop a.k) = ys.map recOf := by
      rw [hi, leadRecs_append, leadRecs_err, List.append_nil]
    have herr : all[a.k + (leadRecs (all.drop a.k)).length]? = some (.err e b l) := by
      rw [hahead, getElem?_of_drop, hi]; simp
    have hreach : reachedErr n (leadRecs (all.drop a.k)).length = true := by
      cases n with
      | none => rfl
      | some n' =>
        have := hc n' rfl
        simp only [reachedErr, decide_eq_true_eq, hahead, List.length_map]
        exact this
    refine Or.inl ⟨({ a with k := all.length, last := .none } : AState).putSet j
      { a.getSet j with altEmpty := true }, ?_, ?_, ?_, ?_⟩
    · simp only [acceptSet, obsSet, herr, hreach, and_self, if_true]
    · rw [MSt.putSet_r, (AState.putSet_k _ _ _).1]
      simp only [List.drop_length]
      exact hfin.good
    · exact sets_after m a r' _ j rs' _ hs.sets (fun i => by
        match i with
        | 0 => rfl
        | 1 => rfl
        | _ + 2 => rfl) (setSim_empty rs' _ hp)
    · unfold LastOk
      rw [(AState.putSet_k _ _ _).2]
      trivial
  · exact Or.inr hG
  · exact Or.inr hG

/-! ## histories without seeks -/

def noSeek : Op → Bool
  | .seekItem _ => false
  | _ => true

theorem wf_set {j : Nat} {n : Option Nat} (h : (Op.set j n).wf = true) :
    ∀ n', n = some n' → 1 ≤ n' := by
  intro n' hn
  subst hn
  simp only [Op.wf, Bool.and_eq_true, decide_eq_true_eq] at h
  exact h.2

theorem step_ok_noseek (inp : List UInt8) (G : Prop) (all : List FqItem) (m : MSt) (a : AState)
    (hs : Sim inp G all m a) (op : Op) (hwf : op.wf = true) (hns : noSeek op = true) :
    StepOk inp G all a op (stepM m op) := by
  cases op with
  | next => exact step_next inp G all m a hs
  | owned => exact step_next inp G all m a hs
  | set j n => exact step_set inp G all m a hs j n (wf_set hwf)
  | dump j => exact Or.inl ⟨a, step_dump inp G all m a hs j, hs⟩
  | pos => exact Or.inl ⟨a, step_pos inp G all m a hs, hs⟩
  | seekItem i => cases hns

theorem sim_mkM (inp : List UInt8) (G : Prop) (cap : Nat) (hcap : 3 ≤ cap) (pol : Pol)
    (hwf : PolWf1 pol) (hg : G → PolGrows pol) (script : List ReadEv) (hs : NoFail script)
    (chunk : Nat) : Sim inp G (Spec.fastq inp) (mkM inp cap pol script chunk) {} := by
  refine ⟨good_mkReader' inp G cap hcap pol hwf hg script hs chunk, ?_, trivial⟩
  intro j
  refine ⟨[], ?_, Or.inl ?_⟩
  · match j with
    | 0 => rfl
    | 1 => rfl
    | _ + 2 => rfl
  · match j with
    | 0 => rfl
    | 1 => rfl
    | _ + 2 => rfl

/-- histories from simulated states are accepted (never-refusing policy) -/
theorem run_accepted_noseek (inp : List UInt8) (all : List FqItem) :
    ∀ (ops : List Op) (m : MSt) (a : AState), Sim inp True all m a →
      (∀ op ∈ ops, op.wf = true ∧ noSeek op = true) →
      acceptsA all a ops (runM m ops) = true := by
  intro ops
  induction ops with
  | nil => intro m a _ _; rfl
  | cons op ops ih =>
    intro m a hs hops
    have h1 := hops op (List.mem_cons_self)
    rcases step_ok_noseek inp True all m a hs op h1.1 h1.2 with ⟨a', hacc, hs'⟩ | hG
    · simp only [runM, acceptsA, hacc]
      exact ih _ a' hs' (fun o ho => hops o (List.mem_cons_of_mem _ ho))
    · exact absurd trivial hG

/-- **(a)** every finite history of single-record reads, owned reads, record-set reads,
exact-count record-set reads, dumps and position queries, on every input, capacity ≥ 3,
growing policy, script without failing events and chunking, is accepted by the abstract
reader A: every observation, in order. -/
theorem fastq_history_accepted_noseek (inp : List UInt8) (cap : Nat) (hcap : 3 ≤ cap) (pol : Pol)
    (hpol : PolGrows pol) (script : List ReadEv) (hs : NoFail script) (chunk : Nat)
    (ops : List Op) (hops : ∀ op ∈ ops, op.wf = true ∧ noSeek op = true) :
    accepted inp (mkM inp cap pol script chunk) ops = true :=
  run_accepted_noseek inp (Spec.fastq inp) ops _ {}
    (sim_mkM inp True cap hcap pol hpol.wf1 (fun _ => hpol) script hs chunk) hops

end SeqIo.Fastq
