import SeqIoModel.Proofs.FastaStream
import SeqIoModel.Model.History
/-!
# FASTA histories, part 1: the records of S by index

`Pt inp k s ln`: the `k`-th record of S starts at absolute offset `s` on line `ln`, and S's
records from `k` on are what the scan from `s` finds.  Every record index has such a point
(`pt_all`), which is what makes seeking to a record position work.
-/
open SeqIo SeqIo.FillProofs SeqIo.Spec

namespace SeqIo.Fasta.Hist

def recsOf (inp : List UInt8) : List FaRec := (items inp).recs

theorem specObs_items (inp : List UInt8) :
    specObs inp = match (items inp).err with
      | some e => [.error e]
      | none => (recsOf inp).map toObs := by
  simp only [specObs, items, recsOf]
  cases hf : Spec.fasta inp <;> rfl

theorem items_err_recs (inp : List UInt8) (h : (items inp).err ≠ none) : recsOf inp = [] := by
  simp only [items, recsOf] at *
  cases hf : Spec.fasta inp <;> simp_all

/-- the `k`-th record of S starts at `s` (line `ln`) -/
structure Pt (inp : List UInt8) (k s ln : Nat) : Prop where
  gt : (inp.drop s).head? = some GT
  spec : ((recsOf inp).drop k).map toObs = specFrom inp s ln

theorem toObs_inj {a : FaRec} {H : List UInt8} {SL : List (List UInt8)} {ln s : Nat}
    (h : toObs a = Obs.record H SL ln s) : a.head = H ∧ a.seqLines = SL ∧ a.line = ln ∧ a.byte = s := by
  unfold toObs at h
  injection h with h1 h2 h3 h4
  exact ⟨h1, h2, h3, h4⟩

theorem pt_step {inp : List UInt8} {k s ln : Nat} (h : Pt inp k s ln) :
    ∃ rc, (recsOf inp)[k]? = some rc ∧ rc.byte = s ∧ rc.line = ln ∧
      head inp ⟨s, finalPos (scan (inp.drop s) s [])⟩ = some rc.head ∧
      allSome (seqLines inp ⟨s, finalPos (scan (inp.drop s) s [])⟩) = some rc.seqLines ∧
      ((scan (inp.drop s) s []).1 = true →
        Pt inp (k + 1) (scan (inp.drop s) s []).2.1 (ln + (finalPos (scan (inp.drop s) s [])).length)) ∧
      ((scan (inp.drop s) s []).1 = false → (recsOf inp).length = k + 1) := by
  obtain ⟨H, SL, hH, hSL, hspec, hnext⟩ := rec_spec inp s ln h.gt
  have hsp := h.spec
  rw [hspec] at hsp
  cases hd : (recsOf inp).drop k with
  | nil => rw [hd] at hsp; simp at hsp
  | cons rc tl =>
    rw [hd] at hsp
    simp only [List.map_cons, List.cons.injEq] at hsp
    obtain ⟨ho, htl⟩ := hsp
    obtain ⟨h1, h2, h3, h4⟩ := toObs_inj ho
    have hk : (recsOf inp)[k]? = some rc := by
      have := List.getElem?_drop (xs := recsOf inp) (i := k) (j := 0)
      rw [hd] at this
      simpa using this.symm
    have hd1 : (recsOf inp).drop (k + 1) = tl := by
      have : ((recsOf inp).drop k).drop 1 = tl := by rw [hd]; rfl
      rw [List.drop_drop] at this
      exact this
    refine ⟨rc, hk, h4, h3, by rw [hH, h1], by rw [hSL, h2], ?_, ?_⟩
    · intro hf
      refine ⟨hnext hf, ?_⟩
      rw [hd1, htl, if_pos hf]
    · intro hf
      have : ¬ ((scan (inp.drop s) s []).1 = true) := by rw [hf]; simp
      rw [if_neg this] at htl
      have htl' : tl = [] := by simpa using htl
      have hlt : k < (recsOf inp).length := by
        rcases Nat.lt_or_ge k (recsOf inp).length with h' | h'
        · exact h'
        · rw [List.getElem?_eq_none h'] at hk; cases hk
      have hle : (recsOf inp).length ≤ k + 1 := by
        rw [htl'] at hd1
        exact List.drop_eq_nil_iff.mp hd1
      omega

theorem Pt.lt {inp : List UInt8} {k s ln : Nat} (h : Pt inp k s ln) : k < (recsOf inp).length := by
  obtain ⟨rc, hk, _⟩ := pt_step h
  rcases Nat.lt_or_ge k (recsOf inp).length with h' | h'
  · exact h'
  · rw [List.getElem?_eq_none h'] at hk; cases hk

/-! ## where S starts -/

theorem map_toObs_ne_error (l : List FaRec) (e : Err) : l.map toObs ≠ [Obs.error e] := by
  intro h
  cases l with
  | nil => cases h
  | cons a tl =>
    simp only [List.map_cons, List.cons.injEq] at h
    have := h.1
    unfold toObs at this
    cases this

theorem specFrom_ne_error (inp : List UInt8) (s ln : Nat) (e : Err) :
    specFrom inp s ln ≠ [Obs.error e] := by
  unfold specFrom
  exact map_toObs_ne_error _ e

theorem items_of_skip (inp : List UInt8) (s ln : Nat) (c : UInt8) (l : List UInt8)
    (ls : List (List UInt8))
    (hskip : skipBlank (lines inp) 0 1 = (lines (inp.drop s), s, ln))
    (hl : lines (inp.drop s) = l :: ls) (hc : l.head? = some c)
    (hhead : (inp.drop s).head? = some c) :
    (c = GT → (items inp).err = none ∧ Pt inp 0 s ln) ∧
    (c ≠ GT → recsOf inp = [] ∧ (items inp).err = some (.invalidStart ln c)) := by
  have hso := specObs_of_skip inp s ln c l ls hskip hl hc
  rw [specObs_items] at hso
  cases he : (items inp).err with
  | none =>
    rw [he] at hso
    simp only at hso
    constructor
    · intro hgt
      rw [if_pos hgt] at hso
      refine ⟨rfl, ?_, ?_⟩
      · rw [← hgt]; exact hhead
      · simpa using hso
    · intro hgt
      rw [if_neg hgt] at hso
      exact absurd hso (map_toObs_ne_error _ _)
  | some e =>
    rw [he] at hso
    simp only at hso
    constructor
    · intro hgt
      rw [if_pos hgt] at hso
      exact absurd hso.symm (specFrom_ne_error _ _ _ _)
    · intro hgt
      rw [if_neg hgt] at hso
      simp only [List.cons.injEq, and_true] at hso
      injection hso with hso
      refine ⟨items_err_recs inp (by rw [he]; simp), by rw [hso]⟩

theorem items_of_skip_nil (inp : List UInt8) (h : (skipBlank (lines inp) 0 1).1 = []) :
    recsOf inp = [] ∧ (items inp).err = none := by
  have hso := specObs_of_skip_nil inp h
  rw [specObs_items] at hso
  cases he : (items inp).err with
  | none =>
    rw [he] at hso
    simp only at hso
    exact ⟨by simpa using hso, rfl⟩
  | some e =>
    rw [he] at hso
    cases hso

/-- the first record of S, if there is one -/
theorem pt_zero (inp : List UInt8) (hne : recsOf inp ≠ []) : ∃ s ln, Pt inp 0 s ln := by
  have hbs := blank_spec inp [] 0 0 0 0
  generalize hsb : scanBlank (splitLF inp) 0 0 0 = sb at hbs
  cases sb with
  | inl x =>
    obtain ⟨ln', pos', c⟩ := x
    simp only [Nat.sub_zero, List.append_nil, Nat.zero_add] at hbs
    obtain ⟨_, _, hskip, hhead, l, ls, hl, hc⟩ := hbs
    obtain ⟨h1, h2⟩ := items_of_skip inp pos' ln' c l ls hskip hl hc hhead
    by_cases hgt : c = GT
    · exact ⟨pos', ln', (h1 hgt).2⟩
    · exact absurd (h2 hgt).1 hne
  | inr x =>
    obtain ⟨ln', pos', ll⟩ := x
    simp only [List.append_nil, Nat.zero_add] at hbs
    obtain ⟨_, _, _, _, hsm, _, hskip⟩ := hbs
    have : (skipBlank (lines inp) 0 1).1 = [] := by
      rw [hskip]
      exact skipBlank_small _ hsm _ _
    exact absurd (items_of_skip_nil inp this).1 hne

/-- every record of S has its point -/
theorem pt_all (inp : List UInt8) : ∀ (i : Nat) (rc : FaRec), (recsOf inp)[i]? = some rc →
    Pt inp i rc.byte rc.line := by
  intro i
  induction i with
  | zero =>
    intro rc hrc
    have hne : recsOf inp ≠ [] := by
      intro h; rw [h] at hrc; cases hrc
    obtain ⟨s, ln, hp⟩ := pt_zero inp hne
    obtain ⟨rc', hk, hb, hl, _⟩ := pt_step hp
    rw [hrc] at hk
    cases hk
    rw [hb, hl]; exact hp
  | succ i ih =>
    intro rc hrc
    have hlt : i + 1 < (recsOf inp).length := by
      rcases Nat.lt_or_ge (i + 1) (recsOf inp).length with h' | h'
      · exact h'
      · rw [List.getElem?_eq_none h'] at hrc; cases hrc
    have hi : (recsOf inp)[i]? = some ((recsOf inp)[i]'(by omega)) := List.getElem?_eq_getElem (by omega)
    have hp := ih _ hi
    obtain ⟨_, _, _, _, _, _, hfound, hnot⟩ := pt_step hp
    cases hf : (scan (inp.drop ((recsOf inp)[i]'(by omega)).byte) ((recsOf inp)[i]'(by omega)).byte []).1 with
    | false => have := hnot hf; omega
    | true =>
      have hp1 := hfound hf
      obtain ⟨rc', hk, hb, hl, _⟩ := pt_step hp1
      rw [hrc] at hk
      cases hk
      rw [hb, hl]; exact hp1

/-! ## a record located in a window -/

/-- `bp`, read relative to a window that starts at absolute offset `B` and has `buflen` bytes,
is the complete record that starts at absolute offset `s` -/
structure RecAt (inp : List UInt8) (B buflen : Nat) (bp : BufPos) (s : Nat) : Prop where
  start_eq : bp.start + B = s
  pos_le : ∀ p ∈ bp.seqPos, p ≤ buflen
  fin : bp.seqPos.map (· + B) = finalPos (scan (inp.drop s) s [])

theorem RecAt.mono {inp : List UInt8} {B n n' : Nat} {bp : BufPos} {s : Nat}
    (h : RecAt inp B n bp s) (hn : n ≤ n') : RecAt inp B n' bp s :=
  ⟨h.start_eq, fun p hp => Nat.le_trans (h.pos_le p hp) hn, h.fin⟩

theorem recAt_of_recDone {inp : List UInt8} {r : Reader} {s : Nat} (h : RecDone inp r s) :
    RecAt inp (base r) r.br.buf.length r.bp s :=
  ⟨h.start_eq, h.pos_le, h.fin⟩

theorem view_of_recAt {inp buf ext : List UInt8} {B : Nat} {bp : BufPos} {k s ln : Nat}
    (hb : B ≤ inp.length) (hw : inp.drop B = buf ++ ext) (h : RecAt inp B buf.length bp s)
    (hp : Pt inp k s ln) :
    ∃ rc, (recsOf inp)[k]? = some rc ∧ rc.byte = s ∧ rc.line = ln ∧
      head buf bp = some rc.head ∧ allSome (seqLines buf bp) = some rc.seqLines ∧
      bp.seqPos ≠ [] := by
  obtain ⟨rc, hk, hby, hln, hH, hSL, _, _⟩ := pt_step hp
  have hbp : (⟨bp.start + B, bp.seqPos.map (· + B)⟩ : BufPos) =
      ⟨s, finalPos (scan (inp.drop s) s [])⟩ := by
    rw [h.start_eq, h.fin]
  have hhead : head buf bp = some rc.head := by
    rw [head_shift inp buf ext B hb hw bp h.pos_le, hbp, hH]
  refine ⟨rc, hk, hby, hln, hhead, ?_, ?_⟩
  · rw [seqLines_shift inp buf ext B hb hw bp h.pos_le, hbp, hSL]
  · intro hnil
    unfold head at hhead
    rw [hnil] at hhead
    simp at hhead

theorem viewRec_of {buf : List UInt8} {bp : BufPos} {rc : FaRec}
    (h1 : head buf bp = some rc.head) (h2 : allSome (seqLines buf bp) = some rc.seqLines) :
    viewRec buf bp = some (view rc) := by
  simp only [viewRec, h1, h2, view]

theorem ownedSeq_of {buf : List UInt8} {bp : BufPos} {rc : FaRec}
    (h2 : allSome (seqLines buf bp) = some rc.seqLines) :
    ownedSeq buf bp = some rc.seq := by
  simp only [ownedSeq, h2, Option.map_some, FaRec.seq]

end SeqIo.Fasta.Hist
