import SeqIoModel.Proofs.FastaHistorySet
import SeqIoModel.Proofs.FastaHistorySeek
/-!
# FASTA histories under I/O failures, part 1: windows, `search`, `resume_incomplete_search`

Everything in `FastaHistory{Ops,Inv,Set,Seek}.lean` assumes a read script without failures.
Here the same building blocks are proved for ARBITRARY scripts: a refill may fail and leave
the buffer partly filled.  `WinF` is `WinB` without the no-failure clause.  The conclusions are
weaker (no exactly-once bookkeeping) but still say that whatever is found is a record of S.
-/
open SeqIo SeqIo.FillProofs SeqIo.Spec

namespace SeqIo.Fasta.Hist

/-- the buffer is a window of the input (the script is arbitrary) -/
structure WinF (inp : List UInt8) (b : BufRd) : Prop where
  inp_eq : b.src.inp = inp
  len_le : b.buf.length ≤ b.src.cursor
  cur_le : b.src.cursor ≤ inp.length
  win : inp.drop (baseB b) = b.buf ++ inp.drop b.src.cursor
  cap_ge : 3 ≤ b.cap
  len_cap : b.buf.length ≤ b.cap

structure WinR (inp : List UInt8) (r : Reader) : Prop where
  b : WinF inp r.br
  pol : PolWfPos r.pol

theorem WinF.base_le {inp : List UInt8} {b : BufRd} (h : WinF inp b) : baseB b ≤ inp.length := by
  have := h.cur_le
  unfold baseB
  omega

theorem WinF.base_add {inp : List UInt8} {b : BufRd} (h : WinF inp b) :
    baseB b + b.buf.length = b.src.cursor := by
  have := h.len_le
  unfold baseB
  omega

theorem win_dropF {inp : List UInt8} {b : BufRd} (h : WinF inp b) (k : Nat) (hk : k ≤ b.buf.length) :
    inp.drop (k + baseB b) = b.buf.drop k ++ inp.drop b.src.cursor := by
  rw [Nat.add_comm, ← List.drop_drop, h.win, List.drop_append_of_le_length hk]

/-- a refill of a window: it succeeds as in the failure-free case, or fails after appending some
bytes -/
theorem fill_winF {inp : List UInt8} {b : BufRd} (h : WinF inp b) :
    (∃ b' n, fillBuf b = (b', .ok n) ∧ WinF inp b' ∧ EofB inp b' ∧ baseB b' = baseB b ∧
      b'.cap = b.cap ∧ b'.buf.length = b.buf.length + n ∧ b'.src.cursor = b.src.cursor + n ∧
      n = min (b.cap - b.buf.length) (inp.length - b.src.cursor) ∧
      b'.src.seekFails = b.src.seekFails) ∨
    (∃ b' k, fillBuf b = (b', .error k) ∧ WinF inp b' ∧ baseB b' = baseB b ∧ b'.cap = b.cap ∧
      b.buf.length ≤ b'.buf.length ∧ (EofB inp b → EofB inp b') ∧
      b'.src.seekFails = b.src.seekFails) := by
  have hrem : b.src.remaining = inp.length - b.src.cursor := by
    simp only [Src.remaining, h.inp_eq]
  have hcl := h.cur_le
  have hll := h.len_le
  have hlc := h.len_cap
  match hr : fillBuf b with
  | (b', .ok n) =>
    left
    obtain ⟨hn, used, hst⟩ := fillBuf_ok b b' n hr
    rw [hrem] at hn
    have hlen : b'.buf.length = b.buf.length + n := hst.buf_length
    have hbase : baseB b' = baseB b := by
      unfold baseB
      rw [hst.cursor, hlen]
      omega
    have hbuf : b'.buf = b.buf ++ (inp.drop b.src.cursor).take n := by
      rw [hst.buf, h.inp_eq]
    refine ⟨b', n, rfl, ?_, ?_, hbase, hst.cap, hlen, hst.cursor, hn, hst.seekFails⟩
    · refine ⟨by rw [hst.inp, h.inp_eq], by rw [hst.cursor, hlen]; omega, by rw [hst.cursor]; omega,
        ?_, by rw [hst.cap]; exact h.cap_ge, by rw [hst.cap, hlen]; omega⟩
      rw [hbase, h.win, hbuf, hst.cursor, List.append_assoc, ← List.drop_drop,
        List.take_append_drop]
    · intro hlt
      rw [hst.cap, hlen] at hlt
      rw [hst.cursor]
      omega
  | (b', .error k) =>
    right
    obtain ⟨used, rest, m, hs, hnf, hrest, hm, hbuf, hcap, hinp, hcur⟩ := fillBuf_error b b' k hr
    rw [hrem] at hm
    have hlen : b'.buf.length = b.buf.length + m := by
      rw [hbuf, List.length_append, List.length_take, List.length_drop, h.inp_eq]
      omega
    have hbase : baseB b' = baseB b := by
      unfold baseB
      rw [hcur, hlen]
      omega
    refine ⟨b', k, rfl, ?_, hbase, hcap, by omega, ?_, fillBuf_seekFails' hr⟩
    · refine ⟨by rw [hinp, h.inp_eq], by rw [hcur, hlen]; omega, by rw [hcur]; omega, ?_,
        by rw [hcap]; exact h.cap_ge, by rw [hcap, hlen]; omega⟩
      rw [hbase, h.win, hbuf, h.inp_eq, hcur, List.append_assoc, ← List.drop_drop,
        List.take_append_drop]
    · intro he hlt
      rw [hcap, hlen] at hlt
      rw [hcur]
      have := he (by omega)
      omega

theorem consume_winF {inp : List UInt8} {b : BufRd} (h : WinF inp b) (c : Nat) (hc : c ≤ b.buf.length) :
    WinF inp (b.consume c) ∧ baseB (b.consume c) = baseB b + c := by
  have hll := h.len_le
  have hbase : baseB (b.consume c) = baseB b + c := by
    simp only [baseB, BufRd.consume, List.length_drop]
    omega
  refine ⟨⟨h.inp_eq, ?_, h.cur_le, ?_, h.cap_ge, ?_⟩, hbase⟩
  · simp only [BufRd.consume, List.length_drop]; omega
  · rw [hbase, ← List.drop_drop, h.win]
    simp only [BufRd.consume]
    rw [List.drop_append_of_le_length hc]
  · have := h.len_cap
    simp only [BufRd.consume, List.length_drop]; omega

theorem reserve_winF {inp : List UInt8} {b : BufRd} (h : WinF inp b) (a : Nat) :
    WinF inp (b.reserve a) ∧ baseB (b.reserve a) = baseB b := by
  have hb : baseB (b.reserve a) = baseB b := by
    simp only [baseB, reserve_buf, reserve_src]
  refine ⟨⟨by rw [reserve_src]; exact h.inp_eq, by rw [reserve_src, reserve_buf]; exact h.len_le,
    by rw [reserve_src]; exact h.cur_le, ?_, ?_, ?_⟩, hb⟩
  · rw [hb, reserve_buf, reserve_src]; exact h.win
  · have := reserve_cap_ge b a; have := h.cap_ge; omega
  · have := reserve_cap_ge b a; have := h.len_cap; rw [reserve_buf]; omega

theorem WinR.ofWin {inp : List UInt8} {r : Reader} (h : Win inp r) : WinR inp r :=
  ⟨⟨h.b.inp_eq, h.b.len_le, h.b.cur_le, h.b.win, h.b.cap_ge, h.b.len_cap⟩, h.pol⟩

/-- one `search` from a scan state -/
theorem search_stepF {inp : List UInt8} {r : Reader} {s : Nat}
    (hw : WinF inp r.br) (he : Eof inp r) (hs : ScanSt inp r s) (hst : r.state ≠ .finished) :
    ∃ r' f, search r = some (r', f) ∧ r'.br = r.br ∧ r'.pol = r.pol ∧ r'.log = r.log ∧
      r'.line = r.line ∧ r'.byte = r.byte ∧ r'.bp.start = r.bp.start ∧
      (f = true → RecDone inp r' s ∧ (r'.state = r.state ∨ r'.state = .finished)) ∧
      (f = false → ScanSt inp r' s ∧ r'.state = .incomplete ∧ r.br.cap ≤ r.br.buf.length ∧
        r.br.buf.length ≤ r'.searchPos + 1) := by
  have hsp := hs.sp_le
  have hwd := win_dropF hw r.searchPos hsp
  have hres := hs.resum
  unfold base at hres
  rw [hwd] at hres
  have hge := scan_sp_ge (r.br.buf.drop r.searchPos) r.searchPos r.bp.seqPos
  simp only [List.length_drop] at hge
  have hnb := scan_new_bounds (r.br.buf.drop r.searchPos) r.searchPos r.bp.seqPos
  rw [search_eq r hsp]
  generalize hx : scan (r.br.buf.drop r.searchPos) r.searchPos r.bp.seqPos = x at hge hnb
  by_cases hf : x.1 = true
  · -- found in the buffer
    rw [if_pos hf]
    have hS : scan (inp.drop s) s [] = shiftRes (baseB r.br) x := by
      rw [← hres, ← hx]
      exact scan_window_found _ _ _ _ _ (by rw [hx]; exact hf)
    refine ⟨_, _, rfl, rfl, rfl, rfl, rfl, rfl, rfl, ?_, by intro h; cases h⟩
    intro _
    refine ⟨⟨hs.start_eq, ?_, ?_, ?_, ?_⟩, Or.inl rfl⟩
    · intro p hp
      show p ≤ r.br.buf.length
      rcases hnb p hp with h | h
      · have := (hs.pos_lt p h).2; omega
      · omega
    · rw [hS]
      simp [finalPos, shiftRes, hf, base]
    · rw [hS]
      simp only [shiftRes, hf]
      constructor
      · intro h; exact absurd h hst
      · intro h; cases h
    · intro _
      rw [hS]
      refine ⟨rfl, ?_, ?_⟩
      · show r.bp.start ≤ x.2.1
        have := hs.start_le; omega
      · show x.2.1 ≤ r.br.buf.length
        omega
  · have hf' : x.1 = false := by cases h : x.1 <;> simp_all
    rw [if_neg hf]
    by_cases hlt : r.br.buf.length < r.br.cap
    · -- end of input
      rw [if_pos hlt]
      have hcur : r.br.src.cursor = inp.length := he hlt
      have hS : scan (inp.drop s) s [] = shiftRes (baseB r.br) x := by
        rw [← hres, ← hx, hcur, List.drop_length, List.append_nil]
        exact scan_shift _ _ _ _
      refine ⟨_, _, rfl, rfl, rfl, rfl, rfl, rfl, rfl, ?_, by intro h; cases h⟩
      intro _
      refine ⟨⟨hs.start_eq, ?_, ?_, ?_, ?_⟩, Or.inr rfl⟩
      · intro p hp
        show p ≤ r.br.buf.length
        replace hp : p ∈ x.2.2 ++ [x.2.1] := hp
        simp only [List.mem_append, List.mem_singleton] at hp
        rcases hp with hp | hp
        · rcases hnb p hp with h | h
          · have := (hs.pos_lt p h).2; omega
          · omega
        · omega
      · rw [hS, finalPos_shift]
        simp [finalPos, hf', base]
      · rw [hS]
        simp only [shiftRes, hf']
      · intro h
        rw [hS] at h
        simp only [shiftRes, hf'] at h
        cases h
    · -- buffer exhausted without result
      rw [if_neg hlt]
      have hnear := scan_notfound_sp (r.br.buf.drop r.searchPos) r.searchPos r.bp.seqPos
        (by rw [hx]; exact hf')
      rw [hx, List.length_drop] at hnear
      refine ⟨_, _, rfl, rfl, rfl, rfl, rfl, rfl, rfl, (by intro h; cases h), ?_⟩
      intro _
      refine ⟨⟨hs.start_eq, ?_, ?_, ?_, ?_⟩, rfl, by omega, (by show r.br.buf.length ≤ x.2.1 + 1; omega)⟩
      · have := hs.start_le
        show r.bp.start ≤ x.2.1
        omega
      · show x.2.1 ≤ r.br.buf.length
        omega
      · intro p hp
        show r.bp.start ≤ p ∧ p < x.2.1
        rcases hnb p hp with h | h
        · have := hs.pos_lt p h; omega
        · have := hs.start_le; omega
      · show scan (inp.drop (x.2.1 + baseB r.br)) (x.2.1 + baseB r.br) (x.2.2.map (· + baseB r.br)) = _
        have h1 := scan_window_notfound (r.br.buf.drop r.searchPos) (inp.drop r.br.src.cursor)
          r.searchPos r.bp.seqPos (baseB r.br) (by rw [hx]; exact hf')
        rw [hx] at h1
        have e : r.searchPos + (x.2.1 - r.searchPos) = x.2.1 := by omega
        rw [← hres, win_dropF hw x.2.1 (by omega), h1, List.drop_drop, e]


theorem makeRoom_scanStF {inp : List UInt8} {r : Reader} {s : Nat} (hw : WinR inp r)
    (h : ScanSt inp r s) :
    ∃ r', makeRoom r = some r' ∧ WinR inp r' ∧ ScanSt inp r' s ∧ r'.state = r.state ∧
      r'.br.buf.length = r.br.buf.length - r.bp.start ∧ r'.br.cap = r.br.cap ∧
      r'.br.src.cursor = r.br.src.cursor ∧ r'.line = r.line ∧ r'.byte = r.byte ∧
      r'.log = r.log ∧ r'.pol = r.pol := by
  have hsl := h.start_le
  have hsp := h.sp_le
  have hc : r.bp.start ≤ r.br.buf.length := by omega
  obtain ⟨hwb, hbase⟩ := consume_winF hw.b r.bp.start hc
  refine ⟨_, makeRoom_eq r hsl (fun p hp => (h.pos_lt p hp).1), ⟨hwb, hw.pol⟩, ?_, rfl, ?_, rfl, rfl, rfl, rfl, rfl, rfl⟩
  · refine ⟨?_, ?_, ?_, ?_, ?_⟩
    · show 0 + baseB (r.br.consume r.bp.start) = s
      rw [hbase, ← h.start_eq]; unfold base; omega
    · exact Nat.zero_le _
    · show r.searchPos - r.bp.start ≤ (r.br.consume r.bp.start).buf.length
      simp only [BufRd.consume, List.length_drop]; omega
    · intro p hp
      replace hp : p ∈ r.bp.seqPos.map (· - r.bp.start) := hp
      show 0 ≤ p ∧ p < r.searchPos - r.bp.start
      simp only [List.mem_map] at hp
      obtain ⟨q, hq, rfl⟩ := hp
      have := h.pos_lt q hq
      omega
    · show scan (inp.drop (r.searchPos - r.bp.start + baseB (r.br.consume r.bp.start)))
        (r.searchPos - r.bp.start + baseB (r.br.consume r.bp.start))
        ((r.bp.seqPos.map (· - r.bp.start)).map (· + baseB (r.br.consume r.bp.start))) = _
      have e1 : r.searchPos - r.bp.start + baseB (r.br.consume r.bp.start) = r.searchPos + base r := by
        rw [hbase]; unfold base; omega
      have e2 : (r.bp.seqPos.map (· - r.bp.start)).map (· + baseB (r.br.consume r.bp.start)) =
          r.bp.seqPos.map (· + base r) := by
        rw [List.map_map]
        apply List.map_congr_left
        intro p hp
        have := (h.pos_lt p hp).1
        simp only [Function.comp, hbase, base]
        omega
      rw [e1, e2]
      exact h.resum
  · simp only [BufRd.consume, List.length_drop]


/-- the error results a read operation can have apart from the format error -/
def IoOrLimit (res : Res Bool) : Prop := res = .err .bufferLimit ∨ ∃ k, res = .err (.io k)

theorem IoOrLimit.ne_panic {res : Res Bool} (h : IoOrLimit res) : res ≠ .panic ∧ res ≠ .fuel := by
  rcases h with h | ⟨k, h⟩ <;> rw [h] <;> exact ⟨fun h => (by cases h), fun h => (by cases h)⟩

/-- make space: shift (only if allowed and useful) or grow; the buffer need not be full -/
theorem step1F {inp : List UInt8} {r : Reader} {s : Nat} (mk : Bool) (hw : WinR inp r)
    (hs : ScanSt inp r s) :
    ∃ r1 res, step1 mk r = (r1, res) ∧
      r1.pol.f = r.pol.f ∧ WinR inp r1 ∧ ScanSt inp r1 s ∧ r1.state = r.state ∧ r1.line = r.line ∧
      r1.byte = r.byte ∧ r1.br.src.cursor = r.br.src.cursor ∧
      (mk = false → base r1 = base r ∧ r1.br.buf = r.br.buf) ∧
      ((res = .ok () ∧ r1.br.buf.length < r1.br.cap) ∨ res = .err .bufferLimit) := by
  have hcap3 := hw.b.cap_ge
  unfold step1
  by_cases hc : (!mk || decide (r.bp.start = 0)) = true
  · rw [if_pos hc]
    cases hn : r.pol.f (r.pol.hist ++ [r.br.cap]) with
    | none =>
      refine ⟨_, _, grow_refuse hn, rfl, ⟨hw.b, hw.pol⟩, ?_, rfl, rfl, rfl, rfl,
        fun _ => ⟨rfl, rfl⟩, Or.inr rfl⟩
      exact scanSt_of_br hs rfl rfl rfl (Nat.le_refl _)
    | some n =>
      have hlt : r.br.cap < n := hw.pol _ _ _ (by omega) hn
      obtain ⟨hwb, hbase⟩ := reserve_winF hw.b (n - r.br.cap)
      refine ⟨_, _, grow_answer hn (by omega), rfl,
        ⟨hwb, hw.pol⟩, ?_, rfl, rfl, rfl, by show (r.br.reserve _).src.cursor = _; rw [reserve_src],
        fun _ => ⟨hbase, reserve_buf _ _⟩, Or.inl ⟨rfl, ?_⟩⟩
      · exact scanSt_of_br hs hbase rfl rfl (by show r.br.buf.length ≤ (r.br.reserve _).buf.length; rw [reserve_buf]; exact Nat.le_refl _)
      · show (r.br.reserve _).buf.length < (r.br.reserve _).cap
        have hlc := hw.b.len_cap
        have hge := reserve_cap_ge r.br (n - r.br.cap)
        rw [reserve_buf]
        by_cases hfull : r.br.cap ≤ r.br.buf.length
        · have := reserve_cap_gt r.br (n - r.br.cap) hfull (by omega)
          omega
        · omega
  · rw [if_neg hc]
    have hmk : mk = true := by
      cases mk with
      | true => rfl
      | false => simp at hc
    have h0 : r.bp.start ≠ 0 := by
      intro h; rw [hmk, h] at hc; simp at hc
    obtain ⟨r1, hm, hw1, hs1, hst, hlen, hcap, hcur, hl, hb, hlog, hpol⟩ := makeRoom_scanStF hw hs
    refine ⟨r1, .ok (), by rw [hm], by rw [hpol], hw1, hs1, hst, hl, hb, hcur,
      (fun h => by rw [hmk] at h; cases h), Or.inl ⟨rfl, ?_⟩⟩
    have := hw.b.len_cap
    rw [hlen, hcap]; omega

/-- `resume_incomplete_search` with an arbitrary script: the pending record is found completely,
or the policy refuses, or a refill fails; in the last two cases the record is still pending. -/
theorem resumeF {inp : List UInt8} (mk : Bool) : ∀ (fuel : Nat) (r : Reader) (s : Nat),
    WinR inp r → ScanSt inp r s → r.state = .incomplete → inp.length - r.br.src.cursor < fuel →
    ∃ r' res, resume fuel mk r = (r', res) ∧ r'.pol.f = r.pol.f ∧ WinR inp r' ∧ r'.line = r.line ∧
      r'.byte = r.byte ∧
      (mk = false → base r' = base r ∧ r.br.buf.length ≤ r'.br.buf.length) ∧
      ((res = .ok true ∧ Eof inp r' ∧ RecDone inp r' s ∧
          (r'.state = .incomplete ∨ r'.state = .finished) ∧ r'.bp.start ≤ r'.searchPos) ∨
       (IoOrLimit res ∧ ScanSt inp r' s ∧ r'.state = .incomplete)) := by
  intro fuel
  induction fuel with
  | zero => intro r s _ _ _ h; omega
  | succ f ih =>
    intro r s hw hs hst hfuel
    obtain ⟨r1, res1, hstep, hpf1, hw1, hs1, hst1, hl1, hb1, hcur1, hmk1, hcase⟩ := step1F mk hw hs
    rw [resume_unfold, hstep]
    rcases hcase with ⟨hres1, hlt1⟩ | hres1
    · subst hres1
      simp only
      have hmkT : ∀ br2 : BufRd, baseB br2 = baseB r1.br → r1.br.buf.length ≤ br2.buf.length →
          mk = false → baseB br2 = base r ∧ r.br.buf.length ≤ br2.buf.length := by
        intro br2 hb2 hl2 h
        obtain ⟨h1, h2⟩ := hmk1 h
        exact ⟨by rw [hb2]; exact h1, by rw [← h2]; exact hl2⟩
      rcases fill_winF hw1.b with ⟨br2, n, hfill, hwb2, heof2, hbase2, hcap2, hlen2, hcur2, hn, _⟩ |
        ⟨br2, k, hfill, hwb2, hbase2, hcap2, hlen2, _, _⟩
      · rw [hfill]
        simp only
        have hw2 : WinR inp { r1 with br := br2 } := ⟨hwb2, hw1.pol⟩
        have hs2 : ScanSt inp { r1 with br := br2 } s :=
          scanSt_of_br hs1 hbase2 rfl rfl (by show r1.br.buf.length ≤ br2.buf.length; omega)
        have hst2 : ({ r1 with br := br2 } : Reader).state ≠ .finished := by
          show r1.state ≠ .finished
          rw [hst1, hst]; intro h; cases h
        obtain ⟨r3, fnd, hsearch, hbr3, hpol3, hlog3, hl3, hb3, hstart3, htrue, hfalse⟩ :=
          search_stepF (r := { r1 with br := br2 }) hwb2 heof2 hs2 hst2
        rw [hsearch]
        have hw3 : WinR inp r3 := ⟨by rw [hbr3]; exact hwb2, by rw [hpol3]; exact hw1.pol⟩
        have hpf3 : r3.pol.f = r.pol.f := by rw [hpol3]; exact hpf1
        have hmk3 : mk = false → base r3 = base r ∧ r.br.buf.length ≤ r3.br.buf.length := by
          intro h
          have := hmkT br2 hbase2 (by omega) h
          exact ⟨by show baseB r3.br = _; rw [hbr3]; exact this.1, by rw [hbr3]; exact this.2⟩
        obtain ⟨hmono3, hstart3'⟩ := search_mono hsearch hs2.sp_le
        cases fnd with
        | true =>
          obtain ⟨hdone, hstate⟩ := htrue rfl
          refine ⟨r3, .ok true, rfl, hpf3, hw3, by rw [hl3]; exact hl1, by rw [hb3]; exact hb1, hmk3,
            Or.inl ⟨rfl, by unfold Eof; rw [hbr3]; exact heof2, hdone, ?_, ?_⟩⟩
          · rcases hstate with h | h
            · left; rw [h]; show r1.state = _; rw [hst1, hst]
            · right; exact h
          · have e1 : r1.bp.start ≤ r1.searchPos := hs1.start_le
            have e2 : r1.searchPos ≤ r3.searchPos := hmono3
            have e3 : r3.bp.start = r1.bp.start := hstart3'
            omega
        | false =>
          obtain ⟨hs3, hst3, hfull3, hnear3⟩ := hfalse rfl
          have hfull3' : br2.cap ≤ br2.buf.length := hfull3
          have hcl := hw1.b.cur_le
          obtain ⟨r', res', hres', hpf', hw', hl', hb', hmk', hcase'⟩ := ih r3 s hw3 hs3 hst3
            (by rw [hbr3, hcur2]; omega)
          refine ⟨r', res', hres', by rw [hpf', hpf3], hw', by rw [hl', hl3]; exact hl1,
            by rw [hb', hb3]; exact hb1, ?_, hcase'⟩
          intro h
          obtain ⟨h1, h2⟩ := hmk3 h
          obtain ⟨h3, h4⟩ := hmk' h
          exact ⟨by rw [h3, h1], by omega⟩
      · rw [hfill]
        simp only
        refine ⟨{ r1 with br := br2 }, _, rfl, hpf1, ⟨hwb2, hw1.pol⟩, hl1, hb1, ?_,
          Or.inr ⟨Or.inr ⟨k, rfl⟩, scanSt_of_br hs1 hbase2 rfl rfl hlen2, by show r1.state = _; rw [hst1, hst]⟩⟩
        intro h
        exact hmkT br2 hbase2 hlen2 h
    · subst hres1
      refine ⟨r1, _, rfl, hpf1, hw1, hl1, hb1, ?_, Or.inr ⟨Or.inl rfl, hs1, by rw [hst1, hst]⟩⟩
      intro h
      obtain ⟨h1, h2⟩ := hmk1 h
      exact ⟨h1, by rw [h2]; exact Nat.le_refl _⟩

end SeqIo.Fasta.Hist
