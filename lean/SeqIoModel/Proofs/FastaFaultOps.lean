import SeqIoModel.Proofs.FastaFaultSim
/-!
# Source failures, part 2: the reader operations of the two machines side by side
-/
open SeqIo SeqIo.FillProofs SeqIo.Spec

namespace SeqIo.Fasta.Fault

/-- the reader with another script -/
def rws (r : Reader) (s : List ReadEv) : Reader := { r with br := bws r.br s }

@[simp] theorem rws_br (r : Reader) (s : List ReadEv) : (rws r s).br = bws r.br s := rfl
@[simp] theorem rws_state (r : Reader) (s : List ReadEv) : (rws r s).state = r.state := rfl
@[simp] theorem rws_bp (r : Reader) (s : List ReadEv) : (rws r s).bp = r.bp := rfl
@[simp] theorem rws_searchPos (r : Reader) (s : List ReadEv) : (rws r s).searchPos = r.searchPos := rfl
@[simp] theorem rws_line (r : Reader) (s : List ReadEv) : (rws r s).line = r.line := rfl
@[simp] theorem rws_byte (r : Reader) (s : List ReadEv) : (rws r s).byte = r.byte := rfl
@[simp] theorem rws_pol (r : Reader) (s : List ReadEv) : (rws r s).pol = r.pol := rfl
@[simp] theorem rws_log (r : Reader) (s : List ReadEv) : (rws r s).log = r.log := rfl
@[simp] theorem rws_rws (r : Reader) (s t : List ReadEv) : rws (rws r s) t = rws r t := rfl

/-! ## operations that do not read the source commute with a change of the script -/

theorem search__rws (r : Reader) (s : List ReadEv) :
    search_ (rws r s) = (search_ r).map fun q => (rws q.1 s, q.2) := by
  by_cases h : r.searchPos ≤ r.br.buf.length
  · have h' : (rws r s).searchPos ≤ (rws r s).br.buf.length := h
    simp only [search_, h, h', if_true, Option.map_some]
    rfl
  · have h' : ¬ (rws r s).searchPos ≤ (rws r s).br.buf.length := h
    simp only [search_, h, h', if_false, Option.map_none]

theorem search_rws (r : Reader) (s : List ReadEv) :
    search (rws r s) = (search r).map fun q => (rws q.1 s, q.2) := by
  unfold search
  rw [search__rws]
  cases search_ r with
  | none => rfl
  | some q =>
    obtain ⟨r1, f⟩ := q
    cases f with
    | true => rfl
    | false =>
      simp only [Option.map_some]
      by_cases h : r1.br.buf.length < r1.br.cap
      · have h' : (rws r1 s).br.buf.length < (rws r1 s).br.cap := h
        simp only [h, h', if_true, Option.map_some]
        rfl
      · have h' : ¬ (rws r1 s).br.buf.length < (rws r1 s).br.cap := h
        simp only [h, h', if_false, Option.map_some]
        rfl

theorem reserve_bws (b : BufRd) (a : Nat) (s : List ReadEv) :
    (bws b s).reserve a = bws (b.reserve a) s := by
  unfold BufRd.reserve
  simp only [bws_cap, bws_buf]
  by_cases h1 : a ≤ b.cap - b.buf.length
  · simp only [h1, if_true]
  · simp only [h1, if_false]
    by_cases h2 : b.buf.isEmpty = true
    · simp only [h2, if_true]; rfl
    · simp only [h2]; rfl

theorem grow_rws (r : Reader) (s : List ReadEv) :
    grow (rws r s) = (rws (grow r).1 s, (grow r).2) := by
  have hpol : (rws r s).pol = r.pol := rfl
  have hcap : (rws r s).br.cap = r.br.cap := rfl
  cases hn : r.pol.f (r.pol.hist ++ [r.br.cap]) with
  | none =>
    rw [Hist.grow_refuse hn, Hist.grow_refuse (r := rws r s) (by rw [hpol, hcap]; exact hn)]
    rfl
  | some n =>
    by_cases hle : r.br.cap ≤ n
    · rw [Hist.grow_answer hn hle, Hist.grow_answer (r := rws r s) (by rw [hpol, hcap]; exact hn) hle]
      simp only [rws, reserve_bws]
      rfl
    · simp only [grow, Pol.growTo, hn, csub, hle, if_false, hpol, hcap]
      rfl

theorem makeRoom_rws (r : Reader) (s : List ReadEv) :
    makeRoom (rws r s) = (makeRoom r).map (rws · s) := by
  unfold makeRoom
  simp only [rws_searchPos, rws_bp]
  cases csub r.searchPos r.bp.start with
  | none => rfl
  | some sp =>
    cases mapSub r.bp.start r.bp.seqPos with
    | none => rfl
    | some sq => rfl

theorem step1_grow (mk : Bool) (r : Reader) (h : (!mk || decide (r.bp.start = 0)) = true) :
    Hist.step1 mk r = grow r := by
  unfold Hist.step1
  rw [if_pos h]

theorem step1_room (mk : Bool) (r : Reader) (h : ¬ (!mk || decide (r.bp.start = 0)) = true) :
    Hist.step1 mk r = match makeRoom r with
      | some r' => (r', .ok ())
      | none => (r, .panic) := by
  unfold Hist.step1
  rw [if_neg h]
  rfl

theorem step1_rws (mk : Bool) (r : Reader) (s : List ReadEv) :
    Hist.step1 mk (rws r s) = (rws (Hist.step1 mk r).1 s, (Hist.step1 mk r).2) := by
  by_cases hc : (!mk || decide (r.bp.start = 0)) = true
  · rw [step1_grow mk r hc, step1_grow mk (rws r s) hc]
    exact grow_rws r s
  · rw [step1_room mk r hc, step1_room mk (rws r s) hc, makeRoom_rws]
    cases makeRoom r <;> rfl

theorem incrementRecord_rws (r : Reader) (s : List ReadEv) :
    incrementRecord (rws r s) = (incrementRecord r).map (rws · s) := by
  unfold incrementRecord
  simp only [rws_searchPos, rws_bp]
  cases csub r.searchPos r.bp.start with
  | none => rfl
  | some d => rfl

theorem storeStep_rws (n : Option Nat) (r : Reader) (rs : RecordSet) (s : List ReadEv) :
    storeStep n (rws r s) rs = (storeStep n r rs).map fun q => (rws q.1 s, q.2) := by
  unfold storeStep
  simp only [incrementRecord_rws, rws_bp]
  cases incrementRecord r <;> rfl

/-! ## operations that do not read the source do not touch it either -/

theorem search_br {r r' : Reader} {f : Bool} (h : search r = some (r', f)) : r'.br = r.br := by
  unfold search search_ at h
  split at h
  · cases h
  · rename_i r1 heq
    split at heq
    · simp only [Option.some.injEq, Prod.mk.injEq] at heq h
      obtain ⟨rfl, _⟩ := heq
      obtain ⟨rfl, _⟩ := h
      rfl
    · cases heq
  · rename_i r1 heq
    split at heq
    · simp only [Option.some.injEq, Prod.mk.injEq] at heq
      obtain ⟨rfl, _⟩ := heq
      split at h
      · simp only [Option.some.injEq, Prod.mk.injEq] at h
        obtain ⟨rfl, _⟩ := h
        rfl
      · simp only [Option.some.injEq, Prod.mk.injEq] at h
        obtain ⟨rfl, _⟩ := h
        rfl
    · cases heq

theorem grow_src (r : Reader) : (grow r).1.br.src = r.br.src := by
  unfold grow
  simp only
  split
  · rfl
  · split
    · rfl
    · exact reserve_src _ _

theorem step1_src (mk : Bool) (r : Reader) : (Hist.step1 mk r).1.br.src = r.br.src := by
  unfold Hist.step1
  split
  · exact grow_src r
  · cases hm : makeRoom r with
    | none => rfl
    | some r' =>
      unfold makeRoom at hm
      simp only at hm
      split at hm
      · simp only [Option.some.injEq] at hm
        subst hm
        rfl
      · cases hm

/-! ## operations that read the source -/

/-- `x'` is what the clean machine gets where the failing machine gets `x`: the same, unless the
failing machine reports the first failing event -/
def SimR (p : Par) {α : Type} (x x' : Reader × Res α) : Prop :=
  (∃ y, NoFail y ∧ x.1.br.src.script = y ++ p.tail ∧ x' = (rws x.1 (y ++ p.T), x.2)) ∨
  x.2 = .err (.io p.k)

theorem firstByte_sim (p : Par) : ∀ (fu : Nat) (r : Reader) (y : List ReadEv), NoFail y →
    r.br.src.script = y ++ p.tail →
    SimR p (firstByte fu r) (firstByte fu (rws r (y ++ p.T))) := by
  intro fu
  induction fu with
  | zero => intro r y hy hs; exact Or.inl ⟨y, hy, hs, rfl⟩
  | succ f ih =>
    intro r y hy hs
    rcases fillBuf_sim p r.br y hy hs with ⟨b', y', n, hy', hs', h1, h2⟩ | ⟨b', h1⟩
    · have h2' : fillBuf (rws r (y ++ p.T)).br = (bws b' (y' ++ p.T), .ok n) := h2
      by_cases hn0 : n = 0
      · subst hn0
        rw [firstByte_succ_zero f r b' h1, firstByte_succ_zero f _ _ h2']
        exact Or.inl ⟨y', hy', hs', rfl⟩
      · rw [firstByte_succ_ok f r b' n hn0 h1, firstByte_succ_ok f _ _ n hn0 h2']
        simp only [bws_buf, rws_line]
        cases scanBlank (splitLF b'.buf) r.line 0 0 with
        | inl x => exact Or.inl ⟨y', hy', hs', rfl⟩
        | inr x =>
          obtain ⟨ln, pos, ll⟩ := x
          simp only
          cases csub pos (1 + ll) with
          | none => exact Or.inl ⟨y', hy', hs', rfl⟩
          | some c =>
            cases csub ln 1 with
            | none => exact Or.inl ⟨y', hy', hs', rfl⟩
            | some l1 =>
              exact ih { r with line := l1, byte := r.byte + c, br := b'.consume c } y' hy' hs'
    · rw [Hist.firstByte_succ_err f r b' p.k h1]
      exact Or.inr rfl

theorem init_sim (p : Par) (fu : Nat) (r : Reader) (y : List ReadEv) (hy : NoFail y)
    (hs : r.br.src.script = y ++ p.tail) :
    SimR p (init fu r) (init fu (rws r (y ++ p.T))) := by
  unfold init
  rcases firstByte_sim p fu r y hy hs with ⟨y', hy', hs', h⟩ | h
  · rw [h]
    rcases hfb : firstByte fu r with ⟨r1, res⟩
    rw [hfb] at hs'
    simp only
    cases res with
    | ok o =>
      cases o with
      | none => exact Or.inl ⟨y', hy', hs', rfl⟩
      | some x =>
        obtain ⟨ln, pos, b⟩ := x
        simp only
        split
        · exact Or.inl ⟨y', hy', hs', rfl⟩
        · exact Or.inl ⟨y', hy', hs', rfl⟩
    | err e => exact Or.inl ⟨y', hy', hs', rfl⟩
    | panic => exact Or.inl ⟨y', hy', hs', rfl⟩
    | fuel => exact Or.inl ⟨y', hy', hs', rfl⟩
  · rcases hfb : firstByte fu r with ⟨r1, res⟩
    rw [hfb] at h
    simp only at h
    subst h
    exact Or.inr rfl

theorem resume_sim (p : Par) (mk : Bool) : ∀ (fu : Nat) (r : Reader) (y : List ReadEv), NoFail y →
    r.br.src.script = y ++ p.tail →
    SimR p (resume fu mk r) (resume fu mk (rws r (y ++ p.T))) := by
  intro fu
  induction fu with
  | zero => intro r y hy hs; exact Or.inl ⟨y, hy, hs, rfl⟩
  | succ f ih =>
    intro r y hy hs
    rw [Hist.resume_unfold, Hist.resume_unfold, step1_rws]
    have hs1 : (Hist.step1 mk r).1.br.src.script = y ++ p.tail := by
      rw [step1_src]; exact hs
    rcases hst : Hist.step1 mk r with ⟨r1, res1⟩
    rw [hst] at hs1
    simp only at hs1 ⊢
    cases res1 with
    | ok u =>
      simp only
      rcases fillBuf_sim p r1.br y hy hs1 with ⟨b', y', n, hy', hs', h1, h2⟩ | ⟨b', h1⟩
      · have h2' : fillBuf (rws r1 (y ++ p.T)).br = (bws b' (y' ++ p.T), .ok n) := h2
        rw [h1, h2']
        simp only
        have : ({ rws r1 (y ++ p.T) with br := bws b' (y' ++ p.T) } : Reader) =
            rws { r1 with br := b' } (y' ++ p.T) := rfl
        rw [this, search_rws]
        cases hsr : search { r1 with br := b' } with
        | none => exact Or.inl ⟨y, hy, hs1, rfl⟩
        | some q =>
          obtain ⟨r2, fnd⟩ := q
          have hs2 : r2.br.src.script = y' ++ p.tail := by
            rw [search_br hsr]; exact hs'
          cases fnd with
          | true => exact Or.inl ⟨y', hy', hs2, rfl⟩
          | false => exact ih r2 y' hy' hs2
      · rw [h1]
        exact Or.inr rfl
    | err e => exact Or.inl ⟨y, hy, hs1, rfl⟩
    | panic => exact Or.inl ⟨y, hy, hs1, rfl⟩
    | fuel => exact Or.inl ⟨y, hy, hs1, rfl⟩

/-- the part of `nextCont` behind the first `search` -/
def nextTail (fu : Nat) (r1 : Reader) : Reader × Res Bool :=
  if r1.state = .incomplete then
    match resume fu true r1 with
    | (r2, .ok true) => (if r2.state ≠ .finished then { r2 with state := .parsing } else r2, .ok true)
    | (r2, o) => (r2, o)
  else (r1, .ok true)

theorem nextCont_eq (fu : Nat) (r : Reader) :
    nextCont fu r =
      match (if r.state ≠ .incomplete then (search r).map (·.1) else some r) with
      | none => (r, .panic)
      | some r1 => nextTail fu r1 := rfl

theorem nextTail_sim (p : Par) (fu : Nat) (r1 : Reader) (y : List ReadEv) (hy : NoFail y)
    (hs1 : r1.br.src.script = y ++ p.tail) :
    SimR p (nextTail fu r1) (nextTail fu (rws r1 (y ++ p.T))) := by
  unfold nextTail
  by_cases hinc : r1.state = .incomplete
  · have hinc' : (rws r1 (y ++ p.T)).state = .incomplete := hinc
    rw [if_pos hinc, if_pos hinc']
    rcases resume_sim p true fu r1 y hy hs1 with ⟨y', hy', hs', h⟩ | h
    · rw [h]
      rcases hres : resume fu true r1 with ⟨r2, res⟩
      rw [hres] at hs'
      simp only at hs' ⊢
      cases res with
      | ok b =>
        cases b with
        | true =>
          simp only
          by_cases hf : r2.state = .finished
          · have hf' : (rws r2 (y' ++ p.T)).state = .finished := hf
            rw [if_neg (by rw [hf]; simp), if_neg (by rw [hf']; simp)]
            exact Or.inl ⟨y', hy', hs', rfl⟩
          · have hf' : (rws r2 (y' ++ p.T)).state ≠ .finished := hf
            rw [if_pos hf, if_pos hf']
            exact Or.inl ⟨y', hy', hs', rfl⟩
        | false => exact Or.inl ⟨y', hy', hs', rfl⟩
      | err e => exact Or.inl ⟨y', hy', hs', rfl⟩
      | panic => exact Or.inl ⟨y', hy', hs', rfl⟩
      | fuel => exact Or.inl ⟨y', hy', hs', rfl⟩
    · rcases hres : resume fu true r1 with ⟨r2, res⟩
      rw [hres] at h
      simp only at h
      subst h
      exact Or.inr rfl
  · have hinc' : ¬ (rws r1 (y ++ p.T)).state = .incomplete := hinc
    rw [if_neg hinc, if_neg hinc']
    exact Or.inl ⟨y, hy, hs1, rfl⟩

theorem nextCont_sim (p : Par) (fu : Nat) (r : Reader) (y : List ReadEv) (hy : NoFail y)
    (hs : r.br.src.script = y ++ p.tail) :
    SimR p (nextCont fu r) (nextCont fu (rws r (y ++ p.T))) := by
  rw [nextCont_eq, nextCont_eq]
  by_cases hinc : r.state = .incomplete
  · have hinc' : (rws r (y ++ p.T)).state = .incomplete := hinc
    rw [if_neg (by rw [hinc]; simp), if_neg (by rw [hinc']; simp)]
    exact nextTail_sim p fu r y hy hs
  · have hinc' : (rws r (y ++ p.T)).state ≠ .incomplete := hinc
    rw [if_pos hinc, if_pos hinc', search_rws]
    cases hsr : search r with
    | none => exact Or.inl ⟨y, hy, hs, rfl⟩
    | some q =>
      obtain ⟨r1, f⟩ := q
      have hs1 : r1.br.src.script = y ++ p.tail := by rw [search_br hsr]; exact hs
      exact nextTail_sim p fu r1 y hy hs1

theorem next_sim (p : Par) (fu : Nat) (r : Reader) (y : List ReadEv) (hy : NoFail y)
    (hs : r.br.src.script = y ++ p.tail) :
    SimR p (next fu r) (next fu (rws r (y ++ p.T))) := by
  unfold next
  simp only [rws_state]
  cases hst : r.state with
  | new =>
    simp only
    rcases init_sim p fu r y hy hs with ⟨y', hy', hs', h⟩ | h
    · rw [h]
      rcases hres : init fu r with ⟨r1, res⟩
      rw [hres] at hs'
      simp only at hs' ⊢
      cases res with
      | ok b =>
        cases b with
        | true => exact nextCont_sim p fu { r1 with state := .parsing } y' hy' hs'
        | false => exact Or.inl ⟨y', hy', hs', rfl⟩
      | err e => exact Or.inl ⟨y', hy', hs', rfl⟩
      | panic => exact Or.inl ⟨y', hy', hs', rfl⟩
      | fuel => exact Or.inl ⟨y', hy', hs', rfl⟩
    · rcases hres : init fu r with ⟨r1, res⟩
      rw [hres] at h
      simp only at h
      subst h
      exact Or.inr rfl
  | positioned => exact nextCont_sim p fu { r with state := .parsing } y hy hs
  | finished => exact Or.inl ⟨y, hy, hs, rfl⟩
  | parsing =>
    simp only [incrementRecord_rws]
    cases hinc : incrementRecord r with
    | none => exact Or.inl ⟨y, hy, hs, rfl⟩
    | some r1 =>
      simp only [Option.map_some]
      have hs1 : r1.br.src.script = y ++ p.tail := by
        unfold incrementRecord at hinc
        split at hinc
        · cases hinc
        · simp only [Option.some.injEq] at hinc
          subst hinc
          exact hs
      exact nextCont_sim p fu r1 y hy hs1
  | incomplete => exact nextCont_sim p fu r y hy hs

/-! ## record set reads -/

def SimR3 (p : Par) (x x' : Reader × RecordSet × Res Bool) : Prop :=
  (∃ y, NoFail y ∧ x.1.br.src.script = y ++ p.tail ∧ x' = (rws x.1 (y ++ p.T), x.2.1, x.2.2)) ∨
  x.2.2 = .err (.io p.k)

/-- store the record and go on -/
def storeK (f fu : Nat) (n : Option Nat) (isNew : Bool) (r : Reader) (rs : RecordSet) :
    Reader × RecordSet × Res Bool :=
  match storeStep n r rs with
  | none => (r, rs, .panic)
  | some (r, rs, true) => (r, rs, .ok true)
  | some (r, rs, false) => setLoop f fu n isNew r rs

/-- the loop behind an unsuccessful `search` -/
def afterMiss (f fu : Nat) (n : Option Nat) (isNew : Bool) (r : Reader) (rs : RecordSet) :
    Reader × RecordSet × Res Bool :=
  if rs.npos = 0 then setLoop f fu n isNew r rs
  else match n with
    | some n' => if rs.npos < n' then setLoop f fu n false r rs else (r, rs, .ok true)
    | none => (r, rs, .ok true)

theorem setLoop_eq (f fu : Nat) (n : Option Nat) (isNew : Bool) (r : Reader) (rs : RecordSet) :
    setLoop (f + 1) fu n isNew r rs =
      if r.state = .finished then (r, rs, .ok true)
      else if r.state = .incomplete then
        match resume fu isNew r with
        | (r, .ok true) =>
          storeK f fu n isNew (if r.state ≠ .finished then { r with state := .positioned } else r) rs
        | (r, .ok false) => (r, rs, .ok false)
        | (r, .err e) => (r, { rs with npos := 0 }, .err e)
        | (r, .panic) => (r, rs, .panic)
        | (r, .fuel) => (r, rs, .fuel)
      else
        match search r with
        | none => (r, rs, .panic)
        | some (r, false) => afterMiss f fu n isNew r rs
        | some (r, true) => storeK f fu n isNew r rs := by
  rw [Hist.setLoop_unfold]
  rfl

theorem incrementRecord_src {r r1 : Reader} (h : incrementRecord r = some r1) : r1.br = r.br := by
  unfold incrementRecord at h
  split at h
  · cases h
  · simp only [Option.some.injEq] at h
    subst h
    rfl

theorem setLoop_sim (p : Par) (fu : Nat) (n : Option Nat) : ∀ (f : Nat) (isNew : Bool) (r : Reader)
    (rs : RecordSet) (y : List ReadEv), NoFail y → r.br.src.script = y ++ p.tail →
    SimR3 p (setLoop f fu n isNew r rs) (setLoop f fu n isNew (rws r (y ++ p.T)) rs) := by
  intro f
  induction f with
  | zero => intro isNew r rs y hy hs; exact Or.inl ⟨y, hy, hs, rfl⟩
  | succ f ih =>
    intro isNew r rs y hy hs
    have hstore : ∀ (r1 : Reader) (y1 : List ReadEv), NoFail y1 → r1.br.src.script = y1 ++ p.tail →
        SimR3 p (storeK f fu n isNew r1 rs) (storeK f fu n isNew (rws r1 (y1 ++ p.T)) rs) := by
      intro r1 y1 hy1 hs1
      unfold storeK
      rw [storeStep_rws]
      cases hss : storeStep n r1 rs with
      | none => exact Or.inl ⟨y1, hy1, hs1, rfl⟩
      | some q =>
        obtain ⟨r2, rs2, b⟩ := q
        have hs2 : r2.br.src.script = y1 ++ p.tail := by
          unfold storeStep at hss
          simp only at hss
          split at hss
          · cases hss
          · rename_i r3 hinc
            simp only [Option.some.injEq, Prod.mk.injEq] at hss
            obtain ⟨rfl, _⟩ := hss
            rw [incrementRecord_src hinc]; exact hs1
        cases b with
        | true => exact Or.inl ⟨y1, hy1, hs2, rfl⟩
        | false => exact ih isNew r2 rs2 y1 hy1 hs2
    rw [setLoop_eq, setLoop_eq]
    by_cases hfin : r.state = .finished
    · have hfin' : (rws r (y ++ p.T)).state = .finished := hfin
      rw [if_pos hfin, if_pos hfin']
      exact Or.inl ⟨y, hy, hs, rfl⟩
    · have hfin' : ¬ (rws r (y ++ p.T)).state = .finished := hfin
      rw [if_neg hfin, if_neg hfin']
      by_cases hinc : r.state = .incomplete
      · have hinc' : (rws r (y ++ p.T)).state = .incomplete := hinc
        rw [if_pos hinc, if_pos hinc']
        rcases resume_sim p isNew fu r y hy hs with ⟨y', hy', hs', h⟩ | h
        · rw [h]
          rcases hres : resume fu isNew r with ⟨r2, res⟩
          rw [hres] at hs'
          simp only at hs' ⊢
          cases res with
          | ok b =>
            cases b with
            | true =>
              simp only
              by_cases hf : r2.state = .finished
              · have hf' : (rws r2 (y' ++ p.T)).state = .finished := hf
                rw [if_neg (by rw [hf]; simp), if_neg (by rw [hf']; simp)]
                exact hstore r2 y' hy' hs'
              · have hf' : (rws r2 (y' ++ p.T)).state ≠ .finished := hf
                rw [if_pos hf, if_pos hf']
                exact hstore { r2 with state := .positioned } y' hy' hs'
            | false => exact Or.inl ⟨y', hy', hs', rfl⟩
          | err e => exact Or.inl ⟨y', hy', hs', rfl⟩
          | panic => exact Or.inl ⟨y', hy', hs', rfl⟩
          | fuel => exact Or.inl ⟨y', hy', hs', rfl⟩
        · rcases hres : resume fu isNew r with ⟨r2, res⟩
          rw [hres] at h
          simp only at h
          subst h
          exact Or.inr rfl
      · have hinc' : ¬ (rws r (y ++ p.T)).state = .incomplete := hinc
        rw [if_neg hinc, if_neg hinc', search_rws]
        cases hsr : search r with
        | none => exact Or.inl ⟨y, hy, hs, rfl⟩
        | some q =>
          obtain ⟨r1, fnd⟩ := q
          have hs1 : r1.br.src.script = y ++ p.tail := by rw [search_br hsr]; exact hs
          cases fnd with
          | true => exact hstore r1 y hy hs1
          | false =>
            show SimR3 p (afterMiss f fu n isNew r1 rs) (afterMiss f fu n isNew (rws r1 (y ++ p.T)) rs)
            unfold afterMiss
            by_cases h0 : rs.npos = 0
            · rw [if_pos h0, if_pos h0]
              exact ih isNew r1 rs y hy hs1
            · rw [if_neg h0, if_neg h0]
              cases n with
              | none => exact Or.inl ⟨y, hy, hs1, rfl⟩
              | some n' =>
                simp only
                by_cases hlt : rs.npos < n'
                · rw [if_pos hlt, if_pos hlt]
                  exact ih false r1 rs y hy hs1
                · rw [if_neg hlt, if_neg hlt]
                  exact Or.inl ⟨y, hy, hs1, rfl⟩

/-- first part of `read_record_set_exact`: get to the start of a record -/
def setPre (fu : Nat) (r : Reader) : Reader × Res Bool :=
  match r.state with
  | .new =>
    match init fu r with
    | (r, .ok true) => ({ r with state := .positioned }, .ok true)
    | x => x
  | .finished => (r, .ok false)
  | .parsing =>
    match incrementRecord r with
    | some r => ({ r with state := .positioned }, .ok true)
    | none => (r, .panic)
  | .positioned => (r, .ok true)
  | .incomplete => (r, .ok true)

/-- second part: the loop and the copy of the buffer -/
def setPost (fu : Nat) (n : Option Nat) (rs : RecordSet) (pre : Reader × Res Bool) :
    Reader × RecordSet × Res Bool :=
  match pre with
  | (r, .ok true) =>
    match setLoop fu fu n true r { rs with npos := 0 } with
    | (r, rs, .ok true) => (r, { rs with buffer := r.br.buf }, .ok true)
    | x => x
  | (r, .ok false) => (r, rs, .ok false)
  | (r, .err e) => (r, rs, .err e)
  | (r, .panic) => (r, rs, .panic)
  | (r, .fuel) => (r, rs, .fuel)

theorem readSet_eq (fu : Nat) (r : Reader) (rs : RecordSet) (n : Option Nat) :
    readRecordSetExact fu r rs n = setPost fu n rs (setPre fu r) := rfl

theorem setPre_sim (p : Par) (fu : Nat) (r : Reader) (y : List ReadEv) (hy : NoFail y)
    (hs : r.br.src.script = y ++ p.tail) :
    SimR p (setPre fu r) (setPre fu (rws r (y ++ p.T))) := by
  unfold setPre
  simp only [rws_state]
  cases hst : r.state with
  | new =>
    simp only
    rcases init_sim p fu r y hy hs with ⟨y', hy', hs', h⟩ | h
    · rw [h]
      rcases hres : init fu r with ⟨r1, res⟩
      rw [hres] at hs'
      simp only at hs' ⊢
      cases res with
      | ok b =>
        cases b with
        | true => exact Or.inl ⟨y', hy', hs', rfl⟩
        | false => exact Or.inl ⟨y', hy', hs', rfl⟩
      | err e => exact Or.inl ⟨y', hy', hs', rfl⟩
      | panic => exact Or.inl ⟨y', hy', hs', rfl⟩
      | fuel => exact Or.inl ⟨y', hy', hs', rfl⟩
    · rcases hres : init fu r with ⟨r1, res⟩
      rw [hres] at h
      simp only at h
      subst h
      exact Or.inr rfl
  | positioned => exact Or.inl ⟨y, hy, hs, rfl⟩
  | finished => exact Or.inl ⟨y, hy, hs, rfl⟩
  | incomplete => exact Or.inl ⟨y, hy, hs, rfl⟩
  | parsing =>
    simp only [incrementRecord_rws]
    cases hinc : incrementRecord r with
    | none => exact Or.inl ⟨y, hy, hs, rfl⟩
    | some r1 =>
      have hs1 : r1.br.src.script = y ++ p.tail := by rw [incrementRecord_src hinc]; exact hs
      exact Or.inl ⟨y, hy, hs1, rfl⟩

theorem readSet_sim (p : Par) (fu : Nat) (r : Reader) (rs : RecordSet) (n : Option Nat)
    (y : List ReadEv) (hy : NoFail y) (hs : r.br.src.script = y ++ p.tail) :
    SimR3 p (readRecordSetExact fu r rs n) (readRecordSetExact fu (rws r (y ++ p.T)) rs n) := by
  rw [readSet_eq, readSet_eq]
  rcases setPre_sim p fu r y hy hs with ⟨y', hy', hs', h⟩ | h
  · rw [h]
    rcases hres : setPre fu r with ⟨r1, res⟩
    rw [hres] at hs'
    simp only at hs' ⊢
    unfold setPost
    cases res with
    | ok b =>
      cases b with
      | true =>
        simp only
        rcases setLoop_sim p fu n fu true r1 { rs with npos := 0 } y' hy' hs' with ⟨y2, hy2, hs2, h2⟩ | h2
        · rw [h2]
          rcases hl : setLoop fu fu n true r1 { rs with npos := 0 } with ⟨r2, rs2, res2⟩
          rw [hl] at hs2
          simp only at hs2 ⊢
          cases res2 with
          | ok b2 =>
            cases b2 with
            | true => exact Or.inl ⟨y2, hy2, hs2, rfl⟩
            | false => exact Or.inl ⟨y2, hy2, hs2, rfl⟩
          | err e => exact Or.inl ⟨y2, hy2, hs2, rfl⟩
          | panic => exact Or.inl ⟨y2, hy2, hs2, rfl⟩
          | fuel => exact Or.inl ⟨y2, hy2, hs2, rfl⟩
        · rcases hl : setLoop fu fu n true r1 { rs with npos := 0 } with ⟨r2, rs2, res2⟩
          rw [hl] at h2
          simp only at h2
          subst h2
          exact Or.inr rfl
      | false => exact Or.inl ⟨y', hy', hs', rfl⟩
    | err e => exact Or.inl ⟨y', hy', hs', rfl⟩
    | panic => exact Or.inl ⟨y', hy', hs', rfl⟩
    | fuel => exact Or.inl ⟨y', hy', hs', rfl⟩
  · rcases hres : setPre fu r with ⟨r1, res⟩
    rw [hres] at h
    simp only at h
    subst h
    exact Or.inr rfl

/-! ## `seek` -/

theorem src_seek_script (src : Src) (to : Nat) (s : List ReadEv) :
    Src.seek { src with script := s } to = ({ (src.seek to).1 with script := s }, (src.seek to).2) := by
  cases hf : src.seekFails.find? (·.1 = src.seekCount) with
  | none => simp only [Src.seek, hf]
  | some q => simp only [Src.seek, hf]

theorem seek_bws (b : BufRd) (to : Nat) (s : List ReadEv) :
    (bws b s).seek to = (bws (b.seek to).1 s, (b.seek to).2) := by
  unfold BufRd.seek
  simp only [bws, src_seek_script]
  rcases b.src.seek to with ⟨src', ok⟩
  cases ok <;> rfl

theorem seek_script (b : BufRd) (to : Nat) : (b.seek to).1.src.script = b.src.script := by
  cases hf : b.src.seekFails.find? (·.1 = b.src.seekCount) with
  | none => simp only [BufRd.seek, Src.seek, hf]
  | some q => simp only [BufRd.seek, Src.seek, hf]

/-- complete a partly filled buffer -/
def seekFill (b : BufRd) : BufRd × Except IoKind Nat :=
  if b.buf.length < b.cap then fillBuf b else (b, .ok 0)

theorem seekFill_sim (p : Par) (b : BufRd) (y : List ReadEv) (hy : NoFail y)
    (hs : b.src.script = y ++ p.tail) :
    (∃ b' y' n, NoFail y' ∧ b'.src.script = y' ++ p.tail ∧ seekFill b = (b', .ok n) ∧
      seekFill (bws b (y ++ p.T)) = (bws b' (y' ++ p.T), .ok n)) ∨
    (∃ b', seekFill b = (b', .error p.k)) := by
  unfold seekFill
  by_cases hc : b.buf.length < b.cap
  · have hc' : (bws b (y ++ p.T)).buf.length < (bws b (y ++ p.T)).cap := hc
    rw [if_pos hc, if_pos hc']
    exact fillBuf_sim p b y hy hs
  · have hc' : ¬ (bws b (y ++ p.T)).buf.length < (bws b (y ++ p.T)).cap := hc
    rw [if_neg hc, if_neg hc']
    exact Or.inl ⟨b, y, 0, hy, hs, rfl, rfl⟩

/-- in-buffer branch of `seek` -/
def seekIn (r : Reader) (l b : Nat) : Reader × Res Unit :=
  let pos : Int := (r.bp.start : Int) + ((b : Int) - (r.byte : Int))
  match seekFill r.br with
  | (br, .error k) => ({ r with br := br }, .err (.io k))
  | (br, .ok _) =>
    ({ r with br := br, line := l, byte := b, state := .positioned, searchPos := pos.toNat,
              bp := { start := pos.toNat, seqPos := [] } }, .ok ())

/-- the branch of `seek` that seeks in the source -/
def seekOut (r : Reader) (l b : Nat) : Reader × Res Unit :=
  match r.br.seek b with
  | (br, some k) => ({ r with br := br }, .err (.io k))
  | (br, none) =>
    let r := { r with br := br, line := l, byte := b, searchPos := 0,
                      bp := { start := 0, seqPos := [] }, state := .finished }
    match fillBuf br with
    | (br, .error k) => ({ r with br := br }, .err (.io k))
    | (br, .ok _) => ({ r with br := br, state := .positioned }, .ok ())

def seekCond (r : Reader) (b : Nat) : Prop :=
  0 ≤ (r.bp.start : Int) + ((b : Int) - (r.byte : Int)) ∧
    (r.bp.start : Int) + ((b : Int) - (r.byte : Int)) < (r.br.buf.length : Int)

instance (r : Reader) (b : Nat) : Decidable (seekCond r b) := by unfold seekCond; infer_instance

theorem seek_eq (r : Reader) (l b : Nat) :
    seek r l b = if seekCond r b then seekIn r l b else seekOut r l b := by
  rfl

theorem seek_eq_rws (r : Reader) (l b : Nat) (s : List ReadEv) :
    seek (rws r s) l b = if seekCond r b then seekIn (rws r s) l b else seekOut (rws r s) l b := by
  rw [seek_eq]
  rfl

theorem seek_sim (p : Par) (r : Reader) (l b : Nat) (y : List ReadEv) (hy : NoFail y)
    (hs : r.br.src.script = y ++ p.tail) :
    SimR p (seek r l b) (seek (rws r (y ++ p.T)) l b) := by
  rw [seek_eq, seek_eq_rws]
  by_cases hin : seekCond r b
  · rw [if_pos hin, if_pos hin]
    unfold seekIn
    simp only [rws_br]
    rcases seekFill_sim p r.br y hy hs with ⟨b', y', n, hy', hs', h1, h2⟩ | ⟨b', h1⟩
    · rw [h1, h2]
      exact Or.inl ⟨y', hy', hs', rfl⟩
    · rw [h1]
      exact Or.inr rfl
  · rw [if_neg hin, if_neg hin]
    unfold seekOut
    simp only [rws_br, seek_bws]
    have hss := seek_script r.br b
    rcases hsk : r.br.seek b with ⟨b1, ok⟩
    rw [hsk] at hss
    simp only at hss ⊢
    cases ok with
    | some kk => exact Or.inl ⟨y, hy, by rw [← hs]; exact hss, rfl⟩
    | none =>
      simp only
      rcases fillBuf_sim p b1 y hy (by rw [hss]; exact hs) with ⟨b', y', n, hy', hs', h1, h2⟩ | ⟨b', h1⟩
      · rw [h1, h2]
        exact Or.inl ⟨y', hy', hs', rfl⟩
      · rw [h1]
        exact Or.inr rfl

end SeqIo.Fasta.Fault
