import SeqIoModel.Proofs.AbstractReader
import SeqIoModel.Proofs.FastaHistory
import SeqIoModel.Proofs.FastqHistorySeek
/-!
# Histories whose outcome the abstract reader fixes completely

For single reads, owned reads and seeks to record positions the abstract reader A accepts exactly one
observation per step.  Two runs of the concrete machine that are both accepted (any two
configurations, by the refinement theorems) therefore show the caller the same thing.
-/

namespace SeqIo.Fasta.Hist

/-- operations for which A accepts exactly one observation -/
def Op.det : Op → Bool
  | .next => true
  | .owned => true
  | .seekRec _ => true
  | _ => false

theorem acceptA_det {it : Items} {a a₁ a₂ : AState} {op : Op} {o₁ o₂ : ObsH} (hd : op.det = true)
    (h₁ : acceptA it a op o₁ = some a₁) (h₂ : acceptA it a op o₂ = some a₂) : o₁ = o₂ ∧ a₁ = a₂ := by
  cases op with
  | next =>
    simp only [acceptA] at h₁ h₂
    split at h₁
    · split at h₁ <;> split at h₂ <;> simp_all
    · split at h₁
      · split at h₁ <;> split at h₂ <;> simp_all
      · split at h₁ <;> split at h₂ <;> simp_all
  | owned =>
    simp only [acceptA] at h₁ h₂
    split at h₁
    · split at h₁ <;> split at h₂ <;> simp_all
    · split at h₁
      · split at h₁ <;> split at h₂ <;> simp_all
      · split at h₁ <;> split at h₂ <;> simp_all
  | seekRec i =>
    simp only [acceptA] at h₁ h₂
    split at h₁
    · split at h₁ <;> split at h₂ <;> simp_all
    · split at h₁ <;> split at h₂ <;> simp_all
  | set j n => simp [Op.det] at hd
  | dump j => simp [Op.det] at hd
  | pos => simp [Op.det] at hd

theorem runA_det {it : Items} : ∀ (ops : List Op) (_ : ∀ op ∈ ops, op.det = true) (a : AState)
    (obs₁ obs₂ : List ObsH), runA it a ops obs₁ = true → runA it a ops obs₂ = true → obs₁ = obs₂
  | [], _, _, [], [], _, _ => rfl
  | [], _, _, [], _ :: _, _, h => by simp [runA] at h
  | [], _, _, _ :: _, _, h, _ => by simp [runA] at h
  | _ :: _, _, _, [], _, h, _ => by simp [runA] at h
  | _ :: _, _, _, _ :: _, [], _, h => by simp [runA] at h
  | op :: ops, hd, a, o₁ :: os₁, o₂ :: os₂, h₁, h₂ => by
    simp only [runA] at h₁ h₂
    split at h₁
    · rename_i a₁ e₁
      split at h₂
      · rename_i a₂ e₂
        obtain ⟨ho, ha⟩ := acceptA_det (hd op (by simp)) e₁ e₂
        subst ho; subst ha
        rw [runA_det ops (fun x hx => hd x (by simp [hx])) a₁ os₁ os₂ h₁ h₂]
      · simp at h₂
    · simp at h₁

end SeqIo.Fasta.Hist

namespace SeqIo.Fastq.Hist
open SeqIo SeqIo.Spec

/-- operations for which A accepts exactly one observation -/
def Op.det : Op → Bool
  | .next => true
  | .owned => true
  | .seekItem _ => true
  | _ => false

theorem acceptNext_det {items : List FqItem} {a a₁ a₂ : AState} {o₁ o₂ : ObsH}
    (h₁ : acceptNext items a o₁ = some a₁) (h₂ : acceptNext items a o₂ = some a₂) : o₁ = o₂ ∧ a₁ = a₂ := by
  simp only [acceptNext] at h₁ h₂
  split at h₁
  · split at h₁ <;> split at h₂ <;> simp_all
  · split at h₁ <;> split at h₂ <;> simp_all
  · split at h₁ <;> split at h₂ <;> simp_all

theorem acceptSeek_det {items : List FqItem} {a a₁ a₂ : AState} {i : Nat} {o₁ o₂ : ObsH}
    (h₁ : acceptSeek items a i o₁ = some a₁) (h₂ : acceptSeek items a i o₂ = some a₂) : o₁ = o₂ ∧ a₁ = a₂ := by
  cases o₁ <;> cases o₂ <;> simp only [acceptSeek] at h₁ h₂ <;>
    first
      | (split at h₁ <;> split at h₂ <;> simp_all <;> omega)
      | (split at h₁ <;> split at h₂ <;> simp_all)
      | simp_all

theorem acceptA_det {items : List FqItem} {a a₁ a₂ : AState} {op : Op} {o₁ o₂ : ObsH} (hd : op.det = true)
    (h₁ : acceptA items a op o₁ = some a₁) (h₂ : acceptA items a op o₂ = some a₂) : o₁ = o₂ ∧ a₁ = a₂ := by
  cases op with
  | next => exact acceptNext_det h₁ h₂
  | owned => exact acceptNext_det h₁ h₂
  | seekItem i => exact acceptSeek_det h₁ h₂
  | set j n => simp [Op.det] at hd
  | dump j => simp [Op.det] at hd
  | pos => simp [Op.det] at hd

theorem acceptsA_det {items : List FqItem} : ∀ (ops : List Op) (_ : ∀ op ∈ ops, op.det = true) (a : AState)
    (obs₁ obs₂ : List ObsH), acceptsA items a ops obs₁ = true → acceptsA items a ops obs₂ = true → obs₁ = obs₂
  | [], _, _, [], [], _, _ => rfl
  | [], _, _, [], _ :: _, _, h => by simp [acceptsA] at h
  | [], _, _, _ :: _, _, h, _ => by simp [acceptsA] at h
  | _ :: _, _, _, [], _, h, _ => by simp [acceptsA] at h
  | _ :: _, _, _, _ :: _, [], _, h => by simp [acceptsA] at h
  | op :: ops, hd, a, o₁ :: os₁, o₂ :: os₂, h₁, h₂ => by
    simp only [acceptsA] at h₁ h₂
    split at h₁
    · rename_i a₁ e₁
      split at h₂
      · rename_i a₂ e₂
        obtain ⟨ho, ha⟩ := acceptA_det (hd op (by simp)) e₁ e₂
        subst ho; subst ha
        rw [acceptsA_det ops (fun x hx => hd x (by simp [hx])) a₁ os₁ os₂ h₁ h₂]
      · simp at h₂
    · simp at h₁

end SeqIo.Fastq.Hist
