import SeqIoModel.Model.Stream
import SeqIoModel.Proofs.FastaScan
import SeqIoModel.Proofs.WriteRoundtrip
/-!
# FASTA stream proof, part 1: pure facts about `scan`, `slice`, `lines`

Nothing here mentions buffers or readers.
-/
open SeqIo

namespace SeqIo.Fasta

/-! ## line decomposition and line induction -/

theorem exists_line_split (l : List UInt8) :
    LF ∉ l ∨ ∃ a rest, LF ∉ a ∧ l = a ++ LF :: rest := by
  induction l with
  | nil => left; simp
  | cons b t ih =>
    by_cases hb : b = LF
    · right; exact ⟨[], t, by simp, by simp [hb]⟩
    · rcases ih with h | ⟨a, rest, ha, rfl⟩
      · left; simp only [List.mem_cons, not_or]; exact ⟨fun e => hb e.symm, h⟩
      · right
        refine ⟨b :: a, rest, ?_, by simp⟩
        simp only [List.mem_cons, not_or]; exact ⟨fun e => hb e.symm, ha⟩

/-- induction over the lines of a byte string -/
theorem line_induction {P : List UInt8 → Prop}
    (h0 : ∀ a, LF ∉ a → P a)
    (h1 : ∀ a rest, LF ∉ a → P rest → P (a ++ LF :: rest)) : ∀ l, P l := by
  intro l
  generalize hn : l.length = n
  induction n using Nat.strongRecOn generalizing l with
  | _ n ih =>
    rcases exists_line_split l with h | ⟨a, rest, ha, rfl⟩
    · exact h0 l h
    · apply h1 a rest ha
      apply ih rest.length _ rest rfl
      subst hn
      simp only [List.length_append, List.length_cons]
      omega

/-! ## `scan` -/

def shiftRes (d : Nat) (x : Bool × Nat × List Nat) : Bool × Nat × List Nat :=
  (x.1, x.2.1 + d, x.2.2.map (· + d))

theorem scan_shift (l : List UInt8) (i : Nat) (acc : List Nat) (d : Nat) :
    scan l (i + d) (acc.map (· + d)) = shiftRes d (scan l i acc) := by
  fun_induction scan l i acc with
  | case1 i acc => simp [scan, shiftRes]
  | case2 i acc => simp [scan, shiftRes]
  | case3 b i acc hb => simp [scan, shiftRes, hb]; omega
  | case4 rest i acc => simp [scan, shiftRes]; omega
  | case5 c rest i acc hc ih =>
    rw [scan.eq_3]
    simp only [hc, if_true, if_false]
    have e : i + d + 1 = i + 1 + d := by omega
    rw [e]
    simpa using ih
  | case6 b c rest i acc hb ih =>
    rw [scan.eq_3]
    simp only [hb, if_false]
    have e : i + d + 1 = i + 1 + d := by omega
    rw [e]
    simpa using ih

theorem scan_acc_append (l : List UInt8) (i : Nat) (acc : List Nat) (acc0 : List Nat) :
    scan l i (acc0 ++ acc) = ((scan l i acc).1, (scan l i acc).2.1, acc0 ++ (scan l i acc).2.2) := by
  fun_induction scan l i acc with
  | case1 i acc => simp [scan]
  | case2 i acc => simp [scan]
  | case3 b i acc hb => simp [scan, hb]
  | case4 rest i acc => simp [scan]
  | case5 c rest i acc hc ih =>
    rw [scan.eq_3]
    simp only [hc, if_true, if_false]
    rw [List.append_assoc]
    exact ih
  | case6 b c rest i acc hb ih =>
    rw [scan.eq_3]
    simp only [hb, if_false]
    exact ih

/-- the accumulator is only appended to -/
theorem scan_acc (l : List UInt8) (i : Nat) (acc : List Nat) :
    scan l i acc = ((scan l i []).1, (scan l i []).2.1, acc ++ (scan l i []).2.2) := by
  have := scan_acc_append l i [] acc
  simpa using this

/-- new entries lie in `[i, sp)` -/
theorem scan_new_bounds (l : List UInt8) (i : Nat) (acc : List Nat) :
    ∀ p ∈ (scan l i acc).2.2, p ∈ acc ∨ (i ≤ p ∧ p < (scan l i acc).2.1) := by
  fun_induction scan l i acc with
  | case1 i acc => intro p hp; exact Or.inl hp
  | case2 i acc => intro p hp; exact Or.inl hp
  | case3 b i acc hb => intro p hp; exact Or.inl hp
  | case4 rest i acc =>
    simp only [List.mem_append, List.mem_singleton]
    intro p hp
    rcases hp with hp | hp
    · exact Or.inl hp
    · right; omega
  | case5 c rest i acc hc ih =>
    intro p hp
    rcases ih p hp with h | h
    · simp only [List.mem_append, List.mem_singleton] at h
      rcases h with h | h
      · exact Or.inl h
      · right
        have hge := (scan_sp_ge (c :: rest) (i + 1) (acc ++ [i])).1
        omega
    · right; omega
  | case6 b c rest i acc hb ih =>
    intro p hp
    rcases ih p hp with h | h
    · exact Or.inl h
    · right; omega

/-- a successful scan stops behind its start -/
theorem scan_found_lt (l : List UInt8) (i : Nat) (acc : List Nat) (h : (scan l i acc).1 = true) :
    i < (scan l i acc).2.1 := by
  fun_induction scan l i acc with
  | case1 i acc => simp at h
  | case2 i acc => simp at h
  | case3 b i acc hb => simp at h
  | case4 rest i acc => simp
  | case5 c rest i acc hc ih => have := ih h; omega
  | case6 b c rest i acc hb ih => have := ih h; omega

/-- an unsuccessful scan stops at the end, or on a final LF -/
theorem scan_notfound_sp (l : List UInt8) (i : Nat) (acc : List Nat) (h : (scan l i acc).1 = false) :
    i + l.length ≤ (scan l i acc).2.1 + 1 := by
  fun_induction scan l i acc with
  | case1 i acc => simp
  | case2 i acc => simp
  | case3 b i acc hb => simp
  | case4 rest i acc => simp at h
  | case5 c rest i acc hc ih => have := ih h; simp only [List.length_cons] at this ⊢; omega
  | case6 b c rest i acc hb ih => have := ih h; simp only [List.length_cons] at this ⊢; omega

/-! ### line steps of `scan` -/

theorem scan_noLF (a : List UInt8) (h : LF ∉ a) (i : Nat) (acc : List Nat) :
    scan a i acc = (false, i + a.length, acc) := by
  induction a generalizing i with
  | nil => simp [scan]
  | cons b t ih =>
    simp only [List.mem_cons, not_or] at h
    have hb : b ≠ LF := fun e => h.1 e.symm
    cases t with
    | nil => simp [scan, hb]
    | cons c t' =>
      rw [scan.eq_3]
      simp only [hb, if_false]
      rw [ih h.2]
      simp only [List.length_cons, Prod.mk.injEq, true_and, and_true]
      omega

theorem scan_line_end (a : List UInt8) (h : LF ∉ a) (i : Nat) (acc : List Nat) :
    scan (a ++ [LF]) i acc = (false, i + a.length, acc) := by
  induction a generalizing i with
  | nil => simp [scan]
  | cons b t ih =>
    simp only [List.mem_cons, not_or] at h
    have hb : b ≠ LF := fun e => h.1 e.symm
    cases t with
    | nil => simp [scan, hb]
    | cons c t' =>
      simp only [List.cons_append] at ih ⊢
      rw [scan.eq_3]
      simp only [hb, if_false]
      rw [ih h.2]
      simp only [List.length_cons, Prod.mk.injEq, true_and, and_true]
      omega

theorem scan_line_gt (a : List UInt8) (h : LF ∉ a) (rest : List UInt8) (i : Nat) (acc : List Nat) :
    scan (a ++ LF :: GT :: rest) i acc = (true, i + a.length + 1, acc ++ [i + a.length]) := by
  induction a generalizing i with
  | nil => simp [scan]
  | cons b t ih =>
    simp only [List.mem_cons, not_or] at h
    have hb : b ≠ LF := fun e => h.1 e.symm
    cases t with
    | nil => simp [scan, hb]
    | cons c t' =>
      simp only [List.cons_append] at ih ⊢
      rw [scan.eq_3]
      simp only [hb, if_false]
      rw [ih h.2]
      simp only [List.length_cons, Prod.mk.injEq, true_and]
      constructor
      · omega
      · congr 2; omega

theorem scan_line_next (a : List UInt8) (h : LF ∉ a) (c : UInt8) (hc : c ≠ GT) (rest : List UInt8)
    (i : Nat) (acc : List Nat) :
    scan (a ++ LF :: c :: rest) i acc = scan (c :: rest) (i + a.length + 1) (acc ++ [i + a.length]) := by
  induction a generalizing i with
  | nil => simp [scan, hc]
  | cons b t ih =>
    simp only [List.mem_cons, not_or] at h
    have hb : b ≠ LF := fun e => h.1 e.symm
    cases t with
    | nil => simp [scan, hb, hc]
    | cons c' t' =>
      simp only [List.cons_append] at ih ⊢
      rw [scan.eq_3]
      simp only [hb, if_false]
      rw [ih h.2]
      simp only [List.length_cons]
      have e1 : i + 1 + (t'.length + 1) + 1 = i + (t'.length + 1 + 1) + 1 := by omega
      have e2 : i + 1 + (t'.length + 1) = i + (t'.length + 1 + 1) := by omega
      rw [e1, e2]

/-! ## shared definitions for the stream proof -/

/-- the final `seq_pos` of a record whose complete scan gave `x` -/
def finalPos (x : Bool × Nat × List Nat) : List Nat := if x.1 then x.2.2 else x.2.2 ++ [x.2.1]

def toObs (r : Spec.FaRec) : Obs := .record r.head r.seqLines r.line r.byte

/-- what S prescribes from the record starting at absolute offset `s` (line `ln`) onwards -/
def specFrom (inp : List UInt8) (s ln : Nat) : List Obs :=
  (Spec.faGroup (Spec.lines (inp.drop s)) s ln none).map toObs

/-! ## `slice` under windows -/

theorem slice_shift (inp buf ext : List UInt8) (b : Nat) (hb : b ≤ inp.length)
    (hw : inp.drop b = buf ++ ext) (a e : Nat) (he : e ≤ buf.length) :
    slice buf a e = slice inp (a + b) (e + b) := by
  have hlen : inp.length - b = buf.length + ext.length := by
    have := congrArg List.length hw
    simpa using this
  unfold slice
  by_cases hae : a ≤ e
  · have h1 : a ≤ e ∧ e ≤ buf.length := ⟨hae, he⟩
    have h2 : a + b ≤ e + b ∧ e + b ≤ inp.length := ⟨by omega, by omega⟩
    rw [if_pos h1, if_pos h2]
    congr 1
    have h3 : (inp.take (e + b)).drop (a + b) = ((inp.drop b).take e).drop a := by
      rw [List.take_drop, List.drop_drop, Nat.add_comm b e, Nat.add_comm b a]
    rw [h3, hw, List.take_append_of_le_length he]
  · have h1 : ¬ (a ≤ e ∧ e ≤ buf.length) := fun h => hae h.1
    have h2 : ¬ (a + b ≤ e + b ∧ e + b ≤ inp.length) := fun h => hae (by omega)
    rw [if_neg h1, if_neg h2]

end SeqIo.Fasta
