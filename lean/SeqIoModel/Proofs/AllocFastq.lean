import SeqIoModel.Model.Alloc
/-!
# Ghost capacities, FASTQ: the post-hoc ghost step is justified by the machine

`Alloc.Fq.setStep` counts one `push` per position the set holds after a successful call.  That is legitimate
because `read_record_set_exact` clears `buf_positions` once at the start and then only appends (one position
per stored record); only the error arms clear it again (and then the ghost step gives up exactness).
-/

namespace SeqIo.Alloc.Fq
open SeqIo SeqIo.Fastq

theorem storeStep_positions {n : Option Nat} {r r' : Reader} {rs rs' : RecordSet} {b : Bool}
    (h : storeStep n r rs = some (r', rs', b)) : rs'.positions = rs.positions ++ [r.bp] := by
  unfold storeStep at h
  split at h
  · simp at h
  · simp only [Option.some.injEq, Prod.mk.injEq] at h
    obtain ⟨_, h2, _⟩ := h
    rw [← h2]

/-- unless the loop ends in an error, the positions the set had are a prefix of those it has afterwards: the vector
only grows, one `push` at a time -/
theorem setLoop_positions_prefix : ∀ (f fuel : Nat) (n : Option Nat) (isNew : Bool) (r : Reader) (rs : RecordSet),
    (∃ e, (setLoop f fuel n isNew r rs).2.2 = .err e) ∨
      rs.positions <+: (setLoop f fuel n isNew r rs).2.1.positions := by
  intro f
  induction f with
  | zero => intro fuel n isNew r rs; right; simp [setLoop]
  | succ f ih =>
    intro fuel n isNew r rs
    unfold setLoop
    split
    · right; simp
    · split
      · -- resume branch
        split
        · -- ok true
          split
          · right; simp
          · rename_i hst
            right
            simp only
            rw [storeStep_positions hst]
            exact List.prefix_append _ _
          · rename_i hst
            rcases ih fuel n isNew _ _ with h | h
            · left; exact h
            · right
              rw [storeStep_positions hst] at h
              exact List.IsPrefix.trans (List.prefix_append _ _) h
        · split <;> (right; simp)
        · left; exact ⟨_, rfl⟩
        · right; simp
        · right; simp
      · -- search branch
        split
        · left; exact ⟨_, rfl⟩
        · right; simp
        · right; simp
        · split
          · exact ih fuel n isNew _ _
          · split
            · split
              · exact ih fuel _ false _ _
              · right; simp
            · right; simp
        · split
          · right; simp
          · rename_i hst
            right
            simp only
            rw [storeStep_positions hst]
            exact List.prefix_append _ _
          · rename_i hst
            rcases ih fuel n isNew _ _ with h | h
            · left; exact h
            · right
              rw [storeStep_positions hst] at h
              exact List.IsPrefix.trans (List.prefix_append _ _) h

end SeqIo.Alloc.Fq
