import SeqIoModel.Model.Fmt
/-!
# C17: the human-readable messages contain the reported values

The `Display` text of every parse error contains, as contiguous bytes, the decimal line number,
the escaped offending byte, the record id and the two lengths it reports.
-/

open SeqIo

namespace SeqIo.DisplayProofs

/-- `a` occurs in `b` as a contiguous block -/
def isInfix (a b : List UInt8) : Prop := ∃ p s, b = p ++ a ++ s

theorem isInfix_refl (a : List UInt8) : isInfix a a := ⟨[], [], by simp⟩

theorem isInfix.append_right {a b : List UInt8} (h : isInfix a b) (c : List UInt8) :
    isInfix a (b ++ c) := by
  obtain ⟨p, s, rfl⟩ := h
  exact ⟨p, s ++ c, by simp⟩

theorem isInfix.append_left {a b : List UInt8} (h : isInfix a b) (c : List UInt8) :
    isInfix a (c ++ b) := by
  obtain ⟨p, s, rfl⟩ := h
  exact ⟨c ++ p, s, by simp⟩

theorem isInfix.trans {a b c : List UInt8} (h1 : isInfix a b) (h2 : isInfix b c) : isInfix a c := by
  obtain ⟨p, s, rfl⟩ := h1
  obtain ⟨p', s', rfl⟩ := h2
  exact ⟨p' ++ p, s ++ s', by simp⟩

/-- the position carried by an error -/
def errPosOf : Fastq.Err → Option Fastq.ErrPos
  | .unequalLengths _ _ p => some p
  | .invalidStart _ p => some p
  | .invalidSep _ p => some p
  | .unexpectedEnd p => some p
  | .io _ => none
  | .bufferLimit => none

/-- FASTA: the message contains the line number and the escaped byte found -/
theorem fasta_msg_contains (line : Nat) (found : UInt8) :
    isInfix (Fmt.dec line) (Fmt.fastaErr (.invalidStart line found)) ∧
    isInfix (Fmt.escapeDefault found) (Fmt.fastaErr (.invalidStart line found)) := by
  constructor
  · exact ((isInfix_refl _).append_left _).append_right _
  · exact ((((isInfix_refl _).append_left _).append_right _).append_right _).append_right _

/-- the text of a position contains `line N` -/
theorem errPos_contains_line (p : Fastq.ErrPos) :
    isInfix (Fmt.str "line " ++ Fmt.dec p.line) (Fmt.errPos p) :=
  by unfold Fmt.errPos; exact ⟨_, [], by rw [List.append_nil, List.append_assoc]⟩

/-- the text of a position contains the id, if there is one -/
theorem errPos_contains_id (p : Fastq.ErrPos) (i : List UInt8) (h : p.id = some i) :
    isInfix i (Fmt.errPos p) := by
  simp only [Fmt.errPos, h]
  exact ((((isInfix_refl i).append_left _).append_right _).append_right _).append_right _

/-- every message of an error with a position contains the text of that position -/
theorem fastq_msg_contains_pos (e : Fastq.Err) (p : Fastq.ErrPos) (he : errPosOf e = some p) :
    isInfix (Fmt.errPos p) (Fmt.fastqErr e) := by
  cases e <;> simp only [errPosOf, Option.some.injEq, reduceCtorEq] at he <;> subst he <;>
    exact ((isInfix_refl _).append_left _).append_right _

/-- FASTQ: the message contains `line N` for the line number `N` of the reported position -/
theorem fastq_msg_contains_line (e : Fastq.Err) (p : Fastq.ErrPos) (he : errPosOf e = some p) :
    isInfix (Fmt.str "line " ++ Fmt.dec p.line) (Fmt.fastqErr e) :=
  (errPos_contains_line p).trans (fastq_msg_contains_pos e p he)

/-- FASTQ: the message contains the record id whenever the position has one -/
theorem fastq_msg_contains_id (e : Fastq.Err) (p : Fastq.ErrPos) (he : errPosOf e = some p)
    (i : List UInt8) (hi : p.id = some i) : isInfix i (Fmt.fastqErr e) :=
  (errPos_contains_id p i hi).trans (fastq_msg_contains_pos e p he)

/-- … quoted, as `record 'ID' at line N` -/
theorem fastq_msg_contains_record_id (e : Fastq.Err) (p : Fastq.ErrPos) (he : errPosOf e = some p)
    (i : List UInt8) (hi : p.id = some i) :
    isInfix (Fmt.str "record '" ++ i ++ Fmt.str "' at " ++ Fmt.str "line " ++ Fmt.dec p.line)
      (Fmt.fastqErr e) := by
  refine isInfix.trans ⟨[], [], ?_⟩ (fastq_msg_contains_pos e p he)
  simp only [Fmt.errPos, hi, List.nil_append, List.append_nil, List.append_assoc]

/-- FASTQ: both lengths appear in the length-mismatch message -/
theorem fastq_msg_contains_lengths (s q : Nat) (p : Fastq.ErrPos) :
    isInfix (Fmt.dec s) (Fmt.fastqErr (.unequalLengths s q p)) ∧
    isInfix (Fmt.dec q) (Fmt.fastqErr (.unequalLengths s q p)) := by
  constructor
  · exact ((((((isInfix_refl _).append_left _).append_right _).append_right _).append_right _).append_right
      _).append_right _
  · exact ((((isInfix_refl _).append_left _).append_right _).append_right _).append_right _

/-- FASTQ: the escaped offending byte appears in the start and separator messages -/
theorem fastq_msg_contains_found (f : UInt8) (p : Fastq.ErrPos) :
    isInfix (Fmt.escapeDefault f) (Fmt.fastqErr (.invalidStart f p)) ∧
    isInfix (Fmt.escapeDefault f) (Fmt.fastqErr (.invalidSep f p)) := by
  constructor <;>
    exact ((((isInfix_refl _).append_left _).append_right _).append_right _).append_right _

end SeqIo.DisplayProofs
