import SeqIoModel.Model.Write
import SeqIoModel.Model.Spec
import SeqIoModel.Model.Domain
/-!
# Writers round-trip through the reference semantics

What `Write.*` emits, `Spec.fasta` / `Spec.fastq` reads back unchanged (under the domain
predicates `HeadOk`, `SeqOk`, `FieldOk`), plus the shape of line wrapping.
-/

open SeqIo SeqIo.Spec SeqIo.Write

namespace SeqIo.WriteProofs

/-! ## `splitLF` and `lines` -/

theorem splitLF_ne_nil (l : List UInt8) : splitLF l ≠ [] := by
  induction l with
  | nil => simp [splitLF]
  | cons b rest ih =>
    simp only [splitLF]
    split
    · simp
    · split <;> simp

theorem splitLF_noLF (a : List UInt8) (h : LF ∉ a) : splitLF a = [a] := by
  induction a with
  | nil => simp [splitLF]
  | cons b rest ih =>
    simp only [List.mem_cons, not_or] at h
    have hb : b ≠ LF := fun e => h.1 e.symm
    simp [splitLF, hb, ih h.2]

theorem splitLF_append (a b : List UInt8) (h : LF ∉ a) :
    splitLF (a ++ LF :: b) = a :: splitLF b := by
  induction a with
  | nil => simp [splitLF]
  | cons c rest ih =>
    simp only [List.mem_cons, not_or] at h
    have hc : c ≠ LF := fun e => h.1 e.symm
    simp [splitLF, hc, ih h.2]

/-- the text of a list of LF-free lines, each terminated by LF -/
def unlines (ls : List (List UInt8)) : List UInt8 := ls.flatMap (· ++ [LF])

theorem unlines_nil : unlines [] = [] := rfl
theorem unlines_cons (l : List UInt8) (ls : List (List UInt8)) :
    unlines (l :: ls) = l ++ LF :: unlines ls := by simp [unlines]
theorem unlines_append (a b : List (List UInt8)) : unlines (a ++ b) = unlines a ++ unlines b := by
  simp [unlines]

theorem splitLF_unlines (ls : List (List UInt8)) (h : ∀ l ∈ ls, LF ∉ l) :
    splitLF (unlines ls) = ls ++ [[]] := by
  induction ls with
  | nil => simp [unlines, splitLF]
  | cons l ls ih =>
    rw [unlines_cons, splitLF_append _ _ (h l (by simp)), ih (fun x hx => h x (by simp [hx]))]
    simp

theorem lines_unlines (ls : List (List UInt8)) (h : ∀ l ∈ ls, LF ∉ l) :
    lines (unlines ls) = ls := by
  simp [lines, splitLF_unlines ls h]

/-! ## `trimCr` -/

theorem trimCr_id (l : List UInt8) (h : l.getLast? ≠ some CR) : trimCr l = l := by
  unfold trimCr
  split
  · split
    · simp_all
    · rfl
  · rfl

theorem getLast?_ne_of_not_mem (l : List UInt8) (c : UInt8) (h : c ∉ l) : l.getLast? ≠ some c := by
  intro e
  exact h (List.mem_of_getLast? e)

theorem trimCr_noCR (l : List UInt8) (h : CR ∉ l) : trimCr l = l :=
  trimCr_id l (getLast?_ne_of_not_mem l CR h)

theorem getLast?_GT_cons (h : List UInt8) (hh : h.getLast? ≠ some CR) :
    (GT :: h).getLast? ≠ some CR := by
  cases h with
  | nil => simp [GT, CR]
  | cons a t => simpa [List.getLast?_cons_cons] using hh

theorem not_blank_GT_cons (h : List UInt8) (hh : h.getLast? ≠ some CR) : blank (GT :: h) = false := by
  simp [blank, trimCr_id _ (getLast?_GT_cons h hh)]

/-! ## FASTA: the reference parser on well-formed lines -/

theorem head?_ne_of_not_mem (l : List UInt8) (c : UInt8) (h : c ∉ l) : l.head? ≠ some c := by
  intro e
  exact h (List.mem_of_head? e)

/-- sequence lines are appended to the current record -/
theorem faGroup_seqLines (cs : List (List UInt8)) (hcs : ∀ c ∈ cs, CR ∉ c ∧ GT ∉ c)
    (byte line : Nat) (r : FaRec) :
    faGroup cs byte line (some r) = [{ r with seqLines := r.seqLines.reverse ++ cs }] := by
  induction cs generalizing byte line r with
  | nil => simp [faGroup]
  | cons c cs ih =>
    have hc := hcs c (by simp)
    have h1 : c.head? ≠ some GT := head?_ne_of_not_mem c GT hc.2
    rw [faGroup]
    simp only [h1, if_false]
    rw [ih (fun x hx => hcs x (by simp [hx]))]
    simp [trimCr_noCR _ hc.1]

/-- a header line closes the current record and opens a new one -/
theorem faGroup_head (h : List UInt8) (hh : h.getLast? ≠ some CR) (ls : List (List UInt8))
    (byte line : Nat) (cur : Option FaRec) :
    faGroup ((GT :: h) :: ls) byte line cur =
      (match cur with
        | none => []
        | some r => [{ r with seqLines := r.seqLines.reverse }]) ++
      faGroup ls (byte + (h.length + 1) + 1) (line + 1)
        (some { byte := byte, line := line, head := h, seqLines := [] }) := by
  cases cur <;> simp [faGroup, trimCr_id _ hh]

/-- `fasta` on a text whose first line is a header -/
theorem fasta_unlines (h : List UInt8) (hh : HeadOk h) (ls : List (List UInt8))
    (hls : ∀ l ∈ ls, LF ∉ l) :
    Spec.fasta (unlines ((GT :: h) :: ls)) = .records (faGroup ((GT :: h) :: ls) 0 1 none) := by
  have hGT : LF ∉ GT :: h := by
    simp only [List.mem_cons, not_or]
    exact ⟨by decide, hh.1⟩
  have hall : ∀ l ∈ (GT :: h) :: ls, LF ∉ l := by
    intro l hl
    rcases List.mem_cons.mp hl with rfl | hl
    · exact hGT
    · exact hls l hl
  unfold Spec.fasta
  rw [lines_unlines _ hall]
  simp [skipBlank, not_blank_GT_cons h hh.2]

theorem seqOk_line (s : List UInt8) (hs : SeqOk s) : CR ∉ s ∧ GT ∉ s := ⟨hs.2.1, hs.2.2⟩

/-- one record written as a header line followed by LF-free, CR-free, GT-free lines -/
theorem fasta_one (h : List UInt8) (hh : HeadOk h) (cs : List (List UInt8))
    (hcs : ∀ c ∈ cs, LF ∉ c ∧ CR ∉ c ∧ GT ∉ c) :
    Spec.fasta (unlines ((GT :: h) :: cs)) =
      .records [{ byte := 0, line := 1, head := h, seqLines := cs }] := by
  rw [fasta_unlines h hh cs (fun l hl => (hcs l hl).1), faGroup_head h hh.2,
    faGroup_seqLines cs (fun c hc => (hcs c hc).2)]
  simp

theorem faTo_eq_unlines (h s : List UInt8) : Write.faTo h s = unlines [GT :: h, s] := by
  simp [Write.faTo, Write.head, Write.seq, unlines]

-- FASTA, one record, plain
theorem fasta_faTo_roundtrip (h s : List UInt8) (hh : HeadOk h) (hs : SeqOk s) :
    ∃ r : FaRec, Spec.fasta (Write.faTo h s) = .records [r] ∧ r.head = h ∧ r.seq = s ∧ r.byte = 0 ∧ r.line = 1 := by
  refine ⟨{ byte := 0, line := 1, head := h, seqLines := [s] }, ?_, rfl, by simp [FaRec.seq], rfl, rfl⟩
  rw [faTo_eq_unlines]
  apply fasta_one h hh
  intro c hc
  simp only [List.mem_singleton] at hc
  subst hc
  exact hs

-- FASTA, id / description parts
theorem fasta_faParts_roundtrip (id : List UInt8) (desc : Option (List UInt8)) (s : List UInt8)
    (hh : HeadOk (id ++ (match desc with | some d => SP :: d | none => []))) (hs : SeqOk s) :
    ∃ r : FaRec, Spec.fasta (Write.faParts id desc s) = .records [r] ∧
      r.head = id ++ (match desc with | some d => SP :: d | none => []) ∧ r.seq = s := by
  cases desc with
  | none =>
    have e : Write.faParts id none s = Write.faTo (id ++ []) s := by
      simp [Write.faParts, Write.idDesc, Write.faTo, Write.head]
    obtain ⟨r, h1, h2, h3, _⟩ := fasta_faTo_roundtrip _ s hh hs
    exact ⟨r, by rw [e]; exact h1, h2, h3⟩
  | some d =>
    have e : Write.faParts id (some d) s = Write.faTo (id ++ SP :: d) s := by
      simp [Write.faParts, Write.idDesc, Write.faTo, Write.head]
    obtain ⟨r, h1, h2, h3, _⟩ := fasta_faTo_roundtrip _ s hh hs
    exact ⟨r, by rw [e]; exact h1, h2, h3⟩

/-! ## FASTA: many records -/

/-- the lines of records written back to back -/
def faLines (rs : List (List UInt8 × List UInt8)) : List (List UInt8) :=
  rs.flatMap fun p => [GT :: p.1, p.2]

theorem faLines_cons (p : List UInt8 × List UInt8) (rs : List (List UInt8 × List UInt8)) :
    faLines (p :: rs) = (GT :: p.1) :: p.2 :: faLines rs := by
  simp [faLines]

theorem many_eq_unlines (rs : List (List UInt8 × List UInt8)) :
    (rs.flatMap fun p => Write.faTo p.1 p.2) = unlines (faLines rs) := by
  induction rs with
  | nil => rfl
  | cons p rs ih =>
    rw [List.flatMap_cons, ih, faLines_cons, faTo_eq_unlines]
    simp [unlines]

theorem faGroup_seqLine_step (c : List UInt8) (hc : CR ∉ c ∧ GT ∉ c) (ls : List (List UInt8))
    (byte line : Nat) (r : FaRec) :
    faGroup (c :: ls) byte line (some r) =
      faGroup ls (byte + c.length + 1) (line + 1) (some { r with seqLines := c :: r.seqLines }) := by
  have h1 : c.head? ≠ some GT := head?_ne_of_not_mem c GT hc.2
  rw [faGroup]
  simp only [h1, if_false]
  simp [trimCr_noCR _ hc.1]

theorem faGroup_many (rs : List (List UInt8 × List UInt8))
    (hok : ∀ p ∈ rs, HeadOk p.1 ∧ SeqOk p.2) (byte line : Nat) (cur : Option FaRec) :
    ∃ recs : List FaRec,
      faGroup (faLines rs) byte line cur =
        (match cur with
          | none => []
          | some r => [{ r with seqLines := r.seqLines.reverse }]) ++ recs ∧
      recs.map (fun r => (r.head, r.seq)) = rs := by
  induction rs generalizing byte line cur with
  | nil =>
    refine ⟨[], ?_, rfl⟩
    cases cur <;> simp [faLines, faGroup]
  | cons p rs ih =>
    have hp := hok p (by simp)
    rw [faLines_cons, faGroup_head p.1 hp.1.2, faGroup_seqLine_step p.2 (seqOk_line _ hp.2)]
    obtain ⟨recs, h1, h2⟩ := ih (fun x hx => hok x (by simp [hx]))
      (byte + (p.1.length + 1) + 1 + p.2.length + 1) (line + 1 + 1)
      (some { byte := byte, line := line, head := p.1, seqLines := [p.2] })
    refine ⟨{ byte := byte, line := line, head := p.1, seqLines := [p.2] } :: recs, ?_, ?_⟩
    · rw [h1]; simp
    · rw [List.map_cons, h2]; simp [FaRec.seq]

theorem faLines_noLF (rs : List (List UInt8 × List UInt8))
    (hok : ∀ p ∈ rs, HeadOk p.1 ∧ SeqOk p.2) : ∀ l ∈ faLines rs, LF ∉ l := by
  intro l hl
  simp only [faLines, List.mem_flatMap] at hl
  obtain ⟨p, hp, hl⟩ := hl
  have := hok p hp
  simp only [List.mem_cons, List.not_mem_nil, or_false] at hl
  rcases hl with rfl | rfl
  · simp only [List.mem_cons, not_or]
    exact ⟨by decide, this.1.1⟩
  · exact this.2.1

-- FASTA, many records written back to back
theorem fasta_many_roundtrip (rs : List (List UInt8 × List UInt8))
    (hok : ∀ p ∈ rs, HeadOk p.1 ∧ SeqOk p.2) :
    ∃ recs : List FaRec, Spec.fasta (rs.flatMap fun p => Write.faTo p.1 p.2) = .records recs ∧
      recs.map (fun r => (r.head, r.seq)) = rs := by
  cases rs with
  | nil => exact ⟨[], by simp [Spec.fasta, lines, splitLF, skipBlank], rfl⟩
  | cons p rs =>
    obtain ⟨recs, h1, h2⟩ := faGroup_many (p :: rs) hok 0 1 none
    refine ⟨recs, ?_, h2⟩
    have hp := hok p (by simp)
    have hno := faLines_noLF (p :: rs) hok
    rw [many_eq_unlines]
    rw [faLines_cons] at h1 hno ⊢
    rw [fasta_unlines p.1 hp.1 _ (fun l hl => hno l (by simp [hl])), h1]
    simp

/-! ## Wrapping -/

theorem chunks_eq_nil_iff (w : Nat) (s : List UInt8) : Write.chunks w s = [] ↔ w = 0 ∨ s = [] := by
  rw [Write.chunks]
  split <;> simp_all

theorem chunks_cons (w : Nat) (s : List UInt8) (hw : 0 < w) (hs : s ≠ []) :
    Write.chunks w s = s.take w :: Write.chunks w (s.drop w) := by
  rw [Write.chunks]
  have : ¬ (w = 0 ∨ s = []) := by
    intro h
    rcases h with h | h
    · omega
    · exact hs h
  simp [this]

theorem chunks_nil (w : Nat) : Write.chunks w [] = [] := by
  rw [Write.chunks]; simp

-- wrapping: shape of the chunks
theorem chunks_flatten (w : Nat) (s : List UInt8) (hw : 0 < w) : (Write.chunks w s).flatten = s := by
  fun_induction Write.chunks w s with
  | case1 s h =>
    rcases h with h | h
    · omega
    · simp [h]
  | case2 s h ih => simp [ih]

theorem chunks_width (w : Nat) (s : List UInt8) (hw : 0 < w) :
    (∀ c ∈ Write.chunks w s, 0 < c.length ∧ c.length ≤ w) ∧ (∀ c ∈ (Write.chunks w s).dropLast, c.length = w) := by
  fun_induction Write.chunks w s with
  | case1 s h => simp
  | case2 s h ih =>
    have hs : s ≠ [] := fun e => h (Or.inr e)
    have hlen : 0 < s.length := List.length_pos_iff.mpr hs
    constructor
    · intro c hc
      rcases List.mem_cons.mp hc with rfl | hc
      · simp only [List.length_take]; omega
      · exact ih.1 c hc
    · intro c hc
      by_cases hn : Write.chunks w (s.drop w) = []
      · simp [hn] at hc
      · rw [List.dropLast_cons_of_ne_nil hn] at hc
        rcases List.mem_cons.mp hc with rfl | hc
        · have : s.drop w ≠ [] := fun e => hn ((chunks_eq_nil_iff w _).mpr (Or.inr e))
          have : 0 < (s.drop w).length := List.length_pos_iff.mpr this
          simp only [List.length_drop] at this
          simp only [List.length_take]; omega
        · exact ih.2 c hc

theorem mem_chunks_subset (w : Nat) (s : List UInt8) :
    ∀ c ∈ Write.chunks w s, ∀ x ∈ c, x ∈ s := by
  fun_induction Write.chunks w s with
  | case1 s h => simp
  | case2 s h ih =>
    intro c hc x hx
    rcases List.mem_cons.mp hc with rfl | hc
    · exact List.mem_of_mem_take hx
    · exact List.mem_of_mem_drop (ih c hc x hx)

/-- writing `a ++ b` through the wrapping loop is writing `a`, then `b` -/
theorem wrapChunk_append (w : Nat) (a : List UInt8) (n : Nat) (out : List UInt8) (b : List UInt8) :
    Write.wrapChunk w (a ++ b) n out =
      Write.wrapChunk w b (Write.wrapChunk w a n out).1 (Write.wrapChunk w a n out).2 := by
  fun_induction Write.wrapChunk w a n out with
  | case1 a n out rem hle =>
    rw [Write.wrapChunk.eq_1 w (a ++ b), Write.wrapChunk.eq_1 w b]
    simp only [List.length_append]
    by_cases h1 : a.length + b.length ≤ w - n
    · have h2 : b.length ≤ w - (n + a.length) := by omega
      simp [h1, h2, Nat.add_assoc]
    · have h2 : ¬ b.length ≤ w - (n + a.length) := by omega
      simp only [h1, h2, if_false]
      by_cases hw : w = 0
      · have : a = [] := by
          apply List.eq_nil_of_length_eq_zero
          simp only [rem] at hle
          omega
        simp [hw, this]
      · simp only [hw, if_false]
        have e1 : (a ++ b).drop (w - n) = b.drop (w - (n + a.length)) := by
          rw [List.drop_append, List.drop_eq_nil_of_le hle]
          simp [Nat.sub_sub]
        have e2 : (a ++ b).take (w - n) = a ++ b.take (w - (n + a.length)) := by
          rw [List.take_append, List.take_of_length_le hle]
          simp [Nat.sub_sub]
        rw [e1, e2]
        simp
  | case2 a n out rem hgt hw =>
    rw [Write.wrapChunk.eq_1 w (a ++ b), Write.wrapChunk.eq_1 w b]
    subst hw
    simp only [rem] at hgt
    have : ¬ (a ++ b).length ≤ 0 - n := by simp only [List.length_append]; omega
    simp only [this, if_false, if_true]
    by_cases hb : b.length ≤ 0 - n
    · have : b = [] := by
        apply List.eq_nil_of_length_eq_zero
        omega
      simp [this]
    · simp
  | case3 a n out rem hgt hw ih =>
    rw [Write.wrapChunk.eq_1 w (a ++ b)]
    simp only [rem] at hgt ih
    have h1 : ¬ (a ++ b).length ≤ w - n := by simp only [List.length_append]; omega
    simp only [h1, hw, if_false]
    have hlt : w - n ≤ a.length := by omega
    have e1 : (a ++ b).drop (w - n) = a.drop (w - n) ++ b := by
      rw [List.drop_append_of_le_length hlt]
    have e2 : (a ++ b).take (w - n) = a.take (w - n) := by
      rw [List.take_append_of_le_length hlt]
    rw [e1, e2]
    exact ih

theorem wrapChunk_nil (w n : Nat) (out : List UInt8) : Write.wrapChunk w [] n out = (n, out) := by
  rw [Write.wrapChunk]; simp

theorem wrapChunk_foldl (w : Nat) (segs : List (List UInt8)) (n : Nat) (out : List UInt8) :
    segs.foldl (fun (st : Nat × List UInt8) seg => Write.wrapChunk w seg st.1 st.2) (n, out) =
      Write.wrapChunk w segs.flatten n out := by
  induction segs generalizing n out with
  | nil => simp [wrapChunk_nil]
  | cons a segs ih =>
    rw [List.foldl_cons, List.flatten_cons, wrapChunk_append, ← ih]

/-- the wrapping loop started at the beginning of a line writes the chunks, the last one
without its LF -/
theorem wrapChunk_chunks (w : Nat) (hw : 0 < w) (s : List UInt8) (hs : s ≠ []) (out : List UInt8) :
    (Write.wrapChunk w s 0 out).2 ++ [LF] = out ++ unlines (Write.chunks w s) := by
  fun_induction Write.chunks w s generalizing out with
  | case1 s h =>
    rcases h with h | h
    · omega
    · exact absurd h hs
  | case2 s h ih =>
    rw [Write.wrapChunk]
    by_cases hle : s.length ≤ w
    · have hd : s.drop w = [] := List.drop_eq_nil_of_le hle
      simp [hle, hd, chunks_nil, unlines, List.take_of_length_le hle]
    · have hw0 : w ≠ 0 := by omega
      have hd : s.drop w ≠ [] := by
        intro e
        have := congrArg List.length e
        simp only [List.length_drop, List.length_nil] at this
        omega
      simp only [Nat.sub_zero, hle, hw0, if_false]
      rw [ih hd]
      simp [unlines]

-- wrapped output from an iterator of chunks equals wrapping the whole sequence (non-empty sequence)
theorem wrapSeqIter_eq_wrapSeq (segs : List (List UInt8)) (w : Nat) (hw : 0 < w) (hne : segs.flatten ≠ []) :
    Write.wrapSeqIter segs w = Write.wrapSeq segs.flatten w := by
  have hw0 : w ≠ 0 := by omega
  simp only [Write.wrapSeqIter, Write.wrapSeq, hw0, if_false]
  rw [wrapChunk_foldl, wrapChunk_chunks w hw _ hne]
  simp [unlines]

-- wrapped FASTA round trip (whole sequence)
theorem fasta_wrap_roundtrip (h s : List UInt8) (w : Nat) (hw : 0 < w) (hh : HeadOk h) (hs : SeqOk s) :
    ∃ out r, Write.faOwnedWrap h s w = some out ∧ Spec.fasta out = .records [r] ∧ r.head = h ∧ r.seq = s := by
  have hw0 : w ≠ 0 := by omega
  refine ⟨unlines ((GT :: h) :: Write.chunks w s),
    { byte := 0, line := 1, head := h, seqLines := Write.chunks w s }, ?_, ?_, rfl, ?_⟩
  · simp [Write.faOwnedWrap, Write.wrapSeq, hw0, Write.head, unlines]
  · apply fasta_one h hh
    intro c hc
    have hsub := mem_chunks_subset w s c hc
    exact ⟨fun hx => hs.1 (hsub _ hx), fun hx => hs.2.1 (hsub _ hx), fun hx => hs.2.2 (hsub _ hx)⟩
  · exact chunks_flatten w s hw

/-! ## FASTQ -/

/-- the lines of FASTQ records written back to back -/
def fqLines (rs : List (List UInt8 × List UInt8 × List UInt8)) : List (List UInt8) :=
  rs.flatMap fun p => [AT :: p.1, p.2.1, [PLUS], p.2.2]

theorem fqLines_cons (p : List UInt8 × List UInt8 × List UInt8)
    (rs : List (List UInt8 × List UInt8 × List UInt8)) :
    fqLines (p :: rs) = (AT :: p.1) :: p.2.1 :: [PLUS] :: p.2.2 :: fqLines rs := by
  simp [fqLines]

theorem fqTo_eq_unlines (h s q : List UInt8) :
    Write.fqTo h s q = unlines [AT :: h, s, [PLUS], q] := by
  simp [Write.fqTo, unlines]

theorem fqMany_eq_unlines (rs : List (List UInt8 × List UInt8 × List UInt8)) :
    (rs.flatMap fun p => Write.fqTo p.1 p.2.1 p.2.2) = unlines (fqLines rs) := by
  induction rs with
  | nil => rfl
  | cons p rs ih =>
    rw [List.flatMap_cons, ih, fqLines_cons, fqTo_eq_unlines]
    simp [unlines]

theorem fqLines_noLF (rs : List (List UInt8 × List UInt8 × List UInt8))
    (hok : ∀ p ∈ rs, HeadOk p.1 ∧ FieldOk p.2.1 ∧ FieldOk p.2.2 ∧ p.2.1.length = p.2.2.length) :
    ∀ l ∈ fqLines rs, LF ∉ l := by
  intro l hl
  simp only [fqLines, List.mem_flatMap] at hl
  obtain ⟨p, hp, hl⟩ := hl
  have := hok p hp
  simp only [List.mem_cons, List.not_mem_nil, or_false] at hl
  rcases hl with rfl | rfl | rfl | rfl
  · simp only [List.mem_cons, not_or]
    exact ⟨by decide, this.1.1⟩
  · exact this.2.1.1
  · decide
  · exact this.2.2.1.1

/-- verdict on a group as written by `fqTo` -/
theorem fqGroup_ok (strict : Bool) (h s q : List UInt8) (hh : HeadOk h) (hs : FieldOk s)
    (hq : FieldOk q) (hl : s.length = q.length) (byte line : Nat) :
    fqGroup strict (AT :: h) s [PLUS] q byte line =
      .record { byte := byte, line := line, head := h, seq := s, qual := q } := by
  simp [fqGroup, hl, trimCr_id h hh.2, trimCr_noCR s hs.2, trimCr_noCR q hq.2]

theorem fqGo_end (strict : Bool) (byte line : Nat) : fqGo strict [[]] byte line = [] := by
  simp [fqGo, blank, trimCr]

theorem fqGo_many (strict : Bool) (rs : List (List UInt8 × List UInt8 × List UInt8))
    (hok : ∀ p ∈ rs, HeadOk p.1 ∧ FieldOk p.2.1 ∧ FieldOk p.2.2 ∧ p.2.1.length = p.2.2.length)
    (byte line : Nat) :
    (fqGo strict (fqLines rs ++ [[]]) byte line).filterMap
        (fun it => match it with | .record r => some (r.head, r.seq, r.qual) | .err _ _ _ => none) = rs ∧
    (fqGo strict (fqLines rs ++ [[]]) byte line).length = rs.length := by
  induction rs generalizing byte line with
  | nil => simp [fqLines, fqGo_end]
  | cons p rs ih =>
    have hp := hok p (by simp)
    obtain ⟨r, rest, e⟩ : ∃ r rest, fqLines rs ++ [[]] = r :: rest := by
      cases h : fqLines rs ++ [[]] with
      | nil => simp at h
      | cons r rest => exact ⟨r, rest, rfl⟩
    have ih' := ih (fun x hx => hok x (by simp [hx]))
      (byte + (AT :: p.1).length + p.2.1.length + [PLUS].length + p.2.2.length + 4) (line + 4)
    rw [e] at ih'
    rw [fqLines_cons, List.cons_append, List.cons_append, List.cons_append, List.cons_append, e,
      fqGo, fqGroup_ok strict p.1 p.2.1 p.2.2 hp.1 hp.2.1 hp.2.2.1 hp.2.2.2]
    simp only [List.filterMap_cons, List.length_cons] at ih' ⊢
    rw [ih'.1, ih'.2]
    exact ⟨rfl, rfl⟩

-- FASTQ, one record and many
theorem fastq_many_roundtrip (rs : List (List UInt8 × List UInt8 × List UInt8))
    (hok : ∀ p ∈ rs, HeadOk p.1 ∧ FieldOk p.2.1 ∧ FieldOk p.2.2 ∧ p.2.1.length = p.2.2.length) :
    (Spec.fastq (rs.flatMap fun p => Write.fqTo p.1 p.2.1 p.2.2)).filterMap
        (fun it => match it with | .record r => some (r.head, r.seq, r.qual) | .err _ _ _ => none) = rs ∧
    (Spec.fastq (rs.flatMap fun p => Write.fqTo p.1 p.2.1 p.2.2)).length = rs.length := by
  unfold Spec.fastq
  rw [fqMany_eq_unlines, splitLF_unlines _ (fqLines_noLF rs hok)]
  exact fqGo_many false rs hok 0 1

theorem fastq_fqTo_roundtrip (h s q : List UInt8) (hh : HeadOk h) (hs : FieldOk s) (hq : FieldOk q)
    (hl : s.length = q.length) :
    Spec.fastq (Write.fqTo h s q) = [.record { byte := 0, line := 1, head := h, seq := s, qual := q }] := by
  have hno : ∀ l ∈ [AT :: h, s, [PLUS], q], LF ∉ l := by
    intro l hl
    simp only [List.mem_cons, List.not_mem_nil, or_false] at hl
    rcases hl with rfl | rfl | rfl | rfl
    · simp only [List.mem_cons, not_or]
      exact ⟨by decide, hh.1⟩
    · exact hs.1
    · decide
    · exact hq.1
  unfold Spec.fastq
  rw [fqTo_eq_unlines, splitLF_unlines _ hno]
  simp only [List.cons_append, List.nil_append]
  rw [fqGo, fqGroup_ok false h s q hh hs hq hl, fqGo_end]

end SeqIo.WriteProofs
