import SeqIoModel.Proofs.FastaSetGrowthChain
/-!
# Policy requests of record set reads, part 3: plain record set reads ask only for the first record

In `read_record_set` (no exact count) the policy is asked only while the FIRST record of the batch
does not fit the buffer: every request passes a capacity `c` with `c < recExtent inp s + 1`, `s` the
start of that record.  Once one record is stored the call never grows the buffer again.
-/
open SeqIo SeqIo.FillProofs SeqIo.Spec

namespace SeqIo.Fasta.Hist

open SeqIo.Fasta.Fault in
/-- with a record stored and no exact count, the loop never asks the policy -/
theorem tail_nogrow (fu : Nat) : ∀ (f : Nat) (isNew : Bool) (r : Reader) (rs : RecordSet),
    1 ≤ rs.npos → r.state ≠ .incomplete → LC r (setLoop f fu none isNew r rs).1 := by
  intro f
  induction f with
  | zero => intro isNew r rs _ _; exact LC.refl r
  | succ f ih =>
    intro isNew r rs hpos hni
    rw [setLoop_eq]
    by_cases hfin : r.state = .finished
    · rw [if_pos hfin]; exact LC.refl r
    · rw [if_neg hfin, if_neg hni]
      cases hsr : search r with
      | none => exact LC.refl r
      | some q =>
        obtain ⟨r1, fnd⟩ := q
        have hlc := search_lc hsr
        obtain ⟨_, _, _, ht, _⟩ := search_frame hsr
        cases fnd with
        | true =>
          simp only
          have hni1 : r1.state ≠ .incomplete := by
            rcases ht rfl with h | h
            · rw [h]; exact hni
            · rw [h]; intro h'; cases h'
          unfold storeK
          cases hss : storeStep none r1 rs with
          | none => exact hlc
          | some q2 =>
            obtain ⟨r2, rs2, b⟩ := q2
            obtain ⟨hlc2, hst2, hn2, hb⟩ := storeStep_frame hss
            rw [hb rfl]
            simp only
            exact LC.trans hlc (LC.trans hlc2 (ih isNew r2 rs2 (by omega) (by rw [hst2]; exact hni1)))
        | false =>
          simp only
          unfold afterMiss
          rw [if_neg (by omega)]
          exact hlc

open SeqIo.Fasta.Fault in
theorem storeK_nogrow (f fu : Nat) (isNew : Bool) (r1 : Reader) (rs : RecordSet)
    (hni : r1.state ≠ .incomplete) : LC r1 (storeK f fu none isNew r1 rs).1 := by
  unfold storeK
  cases hss : storeStep none r1 rs with
  | none => exact LC.refl r1
  | some q2 =>
    obtain ⟨r2, rs2, b⟩ := q2
    obtain ⟨hlc2, hst2, hn2, hb⟩ := storeStep_frame hss
    rw [hb rfl]
    simp only
    exact LC.trans hlc2 (tail_nogrow fu f isNew r2 rs2 (by omega) (by rw [hst2]; exact hni))

/-- all requests are made for a record that does not fit -/
def Unfits (inp : List UInt8) (s : Nat) (new : List (Nat × Option Nat)) : Prop :=
  ∀ e ∈ new, e.1 < recExtent inp s + 1

open SeqIo.Fasta.Fault in
/-- the loop entered with a pending, incompletely searched record -/
theorem setLoop_plain_incomplete {inp : List UInt8} {r : Reader} {k : Nat} (f fu : Nat)
    (rs : RecordSet) (h : Ready inp r k) (hst : r.state = .incomplete) (hfu : inp.length < fu) :
    ∃ new, (setLoop (f + 1) fu none true r rs).1.log = r.log ++ new ∧ Unfits inp r.byte new := by
  obtain ⟨hfull, hnear⟩ := h.inc hst
  have hcl := h.win.b.cur_le
  obtain ⟨r', new, hg, hun, hcase⟩ := resume_spec fu r r.byte h.win h.scan hst hfull hnear (by omega)
  refine ⟨new, ?_, hun⟩
  rw [setLoop_eq, if_neg (by rw [hst]; intro h; cases h), if_pos hst]
  rcases hcase with ⟨hres, _, _, _, _, _, _, hst'⟩ | ⟨hres, _⟩
  · rw [hres]
    simp only
    by_cases hf : r'.state = .finished
    · rw [if_neg (by rw [hf]; simp)]
      rw [(storeK_nogrow f fu true r' rs (by rw [hf]; intro h; cases h)).log]
      exact hg.log
    · rw [if_pos hf]
      rw [(storeK_nogrow f fu true { r' with state := .positioned } rs (by intro h; cases h)).log]
      exact hg.log
  · rw [hres]
    exact hg.log

open SeqIo.Fasta.Fault in
/-- the loop entered at the start of a record, nothing stored yet -/
theorem setLoop_plain_positioned {inp : List UInt8} {r : Reader} {k : Nat} (f fu : Nat)
    (rs : RecordSet) (h : Ready inp r k) (hst : r.state = .positioned) (h0 : rs.npos = 0)
    (hfu : inp.length < fu) :
    ∃ new, (setLoop (f + 2) fu none true r rs).1.log = r.log ++ new ∧ Unfits inp r.byte new := by
  obtain ⟨r1, fnd, hsearch, hbr1, hpol1, hlog1, hl1, hb1, hstart1, htrue, hfalse⟩ :=
    search_step h.win h.eof h.scan (by rw [hst]; intro h; cases h)
  rw [setLoop_eq, if_neg (by rw [hst]; intro h; cases h), if_neg (by rw [hst]; intro h; cases h),
    hsearch]
  cases fnd with
  | true =>
    obtain ⟨_, hstate⟩ := htrue rfl
    simp only
    refine ⟨[], ?_, fun e he => by cases he⟩
    rw [(storeK_nogrow (f + 1) fu true r1 rs (by
      rcases hstate with h | h <;> rw [h] <;> (try rw [hst]) <;> intro h' <;> cases h')).log, hlog1,
      List.append_nil]
  | false =>
    obtain ⟨hs1, hst1, hfull, hnear⟩ := hfalse rfl
    simp only
    unfold afterMiss
    rw [if_pos h0]
    have hr1 : Ready inp r1 k :=
      ⟨⟨by rw [hbr1]; exact h.win.b, by rw [hpol1]; exact h.win.pol⟩,
        by unfold Eof; rw [hbr1]; exact h.eof, by rw [hb1]; exact hs1, by rw [hb1, hl1]; exact h.pt,
        fun _ => ⟨by rw [hbr1]; exact hfull, by rw [hbr1]; exact hnear⟩⟩
    obtain ⟨new, hlog, hun⟩ := setLoop_plain_incomplete f fu rs hr1 hst1 hfu
    exact ⟨new, by rw [hlog, hlog1], by rw [← hb1]; exact hun⟩

/-! ## the start of every record of S is a `RecStart` -/

theorem pt_unique {inp : List UInt8} {k s ln s' ln' : Nat} (h : Pt inp k s ln) (h' : Pt inp k s' ln') :
    s = s' := by
  obtain ⟨rc, hk, hb, _⟩ := pt_step h
  obtain ⟨rc', hk', hb', _⟩ := pt_step h'
  rw [hk] at hk'
  cases hk'
  rw [← hb, ← hb']

theorem recStart_of_pt (inp : List UInt8) : ∀ (k s ln : Nat), Pt inp k s ln → RecStart inp s := by
  intro k
  induction k with
  | zero =>
    intro s ln hp
    have hbs := blank_spec inp [] 0 0 0 0
    generalize hsb : scanBlank (splitLF inp) 0 0 0 = sb at hbs
    cases sb with
    | inl x =>
      obtain ⟨ln', pos', c⟩ := x
      simp only [Nat.sub_zero, List.append_nil, Nat.zero_add] at hbs
      obtain ⟨_, _, hskip, hhead, l, ls, hl, hc⟩ := hbs
      obtain ⟨h1, h2⟩ := items_of_skip inp pos' ln' c l ls hskip hl hc hhead
      by_cases hgt : c = GT
      · have hp0 := (h1 hgt).2
        rw [pt_unique hp hp0]
        exact RecStart.first (by rw [hskip, hl]) (by rw [hc, hgt])
      · have := hp.lt
        rw [(h2 hgt).1] at this
        cases this
    | inr x =>
      obtain ⟨ln', pos', ll⟩ := x
      simp only [List.append_nil, Nat.zero_add] at hbs
      obtain ⟨_, _, _, _, hsm, _, hskip⟩ := hbs
      have : (skipBlank (lines inp) 0 1).1 = [] := by
        rw [hskip]
        exact skipBlank_small _ hsm _ _
      have hlt := hp.lt
      rw [(items_of_skip_nil inp this).1] at hlt
      cases hlt
  | succ k ih =>
    intro s ln hp
    have hlt := hp.lt
    have hk : (recsOf inp)[k]? = some ((recsOf inp)[k]'(by omega)) := List.getElem?_eq_getElem (by omega)
    have hpk := pt_all inp k _ hk
    have hrs := ih _ _ hpk
    obtain ⟨_, _, _, _, _, _, hfound, hnot⟩ := pt_step hpk
    cases hf : (scan (inp.drop ((recsOf inp)[k]'(by omega)).byte) ((recsOf inp)[k]'(by omega)).byte []).1 with
    | false => have := hnot hf; omega
    | true =>
      have hp1 := hfound hf
      rw [pt_unique hp hp1]
      exact RecStart.next hrs hf

/-! ## whole calls -/

/-- the requests of a call, if any, concern one record of S that does not fit -/
def UnfitLog (inp : List UInt8) (new : List (Nat × Option Nat)) : Prop :=
  new = [] ∨ ∃ s, RecStart inp s ∧ Unfits inp s new

theorem unfitLog_of_ready {inp : List UInt8} {r : Reader} {k : Nat} (h : Ready inp r k)
    {new : List (Nat × Option Nat)} (hun : Unfits inp r.byte new) : UnfitLog inp new :=
  Or.inr ⟨r.byte, recStart_of_pt inp k _ _ h.pt, hun⟩

/-- the requests of one plain `read_record_set` call from any reachable state: they all concern
record `k`, the first record of the batch -/
theorem readSet_plain_unfit {inp : List UInt8} {r : Reader} {k fu : Nat} (h : RInv inp r k)
    (hfu : 2 * inp.length + 2 < fu) (rs : RecordSet) :
    ∃ new, (readRecordSetExact fu r rs none).1.log = r.log ++ new ∧
      (new = [] ∨ ∃ rc, (recsOf inp)[k]? = some rc ∧ RecStart inp rc.byte ∧ Unfits inp rc.byte new) := by
  have hfu1 : inp.length < fu := by omega
  obtain ⟨f, rfl⟩ : ∃ f, fu = f + 2 := ⟨fu - 2, by omega⟩
  -- the loop from a pending record
  have hloop : ∀ r0 : Reader, Ready inp r0 k → (r0.state = .positioned ∨ r0.state = .incomplete) →
      ∃ new, (Fault.setPost (f + 2) none rs (r0, .ok true)).1.log = r0.log ++ new ∧
        (new = [] ∨ ∃ rc, (recsOf inp)[k]? = some rc ∧ RecStart inp rc.byte ∧ Unfits inp rc.byte new) := by
    intro r0 hr0 hst0
    obtain ⟨rc, hk, hb, _⟩ := pt_step hr0.pt
    have hrs : RecStart inp rc.byte := by rw [hb]; exact recStart_of_pt inp k _ _ hr0.pt
    obtain ⟨new, hlog, hun⟩ : ∃ new, (setLoop (f + 2) (f + 2) none true r0 { rs with npos := 0 }).1.log =
        r0.log ++ new ∧ Unfits inp r0.byte new := by
      rcases hst0 with h' | h'
      · exact setLoop_plain_positioned f (f + 2) _ hr0 h' rfl hfu1
      · exact setLoop_plain_incomplete (f + 1) (f + 2) _ hr0 h' hfu1
    refine ⟨new, ?_, Or.inr ⟨rc, hk, hrs, by rw [hb]; exact hun⟩⟩
    unfold Fault.setPost
    simp only
    rcases hl : setLoop (f + 2) (f + 2) none true r0 { rs with npos := 0 } with ⟨r2, rs2, res2⟩
    rw [hl] at hlog
    simp only at hlog ⊢
    cases res2 with
    | ok b => cases b <;> exact hlog
    | err e => exact hlog
    | panic => exact hlog
    | fuel => exact hlog
  rw [Fault.readSet_eq]
  have hnil : ∀ pre : Reader × Res Bool, pre.2 ≠ .ok true → LC r pre.1 →
      ∃ new, (Fault.setPost (f + 2) none rs pre).1.log = r.log ++ new ∧
        (new = [] ∨ ∃ rc, (recsOf inp)[k]? = some rc ∧ RecStart inp rc.byte ∧ Unfits inp rc.byte new) := by
    intro pre hne hlc
    obtain ⟨r1, res⟩ := pre
    refine ⟨[], ?_, Or.inl rfl⟩
    rw [List.append_nil]
    unfold Fault.setPost
    cases res with
    | ok b =>
      cases b with
      | true => exact absurd rfl hne
      | false => exact hlc.log
    | err e => exact hlc.log
    | panic => exact hlc.log
    | fuel => exact hlc.log
  cases h with
  | fresh hf =>
    obtain ⟨r1, res1, hinit, _, hcase⟩ := init_fresh hf hfu1
    have hlc := init_lc (f + 2) r
    rw [hinit] at hlc
    have hpre : Fault.setPre (f + 2) r =
        match res1 with
        | .ok true => ({ r1 with state := .positioned }, .ok true)
        | x => (r1, x) := by
      simp only [Fault.setPre, hf.st, hinit]
      cases res1 with
      | ok b => cases b <;> rfl
      | err e => rfl
      | panic => rfl
      | fuel => rfl
    rw [hpre]
    rcases hcase with ⟨hres, _, hready⟩ | ⟨hres, _⟩ | ⟨ln, c, hres, _⟩
    · subst hres
      obtain ⟨new, hlog, hun⟩ := hloop { r1 with state := .positioned }
        (hready .positioned (by intro h; cases h)) (Or.inl rfl)
      exact ⟨new, by rw [hlog]; show r1.log ++ new = _; rw [hlc.log], hun⟩
    · subst hres
      exact hnil (r1, .ok false) (by intro h; cases h) hlc
    · subst hres
      exact hnil (r1, _) (by intro h; cases h) hlc
  | parsing hp hst0 =>
    have hpre : Fault.setPre (f + 2) r = ({ incRec r with state := .positioned }, .ok true) := by
      simp only [Fault.setPre, hst0, incrementRecord_eq r hp.start_le]
    rw [hpre]
    obtain ⟨new, hlog, hun⟩ := hloop { incRec r with state := .positioned }
      (ready_incRec hp .positioned (by intro h; cases h)) (Or.inl rfl)
    exact ⟨new, hlog, hun⟩
  | ready hr hst =>
    have hpre : Fault.setPre (f + 2) r = (r, .ok true) := by
      rcases hst with h' | h' <;> simp only [Fault.setPre, h']
    rw [hpre]
    exact hloop r hr hst
  | finished hfin hk =>
    have hpre : Fault.setPre (f + 2) r = (r, .ok false) := by
      simp only [Fault.setPre, hfin.st]
    rw [hpre]
    exact hnil (r, .ok false) (by intro h; cases h) (LC.refl r)

end SeqIo.Fasta.Hist
