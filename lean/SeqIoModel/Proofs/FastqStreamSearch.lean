import SeqIoModel.Proofs.FastqStreamValidate
/-!
# FASTQ stream proof, part 3: `search` and `search_incomplete`
-/

namespace SeqIo.Fastq
open SeqIo SeqIo.Spec SeqIo.WriteProofs

def wrapV (x : Reader × Res Unit) : Reader × Res (Option RecordPos) :=
  match x with
  | (r, .ok ()) => (r, .ok none)
  | (r, .err e) => (r, .err e)
  | (r, .panic) => (r, .panic)
  | (r, .fuel) => (r, .fuel)

theorem si_head_none (r : Reader) (h0 : r.bp.pos0 ≤ r.br.buf.length)
    (h : nl r.br.buf r.bp.pos0 = none) :
    searchIncomplete r .head = ({ r with incompletePos := some .head }, .ok (some .head)) := by
  simp [searchIncomplete, findLine_of_le h0, h]

theorem si_head_some (r : Reader) (x : Nat) (h0 : r.bp.pos0 ≤ r.br.buf.length)
    (h : nl r.br.buf r.bp.pos0 = some x) :
    searchIncomplete r .head = searchIncomplete { r with bp := { r.bp with seq := x } } .seq := by
  simp [searchIncomplete, findLine_of_le h0, h, RecordPos.ord]

theorem si_seq_none (r : Reader) (h0 : r.bp.seq ≤ r.br.buf.length)
    (h : nl r.br.buf r.bp.seq = none) :
    searchIncomplete r .seq = ({ r with incompletePos := some .seq }, .ok (some .seq)) := by
  simp [searchIncomplete, findLine_of_le h0, h, RecordPos.ord]

theorem si_seq_some (r : Reader) (x : Nat) (h0 : r.bp.seq ≤ r.br.buf.length)
    (h : nl r.br.buf r.bp.seq = some x) :
    searchIncomplete r .seq = searchIncomplete { r with bp := { r.bp with sep := x } } .sep := by
  simp [searchIncomplete, findLine_of_le h0, h, RecordPos.ord]

theorem si_sep_none (r : Reader) (h0 : r.bp.sep ≤ r.br.buf.length)
    (h : nl r.br.buf r.bp.sep = none) :
    searchIncomplete r .sep = ({ r with incompletePos := some .sep }, .ok (some .sep)) := by
  simp [searchIncomplete, findLine_of_le h0, h, RecordPos.ord]

theorem si_sep_some (r : Reader) (x : Nat) (h0 : r.bp.sep ≤ r.br.buf.length)
    (h : nl r.br.buf r.bp.sep = some x) :
    searchIncomplete r .sep = searchIncomplete { r with bp := { r.bp with qual := x } } .qual := by
  simp [searchIncomplete, findLine_of_le h0, h, RecordPos.ord]

theorem si_qual_none (r : Reader) (h0 : r.bp.qual ≤ r.br.buf.length)
    (h : nl r.br.buf r.bp.qual = none) :
    searchIncomplete r .qual = ({ r with incompletePos := some .qual }, .ok (some .qual)) := by
  simp [searchIncomplete, findLine_of_le h0, h, RecordPos.ord]

theorem si_qual_some (r : Reader) (x : Nat) (h0 : r.bp.qual ≤ r.br.buf.length)
    (h : nl r.br.buf r.bp.qual = some x) :
    searchIncomplete r .qual =
      wrapV (validate { r with bp := { r.bp with pos1 := x - 1 }, incompletePos := none }) := by
  have hx : 1 ≤ x := by have := (nl_some h).1; omega
  simp [searchIncomplete, findLine_of_le h0, h, RecordPos.ord, csub_of_le hx, wrapV]
  generalize validate _ = v
  rcases v with ⟨r', (_ | _ | _ | _)⟩ <;> rfl

def wrapS (x : Reader × Res (Option RecordPos)) : Reader × Res Bool :=
  match x with
  | (r, .ok none) => (r, .ok true)
  | (r, .ok (some _)) => (r, .ok false)
  | (r, .err e) => (r, .err e)
  | (r, .panic) => (r, .panic)
  | (r, .fuel) => (r, .fuel)

theorem search_eq (r : Reader) (hip : r.incompletePos = none) :
    search r = wrapS (searchIncomplete r .head) := by
  rcases r with ⟨br, bp, ip, line, byte, st, pol, log⟩
  simp only at hip
  subst hip
  rcases h1 : findLine br.buf bp.pos0 with _ | _ | sq
  · simp [search, searchIncomplete, h1, wrapS]
  · simp [search, searchIncomplete, h1, wrapS]
  · rcases h2 : findLine br.buf sq with _ | _ | sp
    · simp [search, searchIncomplete, h1, h2, wrapS, RecordPos.ord]
    · simp [search, searchIncomplete, h1, h2, wrapS, RecordPos.ord]
    · rcases h3 : findLine br.buf sp with _ | _ | ql
      · simp [search, searchIncomplete, h1, h2, h3, wrapS, RecordPos.ord]
      · simp [search, searchIncomplete, h1, h2, h3, wrapS, RecordPos.ord]
      · rcases h4 : findLine br.buf ql with _ | _ | e
        · simp [search, searchIncomplete, h1, h2, h3, h4, wrapS, RecordPos.ord]
        · simp [search, searchIncomplete, h1, h2, h3, h4, wrapS, RecordPos.ord]
        · rcases h5 : csub e 1 with _ | p1
          · simp [search, searchIncomplete, h1, h2, h3, h4, h5, wrapS, RecordPos.ord]
          · simp [search, searchIncomplete, h1, h2, h3, h4, h5, wrapS, RecordPos.ord, validated]
            generalize validate _ = v
            rcases v with ⟨r', (_ | _ | _ | _)⟩ <;> rfl

/-! ## what a (resumed) search establishes -/

/-- the line starts found so far when the search stopped in line `ip` -/
def Pre (buf : List UInt8) (bp : BufPos) : RecordPos → Prop
  | .head => True
  | .seq => nl buf bp.pos0 = some bp.seq
  | .sep => nl buf bp.pos0 = some bp.seq ∧ nl buf bp.seq = some bp.sep
  | .qual => nl buf bp.pos0 = some bp.seq ∧ nl buf bp.seq = some bp.sep ∧
      nl buf bp.sep = some bp.qual

def lastPos (bp : BufPos) : RecordPos → Nat
  | .head => bp.pos0
  | .seq => bp.seq
  | .sep => bp.sep
  | .qual => bp.qual

/-- the search stopped in line `ip`: the earlier line starts are found, and there is no LF
from the start of line `ip` to the end of the buffer -/
def Scan (buf : List UInt8) (bp : BufPos) (ip : RecordPos) : Prop :=
  Pre buf bp ip ∧ nl buf (lastPos bp ip) = none

/-- all four lines found (`pos1` = offset of the LF ending the quality line) -/
def Found4 (buf : List UInt8) (bp : BufPos) : Prop :=
  nl buf bp.pos0 = some bp.seq ∧ nl buf bp.seq = some bp.sep ∧ nl buf bp.sep = some bp.qual ∧
    nl buf bp.qual = some (bp.pos1 + 1)

/-- outcome of `search_incomplete` -/
def SiOut (r : Reader) (res : Reader × Res (Option RecordPos)) : Prop :=
  (∃ bp' ip', bp'.pos0 = r.bp.pos0 ∧ Scan r.br.buf bp' ip' ∧
      res = ({ r with bp := bp', incompletePos := some ip' }, .ok (some ip'))) ∨
  (∃ bp', bp'.pos0 = r.bp.pos0 ∧ Found4 r.br.buf bp' ∧
      res = wrapV (validate { r with bp := bp', incompletePos := none }))

theorem si_spec_qual (r : Reader) (hpre : Pre r.br.buf r.bp .qual) :
    SiOut r (searchIncomplete r .qual) := by
  obtain ⟨p1, p2, p3⟩ := hpre
  have h0 : r.bp.qual ≤ r.br.buf.length := (nl_some p3).2.1
  cases h : nl r.br.buf r.bp.qual with
  | none =>
    rw [si_qual_none r h0 h]
    exact Or.inl ⟨r.bp, .qual, rfl, ⟨⟨p1, p2, p3⟩, h⟩, rfl⟩
  | some x =>
    rw [si_qual_some r x h0 h]
    have hx : 1 ≤ x := by have := (nl_some h).1; omega
    refine Or.inr ⟨{ r.bp with pos1 := x - 1 }, rfl, ⟨p1, p2, p3, ?_⟩, rfl⟩
    simp only [h, Option.some.injEq]; omega

theorem si_spec_sep (r : Reader) (hpre : Pre r.br.buf r.bp .sep) :
    SiOut r (searchIncomplete r .sep) := by
  obtain ⟨p1, p2⟩ := hpre
  have h0 : r.bp.sep ≤ r.br.buf.length := (nl_some p2).2.1
  cases h : nl r.br.buf r.bp.sep with
  | none =>
    rw [si_sep_none r h0 h]
    exact Or.inl ⟨r.bp, .sep, rfl, ⟨⟨p1, p2⟩, h⟩, rfl⟩
  | some x =>
    rw [si_sep_some r x h0 h]
    exact si_spec_qual { r with bp := { r.bp with qual := x } } ⟨p1, p2, h⟩

theorem si_spec_seq (r : Reader) (hpre : Pre r.br.buf r.bp .seq) :
    SiOut r (searchIncomplete r .seq) := by
  have p1 : nl r.br.buf r.bp.pos0 = some r.bp.seq := hpre
  have h0 : r.bp.seq ≤ r.br.buf.length := (nl_some p1).2.1
  cases h : nl r.br.buf r.bp.seq with
  | none =>
    rw [si_seq_none r h0 h]
    exact Or.inl ⟨r.bp, .seq, rfl, ⟨p1, h⟩, rfl⟩
  | some x =>
    rw [si_seq_some r x h0 h]
    exact si_spec_sep { r with bp := { r.bp with sep := x } } ⟨p1, h⟩

theorem si_spec_head (r : Reader) (h0 : r.bp.pos0 ≤ r.br.buf.length) :
    SiOut r (searchIncomplete r .head) := by
  cases h : nl r.br.buf r.bp.pos0 with
  | none =>
    rw [si_head_none r h0 h]
    exact Or.inl ⟨r.bp, .head, rfl, ⟨trivial, h⟩, rfl⟩
  | some x =>
    rw [si_head_some r x h0 h]
    exact si_spec_seq { r with bp := { r.bp with seq := x } } h

theorem si_spec (r : Reader) (ip : RecordPos) (h0 : r.bp.pos0 ≤ r.br.buf.length)
    (hpre : Pre r.br.buf r.bp ip) : SiOut r (searchIncomplete r ip) := by
  cases ip with
  | head => exact si_spec_head r h0
  | seq => exact si_spec_seq r hpre
  | sep => exact si_spec_sep r hpre
  | qual => exact si_spec_qual r hpre

/-! ## `Pre`/`Scan` under buffer extension and shifting -/

theorem Pre.append {buf : List UInt8} {bp : BufPos} {ip : RecordPos} (e : List UInt8)
    (h : Pre buf bp ip) : Pre (buf ++ e) bp ip := by
  cases ip with
  | head => trivial
  | seq => exact nl_append e h
  | sep => exact ⟨nl_append e h.1, nl_append e h.2⟩
  | qual => exact ⟨nl_append e h.1, nl_append e h.2.1, nl_append e h.2.2⟩

/-- positions of a search stopped in line `ip` are ordered -/
theorem Pre.le {buf : List UInt8} {bp : BufPos} {ip : RecordPos} (h : Pre buf bp ip)
    (h0 : bp.pos0 ≤ buf.length) :
    bp.pos0 ≤ lastPos bp ip ∧ lastPos bp ip ≤ buf.length := by
  cases ip with
  | head => exact ⟨Nat.le_refl _, h0⟩
  | seq =>
    have := nl_some (show nl buf bp.pos0 = some bp.seq from h)
    simp only [lastPos]; omega
  | sep =>
    have a := nl_some h.1
    have b := nl_some h.2
    simp only [lastPos]; omega
  | qual =>
    have a := nl_some h.1
    have b := nl_some h.2.1
    have c := nl_some h.2.2
    simp only [lastPos]; omega


/-! ## does a group fit into a buffer? -/

theorem nl_restrict {t e : List UInt8} {a b : Nat} (h : nl (t ++ e) a = some b)
    (hb : b ≤ t.length) : nl t a = some b := by
  cases ht : nl t a with
  | some b' =>
    have := nl_append e ht
    rw [h] at this
    exact this.symm
  | none =>
    exfalso
    have hno := nl_none ht
    obtain ⟨hab, -, hlf, -, -⟩ := nl_some h
    apply hno
    rw [List.mem_iff_getElem?]
    refine ⟨b - 1 - a, ?_⟩
    rw [List.getElem?_drop]
    have : a + (b - 1 - a) = b - 1 := by omega
    rw [this]
    rw [List.getElem?_append_left (by omega)] at hlf
    exact hlf

/-- offset after the fourth LF -/
def nl4 (t : List UInt8) : Option Nat :=
  (nl t 0).bind fun a => (nl t a).bind fun b => (nl t b).bind fun c => nl t c

/-- the group at the start of `t` fits into a buffer of `c` bytes: its extent through the
fourth LF is at most `c`, or – for an unterminated last group – its extent plus one is -/
def Fits (t : List UInt8) (c : Nat) : Prop :=
  match nl4 t with
  | some e => e ≤ c
  | none => t.length < c

theorem nl4_some {t : List UInt8} {e : Nat} (h : nl4 t = some e) :
    ∃ a b c, nl t 0 = some a ∧ nl t a = some b ∧ nl t b = some c ∧ nl t c = some e := by
  unfold nl4 at h
  cases h1 : nl t 0 with
  | none => simp [h1] at h
  | some a =>
    simp only [h1, Option.bind_some] at h
    cases h2 : nl t a with
    | none => simp [h2] at h
    | some b =>
      simp only [h2, Option.bind_some] at h
      cases h3 : nl t b with
      | none => simp [h3] at h
      | some c =>
        simp only [h3, Option.bind_some] at h
        exact ⟨a, b, c, rfl, h2, h3, h⟩

/-- a search that stopped at the end of a buffer starting with the group: the group does not
fit into the buffer -/
theorem scan_unfit {buf rest : List UInt8} {bp : BufPos} {ip : RecordPos} (hsc : Scan buf bp ip)
    (h0 : bp.pos0 = 0) : ¬ Fits (buf ++ rest) buf.length := by
  unfold Fits
  cases h4 : nl4 (buf ++ rest) with
  | none => simp only [List.length_append]; omega
  | some e =>
    simp only
    intro hle
    obtain ⟨a, b, c, ha, hb, hc, he⟩ := nl4_some h4
    have ha' := (nl_some ha).1
    have hb' := (nl_some hb).1
    have hc' := (nl_some hc).1
    have he' := (nl_some he).1
    have ra := nl_restrict ha (by omega)
    have rb := nl_restrict hb (by omega)
    have rc := nl_restrict hc (by omega)
    have re := nl_restrict he hle
    obtain ⟨hpre, hnone⟩ := hsc
    cases ip with
    | head =>
      simp only [lastPos, h0] at hnone
      rw [hnone] at ra; cases ra
    | seq =>
      have p1 : nl buf bp.pos0 = some bp.seq := hpre
      rw [h0, ra] at p1
      simp only [Option.some.injEq] at p1
      simp only [lastPos, ← p1] at hnone
      rw [hnone] at rb; cases rb
    | sep =>
      obtain ⟨p1, p2⟩ := hpre
      rw [h0, ra] at p1
      simp only [Option.some.injEq] at p1
      rw [← p1, rb] at p2
      simp only [Option.some.injEq] at p2
      simp only [lastPos, ← p2] at hnone
      rw [hnone] at rc; cases rc
    | qual =>
      obtain ⟨p1, p2, p3⟩ := hpre
      rw [h0, ra] at p1
      simp only [Option.some.injEq] at p1
      rw [← p1, rb] at p2
      simp only [Option.some.injEq] at p2
      rw [← p2, rc] at p3
      simp only [Option.some.injEq] at p3
      simp only [lastPos, ← p3] at hnone
      rw [hnone] at re; cases re

end SeqIo.Fastq
