import SeqIoModel.Proofs.FastqHistorySeek
/-!
# FASTQ histories, part 5: every record shown is a record of the input

For every read script (failing reads included), scripted seek failures and policies that may
refuse: whatever the history (seeks included), every record shown by a single-record read, an
owned read or the dump of a record set is a record of `Spec.fastq inp`.

(Failing read scripts: see the end of this file for the two histories that returned a
fabricated record before `seek` was repaired.)
-/

namespace SeqIo.Fastq
open SeqIo SeqIo.Spec SeqIo.FillProofs SeqIo.Fastq.Hist SeqIo.WriteProofs

/-- the contents of the records of S -/
def allRecs (inp : List UInt8) : List Rec :=
  (Spec.fastq inp).filterMap fun
    | .record x => some (recOf x)
    | .err _ _ _ => none

/-- the records an observation shows -/
def recsOf : ObsH → List Rec
  | .record x => [x]
  | .dump xs => xs
  | _ => []

theorem mem_allRecs_of_drop {inp : List UInt8} {k : Nat} {ys : List FqRec} {rest : List FqItem}
    (h : (Spec.fastq inp).drop k = ys.map FqItem.record ++ rest) :
    ∀ x ∈ ys.map recOf, x ∈ allRecs inp := by
  intro x hx
  obtain ⟨y, hy, rfl⟩ := List.mem_map.mp hx
  have hmem : FqItem.record y ∈ (Spec.fastq inp).drop k := by
    rw [h]; exact List.mem_append_left _ (List.mem_map.mpr ⟨y, hy, rfl⟩)
  have hmem' := List.mem_of_mem_drop hmem
  exact List.mem_filterMap.mpr ⟨_, hmem', rfl⟩

/-- the machine state is genuine: the reader is good for a suffix of S's items, the sets show
records of S -/
def GenM (inp : List UInt8) (m : MSt) : Prop :=
  (∃ k, Good inp False m.r ((Spec.fastq inp).drop k)) ∧
  ∀ j, ∃ recs, viewAll (m.getSet j).buffer (m.getSet j).positions = some recs ∧
    ∀ x ∈ recs, x ∈ allRecs inp

theorem recsOf_obsSeek (res : Res Unit) : recsOf (obsSeek res) = [] := by
  rcases res with (b | _ | _ | _) <;> rfl

/-- a reader that stopped is good for a suffix of S's items -/
theorem good_suffix {inp : List UInt8} {G : Prop} {r : Reader} {its' : List FqItem}
    (h : Good inp G r its') (hst : r.state = .finished ∨ r.state = .new) :
    ∃ k, Good inp G r ((Spec.fastq inp).drop k) := by
  rcases hst with hst | hst
  · refine ⟨(Spec.fastq inp).length, ?_⟩
    have h' := h
    simp only [Good, hst] at h'
    rw [List.drop_length, ← h'.2]
    exact h
  · refine ⟨0, ?_⟩
    have h' := h
    simp only [Good, hst] at h'
    have : its' = Spec.fastq inp := by
      rw [h'.2.2.2.2.2.2]
      simp only [itemsAt, List.drop_zero, Spec.fastq]
    rw [List.drop_zero, ← this]
    exact h

theorem step_genuine (inp : List UInt8) (m : MSt) (hm : GenM inp m) (op : Op) (hwf : op.wf = true) :
    GenM inp (stepM m op).1 ∧ ∀ x ∈ recsOf (stepM m op).2, x ∈ allRecs inp := by
  obtain ⟨⟨k, hg⟩, hsets⟩ := hm
  have hfuel := fuelOf_ge m.r
  have keepSets : ∀ (r' : Reader) (j : Nat), ({ m with r := r' } : MSt).getSet j = m.getSet j := by
    intro r' j
    match j with
    | 0 => rfl
    | 1 => rfl
    | _ + 2 => rfl
  have atEnd : ∀ {r' : Reader}, Fin inp False r' →
      ∃ k, Good inp False r' ((Spec.fastq inp).drop k) :=
    fun hfin => ⟨(Spec.fastq inp).length, by rw [List.drop_length]; exact hfin.good⟩
  have nextCase : GenM inp (stepNext m).1 ∧ ∀ x ∈ recsOf (stepNext m).2, x ∈ allRecs inp := by
    have hF := next_found inp False (fuelOf m.r) m.r _ hg (by omega)
    simp only [stepNext]
    rcases hx : next (fuelOf m.r) m.r with ⟨r', res⟩
    rw [hx] at hF
    rcases hF with (⟨hr, x, its', hi, hsh⟩ | ⟨hr, hi, hfin⟩ | ⟨e, b, l, hr, hi, hfin⟩ |
      ⟨e, hr, henv, -, hfin⟩) | ⟨-, hres, its', hg', hst'⟩
    · simp only at hr hi hsh
      subst hr
      obtain ⟨hk, hd⟩ := drop_eq_cons hi
      refine ⟨⟨⟨k + 1, by rw [hd]; exact hsh.good⟩, fun j => by rw [keepSets]; exact hsets j⟩, ?_⟩
      simp only [obsNext, hsh.view, recsOf, List.mem_singleton]
      intro y hy
      subst hy
      exact List.mem_filterMap.mpr ⟨_, List.mem_of_getElem? hk, rfl⟩
    · simp only at hr hfin
      subst hr
      refine ⟨⟨atEnd hfin, fun j => by rw [keepSets]; exact hsets j⟩, ?_⟩
      simp [obsNext, recsOf]
    · simp only at hr hfin
      subst hr
      refine ⟨⟨atEnd hfin, fun j => by rw [keepSets]; exact hsets j⟩, ?_⟩
      simp [obsNext, recsOf]
    · simp only at hr hfin
      subst hr
      refine ⟨⟨atEnd hfin, fun j => by rw [keepSets]; exact hsets j⟩, ?_⟩
      simp [obsNext, recsOf]
    · simp only at hres hg' hst'
      refine ⟨⟨good_suffix hg' hst', fun j => by rw [keepSets]; exact hsets j⟩, ?_⟩
      rcases hres with h | ⟨k', h⟩ <;> subst h <;> simp [obsNext, recsOf]
  cases op with
  | next => exact nextCase
  | owned => exact nextCase
  | set j n =>
    have hR := readSet_spec inp False (fuelOf m.r) m.r (m.getSet j) n _ hg hfuel (wf_set hwf)
    simp only [stepM, stepSet]
    rcases hx : readRecordSetExact (fuelOf m.r) m.r (m.getSet j) n with ⟨r', rs', res⟩
    rw [hx] at hR
    have norec : ∀ x ∈ recsOf (obsSet rs' res), x ∈ allRecs inp := by
      intro x hx'
      rcases res with (b | _ | _ | _)
      · cases b <;> simp [obsSet, recsOf] at hx'
      all_goals simp [obsSet, recsOf] at hx'
    have setsAfter : (∃ recs, viewAll rs'.buffer rs'.positions = some recs ∧
        ∀ x ∈ recs, x ∈ allRecs inp) →
        ∀ i, ∃ recs, viewAll ((({ m with r := r' } : MSt).putSet j rs').getSet i).buffer
          ((({ m with r := r' } : MSt).putSet j rs').getSet i).positions = some recs ∧
          ∀ x ∈ recs, x ∈ allRecs inp := by
      intro hnew i
      rw [MSt.getSet_putSet]
      split
      · exact hnew
      · rw [keepSets]; exact hsets i
    refine ⟨⟨?_, ?_⟩, norec⟩
    · rw [MSt.putSet_r]
      rcases hR with ⟨-, ys, its', hi, -, -, hl, -⟩ | ⟨-, -, hfin, -⟩ | ⟨ys, e, b, l, -, -, -, hfin, -⟩ |
        ⟨e, -, -, -, -, hfin⟩ | ⟨-, -, -, its', hg', hst'⟩
      · exact ⟨k + ys.length, by
          have := drop_eq_append hi
          simp only [List.length_map] at this
          rw [this]; exact hl.1⟩
      · exact atEnd hfin
      · exact atEnd hfin
      · exact atEnd hfin
      · exact good_suffix hg' hst'
    · apply setsAfter
      rcases hR with ⟨-, ys, its', hi, hv, -, -, -⟩ | ⟨-, -, -, hrs⟩ | ⟨ys, e, b, l, -, -, hp, -, -⟩ |
        ⟨e, -, -, -, hp, -⟩ | ⟨-, -, hrs, -⟩
      · exact ⟨_, hv, mem_allRecs_of_drop hi⟩
      · rcases hrs with h | h
        · simp only at h; rw [h]; exact hsets j
        · simp only at h; exact ⟨[], by rw [h]; rfl, fun x hx' => by cases hx'⟩
      · simp only at hp; exact ⟨[], by rw [hp]; rfl, fun x hx' => by cases hx'⟩
      · simp only at hp; exact ⟨[], by rw [hp]; rfl, fun x hx' => by cases hx'⟩
      · simp only at hrs; rw [hrs]; exact hsets j
  | dump j =>
    refine ⟨⟨⟨k, hg⟩, hsets⟩, ?_⟩
    obtain ⟨recs, hv, hall⟩ := hsets j
    simp only [stepM, obsDump, hv, recsOf]
    exact hall
  | pos => exact ⟨⟨⟨k, hg⟩, hsets⟩, by simp [stepM, recsOf]⟩
  | seekItem i =>
    have hinp := good_inp hg
    simp only [stepM, stepSeek, hinp]
    cases hi : (Spec.fastq inp)[i]? with
    | none => exact ⟨⟨⟨k, hg⟩, hsets⟩, by simp [recsOf]⟩
    | some it =>
      obtain ⟨hb, hdrop⟩ := fastq_drop inp i it hi
      have norec : ∀ x ∈ recsOf (obsSeek (seek m.r (itemPos it).1 (itemPos it).2).2),
          x ∈ allRecs inp := by
        intro x hx'
        rw [recsOf_obsSeek] at hx'
        cases hx'
      refine ⟨⟨?_, fun j => by rw [keepSets]; exact hsets j⟩, norec⟩
      rcases seek_cases inp False m.r _ hg (itemPos it).1 (itemPos it).2 hb with
        ⟨-, h2, -, -⟩ | ⟨-, -, h2 | h2⟩
      · exact ⟨i, by rw [hdrop]; exact h2⟩
      · exact ⟨k, h2⟩
      · exact ⟨(Spec.fastq inp).length, by rw [List.drop_length]; exact h2⟩

theorem genM_mkM (inp : List UInt8) (cap : Nat) (hcap : 3 ≤ cap) (pol : Pol) (hwf : PolWf1 pol)
    (script : List ReadEv) (chunk : Nat) (seekFails : List (Nat × IoKind)) :
    GenM inp (mkM inp cap pol script chunk seekFails) := by
  refine ⟨⟨0, good_mkReader'' inp False cap hcap pol hwf (fun h => h.elim) script
    (fun h => h.elim) chunk seekFails (fun h => h.elim)⟩, ?_⟩
  intro j
  refine ⟨[], ?_, fun x hx => by cases hx⟩
  match j with
  | 0 => rfl
  | 1 => rfl
  | _ + 2 => rfl

theorem run_genuine (inp : List UInt8) : ∀ (ops : List Op) (m : MSt), GenM inp m →
    (∀ op ∈ ops, op.wf = true) →
    ∀ o ∈ runM m ops, ∀ x ∈ recsOf o, x ∈ allRecs inp := by
  intro ops
  induction ops with
  | nil => intro m _ _ o ho; cases ho
  | cons op ops ih =>
    intro m hm hops o ho
    obtain ⟨h1, h2⟩ := step_genuine inp m hm op (hops op List.mem_cons_self)
    simp only [runM, List.mem_cons] at ho
    rcases ho with rfl | ho
    · exact h2
    · exact ih _ h1 (fun o' ho' => hops o' (List.mem_cons_of_mem _ ho')) o ho

/-- **(d), C06.** Every record shown by any observation of any history (a record returned by
`next`, an owned record, the records of a dumped record set; seeks included) is a record of
`Spec.fastq inp` – for **every** read script (failing reads included), scripted seek failures,
and policies that answer more than the capacity passed or refuse. -/
theorem fastq_history_genuine (inp : List UInt8) (cap : Nat) (hcap : 3 ≤ cap) (pol : Pol)
    (hpol : PolWf pol) (script : List ReadEv) (chunk : Nat) (seekFails : List (Nat × IoKind))
    (ops : List Op) (hops : ∀ op ∈ ops, op.wf = true) :
    ∀ o ∈ runM (mkM inp cap pol script chunk seekFails) ops, ∀ x ∈ recsOf o, x ∈ allRecs inp :=
  run_genuine inp ops _ (genM_mkM inp cap hcap pol (PolWf.wf1 hpol) script chunk seekFails) hops

/-- the special case without failing seeks (the earlier form of the statement) -/
theorem fastq_history_genuine_noseekfail (inp : List UInt8) (cap : Nat) (hcap : 3 ≤ cap) (pol : Pol)
    (hpol : PolWf pol) (script : List ReadEv) (chunk : Nat)
    (ops : List Op) (hops : ∀ op ∈ ops, op.wf = true) :
    ∀ o ∈ runM (mkM inp cap pol script chunk) ops, ∀ x ∈ recsOf o, x ∈ allRecs inp :=
  fastq_history_genuine inp cap hcap pol hpol script chunk [] ops hops

/-- totality and genuineness together, as for FASTA -/
theorem fastq_history_total_genuine (inp : List UInt8) (cap : Nat) (hcap : 3 ≤ cap) (pol : Pol)
    (hpol : PolWf pol) (script : List ReadEv) (chunk : Nat) (seekFails : List (Nat × IoKind))
    (ops : List Op) (hops : ∀ op ∈ ops, op.wf = true) :
    ∀ o ∈ runM (mkM inp cap pol script chunk seekFails) ops,
      o ≠ .panic ∧ o ≠ .fuel ∧ ∀ x ∈ recsOf o, x ∈ allRecs inp := by
  intro o ho
  have h1 := fastq_history_total inp cap (by omega) pol hpol script chunk seekFails ops o ho
  exact ⟨h1.1, h1.2, fastq_history_genuine inp cap hcap pol hpol script chunk seekFails ops hops o ho⟩

/-! ## failing read scripts: the histories that showed a fabricated record before the repair

Before `seek` completed a partly filled buffer, these two histories returned the record
`b / GG / II`, which is not a record of the input (input `@b\nGG\n+\nIIII\n`: S has no record,
only `UnequalLengths 2 4`).  With the repaired `seek` they report S's error. -/

/-- `@b\nGG\n+\nIIII\n` -/
def cutInp : List UInt8 := [64, 98, 10, 71, 71, 10, 43, 10, 73, 73, 73, 73, 10]

theorem cutInp_spec : Spec.fastq cutInp = [.err (.unequalLengths 2 4 1 (some [98])) 0 1] := by
  decide

/-- The first refill hands out 10 bytes and then fails (capacity 64): `next` reports the I/O
error and the reader stays `new` with a short buffer.  A seek to offset 0 is served from the
buffer – which is completed first – and the following `next` reports S's error. -/
theorem repaired_after_failed_init :
    runM (mkM cutInp 64 PolDesc.std.toPol [.data 10, .fail 7]) [.next, .seekItem 0, .next] =
      [.error (.io 7), .done,
       .error (.unequalLengths 2 4 { line := 1, id := some [98] })] := by
  decide

/-- `@a\nAC\n+\nII\n@b\nGG\n+\nIIII\n` -/
def cutInp2 : List UInt8 :=
  [64, 97, 10, 65, 67, 10, 43, 10, 73, 73, 10, 64, 98, 10, 71, 71, 10, 43, 10, 73, 73, 73, 73, 10]

/-- The same after a refill that fails inside `resume_incomplete_search` (capacity 12): the
reader is finished, a seek to the second item revives it, and `next` reports S's error. -/
theorem repaired_after_failed_refill :
    runM (mkM cutInp2 12 PolDesc.std.toPol [.data 12, .data 9, .fail 7])
        [.next, .next, .seekItem 1, .next] =
      [.record { head := [97], seq := [65, 67], qual := [73, 73] }, .error (.io 7), .done,
       .error (.unequalLengths 2 4 { line := 5, id := some [98] })] := by
  decide

end SeqIo.Fastq
