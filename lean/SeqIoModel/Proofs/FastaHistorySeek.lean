import SeqIoModel.Proofs.FastaHistoryInv
/-!
# FASTA histories, part 5: `seek` to the position of a record, from any reachable state
-/
open SeqIo SeqIo.FillProofs SeqIo.Spec

namespace SeqIo.Fasta.Hist

theorem rinv_common {inp : List UInt8} {r : Reader} {k : Nat} (h : RInv inp r k) :
    Win inp r ∧ r.byte = r.bp.start + base r ∧ (r.br.buf ≠ [] → Eof inp r) := by
  cases h with
  | fresh hf =>
    refine ⟨hf.win, ?_, fun h => absurd hf.buf h⟩
    rw [hf.byte, hf.start]
    simp [base, baseB, hf.cur]
  | parsing hp _ => exact ⟨hp.win, hp.byte_eq, fun _ => hp.eof⟩
  | ready hr _ => exact ⟨hr.win, hr.scan.start_eq.symm, fun _ => hr.eof⟩
  | finished hf _ => exact ⟨hf.win, hf.byte_eq, fun _ => hf.eof⟩

/-- `BufReader::seek` that succeeds -/
def seekBr (b : BufRd) (to : Nat) : BufRd :=
  { b with src := { b.src with seekCount := b.src.seekCount + 1, cursor := to }, buf := [] }

/-- seeking to the position of record `i` makes record `i` pending -/
theorem seek_rinv {inp : List UInt8} {r : Reader} {k : Nat} (h : RInv inp r k)
    (hsf : r.br.src.seekFails = []) (i : Nat) (rc : FaRec) (hrc : (recsOf inp)[i]? = some rc) :
    ∃ r', seek r rc.line rc.byte = (r', .ok ()) ∧ Frame r r' ∧ Ready inp r' i ∧
      r'.state = .positioned ∧ r'.bp.seqPos = [] := by
  obtain ⟨hw, hbyte, heof⟩ := rinv_common h
  have hpt := pt_all inp i rc hrc
  have hlt : rc.byte < inp.length := by
    have := hpt.gt
    rcases Nat.lt_or_ge rc.byte inp.length with h | h
    · exact h
    · rw [List.drop_eq_nil_of_le h] at this; cases this
  have hba := hw.b.base_add
  have hbyte' : r.byte = r.bp.start + baseB r.br := hbyte
  have hbb : base r = baseB r.br := rfl
  unfold seek
  simp only
  split
  · rename_i hin
    have hge : base r ≤ rc.byte := by omega
    have hp : ((r.bp.start : Int) + ((rc.byte : Int) - (r.byte : Int))).toNat = rc.byte - base r := by
      omega
    have hlen : rc.byte - base r < r.br.buf.length := by omega
    rw [hp]
    have hne : r.br.buf ≠ [] := by
      intro h; rw [h] at hlen; simp at hlen
    have e : rc.byte - base r + base r = rc.byte := by omega
    -- completing the buffer: a window with the same base that is at least as long
    have hfilled : ∃ br2 x, (if r.br.buf.length < r.br.cap then fillBuf r.br else (r.br, Except.ok 0)) =
        (br2, Except.ok x) ∧ WinB inp br2 ∧ EofB inp br2 ∧ baseB br2 = baseB r.br ∧
        r.br.buf.length ≤ br2.buf.length ∧ br2.src.seekFails = r.br.src.seekFails := by
      by_cases hc : r.br.buf.length < r.br.cap
      · rw [if_pos hc]
        obtain ⟨br2, n, hfill, hwb2, heof2, hbase2, _, hbuf2, _⟩ := fill_win hw.b
        exact ⟨br2, n, hfill, hwb2, heof2, hbase2, by rw [hbuf2]; simp, fillBuf_seekFails' hfill⟩
      · rw [if_neg hc]
        exact ⟨r.br, 0, rfl, hw.b, heof hne, rfl, Nat.le_refl _, rfl⟩
    obtain ⟨br2, x, hf, hwb2, heof2, hbase2, hlen2, hsf2⟩ := hfilled
    rw [hf]
    simp only
    refine ⟨_, rfl, ⟨rfl, hsf2⟩, ⟨⟨hwb2, hw.pol⟩, heof2, ?_, hpt, fun h => by cases h⟩, rfl, rfl⟩
    have e2 : rc.byte - base r + baseB br2 = rc.byte := by rw [hbase2]; omega
    refine ⟨e2, Nat.le_refl _, by show rc.byte - base r ≤ br2.buf.length; omega,
      (by intro p hp; cases hp), ?_⟩
    show scan (inp.drop (rc.byte - base r + baseB br2)) (rc.byte - base r + baseB br2) [] = _
    rw [e2]
  · have hs : r.br.seek rc.byte = (seekBr r.br rc.byte, none) := by
      simp only [BufRd.seek, Src.seek, hsf, List.find?_nil, seekBr]
    rw [hs]
    simp only
    have hwb : WinB inp (seekBr r.br rc.byte) := by
      refine ⟨hw.b.inp_eq, Nat.zero_le _, Nat.le_of_lt hlt, ?_, hw.b.cap_ge, Nat.zero_le _, hw.b.nofail⟩
      simp [baseB, seekBr]
    obtain ⟨br2, n, hfill, hwb2, heof2, hbase2, hcap2, hbuf2, hcur2, hn, _⟩ := fill_win hwb
    rw [hfill]
    simp only
    have hb2 : baseB br2 = rc.byte := by rw [hbase2]; simp [baseB, seekBr]
    refine ⟨_, rfl, ⟨rfl, ?_⟩, ⟨⟨hwb2, hw.pol⟩, heof2, ?_, hpt, fun h => by cases h⟩, rfl, rfl⟩
    · show br2.src.seekFails = _
      rw [fillBuf_seekFails' hfill]
      rfl
    · refine ⟨by show 0 + baseB br2 = rc.byte; omega, Nat.le_refl _, Nat.zero_le _,
        (by intro p hp; cases hp), ?_⟩
      show scan (inp.drop (0 + baseB br2)) (0 + baseB br2) [] = _
      rw [hb2, Nat.zero_add]

end SeqIo.Fasta.Hist
