import SeqIoModel.Proofs.FastqGrowth
/-!
# Growth bookkeeping of FASTQ record-set reads (C09)

`FastqGrowth.lean` has the bookkeeping for `next`; this file adds it for `read_record_set` and
`read_record_set_exact`:

* `GrowLog.append`: chains of policy requests compose;
* `setLoop_log`: the loop of `read_record_set_exact` composes the chains of its `resume` calls
  (`LogOk` of `resume_spec`) into one chain; in plain mode (`n = none`, the buffer may be shifted
  throughout) the loop enters `resume` only while the set is still empty, so every request is made
  while the FIRST group of the batch does not fit;
* `set_growth_log`: the same for one whole call from any good state (any environment `G`, any
  `PolWf1` policy), plain or exact-count; for exact-count reads only the chain part (well-formed
  chain, `BufferLimit` iff the last request was refused) is claimed;
* `fitting_never_grows_history`: if every group of the input fits into the initial capacity, no
  history of single-record reads, owned reads, plain record-set reads, dumps and position queries
  ever asks the policy.
-/

namespace SeqIo.Fastq
open SeqIo SeqIo.Spec SeqIo.FillProofs SeqIo.Fastq.Hist

/-- chains of requests compose: an unrefused chain followed by another chain -/
theorem GrowLog.append {c c1 c2 : Nat} {new1 new2 : List (Nat × Option Nat)} {b1 b : Bool}
    (h1 : GrowLog c new1 c1 b1) (hb : b1 = false) (h2 : GrowLog c1 new2 c2 b) :
    GrowLog c (new1 ++ new2) c2 b := by
  induction h1 with
  | nil c => simpa using h2
  | grant c n rest cf b' hlt _ ih => exact GrowLog.grant _ _ _ _ _ hlt (ih hb h2)
  | refuse c => cases hb

/-- growth bookkeeping of the loop of `read_record_set_exact` started at reader `r` with the set
`rs`: the log is extended by a well-formed chain of requests, `BufferLimit` is returned iff the last
request was refused; in plain mode (`n = none`) every request is made while the set is still empty
and the group at `r.byte` – the first one of the batch – does not fit into the capacity passed; and
the loop stops at the start of a group -/
def SetLog (inp : List UInt8) (n : Option Nat) (r : Reader) (rs : RecordSet)
    (x : Reader × RecordSet × Res Bool) : Prop :=
  ∃ new b, x.1.log = r.log ++ new ∧ GrowLog r.br.cap new x.1.br.cap b ∧
    (x.2.2 = .err .bufferLimit ↔ b = true) ∧
    (n = none → ∀ c a, (c, a) ∈ new → rs.positions = [] ∧ ¬ Fits (inp.drop r.byte) c) ∧
    (IsStart inp r.byte → x.1.state = .positioned → IsStart inp x.1.byte)

/-- nothing was requested -/
theorem SetLog.same {inp n r rs} {x : Reader × RecordSet × Res Bool} (hl : x.1.log = r.log)
    (hc : x.1.br.cap = r.br.cap) (hr : x.2.2 ≠ .err .bufferLimit)
    (hs : IsStart inp r.byte → x.1.state = .positioned → IsStart inp x.1.byte) :
    SetLog inp n r rs x :=
  ⟨[], false, by simp [hl], by rw [hc]; exact GrowLog.nil _,
    ⟨fun h => absurd h hr, fun h => (by cases h)⟩, (fun _ c a h => by cases h), hs⟩

/-- the loop goes on from a reader `r2` that differs from `r` in neither log, capacity nor offset -/
theorem SetLog.from {inp n r r2 rs} {x : Reader × RecordSet × Res Bool}
    (h : SetLog inp n r2 rs x) (hl : r2.log = r.log) (hc : r2.br.cap = r.br.cap)
    (hb : r2.byte = r.byte) : SetLog inp n r rs x := by
  obtain ⟨new, b, h1, h2, h3, h4, h5⟩ := h
  exact ⟨new, b, by rw [h1, hl], by rw [← hc]; exact h2, h3, by rw [← hb]; exact h4,
    by rw [← hb]; exact h5⟩

theorem specErr_ne_bl (e : FqErr) : specErr e ≠ .bufferLimit := by
  cases e <;> (intro h; cases h)

/-- **the loop of `read_record_set(_exact)`: growth bookkeeping.**  `isNew = true` (the buffer
may be shifted) is the mode of plain reads throughout. -/
theorem setLoop_log (inp : List UInt8) (G : Prop) (fuel : Nat) (hfuel : inp.length + 2 ≤ fuel)
    (n : Option Nat) (f : Nat) :
    ∀ (isNew : Bool) (r : Reader) (rs : RecordSet) (its : List FqItem),
      LoopSt inp G r its →
      (n = none → isNew = true) →
      (n = none → r.state = .positioned → r.incompletePos ≠ none → rs.positions = []) →
      SetLog inp n r rs (setLoop f fuel n isNew r rs) := by
  induction f with
  | zero =>
    intro isNew r rs its _ _ _
    exact SetLog.same rfl rfl (by intro h; cases h) (fun h _ => h)
  | succ f ih =>
    intro isNew r rs its hl hmode hnew
    obtain ⟨hg, hst⟩ := hl
    -- what happens after a record has been found at `r1`, reached by the requests `new1`
    have after : ∀ (r1 : Reader) (x : FqRec) (its' : List FqItem) (new1 : List (Nat × Option Nat)),
        Shown inp G .positioned r1 x its' → r1.byte = r.byte →
        r1.log = r.log ++ new1 → GrowLog r.br.cap new1 r1.br.cap false →
        (n = none → ∀ c a, (c, a) ∈ new1 → rs.positions = [] ∧ ¬ Fits (inp.drop r.byte) c) →
        SetLog inp n r rs
          (if n = some (rs.positions.length + 1) then
            (stepOver r1, { rs with positions := rs.positions ++ [r1.bp] }, .ok true)
           else setLoop f fuel n isNew (stepOver r1)
            { rs with positions := rs.positions ++ [r1.bp] }) := by
      intro r1 x its' new1 hsh hbyte hlog hchain hplain
      obtain ⟨-, hl2, -, hm2⟩ := store_shown n hsh (rs := {}) (xs := []) rfl
      have hstart : IsStart inp r.byte → (stepOver r1).state = .positioned →
          IsStart inp (stepOver r1).byte := by
        intro hs0 hs2
        rcases hsh.rest with ⟨-, -, -, -, h4⟩ | ⟨hfin, -⟩
        · rw [hbyte] at h4
          have := IsStart.step hs0 h4
          simpa only [stepOver, hbyte] using this
        · rw [show (stepOver r1).state = r1.state from rfl, hfin] at hs2
          cases hs2
      by_cases hk : n = some (rs.positions.length + 1)
      · rw [if_pos hk]
        exact ⟨new1, false, hlog, hchain, ⟨fun h => (by cases h), fun h => (by cases h)⟩, hplain, hstart⟩
      · rw [if_neg hk]
        have hrec := ih isNew (stepOver r1) { rs with positions := rs.positions ++ [r1.bp] } its' hl2
          hmode (by intro _ hs2 hne; exact absurd (hm2 hs2).1 hne)
        obtain ⟨new2, b, h1, h2, h3, h4, h5⟩ := hrec
        refine ⟨new1 ++ new2, b, ?_, hchain.append rfl h2, h3, ?_, ?_⟩
        · rw [h1, show (stepOver r1).log = r1.log from rfl, hlog, List.append_assoc]
        · intro hn c a hmem
          rcases List.mem_append.mp hmem with hmem | hmem
          · exact hplain hn c a hmem
          · have := (h4 hn c a hmem).1
            simp at this
        · intro hs0 hs2
          by_cases hp : (stepOver r1).state = .positioned
          · exact h5 (hstart hs0 hp) hs2
          · -- the loop was entered in state `finished` and left at once
            have hfin : (stepOver r1).state = .finished := by
              rcases hl2.2 with h | h
              · exact absurd h hp
              · exact h
            cases f with
            | zero => rw [show setLoop 0 fuel n isNew _ _ = (_, _, Out.fuel) from rfl] at hs2; exact absurd hs2 hp
            | succ f => rw [setLoop_fin f fuel n isNew _ _ hfin] at hs2; exact absurd hs2 hp
    rcases hst with hst | hst
    · -- positioned
      have hg' := hg
      simp only [Good, hst] at hg'
      obtain ⟨hb, he, hip, hits⟩ := hg'
      have hnf : ¬ r.state = .finished := by rw [hst]; simp
      have hmu : ∀ r' : Reader, r'.br.src.cursor ≤ inp.length → mu inp r' + 1 ≤ fuel := by
        intro r' h
        simp only [mu]
        split <;> omega
      cases hipv : r.incompletePos with
      | some ip =>
        -- resume the pending search
        have hb0 : Base inp G { r with incompletePos := none } := hb.set_bp r.bp none rfl
        obtain ⟨hF, -, hL⟩ := resume_spec inp G isNew fuel { r with incompletePos := none } ip hb0 he
          (hip ip hipv) (hmu _ hb.cur_le)
        rcases hx : resume fuel ip isNew { r with incompletePos := none } with ⟨r1, res1⟩
        rw [hx] at hF hL
        replace hF : Found inp G .positioned (itemsAt inp r.byte r.line) (r1, res1) := by
          simpa only [hst] using hF
        obtain ⟨new1, b1, hl1, hl2, hl3, hl4⟩ := hL
        have hl1 : r1.log = r.log ++ new1 := hl1
        have hl2 : GrowLog r.br.cap new1 r1.br.cap b1 := hl2
        have hl3 : res1 = .err .bufferLimit ↔ b1 = true := hl3
        have hplain : n = none → ∀ c a, (c, a) ∈ new1 →
            rs.positions = [] ∧ ¬ Fits (inp.drop r.byte) c := by
          intro hn c a hmem
          exact ⟨hnew hn hst (by rw [hipv]; simp), hl4 (hmode hn) c a hmem⟩
        -- the loop is left with the reader `r1`
        have leave : ∀ (rs' : RecordSet) (res' : Res Bool), r1.state = .finished →
            (res' = .err .bufferLimit ↔ res1 = .err .bufferLimit) →
            SetLog inp n r rs (r1, rs', res') := by
          intro rs' res' hfin hres
          refine ⟨new1, b1, hl1, hl2, hres.trans hl3, hplain, ?_⟩
          intro _ hs2
          rw [show (r1, rs', res').1.state = r1.state from rfl, hfin] at hs2
          cases hs2
        rcases hF with ⟨hr, x, its', hi, hsh⟩ | ⟨hr, hi, hfin1⟩ | ⟨e, b, l, hr, hi, hfin1⟩ |
          ⟨e, hr, henv, hG, hfin1⟩
        · simp only at hr hi hsh
          subst hr
          have hbf : b1 = false := by
            cases b1 with
            | false => rfl
            | true => have := hl3.mpr rfl; cases this
          subst hbf
          have hx' := itemsAt_head_record hi
          have hbyte : r1.byte = r.byte := by rw [← hsh.byte_eq, hx'.1]
          have hstore : storeStep n r1 rs = some (stepOver r1,
              { rs with positions := rs.positions ++ [r1.bp] },
              decide (n = some (rs.positions.length + 1))) := by
            have h01 := hsh.p01
            simp only [storeStep, incrementRecord_eq r1 (show r1.bp.pos0 ≤ r1.bp.pos1 + 1 by omega),
              List.length_append, List.length_singleton]
          have heq : setLoop (f + 1) fuel n isNew r rs =
              (if n = some (rs.positions.length + 1) then
                (stepOver r1, { rs with positions := rs.positions ++ [r1.bp] }, .ok true)
               else setLoop f fuel n isNew (stepOver r1)
                { rs with positions := rs.positions ++ [r1.bp] }) := by
            rw [setLoop, if_neg hnf]
            simp only [hipv, hx, hstore]
            by_cases hk : n = some (rs.positions.length + 1)
            · simp only [hk, decide_true, if_true]
            · simp only [hk, decide_false, if_false]
          rw [heq]
          exact after r1 x its' new1 hsh hbyte hl1 hl2 hplain
        · simp only at hr hi hfin1
          subst hr
          by_cases hemp : rs.positions.isEmpty = true
          · have heq : setLoop (f + 1) fuel n isNew r rs = (r1, rs, .ok false) := by
              rw [setLoop, if_neg hnf]
              simp only [hipv, hx, hemp, if_true]
            rw [heq]
            exact leave rs _ hfin1.1 ⟨fun h => (by cases h), fun h => (by cases h)⟩
          · have heq : setLoop (f + 1) fuel n isNew r rs = (r1, rs, .ok true) := by
              rw [setLoop, if_neg hnf]
              simp only [hipv, hx, hemp]
              rfl
            rw [heq]
            exact leave rs _ hfin1.1 ⟨fun h => (by cases h), fun h => (by cases h)⟩
        · simp only at hr hi hfin1
          subst hr
          have heq : setLoop (f + 1) fuel n isNew r rs =
              (r1, { rs with positions := [] }, .err (specErr e)) := by
            rw [setLoop, if_neg hnf]
            simp only [hipv, hx]
          rw [heq]
          exact leave _ _ hfin1.1 Iff.rfl
        · simp only at hr hfin1
          subst hr
          have heq : setLoop (f + 1) fuel n isNew r rs =
              (r1, { rs with positions := [] }, .err e) := by
            rw [setLoop, if_neg hnf]
            simp only [hipv, hx]
          rw [heq]
          exact leave _ _ hfin1.1 Iff.rfl
      | none =>
        rcases si_spec r .head hb.pos0_le trivial with
          ⟨bp', ip', hp0, hsc, hres⟩ | ⟨bp', hp0, hf4, hres⟩
        · -- the search stops at the end of the buffer
          have hs : search r = ({ r with bp := bp', incompletePos := some ip' }, .ok false) := by
            rw [search_eq r hipv, hres]; rfl
          have hl1 : LoopSt inp G { r with bp := bp', incompletePos := some ip' } its := by
            refine ⟨good_positioned_of (hb.set_bp bp' _ hp0) he ?_ hits hst, Or.inl hst⟩
            intro ip h
            simp only [Option.some.injEq] at h
            subst h
            exact hsc
          by_cases hemp : rs.positions.isEmpty = true
          · have heq : setLoop (f + 1) fuel n isNew r rs =
                setLoop f fuel n isNew { r with bp := bp', incompletePos := some ip' } rs := by
              rw [setLoop, if_neg hnf]
              simp only [hipv, hs, hemp, if_true]
            rw [heq]
            have hp : rs.positions = [] := List.isEmpty_iff.mp hemp
            exact (ih isNew _ rs its hl1 hmode (fun _ _ _ => hp)).from rfl rfl rfl
          · rcases Option.eq_none_or_eq_some n with hnv | ⟨n', hnv⟩
            · have heq : setLoop (f + 1) fuel n isNew r rs =
                  ({ r with bp := bp', incompletePos := some ip' }, rs, .ok true) := by
                rw [setLoop, if_neg hnf]
                simp only [hipv, hs, hemp, hnv]
                rfl
              rw [heq]
              exact SetLog.same rfl rfl (by intro h; cases h) (fun h _ => h)
            · by_cases hlt : rs.positions.length < n'
              · have heq : setLoop (f + 1) fuel n isNew r rs =
                    setLoop f fuel n false { r with bp := bp', incompletePos := some ip' } rs := by
                  rw [setLoop, if_neg hnf]
                  simp only [hipv, hs, hemp, hnv, hlt, if_true]
                  rfl
                rw [heq]
                exact (ih false _ rs its hl1 (fun h => by rw [hnv] at h; cases h)
                  (fun h => by rw [hnv] at h; cases h)).from rfl rfl rfl
              · have heq : setLoop (f + 1) fuel n isNew r rs =
                    ({ r with bp := bp', incompletePos := some ip' }, rs, .ok true) := by
                  rw [setLoop, if_neg hnf]
                  simp only [hipv, hs, hemp, hnv, hlt, if_false]
                  rfl
                rw [heq]
                exact SetLog.same rfl rfl (by intro h; cases h) (fun h _ => h)
        · -- a complete record in the buffer
          have hb3 : Base inp G { r with bp := bp', incompletePos := none } := hb.set_bp bp' _ hp0
          have hs : search r = validated { r with bp := bp', incompletePos := none } := by
            rw [search_eq r hipv, hres, wrapS_wrapV_validate]
          rcases complete_found2 inp G { r with bp := bp', incompletePos := none } hb3 he rfl hf4 with
            ⟨x, its', hi, hval, hsh⟩ | ⟨e, b, l, hi, hval⟩
          · have hsh' : Shown inp G .positioned { r with bp := bp', incompletePos := none } x its' := by
              simpa only [hst] using hsh
            have hstore : storeStep n { r with bp := bp', incompletePos := none } rs =
                some (stepOver { r with bp := bp', incompletePos := none },
                  { rs with positions := rs.positions ++ [bp'] },
                  decide (n = some (rs.positions.length + 1))) := by
              have h01 := hsh'.p01
              simp only [storeStep, incrementRecord_eq { r with bp := bp', incompletePos := none }
                (show bp'.pos0 ≤ bp'.pos1 + 1 by simp only at h01; omega),
                List.length_append, List.length_singleton]
            have heq : setLoop (f + 1) fuel n isNew r rs =
                (if n = some (rs.positions.length + 1) then
                  (stepOver { r with bp := bp', incompletePos := none },
                    { rs with positions := rs.positions ++ [bp'] }, .ok true)
                 else setLoop f fuel n isNew (stepOver { r with bp := bp', incompletePos := none })
                  { rs with positions := rs.positions ++ [bp'] }) := by
              rw [setLoop, if_neg hnf]
              simp only [hipv, hs, hval, hstore]
              by_cases hk : n = some (rs.positions.length + 1)
              · simp only [hk, decide_true, if_true]
              · simp only [hk, decide_false, if_false]
            rw [heq]
            exact after _ x its' [] hsh' rfl (by simp) (GrowLog.nil _) (fun _ c a h => by cases h)
          · have heq : setLoop (f + 1) fuel n isNew r rs =
                ({ r with bp := bp', incompletePos := none, state := .finished },
                  { rs with positions := [] }, .err (specErr e)) := by
              rw [setLoop, if_neg hnf]
              simp only [hipv, hs, hval]
            rw [heq]
            exact SetLog.same rfl rfl (fun h => specErr_ne_bl e (by simpa using h)) (fun _ h => by cases h)
    · -- finished: the loop is left
      rw [setLoop_fin f fuel n isNew r rs hst]
      exact SetLog.same rfl rfl (by intro h; cases h) (fun h _ => h)

/-! ## one call of `read_record_set(_exact)` -/

theorem setFin_fst (x : Reader × RecordSet × Res Bool) : (setFin x).1 = x.1 := by
  rcases x with ⟨r, rs, (b | _ | _ | _)⟩
  · cases b <;> rfl
  all_goals rfl

theorem setFin_res (x : Reader × RecordSet × Res Bool) : (setFin x).2.2 = x.2.2 := by
  rcases x with ⟨r, rs, (b | _ | _ | _)⟩
  · cases b <;> rfl
  all_goals rfl

/-- the bookkeeping of a whole call, relative to the reader `r` on entry -/
def CallLog (inp : List UInt8) (n : Option Nat) (r : Reader) (x : Reader × RecordSet × Res Bool) :
    Prop :=
  ∃ new b, x.1.log = r.log ++ new ∧ GrowLog r.br.cap new x.1.br.cap b ∧
    (x.2.2 = .err .bufferLimit ↔ b = true) ∧
    (n = none → ∀ c a, (c, a) ∈ new → ¬ Fits (inp.drop (nextByte r)) c) ∧
    (IsStart inp (nextByte r) → x.1.state = .positioned → IsStart inp x.1.byte)

theorem CallLog.same {inp n r} {x : Reader × RecordSet × Res Bool} (hl : x.1.log = r.log)
    (hc : x.1.br.cap = r.br.cap) (hr : x.2.2 ≠ .err .bufferLimit) (hs : x.1.state ≠ .positioned) :
    CallLog inp n r x :=
  ⟨[], false, by simp [hl], by rw [hc]; exact GrowLog.nil _,
    ⟨fun h => absurd h hr, fun h => (by cases h)⟩, (fun _ c a h => by cases h), fun _ h => absurd h hs⟩

/-- the loop from a positioned good state `r2` that the call reached without any request -/
theorem loop_log_from (inp : List UInt8) (G : Prop) (fuel : Nat) (hfuel : 2 * inp.length + 4 ≤ fuel)
    (n : Option Nat) (r r2 : Reader) (rs : RecordSet) (its : List FqItem) (hg : Good inp G r2 its)
    (hst : r2.state = .positioned) (hl : r2.log = r.log) (hc : r2.br.cap = r.br.cap)
    (hb : r2.byte = nextByte r) :
    CallLog inp n r (setFin (setLoop fuel fuel n true r2 { rs with positions := [] })) := by
  obtain ⟨new, b, h1, h2, h3, h4, h5⟩ :=
    setLoop_log inp G fuel (by omega) n fuel true r2 { rs with positions := [] } its
      ⟨hg, Or.inl hst⟩ (fun _ => rfl) (fun _ _ _ => rfl)
  unfold CallLog
  rw [setFin_fst, setFin_res]
  exact ⟨new, b, by rw [h1, hl], by rw [← hc]; exact h2, h3,
    fun hn c a hm => (by rw [← hb]; exact (h4 hn c a hm).2), by rw [← hb]; exact h5⟩

/-- **C09 for record-set reads, bookkeeping.**  One call of `read_record_set` (`n = none`) or
`read_record_set_exact` (`n = some _`) from a good state, in any environment and for any policy
that answers more than it is passed or refuses:
`(result reader).log = r.log ++ new` where `new` is a well-formed chain of requests starting at the
capacity on entry and ending at the final capacity; `BufferLimit` is returned iff the last request
was refused; for a plain read every request `(c, a)` is made while the FIRST group of the batch
(the one starting at input offset `nextByte r`) does not fit into the capacity `c` passed – groups
behind the first one never make the buffer grow; and a reader left `positioned` stands at the start
of a group. -/
theorem set_growth_log (inp : List UInt8) (G : Prop) (fuel : Nat) (r : Reader) (rs : RecordSet)
    (n : Option Nat) (its : List FqItem) (hg : Good inp G r its)
    (hfuel : 2 * r.br.src.inp.length + 4 ≤ fuel) :
    ∃ new b, (readRecordSetExact fuel r rs n).1.log = r.log ++ new ∧
      GrowLog r.br.cap new (readRecordSetExact fuel r rs n).1.br.cap b ∧
      ((readRecordSetExact fuel r rs n).2.2 = .err .bufferLimit ↔ b = true) ∧
      (n = none → ∀ c a, (c, a) ∈ new → ¬ Fits (inp.drop (nextByte r)) c) ∧
      (IsStart inp (nextByte r) → (readRecordSetExact fuel r rs n).1.state = .positioned →
        IsStart inp (readRecordSetExact fuel r rs n).1.byte) := by
  show CallLog inp n r (readRecordSetExact fuel r rs n)
  cases hst : r.state with
  | positioned =>
    have hi : r.br.src.inp = inp := by
      simp only [Good, hst] at hg; exact hg.1.inp_eq
    rw [hi] at hfuel
    rw [readSet_loop fuel r rs n hst]
    exact loop_log_from inp G fuel hfuel n r r rs its hg hst rfl rfl (by simp only [nextByte, hst])
  | finished =>
    have : readRecordSetExact fuel r rs n = (r, rs, .ok false) := by
      simp only [readRecordSetExact, hst]
    rw [this]
    exact CallLog.same rfl rfl (by intro h; cases h) (by rw [hst]; simp)
  | new =>
    simp only [Good, hst] at hg
    obtain ⟨hw, hbufG, hp0, hbyte, hline, hip, hitems⟩ := hg
    rw [hw.inp_eq] at hfuel
    rcases fill_cases inp G r hw with
      ⟨br', ext, m, hfill, hbuf', hcap', hcur', hext, hw2, he2, hm⟩ |
      ⟨br', ext, k, hfill, hbuf', hcap', hcur', hle, hnG, hw2⟩
    · cases m with
      | zero =>
        have hrd : readRecordSetExact fuel r rs n =
            ({ r with br := br', state := .finished }, rs, .ok false) := by
          simp only [readRecordSetExact, hst, init, hfill]
        rw [hrd]
        exact CallLog.same rfl hcap' (by intro h; cases h) (by simp)
      | succ m =>
        have heq : readRecordSetExact fuel r rs n =
            setFin (setLoop fuel fuel n true { r with br := br', state := .positioned }
              { rs with positions := [] }) := by
          rw [← readSet_loop fuel { r with br := br', state := .positioned } rs n rfl]
          simp only [readRecordSetExact, hst, init, hfill]
        rw [heq]
        have hb2 : Base inp G { r with br := br' } := ⟨hw2, by simp [hp0]⟩
        refine loop_log_from inp G fuel hfuel n r _ rs its ?_ rfl rfl hcap'
          (by simp only [nextByte, hst])
        refine good_positioned_of (hb2.set_state _) he2 ?_ ?_ rfl
        · intro ip h; simp only [hip] at h; cases h
        · rw [hitems]; simp only [hbyte, hline]
    · have hrd : readRecordSetExact fuel r rs n =
          ({ r with br := br', state := .new }, rs, .err (.io k)) := by
        simp only [readRecordSetExact, hst, init, hfill]
      rw [hrd]
      exact CallLog.same rfl hcap' (by intro h; cases h) (by simp)
  | parsing =>
    simp only [Good, hst] at hg
    obtain ⟨hb, he, hip, h01, h1l, hitems⟩ := hg
    rw [hb.inp_eq] at hfuel
    have hinc := incrementRecord_eq r h01
    have heq : readRecordSetExact fuel r rs n =
        setFin (setLoop fuel fuel n true { stepOver r with state := .positioned }
          { rs with positions := [] }) := by
      rw [← readSet_loop fuel { stepOver r with state := .positioned } rs n rfl]
      simp only [readRecordSetExact, hst, hinc]
    rw [heq]
    refine loop_log_from inp G fuel hfuel n r _ rs its ?_ rfl rfl rfl
      (by simp only [nextByte, hst, stepOver])
    have hw : Win inp G (stepOver r) := by
      obtain ⟨⟨a, b, c, d, e, f, g, i, w, k, z⟩, hp⟩ := hb
      exact ⟨a, b, c, d, e, f, g, i, w, by simp only [stepOver]; omega, z⟩
    have hb2 : Base inp G (stepOver r) := ⟨hw, h1l⟩
    refine good_positioned_of (hb2.set_state _) he ?_ hitems rfl
    intro ip h
    simp only [stepOver, hip] at h
    cases h

/-- corollary: the capacity is unchanged if no request was made -/
theorem set_no_request_cap (inp : List UInt8) (G : Prop) (fuel : Nat) (r : Reader) (rs : RecordSet)
    (n : Option Nat) (its : List FqItem) (hg : Good inp G r its)
    (hfuel : 2 * r.br.src.inp.length + 4 ≤ fuel)
    (h : (readRecordSetExact fuel r rs n).1.log = r.log) :
    (readRecordSetExact fuel r rs n).1.br.cap = r.br.cap := by
  obtain ⟨new, b, h1, h2, -, -, -⟩ := set_growth_log inp G fuel r rs n its hg hfuel
  rw [h] at h1
  have : new = [] := by simpa using h1
  subst this
  exact h2.nil_inv.1

/-! ## fitting groups never make the buffer grow, whatever the history -/

/-- a plain record-set read keeps the invariant of `fitting_never_grows` -/
theorem quiet_set (inp : List UInt8) (cap : Nat) (hfit : AllFit inp cap) (r : Reader) (rs : RecordSet)
    (h : Quiet inp cap r) : Quiet inp cap (readRecordSetExact (fuelOf r) r rs none).1 := by
  obtain ⟨⟨its, hg⟩, hlog, hcap, hstart⟩ := h
  have hfuel := fuelOf_ge r
  by_cases hfin : r.state = .finished
  · have : readRecordSetExact (fuelOf r) r rs none = (r, rs, .ok false) := by
      simp only [readRecordSetExact, hfin]
    rw [this]
    exact ⟨⟨its, hg⟩, hlog, hcap, hstart⟩
  obtain ⟨new, b, h1, h2, -, h4, h5⟩ := set_growth_log inp False (fuelOf r) r rs none its hg hfuel
  have hS := readSet_spec inp False (fuelOf r) r rs none its hg hfuel (by intro n' h; cases h)
  have hnew : new = [] := by
    apply Classical.byContradiction
    intro hne
    obtain ⟨a, hmem⟩ := h2.first hne
    rw [hcap] at hmem
    exact h4 rfl _ _ hmem (hfit _ (hstart hfin))
  subst hnew
  refine ⟨?_, by rw [h1, hlog]; rfl, by rw [h2.nil_inv.1, hcap], ?_⟩
  · rcases hS with ⟨-, ys, its', -, -, -, hl, -⟩ | ⟨-, -, hf, -⟩ | ⟨ys, e, b', l, -, -, -, hf, -⟩ |
      ⟨e, -, -, -, -, hf⟩ | ⟨-, -, -, its', hg', -⟩
    · exact ⟨its', hl.1⟩
    · exact ⟨[], hf.good⟩
    · exact ⟨[], hf.good⟩
    · exact ⟨[], hf.good⟩
    · exact ⟨its', hg'⟩
  · intro hnf
    rcases hS with ⟨-, ys, its', -, -, -, hl, -⟩ | ⟨-, -, hf, -⟩ | ⟨ys, e, b', l, -, -, -, hf, -⟩ |
      ⟨e, -, -, -, -, hf⟩ | ⟨-, -, -, its', hg', hst'⟩
    · rcases hl.2 with hp | hp
      · simp only [nextByte, hp]
        exact h5 (hstart hfin) hp
      · exact absurd hp hnf
    · exact absurd hf.1 hnf
    · exact absurd hf.1 hnf
    · exact absurd hf.1 hnf
    · rcases hst' with hst' | hst'
      · exact absurd hst' hnf
      · have hg'' := hg'
        simp only [Good, hst'] at hg''
        simp only [nextByte, hst', hg''.2.2.2.1]
        exact IsStart.zero

/-- operations of a history without exact-count reads and seeks -/
def plainOp : Op → Bool
  | .set _ (some _) => false
  | .seekItem _ => false
  | _ => true

/-- the machine state after a history -/
def runEnd (m : MSt) : List Op → MSt
  | [] => m
  | op :: ops => runEnd (stepM m op).1 ops

theorem putSet_r (m : MSt) (j : Nat) (rs : RecordSet) : (m.putSet j rs).r = m.r := by
  unfold MSt.putSet
  split <;> rfl

theorem quiet_step (inp : List UInt8) (cap : Nat) (hfit : AllFit inp cap) (m : MSt) (op : Op)
    (hop : plainOp op = true) (h : Quiet inp cap m.r) : Quiet inp cap (stepM m op).1.r := by
  cases op with
  | next => exact quiet_next inp cap hfit m.r h
  | owned => exact quiet_next inp cap hfit m.r h
  | dump j => exact h
  | pos => exact h
  | seekItem i => cases hop
  | set j n =>
    cases n with
    | some n' => cases hop
    | none =>
      simp only [stepM, stepSet, putSet_r]
      exact quiet_set inp cap hfit m.r (m.getSet j) h

/-- **C09, corollary for histories.** If every group of the input fits into the initial capacity,
then after ANY history of single-record reads, owned reads, plain record-set reads (into any of the
three sets), dumps and position queries the policy has never been asked: the log is empty and the
capacity unchanged (for any policy that answers more than it is passed or refuses, any read script
without failing events, any chunking). -/
theorem fitting_never_grows_history (inp : List UInt8) (cap : Nat) (hcap : 3 ≤ cap) (pol : Pol)
    (hwf : PolWf1 pol) (script : List ReadEv) (hs : NoFail script) (chunk : Nat)
    (hfit : AllFit inp cap) (ops : List Op) (hops : ∀ op ∈ ops, plainOp op = true) :
    (runEnd (mkM inp cap pol script chunk) ops).r.log = [] ∧
      (runEnd (mkM inp cap pol script chunk) ops).r.br.cap = cap := by
  have hq : ∀ (ops : List Op) (m : MSt), (∀ op ∈ ops, plainOp op = true) → Quiet inp cap m.r →
      Quiet inp cap (runEnd m ops).r := by
    intro ops
    induction ops with
    | nil => intro m _ h; exact h
    | cons op ops ih =>
      intro m hops h
      exact ih _ (fun o ho => hops o (List.mem_cons_of_mem _ ho))
        (quiet_step inp cap hfit m op (hops op List.mem_cons_self) h)
  have h0 : Quiet inp cap (mkM inp cap pol script chunk).r :=
    ⟨⟨_, good_mkReader'' inp False cap hcap pol hwf (fun h => h.elim) script (fun _ => hs) chunk []
      (fun _ => rfl)⟩, rfl, rfl, fun _ => IsStart.zero⟩
  exact ⟨(hq ops _ hops h0).2.1, (hq ops _ hops h0).2.2.1⟩

end SeqIo.Fastq
