import SeqIoModel.Model.History
import SeqIoModel.Model.HistoryFq
/-!
# What acceptance by the abstract reader A means (property C04)

Other files prove that every history of the concrete machine is accepted by the abstract
reader A (`Model/History.lean`, `Model/HistoryFq.lean`).  This file is only about A: it spells
out, in plain terms, what an accepted history looks like.

*The records of the input are delivered in order, exactly once*:

* `accepted_delivers_segment`: along an accepted history without seeks, everything that is
  delivered (single records and the contents of filled sets), concatenated in the order of the
  calls, is the segment `recs[k₀], …, recs[k₁ - 1]` of the records of S, where `k₀`/`k₁` is the
  cursor before/after the history; the cursor advances by exactly the number of delivered records.
* `accepted_none_means_all`: once a read has reported the end of the input, the cursor is the
  number of records – nothing was lost – and every later read reports the end again.
* `accepted_batch_sizes_plain/_exact`: how many records a set read delivers.
* `accepted_dump_snapshot`: a filled set keeps showing the records it was filled with, whatever
  is read afterwards.
* `accepted_after_seek`: after a seek to record `i`, the reads deliver `recs[i], recs[i+1], …`.

The FASTA part comes first, then the FASTQ analogue.
-/

/-! ## list facts -/

namespace SeqIo.ListFacts

theorem drop_take_one {α : Type} : ∀ (l : List α) (k : Nat) (x : α), l[k]? = some x →
    (l.drop k).take 1 = [x]
  | [], k, x, h => by simp at h
  | y :: l, 0, x, h => by simp at h; simp [h]
  | y :: l, k + 1, x, h => by
    simp only [List.getElem?_cons_succ] at h
    simpa using drop_take_one l k x h

/-- two adjacent segments make one segment -/
theorem seg_append {α : Type} (l : List α) (i j k : Nat) (hij : i ≤ j) (hjk : j ≤ k) :
    (l.drop i).take (j - i) ++ (l.drop j).take (k - j) = (l.drop i).take (k - i) := by
  have e1 : k - i = (j - i) + (k - j) := by omega
  have e2 : l.drop j = (l.drop i).drop (j - i) := by
    rw [List.drop_drop]; congr 1; omega
  rw [e1, e2, List.take_add]

theorem seg_all {α : Type} (l : List α) (i : Nat) : (l.drop i).take (l.length - i) = l.drop i := by
  apply List.take_of_length_le
  simp

end SeqIo.ListFacts

namespace SeqIo.Fasta.Hist
open SeqIo.ListFacts

/-! ## FASTA: definitions -/

/-- the abstract state after a history all of whose observations are accepted
(`none`: some observation is not accepted) -/
def execA (it : Items) (a : AState) : List Op → List ObsH → Option AState
  | [], [] => some a
  | op :: ops, o :: os =>
    match acceptA it a op o with
    | some a' => execA it a' ops os
    | none => none
  | _, _ => none

/-- `runA` is "`execA` succeeds" -/
theorem runA_eq_execA (it : Items) : ∀ (a : AState) (ops : List Op) (obs : List ObsH),
    runA it a ops obs = (execA it a ops obs).isSome
  | a, [], [] => rfl
  | a, [], _ :: _ => rfl
  | a, _ :: _, [] => rfl
  | a, op :: ops, o :: os => by
    simp only [runA, execA]
    cases h : acceptA it a op o with
    | none => rfl
    | some a' => exact runA_eq_execA it a' ops os

theorem runA_iff (it : Items) (a : AState) (ops : List Op) (obs : List ObsH) :
    runA it a ops obs = true ↔ ∃ a', execA it a ops obs = some a' := by
  rw [runA_eq_execA, Option.isSome_iff_exists]

/-- the number of records delivered so far: the cursor of A -/
def deliveredA (a : AState) : Nat := a.k

def Op.isSeek : Op → Bool
  | .seekRec _ => true
  | _ => false

/-- a history without seeks -/
def SeekFree (ops : List Op) : Prop := ∀ op ∈ ops, op.isSeek = false

/-- how many records an observation delivers to the caller, read off the observation alone
(a `dump` re-shows records, it does not deliver any) -/
def deliveredCount : Op → ObsH → Nat
  | .next, .record _ _ => 1
  | .owned, .owned _ _ => 1
  | .set _ _, .batch m => m
  | _, _ => 0

def deliveredCounts : List Op → List ObsH → Nat
  | op :: ops, o :: os => deliveredCount op o + deliveredCounts ops os
  | _, _ => 0

/-- the records one observation delivers.  A `record` observation carries header and lines
itself.  A `batch m` carries only the count, an `owned` observation only the concatenated
sequence: the records they stand for are taken from S at the cursor (`accepted_owned` and
`accepted_dump_snapshot` say how they show up for the caller). -/
def deliveredStep (it : Items) (a : AState) : Op → ObsH → List RecView
  | .next, .record h ls => [(h, ls)]
  | .owned, .owned _ _ => ((it.recs.drop a.k).take 1).map view
  | .set _ _, .batch m => ((it.recs.drop a.k).take m).map view
  | _, _ => []

/-- everything delivered along a history, in the order of the calls -/
def deliveredRecs (it : Items) (a : AState) : List Op → List ObsH → List RecView
  | op :: ops, o :: os =>
    deliveredStep it a op o ++
      (match acceptA it a op o with
       | some a' => deliveredRecs it a' ops os
       | none => [])
  | _, _ => []

/-- the records number `i, …, j - 1` of S, as the caller sees them -/
def segment (it : Items) (i j : Nat) : List RecView := ((it.recs.drop i).take (j - i)).map view

theorem segment_append (it : Items) (i j k : Nat) (hij : i ≤ j) (hjk : j ≤ k) :
    segment it i j ++ segment it j k = segment it i k := by
  unfold segment
  rw [← List.map_append, seg_append _ _ _ _ hij hjk]

theorem segment_self (it : Items) (i : Nat) : segment it i i = [] := by
  simp [segment]


/-! ## FASTA: what one accepted observation says -/

/-- an accepted `next`: the pending format error, or record number `k` of S, or the end iff there
is no record number `k` -/
theorem acceptA_next_inv {it : Items} {a a' : AState} {o : ObsH}
    (h : acceptA it a .next o = some a') :
    (∃ e, errDue it a = some e ∧ o = .error e ∧ a' = { a with errDone := true, last := .other }) ∨
    (errDue it a = none ∧ ∃ rc, it.recs[a.k]? = some rc ∧ o = .record rc.head rc.seqLines ∧
      a' = { a with k := a.k + 1, last := .record a.k }) ∨
    (errDue it a = none ∧ it.recs[a.k]? = none ∧ o = .none ∧ a' = { a with last := .other }) := by
  simp only [acceptA] at h
  split at h
  · rename_i e he
    split at h
    · rename_i ho
      simp only [Option.some.injEq] at h
      exact Or.inl ⟨e, he, ho, h.symm⟩
    · cases h
  · rename_i he
    split at h
    · rename_i rc hrc
      split at h
      · rename_i ho
        simp only [Option.some.injEq] at h
        exact Or.inr (Or.inl ⟨he, rc, hrc, ho, h.symm⟩)
      · cases h
    · rename_i hrc
      split at h
      · rename_i ho
        simp only [Option.some.injEq] at h
        exact Or.inr (Or.inr ⟨he, hrc, ho, h.symm⟩)
      · cases h

/-- an accepted owned read: as `next`, the record is shown with its concatenated sequence -/
theorem acceptA_owned_inv {it : Items} {a a' : AState} {o : ObsH}
    (h : acceptA it a .owned o = some a') :
    (∃ e, errDue it a = some e ∧ o = .error e ∧ a' = { a with errDone := true, last := .other }) ∨
    (errDue it a = none ∧ ∃ rc, it.recs[a.k]? = some rc ∧ o = .owned rc.head rc.seq ∧
      a' = { a with k := a.k + 1, last := .record a.k }) ∨
    (errDue it a = none ∧ it.recs[a.k]? = none ∧ o = .none ∧ a' = { a with last := .other }) := by
  simp only [acceptA] at h
  split at h
  · rename_i e he
    split at h
    · rename_i ho
      simp only [Option.some.injEq] at h
      exact Or.inl ⟨e, he, ho, h.symm⟩
    · cases h
  · rename_i he
    split at h
    · rename_i rc hrc
      split at h
      · rename_i ho
        simp only [Option.some.injEq] at h
        exact Or.inr (Or.inl ⟨he, rc, hrc, ho, h.symm⟩)
      · cases h
    · rename_i hrc
      split at h
      · rename_i ho
        simp only [Option.some.injEq] at h
        exact Or.inr (Or.inr ⟨he, hrc, ho, h.symm⟩)
      · cases h

/-- the size condition of a set read: `left` records are left -/
def sizeOk (n : Option Nat) (m left : Nat) : Prop :=
  1 ≤ m ∧ match n with
    | none => m ≤ left
    | some n => m = min n left

/-- the body of `acceptA` for a set read with a requested count other than 0 -/
def acceptSetCore (it : Items) (a : AState) (j : Nat) (n : Option Nat) (o : ObsH) : Option AState :=
  if j < a.sets.length then
    match errDue it a with
    | some e =>
      if o = .error e then some { markOrEmpty a j with errDone := true, last := .other } else none
    | none =>
      match o with
      | .none =>
        if it.recs.length - a.k = 0 then some { markOrEmpty a j with last := .other } else none
      | .batch m =>
        let ok : Bool := match n with
          | none => decide (1 ≤ m ∧ m ≤ it.recs.length - a.k)
          | some n => decide (1 ≤ m ∧ m = min n (it.recs.length - a.k))
        if ok then
          some { a with k := a.k + m, sets := a.sets.set j { lo := a.k, len := m }, last := .set }
        else none
      | _ => none
  else if o = .done then some a else none

theorem acceptA_set_eq (it : Items) (a : AState) (j : Nat) (n : Option Nat) (o : ObsH)
    (hn : n ≠ some 0) : acceptA it a (.set j n) o = acceptSetCore it a j n o := by
  cases n with
  | none => rfl
  | some n =>
    cases n with
    | zero => exact absurd rfl hn
    | succ n => rfl

/-- an accepted set read: nothing for invalid arguments; otherwise the pending format error, or
the end iff no record is left, or a batch of the right size that now holds records
`k, …, k + m - 1` -/
theorem acceptA_set_inv {it : Items} {a a' : AState} {o : ObsH} {j : Nat} {n : Option Nat}
    (h : acceptA it a (.set j n) o = some a') :
    ((n = some 0 ∨ a.sets.length ≤ j) ∧ o = .done ∧ a' = a) ∨
    (n ≠ some 0 ∧ j < a.sets.length ∧
      ((∃ e, errDue it a = some e ∧ o = .error e ∧
          a' = { markOrEmpty a j with errDone := true, last := .other }) ∨
       (errDue it a = none ∧ o = .none ∧ it.recs.length - a.k = 0 ∧
          a' = { markOrEmpty a j with last := .other }) ∨
       (errDue it a = none ∧ ∃ m, o = .batch m ∧ sizeOk n m (it.recs.length - a.k) ∧
          a' = { a with k := a.k + m, sets := a.sets.set j { lo := a.k, len := m }, last := .set }))) := by
  by_cases hn : n = some 0
  · subst hn
    simp only [acceptA] at h
    split at h
    · rename_i ho
      simp only [Option.some.injEq] at h
      exact Or.inl ⟨Or.inl rfl, ho, h.symm⟩
    · cases h
  rw [acceptA_set_eq it a j n o hn] at h
  unfold acceptSetCore at h
  split at h
  · rename_i hj
    refine Or.inr ⟨hn, hj, ?_⟩
    split at h
    · rename_i e he
      split at h
      · rename_i ho
        simp only [Option.some.injEq] at h
        exact Or.inl ⟨e, he, ho, h.symm⟩
      · cases h
    · rename_i he
      split at h
      · split at h
        · rename_i hl
          simp only [Option.some.injEq] at h
          exact Or.inr (Or.inl ⟨he, rfl, hl, h.symm⟩)
        · cases h
      · rename_i m
        cases n with
        | none =>
          simp only [decide_eq_true_eq] at h
          split at h
          · rename_i hok
            simp only [Option.some.injEq] at h
            exact Or.inr (Or.inr ⟨he, m, rfl, ⟨hok.1, hok.2⟩, h.symm⟩)
          · cases h
        | some n =>
          simp only [decide_eq_true_eq] at h
          split at h
          · rename_i hok
            simp only [Option.some.injEq] at h
            exact Or.inr (Or.inr ⟨he, m, rfl, ⟨hok.1, hok.2⟩, h.symm⟩)
          · cases h
      · cases h
  · rename_i hj
    split at h
    · rename_i ho
      simp only [Option.some.injEq] at h
      exact Or.inl ⟨Or.inr (by omega), ho, h.symm⟩
    · cases h

/-- an accepted dump changes nothing and shows the expected contents of the set -/
theorem acceptA_dump_inv {it : Items} {a a' : AState} {o : ObsH} {j : Nat}
    (h : acceptA it a (.dump j) o = some a') :
    a' = a ∧
    ((a.sets[j]? = none ∧ o = .done) ∨
     ∃ e, a.sets[j]? = some e ∧
       (o = .dump (((it.recs.drop e.lo).take e.len).map view) ∨ (e.orEmpty = true ∧ o = .dump []))) := by
  simp only [acceptA] at h
  split at h
  · rename_i hj
    split at h
    · rename_i ho
      simp only [Option.some.injEq] at h
      exact ⟨h.symm, Or.inl ⟨hj, ho⟩⟩
    · cases h
  · rename_i e hj
    split at h
    · rename_i ho
      simp only [Option.some.injEq] at h
      exact ⟨h.symm, Or.inr ⟨e, hj, ho⟩⟩
    · cases h

theorem ite_some_inv {α : Type} {c : Prop} [Decidable c] {a a' : α}
    (h : (if c then some a else none) = some a') : a' = a := by
  split at h
  · injection h with h; exact h.symm
  · cases h

theorem acceptA_pos_inv {it : Items} {a a' : AState} {o : ObsH}
    (h : acceptA it a .pos o = some a') : a' = a ∧ ∃ p, o = .pos p := by
  simp only [acceptA] at h
  split at h
  · rename_i p
    exact ⟨ite_some_inv h, p, rfl⟩
  · cases h

/-- an accepted seek to record `i` sets the cursor to `i` (nothing happens if there is no such
record) -/
theorem acceptA_seek_inv {it : Items} {a a' : AState} {o : ObsH} {i : Nat}
    (h : acceptA it a (.seekRec i) o = some a') :
    o = .done ∧
    ((i < it.recs.length ∧ a' = { a with k := i, last := .seek i }) ∨
     (it.recs.length ≤ i ∧ a' = a)) := by
  simp only [acceptA] at h
  split at h
  · rename_i hi
    split at h
    · rename_i ho
      simp only [Option.some.injEq] at h
      exact ⟨ho, Or.inl ⟨hi, h.symm⟩⟩
    · cases h
  · rename_i hi
    split at h
    · rename_i ho
      simp only [Option.some.injEq] at h
      exact ⟨ho, Or.inr ⟨by omega, h.symm⟩⟩
    · cases h

theorem markOrEmpty_k (a : AState) (j : Nat) : (markOrEmpty a j).k = a.k := by
  unfold markOrEmpty; split <;> rfl

theorem markOrEmpty_errDone (a : AState) (j : Nat) : (markOrEmpty a j).errDone = a.errDone := by
  unfold markOrEmpty; split <;> rfl

theorem markOrEmpty_length (a : AState) (j : Nat) :
    (markOrEmpty a j).sets.length = a.sets.length := by
  unfold markOrEmpty; split <;> simp

theorem markOrEmpty_get_ne (a : AState) (j j' : Nat) (h : j' ≠ j) :
    (markOrEmpty a j').sets[j]? = a.sets[j]? := by
  unfold markOrEmpty
  split
  · rfl
  · simp [List.getElem?_set_ne h]

theorem markOrEmpty_get_self (a : AState) (j : Nat) (e : SetExp) (h : a.sets[j]? = some e) :
    (markOrEmpty a j).sets[j]? = some { e with orEmpty := true } := by
  unfold markOrEmpty
  rw [h]
  have hj : j < a.sets.length := by
    rcases Nat.lt_or_ge j a.sets.length with h' | h'
    · exact h'
    · rw [List.getElem?_eq_none h'] at h; cases h
  simp [hj]

/-! ## FASTA: one step -/

/-- what one accepted observation (of an operation other than a seek) does to the cursor: it
advances by the number of delivered records, and these are the records at the old cursor -/
theorem accept_step {it : Items} {a a' : AState} {op : Op} {o : ObsH}
    (h : acceptA it a op o = some a') (hop : op.isSeek = false) :
    a'.k = a.k + deliveredCount op o ∧ deliveredStep it a op o = segment it a.k a'.k := by
  cases op with
  | next =>
    rcases acceptA_next_inv h with ⟨e, _, ho, ha⟩ | ⟨_, rc, hrc, ho, ha⟩ | ⟨_, _, ho, ha⟩
    · subst ho ha; simp [deliveredCount, deliveredStep, segment]
    · subst ho ha
      simp only [deliveredCount, deliveredStep, segment, Nat.add_sub_cancel_left,
        drop_take_one _ _ _ hrc, List.map_cons, List.map_nil, view, and_self]
    · subst ho ha; simp [deliveredCount, deliveredStep, segment]
  | owned =>
    rcases acceptA_owned_inv h with ⟨e, _, ho, ha⟩ | ⟨_, rc, hrc, ho, ha⟩ | ⟨_, _, ho, ha⟩
    · subst ho ha; simp [deliveredCount, deliveredStep, segment]
    · subst ho ha
      simp only [deliveredCount, deliveredStep, segment, Nat.add_sub_cancel_left, and_self]
    · subst ho ha; simp [deliveredCount, deliveredStep, segment]
  | set j n =>
    rcases acceptA_set_inv h with ⟨_, ho, ha⟩ | ⟨_, _, ⟨e, _, ho, ha⟩ | ⟨_, ho, _, ha⟩ | ⟨_, m, ho, _, ha⟩⟩
    · subst ho ha; simp [deliveredCount, deliveredStep, segment]
    · subst ho ha; simp [deliveredCount, deliveredStep, segment, markOrEmpty_k]
    · subst ho ha; simp [deliveredCount, deliveredStep, segment, markOrEmpty_k]
    · subst ho ha
      simp only [deliveredCount, deliveredStep, segment, Nat.add_sub_cancel_left, and_self]
  | dump j =>
    obtain ⟨ha, hcase⟩ := acceptA_dump_inv h
    subst ha
    rcases hcase with ⟨_, ho⟩ | ⟨e, _, ho | ⟨_, ho⟩⟩ <;> subst ho <;>
      simp [deliveredCount, deliveredStep, segment]
  | pos =>
    obtain ⟨ha, p, ho⟩ := acceptA_pos_inv h
    subst ha ho
    simp [deliveredCount, deliveredStep, segment]
  | seekRec i => simp [Op.isSeek] at hop

/-- the cursor never passes the end of the records (seeks included) -/
theorem accept_le {it : Items} {a a' : AState} {op : Op} {o : ObsH}
    (h : acceptA it a op o = some a') (hk : a.k ≤ it.recs.length) : a'.k ≤ it.recs.length := by
  cases op with
  | next =>
    rcases acceptA_next_inv h with ⟨e, _, _, ha⟩ | ⟨_, rc, hrc, _, ha⟩ | ⟨_, _, _, ha⟩
    · subst ha; exact hk
    · subst ha
      have : a.k < it.recs.length := by
        rcases Nat.lt_or_ge a.k it.recs.length with h' | h'
        · exact h'
        · rw [List.getElem?_eq_none h'] at hrc; cases hrc
      exact this
    · subst ha; exact hk
  | owned =>
    rcases acceptA_owned_inv h with ⟨e, _, _, ha⟩ | ⟨_, rc, hrc, _, ha⟩ | ⟨_, _, _, ha⟩
    · subst ha; exact hk
    · subst ha
      have : a.k < it.recs.length := by
        rcases Nat.lt_or_ge a.k it.recs.length with h' | h'
        · exact h'
        · rw [List.getElem?_eq_none h'] at hrc; cases hrc
      exact this
    · subst ha; exact hk
  | set j n =>
    rcases acceptA_set_inv h with ⟨_, _, ha⟩ | ⟨_, _, ⟨e, _, _, ha⟩ | ⟨_, _, _, ha⟩ | ⟨_, m, _, hsz, ha⟩⟩
    · subst ha; exact hk
    · subst ha; simpa [markOrEmpty_k] using hk
    · subst ha; simpa [markOrEmpty_k] using hk
    · subst ha
      show a.k + m ≤ it.recs.length
      obtain ⟨_, hm⟩ := hsz
      cases n with
      | none => simp only at hm; omega
      | some n => simp only at hm; omega
  | dump j => rw [(acceptA_dump_inv h).1]; exact hk
  | pos => rw [(acceptA_pos_inv h).1]; exact hk
  | seekRec i =>
    rcases (acceptA_seek_inv h).2 with ⟨hi, ha⟩ | ⟨_, ha⟩
    · subst ha; exact Nat.le_of_lt hi
    · subst ha; exact hk

/-- the number of live sets never changes -/
theorem accept_sets_length {it : Items} {a a' : AState} {op : Op} {o : ObsH}
    (h : acceptA it a op o = some a') : a'.sets.length = a.sets.length := by
  cases op with
  | next =>
    rcases acceptA_next_inv h with ⟨e, _, _, ha⟩ | ⟨_, rc, _, _, ha⟩ | ⟨_, _, _, ha⟩ <;> subst ha <;> rfl
  | owned =>
    rcases acceptA_owned_inv h with ⟨e, _, _, ha⟩ | ⟨_, rc, _, _, ha⟩ | ⟨_, _, _, ha⟩ <;> subst ha <;> rfl
  | set j n =>
    rcases acceptA_set_inv h with ⟨_, _, ha⟩ | ⟨_, _, ⟨e, _, _, ha⟩ | ⟨_, _, _, ha⟩ | ⟨_, m, _, _, ha⟩⟩ <;>
      subst ha <;> simp [markOrEmpty_length]
  | dump j => rw [(acceptA_dump_inv h).1]
  | pos => rw [(acceptA_pos_inv h).1]
  | seekRec i =>
    rcases (acceptA_seek_inv h).2 with ⟨_, ha⟩ | ⟨_, ha⟩ <;> subst ha <;> rfl

/-! ## FASTA: histories -/

theorem execA_cons {it : Items} {a a' : AState} {op : Op} {ops : List Op} {o : ObsH} {os : List ObsH}
    (h : execA it a (op :: ops) (o :: os) = some a') :
    ∃ a₁, acceptA it a op o = some a₁ ∧ execA it a₁ ops os = some a' := by
  simp only [execA] at h
  cases h1 : acceptA it a op o with
  | none => rw [h1] at h; cases h
  | some a₁ => rw [h1] at h; exact ⟨a₁, rfl, h⟩

theorem execA_length {it : Items} : ∀ {a a' : AState} {ops : List Op} {obs : List ObsH},
    execA it a ops obs = some a' → ops.length = obs.length
  | _, _, [], [], _ => rfl
  | _, _, [], _ :: _, h => by simp [execA] at h
  | _, _, _ :: _, [], h => by simp [execA] at h
  | _, _, op :: ops, o :: os, h => by
    obtain ⟨a₁, _, h2⟩ := execA_cons h
    simp [execA_length h2]

/-- a history can be cut anywhere -/
theorem execA_append {it : Items} : ∀ {a a' : AState} {ops₁ ops₂ : List Op} {obs₁ obs₂ : List ObsH},
    ops₁.length = obs₁.length → execA it a (ops₁ ++ ops₂) (obs₁ ++ obs₂) = some a' →
    ∃ a₁, execA it a ops₁ obs₁ = some a₁ ∧ execA it a₁ ops₂ obs₂ = some a'
  | a, _, [], _, [], _, _, h => ⟨a, rfl, h⟩
  | _, _, [], _, _ :: _, _, hl, _ => by simp at hl
  | _, _, _ :: _, _, [], _, hl, _ => by simp at hl
  | a, a', op :: ops₁, ops₂, o :: obs₁, obs₂, hl, h => by
    simp only [List.cons_append] at h
    obtain ⟨a₁, h1, h2⟩ := execA_cons h
    obtain ⟨a₂, h3, h4⟩ := execA_append (by simpa using hl) h2
    exact ⟨a₂, by simp only [execA, h1, h3], h4⟩

theorem SeekFree.head {op : Op} {ops : List Op} (h : SeekFree (op :: ops)) : op.isSeek = false :=
  h op (by simp)

theorem SeekFree.tail {op : Op} {ops : List Op} (h : SeekFree (op :: ops)) : SeekFree ops :=
  fun x hx => h x (by simp [hx])

theorem SeekFree.left {ops₁ ops₂ : List Op} (h : SeekFree (ops₁ ++ ops₂)) : SeekFree ops₁ :=
  fun x hx => h x (by simp [hx])

theorem SeekFree.right {ops₁ ops₂ : List Op} (h : SeekFree (ops₁ ++ ops₂)) : SeekFree ops₂ :=
  fun x hx => h x (by simp [hx])

/-- **(1a)** Along an accepted history without seeks the cursor only moves forward, by exactly
the number of records the observations deliver. -/
theorem accept_cursor_mono_noseek {it : Items} : ∀ {a a' : AState} {ops : List Op} {obs : List ObsH},
    SeekFree ops → execA it a ops obs = some a' →
    deliveredA a' = deliveredA a + deliveredCounts ops obs
  | a, a', [], [], _, h => by simp only [execA, Option.some.injEq] at h; subst h; rfl
  | _, _, [], _ :: _, _, h => by simp [execA] at h
  | _, _, _ :: _, [], _, h => by simp [execA] at h
  | a, a', op :: ops, o :: os, hns, h => by
    obtain ⟨a₁, h1, h2⟩ := execA_cons h
    have ih := accept_cursor_mono_noseek hns.tail h2
    have hs := (accept_step h1 hns.head).1
    simp only [deliveredA, deliveredCounts] at ih ⊢
    omega

theorem cursor_le_of_accepted {it : Items} {a a' : AState} {ops : List Op} {obs : List ObsH}
    (hns : SeekFree ops) (h : execA it a ops obs = some a') : a.k ≤ a'.k := by
  have := accept_cursor_mono_noseek hns h
  simp only [deliveredA] at this
  omega

/-- **(1b)** Along an accepted history without seeks, everything delivered – in the order of the
calls – is the segment `recs[k₀], …, recs[k₁ - 1]` of the records of S between the cursor before
and the cursor after the history: in order, without gaps, without repetition. -/
theorem accepted_delivers_segment {it : Items} : ∀ {a a' : AState} {ops : List Op} {obs : List ObsH},
    SeekFree ops → execA it a ops obs = some a' →
    deliveredRecs it a ops obs = segment it a.k a'.k
  | a, a', [], [], _, h => by
    simp only [execA, Option.some.injEq] at h; subst h
    simp [deliveredRecs, segment_self]
  | _, _, [], _ :: _, _, h => by simp [execA] at h
  | _, _, _ :: _, [], _, h => by simp [execA] at h
  | a, a', op :: ops, o :: os, hns, h => by
    obtain ⟨a₁, h1, h2⟩ := execA_cons h
    have ih := accepted_delivers_segment hns.tail h2
    obtain ⟨hk, hs⟩ := accept_step h1 hns.head
    have hle := cursor_le_of_accepted hns.tail h2
    simp only [deliveredRecs, h1, hs, ih]
    exact segment_append it a.k a₁.k a'.k (by omega) hle

/-- from the initial state: what has been delivered is a prefix of the records of S -/
theorem accepted_delivers_prefix {it : Items} {a' : AState} {ops : List Op} {obs : List ObsH}
    (hns : SeekFree ops) (h : execA it aInit ops obs = some a') :
    deliveredRecs it aInit ops obs = (it.recs.take a'.k).map view := by
  rw [accepted_delivers_segment hns h]
  simp [segment, aInit]

/-- a record observed by `next` is record number `k` of S -/
theorem accepted_next {it : Items} {a a' : AState} {h : List UInt8} {ls : List (List UInt8)}
    (hacc : acceptA it a .next (.record h ls) = some a') :
    ∃ rc, it.recs[a.k]? = some rc ∧ h = rc.head ∧ ls = rc.seqLines ∧ a'.k = a.k + 1 := by
  rcases acceptA_next_inv hacc with ⟨e, _, ho, _⟩ | ⟨_, rc, hrc, ho, ha⟩ | ⟨_, _, ho, _⟩
  · cases ho
  · injection ho with h1 h2
    subst ha
    exact ⟨rc, hrc, h1, h2, rfl⟩
  · cases ho

/-- a record observed by an owned read is record number `k` of S; its sequence is the
concatenation of the sequence lines -/
theorem accepted_owned {it : Items} {a a' : AState} {h s : List UInt8}
    (hacc : acceptA it a .owned (.owned h s) = some a') :
    ∃ rc, it.recs[a.k]? = some rc ∧ h = rc.head ∧ s = rc.seqLines.flatten ∧ a'.k = a.k + 1 := by
  rcases acceptA_owned_inv hacc with ⟨e, _, ho, _⟩ | ⟨_, rc, hrc, ho, ha⟩ | ⟨_, _, ho, _⟩
  · cases ho
  · injection ho with h1 h2
    subst ha
    exact ⟨rc, hrc, h1, h2, rfl⟩
  · cases ho

/-! ## FASTA (2): the end of the input -/

/-- an operation that really reads: `next`, an owned read, or a set read with valid arguments
(`nsets` live sets; a requested count of 0 does nothing) -/
def Op.reads (nsets : Nat) : Op → Bool
  | .next => true
  | .owned => true
  | .set j n => decide (j < nsets) && decide (n ≠ some 0)
  | _ => false

/-- everything has been delivered and no format error is pending -/
def AtEnd (it : Items) (a : AState) : Prop := errDue it a = none ∧ a.k = it.recs.length

theorem errDue_congr {it : Items} {a b : AState} (h : b.errDone = a.errDone) :
    errDue it b = errDue it a := by
  unfold errDue; rw [h]

/-- only a reading operation can report the end; it does so only when no record is left and no
format error is pending -/
theorem accept_none {it : Items} {a a' : AState} {op : Op}
    (h : acceptA it a op .none = some a') (hk : a.k ≤ it.recs.length) :
    op.reads a.sets.length = true ∧ AtEnd it a ∧ AtEnd it a' ∧ a'.sets.length = a.sets.length := by
  have hlen := accept_sets_length h
  cases op with
  | next =>
    rcases acceptA_next_inv h with ⟨e, _, ho, _⟩ | ⟨_, rc, _, ho, _⟩ | ⟨he, hrc, _, ha⟩
    · cases ho
    · cases ho
    · have hge : it.recs.length ≤ a.k := by
        rcases Nat.lt_or_ge a.k it.recs.length with h' | h'
        · rw [List.getElem?_eq_getElem h'] at hrc; cases hrc
        · exact h'
      subst ha
      exact ⟨rfl, ⟨he, by omega⟩, ⟨he, by show a.k = _; omega⟩, hlen⟩
  | owned =>
    rcases acceptA_owned_inv h with ⟨e, _, ho, _⟩ | ⟨_, rc, _, ho, _⟩ | ⟨he, hrc, _, ha⟩
    · cases ho
    · cases ho
    · have hge : it.recs.length ≤ a.k := by
        rcases Nat.lt_or_ge a.k it.recs.length with h' | h'
        · rw [List.getElem?_eq_getElem h'] at hrc; cases hrc
        · exact h'
      subst ha
      exact ⟨rfl, ⟨he, by omega⟩, ⟨he, by show a.k = _; omega⟩, hlen⟩
  | set j n =>
    rcases acceptA_set_inv h with ⟨_, ho, _⟩ | ⟨hn, hj, ⟨e, _, ho, _⟩ | ⟨he, _, hl, ha⟩ | ⟨_, m, ho, _, _⟩⟩
    · cases ho
    · cases ho
    · subst ha
      refine ⟨by simp [Op.reads, hj, hn], ⟨he, by omega⟩, ⟨?_, ?_⟩, hlen⟩
      · rw [← he]; exact errDue_congr (markOrEmpty_errDone a j)
      · show (markOrEmpty a j).k = _
        rw [markOrEmpty_k]; omega
    · cases ho
  | dump j =>
    rcases (acceptA_dump_inv h).2 with ⟨_, ho⟩ | ⟨e, _, ho | ⟨_, ho⟩⟩ <;> cases ho
  | pos =>
    obtain ⟨_, p, ho⟩ := acceptA_pos_inv h
    cases ho
  | seekRec i => cases (acceptA_seek_inv h).1

/-- at the end, every reading operation reports the end, delivers nothing, and the reader
stays at the end -/
theorem accept_atEnd {it : Items} {a a' : AState} {op : Op} {o : ObsH}
    (h : acceptA it a op o = some a') (hop : op.isSeek = false) (he : AtEnd it a) :
    AtEnd it a' ∧ (op.reads a.sets.length = true → o = .none) := by
  obtain ⟨hed, hk⟩ := he
  have hnone : it.recs[a.k]? = none := List.getElem?_eq_none (by omega)
  cases op with
  | next =>
    rcases acceptA_next_inv h with ⟨e, he', _, _⟩ | ⟨_, rc, hrc, _, _⟩ | ⟨_, _, ho, ha⟩
    · rw [hed] at he'; cases he'
    · rw [hnone] at hrc; cases hrc
    · subst ha; exact ⟨⟨hed, hk⟩, fun _ => ho⟩
  | owned =>
    rcases acceptA_owned_inv h with ⟨e, he', _, _⟩ | ⟨_, rc, hrc, _, _⟩ | ⟨_, _, ho, ha⟩
    · rw [hed] at he'; cases he'
    · rw [hnone] at hrc; cases hrc
    · subst ha; exact ⟨⟨hed, hk⟩, fun _ => ho⟩
  | set j n =>
    rcases acceptA_set_inv h with ⟨hbad, _, ha⟩ | ⟨_, _, ⟨e, he', _, _⟩ | ⟨_, ho, _, ha⟩ | ⟨_, m, _, hsz, _⟩⟩
    · subst ha
      refine ⟨⟨hed, hk⟩, fun hr => ?_⟩
      simp only [Op.reads, Bool.and_eq_true, decide_eq_true_eq] at hr
      rcases hbad with hb | hb
      · exact absurd hb hr.2
      · omega
    · rw [hed] at he'; cases he'
    · subst ha
      refine ⟨⟨?_, ?_⟩, fun _ => ho⟩
      · rw [← hed]; exact errDue_congr (markOrEmpty_errDone a j)
      · show (markOrEmpty a j).k = _
        rw [markOrEmpty_k]; exact hk
    · obtain ⟨h1, hm⟩ := hsz
      cases n with
      | none => simp only at hm; omega
      | some n => simp only at hm; omega
  | dump j =>
    rw [(acceptA_dump_inv h).1]
    exact ⟨⟨hed, hk⟩, fun hr => by simp [Op.reads] at hr⟩
  | pos =>
    rw [(acceptA_pos_inv h).1]
    exact ⟨⟨hed, hk⟩, fun hr => by simp [Op.reads] at hr⟩
  | seekRec i => simp [Op.isSeek] at hop

theorem atEnd_forever {it : Items} : ∀ {a a' : AState} {ops : List Op} {obs : List ObsH},
    SeekFree ops → AtEnd it a → execA it a ops obs = some a' →
    AtEnd it a' ∧ ∀ p ∈ ops.zip obs, p.1.reads a.sets.length = true → p.2 = .none
  | a, a', [], [], _, he, h => by
    simp only [execA, Option.some.injEq] at h; subst h
    exact ⟨he, by simp⟩
  | _, _, [], _ :: _, _, _, h => by simp [execA] at h
  | _, _, _ :: _, [], _, _, h => by simp [execA] at h
  | a, a', op :: ops, o :: os, hns, he, h => by
    obtain ⟨a₁, h1, h2⟩ := execA_cons h
    obtain ⟨he1, hr⟩ := accept_atEnd h1 hns.head he
    obtain ⟨he', hall⟩ := atEnd_forever hns.tail he1 h2
    rw [accept_sets_length h1] at hall
    refine ⟨he', ?_⟩
    intro p hp
    simp only [List.zip_cons_cons, List.mem_cons] at hp
    rcases hp with hp | hp
    · subst hp; exact hr
    · exact hall p hp

theorem cursor_le_length {it : Items} : ∀ {a a' : AState} {ops : List Op} {obs : List ObsH},
    a.k ≤ it.recs.length → execA it a ops obs = some a' → a'.k ≤ it.recs.length
  | a, a', [], [], hk, h => by simp only [execA, Option.some.injEq] at h; subst h; exact hk
  | _, _, [], _ :: _, _, h => by simp [execA] at h
  | _, _, _ :: _, [], _, h => by simp [execA] at h
  | a, a', op :: ops, o :: os, hk, h => by
    obtain ⟨a₁, h1, h2⟩ := execA_cons h
    exact cursor_le_length (accept_le h1 hk) h2

theorem execA_sets_length {it : Items} : ∀ {a a' : AState} {ops : List Op} {obs : List ObsH},
    execA it a ops obs = some a' → a'.sets.length = a.sets.length
  | a, a', [], [], h => by simp only [execA, Option.some.injEq] at h; subst h; rfl
  | _, _, [], _ :: _, h => by simp [execA] at h
  | _, _, _ :: _, [], h => by simp [execA] at h
  | a, a', op :: ops, o :: os, h => by
    obtain ⟨a₁, h1, h2⟩ := execA_cons h
    rw [execA_sets_length h2, accept_sets_length h1]

/-- **(2)** In an accepted history without seeks, split at an observation `none` (end of input):
`ops₁`/`obs₁` before it, `op` the operation that reported the end, `ops₂`/`obs₂` after it.
Then `op` is a reading operation, the cursor at that moment is the number of records – what was
delivered before is *all* the rest of the records, nothing is lost –, no format error is pending,
and every later reading operation reports the end again (and delivers nothing). -/
theorem accepted_none_means_all {it : Items} {a a' : AState} {ops₁ ops₂ : List Op}
    {obs₁ obs₂ : List ObsH} {op : Op}
    (hk : a.k ≤ it.recs.length) (hns : SeekFree (ops₁ ++ op :: ops₂))
    (hlen : ops₁.length = obs₁.length)
    (h : execA it a (ops₁ ++ op :: ops₂) (obs₁ ++ .none :: obs₂) = some a') :
    ∃ a₁, execA it a ops₁ obs₁ = some a₁ ∧
      op.reads a.sets.length = true ∧
      a₁.k = it.recs.length ∧
      deliveredRecs it a ops₁ obs₁ = (it.recs.drop a.k).map view ∧
      errDue it a₁ = none ∧
      a'.k = it.recs.length ∧
      (∀ p ∈ ops₂.zip obs₂, p.1.reads a.sets.length = true → p.2 = .none) := by
  obtain ⟨a₁, h1, h2⟩ := execA_append hlen h
  obtain ⟨a₂, h3, h4⟩ := execA_cons h2
  have hk1 := cursor_le_length hk h1
  have hl1 := execA_sets_length h1
  obtain ⟨hr, he1, he2, hl2⟩ := accept_none h3 hk1
  obtain ⟨he', hall⟩ := atEnd_forever hns.right.tail he2 h4
  refine ⟨a₁, h1, by rw [← hl1]; exact hr, he1.2, ?_, he1.1, he'.2, ?_⟩
  · rw [accepted_delivers_segment hns.left h1, segment, he1.2, seg_all]
  · rw [hl2, hl1] at hall; exact hall

/-- the format error of FASTA is reported at most once, by the first reading operation -/
theorem accept_error {it : Items} {a a' : AState} {op : Op} {e : Err}
    (h : acceptA it a op (.error e) = some a') :
    op.reads a.sets.length = true ∧ errDue it a = some e ∧ a'.errDone = true := by
  cases op with
  | next =>
    rcases acceptA_next_inv h with ⟨e', he, ho, ha⟩ | ⟨_, rc, _, ho, _⟩ | ⟨_, _, ho, _⟩
    · injection ho with ho; subst ho ha; exact ⟨rfl, he, rfl⟩
    · cases ho
    · cases ho
  | owned =>
    rcases acceptA_owned_inv h with ⟨e', he, ho, ha⟩ | ⟨_, rc, _, ho, _⟩ | ⟨_, _, ho, _⟩
    · injection ho with ho; subst ho ha; exact ⟨rfl, he, rfl⟩
    · cases ho
    · cases ho
  | set j n =>
    rcases acceptA_set_inv h with ⟨_, ho, _⟩ | ⟨hn, hj, ⟨e', he, ho, ha⟩ | ⟨_, ho, _, _⟩ | ⟨_, m, ho, _, _⟩⟩
    · cases ho
    · injection ho with ho; subst ho ha
      exact ⟨by simp [Op.reads, hj, hn], he, rfl⟩
    · cases ho
    · cases ho
  | dump j =>
    rcases (acceptA_dump_inv h).2 with ⟨_, ho⟩ | ⟨e, _, ho | ⟨_, ho⟩⟩ <;> cases ho
  | pos =>
    obtain ⟨_, p, ho⟩ := acceptA_pos_inv h
    cases ho
  | seekRec i => cases (acceptA_seek_inv h).1

theorem accept_errDone {it : Items} {a a' : AState} {op : Op} {o : ObsH}
    (h : acceptA it a op o = some a') (hd : a.errDone = true) : a'.errDone = true := by
  cases op with
  | next =>
    rcases acceptA_next_inv h with ⟨e, _, _, ha⟩ | ⟨_, rc, _, _, ha⟩ | ⟨_, _, _, ha⟩ <;> subst ha <;>
      first | rfl | exact hd
  | owned =>
    rcases acceptA_owned_inv h with ⟨e, _, _, ha⟩ | ⟨_, rc, _, _, ha⟩ | ⟨_, _, _, ha⟩ <;> subst ha <;>
      first | rfl | exact hd
  | set j n =>
    rcases acceptA_set_inv h with ⟨_, _, ha⟩ | ⟨_, _, ⟨e, _, _, ha⟩ | ⟨_, _, _, ha⟩ | ⟨_, m, _, _, ha⟩⟩ <;>
      subst ha
    · exact hd
    · rfl
    · show (markOrEmpty a j).errDone = true
      rw [markOrEmpty_errDone]; exact hd
    · exact hd
  | dump j => rw [(acceptA_dump_inv h).1]; exact hd
  | pos => rw [(acceptA_pos_inv h).1]; exact hd
  | seekRec i =>
    rcases (acceptA_seek_inv h).2 with ⟨_, ha⟩ | ⟨_, ha⟩ <;> subst ha <;> exact hd

theorem no_error_after {it : Items} : ∀ {a a' : AState} {ops : List Op} {obs : List ObsH},
    a.errDone = true → execA it a ops obs = some a' → ∀ e, .error e ∉ obs
  | _, _, [], [], _, _ => by simp
  | _, _, [], _ :: _, _, h => by simp [execA] at h
  | _, _, _ :: _, [], _, h => by simp [execA] at h
  | a, a', op :: ops, o :: os, hd, h => by
    obtain ⟨a₁, h1, h2⟩ := execA_cons h
    intro e hmem
    simp only [List.mem_cons] at hmem
    rcases hmem with hmem | hmem
    · subst hmem
      have := (accept_error h1).2.1
      simp [errDue, hd] at this
    · exact no_error_after (accept_errDone h1 hd) h2 e hmem

/-- In an accepted history (seeks allowed) an error observation is the format error S assigns
to the input, it is reported by a reading operation, and no error is observed after it. -/
theorem accepted_error_once {it : Items} {a a' : AState} {ops₁ ops₂ : List Op}
    {obs₁ obs₂ : List ObsH} {op : Op} {e : Err} (hlen : ops₁.length = obs₁.length)
    (h : execA it a (ops₁ ++ op :: ops₂) (obs₁ ++ .error e :: obs₂) = some a') :
    it.err = some e ∧ op.reads a.sets.length = true ∧ ∀ e', .error e' ∉ obs₂ := by
  obtain ⟨a₁, h1, h2⟩ := execA_append hlen h
  obtain ⟨a₂, h3, h4⟩ := execA_cons h2
  obtain ⟨hr, he, hd⟩ := accept_error h3
  refine ⟨?_, by rw [← execA_sets_length h1]; exact hr, no_error_after hd h4⟩
  unfold errDue at he
  split at he
  · cases he
  · exact he

/-- in FASTA a format error means that S assigns no records at all to the input -/
theorem items_err_no_recs (inp : List UInt8) (h : (items inp).err ≠ none) : (items inp).recs = [] := by
  unfold items at h ⊢
  split
  · rename_i hs; rw [hs] at h; exact absurd rfl h
  · rfl

/-! ## FASTA (3): sizes of record sets -/

/-- **(3a)** an accepted plain set read delivers at least one record and at most what is left -/
theorem accepted_batch_sizes_plain {it : Items} {a a' : AState} {j m : Nat}
    (h : acceptA it a (.set j none) (.batch m) = some a') :
    1 ≤ m ∧ m ≤ it.recs.length - a.k ∧ a'.k = a.k + m := by
  rcases acceptA_set_inv h with ⟨_, ho, _⟩ | ⟨_, _, ⟨e, _, ho, _⟩ | ⟨_, ho, _, _⟩ | ⟨_, m', ho, hsz, ha⟩⟩
  · cases ho
  · cases ho
  · cases ho
  · injection ho with ho; subst ho ha
    exact ⟨hsz.1, hsz.2, rfl⟩

/-- **(3b)** an accepted exact read of `n` records delivers exactly `n` records, or all that are
left if these are fewer (and at least one) -/
theorem accepted_batch_sizes_exact {it : Items} {a a' : AState} {j n m : Nat}
    (h : acceptA it a (.set j (some n)) (.batch m) = some a') :
    1 ≤ n ∧ 1 ≤ m ∧ m = min n (it.recs.length - a.k) ∧ a'.k = a.k + m := by
  rcases acceptA_set_inv h with ⟨_, ho, _⟩ | ⟨hn, _, ⟨e, _, ho, _⟩ | ⟨_, ho, _, _⟩ | ⟨_, m', ho, hsz, ha⟩⟩
  · cases ho
  · cases ho
  · cases ho
  · injection ho with ho; subst ho ha
    have hn1 : 1 ≤ n := by
      rcases Nat.eq_zero_or_pos n with h0 | h0
      · subst h0; exact absurd rfl hn
      · exact h0
    exact ⟨hn1, hsz.1, hsz.2, rfl⟩

/-! ## FASTA (4): filled sets stay unchanged -/

/-- set `j` is expected to hold the records `lo, …, lo + len - 1`
(`strict`: and cannot have been emptied) -/
def Holds (a : AState) (j lo len : Nat) (strict : Bool) : Prop :=
  ∃ e, a.sets[j]? = some e ∧ e.lo = lo ∧ e.len = len ∧ (strict = true → e.orEmpty = false)

/-- the only observation that changes what set `j` is expected to hold is a batch for set `j`;
a set read on `j` that reports the end or an error may empty it -/
theorem accept_holds {it : Items} {a a' : AState} {op : Op} {o : ObsH} {j lo len : Nat} {strict : Bool}
    (h : acceptA it a op o = some a') (hh : Holds a j lo len strict)
    (hno : if strict then ∀ n, op ≠ .set j n else ∀ n m, (op, o) ≠ (.set j n, .batch m)) :
    Holds a' j lo len strict := by
  cases op with
  | next =>
    rcases acceptA_next_inv h with ⟨e, _, _, ha⟩ | ⟨_, rc, _, _, ha⟩ | ⟨_, _, _, ha⟩ <;> subst ha <;> exact hh
  | owned =>
    rcases acceptA_owned_inv h with ⟨e, _, _, ha⟩ | ⟨_, rc, _, _, ha⟩ | ⟨_, _, _, ha⟩ <;> subst ha <;> exact hh
  | dump j' => rw [(acceptA_dump_inv h).1]; exact hh
  | pos => rw [(acceptA_pos_inv h).1]; exact hh
  | seekRec i =>
    rcases (acceptA_seek_inv h).2 with ⟨_, ha⟩ | ⟨_, ha⟩ <;> subst ha <;> exact hh
  | set j' n =>
    obtain ⟨e, hje, hlo, hle, hst⟩ := hh
    -- a call on the same set that empties it
    have hmark : ∀ b : AState, b.sets = (markOrEmpty a j').sets → Holds b j lo len strict := by
      intro b hb
      by_cases hjj : j' = j
      · subst hjj
        cases strict with
        | true => exact absurd rfl (hno n)
        | false =>
          exact ⟨{ e with orEmpty := true }, by rw [hb]; exact markOrEmpty_get_self a j' e hje, hlo, hle,
            fun h => by cases h⟩
      · exact ⟨e, by rw [hb, markOrEmpty_get_ne a j j' hjj]; exact hje, hlo, hle, hst⟩
    rcases acceptA_set_inv h with ⟨_, _, ha⟩ | ⟨_, _, ⟨e', _, _, ha⟩ | ⟨_, _, _, ha⟩ | ⟨_, m, ho, _, ha⟩⟩
    · subst ha; exact ⟨e, hje, hlo, hle, hst⟩
    · subst ha; exact hmark _ rfl
    · subst ha; exact hmark _ rfl
    · subst ha ho
      have hjj : j' ≠ j := by
        intro hjj
        subst hjj
        cases strict with
        | true => exact absurd rfl (hno n)
        | false => exact absurd rfl (hno n m)
      exact ⟨e, by show (a.sets.set j' _)[j]? = _; rw [List.getElem?_set_ne hjj]; exact hje, hlo, hle, hst⟩

theorem execA_holds {it : Items} {j lo len : Nat} {strict : Bool} :
    ∀ {a a' : AState} {ops : List Op} {obs : List ObsH},
    execA it a ops obs = some a' → Holds a j lo len strict →
    (∀ p ∈ ops.zip obs, if strict then ∀ n, p.1 ≠ .set j n else ∀ n m, p ≠ (.set j n, .batch m)) →
    Holds a' j lo len strict
  | a, a', [], [], h, hh, _ => by simp only [execA, Option.some.injEq] at h; subst h; exact hh
  | _, _, [], _ :: _, h, _, _ => by simp [execA] at h
  | _, _, _ :: _, [], h, _, _ => by simp [execA] at h
  | a, a', op :: ops, o :: os, h, hh, hno => by
    obtain ⟨a₁, h1, h2⟩ := execA_cons h
    have h0 := hno (op, o) (by simp)
    exact execA_holds h2 (accept_holds h1 hh h0) (fun p hp => hno p (by simp [hp]))

theorem batch_holds {it : Items} {a a' : AState} {j m : Nat} {n : Option Nat}
    (h : acceptA it a (.set j n) (.batch m) = some a') : Holds a' j a.k m true := by
  rcases acceptA_set_inv h with ⟨_, ho, _⟩ | ⟨_, hj, ⟨e, _, ho, _⟩ | ⟨_, ho, _, _⟩ | ⟨_, m', ho, _, ha⟩⟩
  · cases ho
  · cases ho
  · cases ho
  · injection ho with ho; subst ho ha
    exact ⟨{ lo := a.k, len := m }, by simp [hj], rfl, rfl, fun _ => rfl⟩

theorem dump_holds {it : Items} {a a' : AState} {j lo len : Nat} {strict : Bool} {l : List RecView}
    (h : acceptA it a (.dump j) (.dump l) = some a') (hh : Holds a j lo len strict) :
    l = ((it.recs.drop lo).take len).map view ∨ (strict = false ∧ l = []) := by
  obtain ⟨e, hje, hlo, hle, hst⟩ := hh
  rcases (acceptA_dump_inv h).2 with ⟨hn, _⟩ | ⟨e', hje', ho | ⟨hoe, ho⟩⟩
  · rw [hje] at hn; cases hn
  · rw [hje] at hje'; injection hje' with hje'; subst hje'
    injection ho with ho
    left; rw [ho, hlo, hle]
  · rw [hje] at hje'; injection hje' with hje'; subst hje'
    injection ho with ho
    right
    cases strict with
    | true => rw [hst rfl] at hoe; cases hoe
    | false => exact ⟨rfl, ho⟩

/-- **(4)** "Earlier filled sets stay unchanged."  Take an accepted history (from any state,
i.e. after any earlier history) in which set `j` is filled with `m` records, then anything
happens – reads, other sets being filled, seeks – except that set `j` is not passed to a set
read again, and then set `j` is dumped.  The dump shows exactly the `m` records that the batch
stood for: the records `k, …, k + m - 1` of S, `k` the cursor when the set was filled. -/
theorem accepted_dump_snapshot {it : Items} {a a' : AState} {j m : Nat} {n : Option Nat}
    {mid : List Op} {obsMid : List ObsH} {l : List RecView}
    (hlen : mid.length = obsMid.length)
    (hmid : ∀ n', .set j n' ∉ mid)
    (h : execA it a (.set j n :: (mid ++ [.dump j])) (.batch m :: (obsMid ++ [.dump l])) = some a') :
    l = ((it.recs.drop a.k).take m).map view ∧
    l = deliveredStep it a (.set j n) (.batch m) := by
  obtain ⟨a₁, h1, h2⟩ := execA_cons h
  obtain ⟨a₂, h3, h4⟩ := execA_append hlen h2
  obtain ⟨a₃, h5, _⟩ := execA_cons h4
  have hh := execA_holds (strict := true) h3 (batch_holds h1) (by
    intro p hp n' hpn
    exact hmid n' (hpn ▸ (List.of_mem_zip hp).1))
  rcases dump_holds h5 hh with hl | ⟨hs, _⟩
  · exact ⟨hl, hl⟩
  · cases hs

/-- **(4')** If in between set `j` was passed to set reads that reported the end of the input or
an error (but never filled it again), the dump shows the same records or nothing. -/
theorem accepted_dump_snapshot_or_empty {it : Items} {a a' : AState} {j m : Nat} {n : Option Nat}
    {mid : List Op} {obsMid : List ObsH} {l : List RecView}
    (hlen : mid.length = obsMid.length)
    (hmid : ∀ p ∈ mid.zip obsMid, ∀ n' m', p ≠ (.set j n', .batch m'))
    (h : execA it a (.set j n :: (mid ++ [.dump j])) (.batch m :: (obsMid ++ [.dump l])) = some a') :
    l = ((it.recs.drop a.k).take m).map view ∨ l = [] := by
  obtain ⟨a₁, h1, h2⟩ := execA_cons h
  obtain ⟨a₂, h3, h4⟩ := execA_append hlen h2
  obtain ⟨a₃, h5, _⟩ := execA_cons h4
  have hh0 : Holds a₁ j a.k m false := by
    obtain ⟨e, h1, h2, h3, _⟩ := batch_holds h1
    exact ⟨e, h1, h2, h3, fun h => by cases h⟩
  have hh := execA_holds (strict := false) h3 hh0 (by
    intro p hp
    exact hmid p hp)
  rcases dump_holds h5 hh with hl | ⟨_, hl⟩
  · exact Or.inl hl
  · exact Or.inr hl

/-- a set that was never filled shows nothing -/
theorem accepted_dump_fresh {it : Items} {a' : AState} {j : Nat}
    {ops : List Op} {obs : List ObsH} {l : List RecView}
    (hlen : ops.length = obs.length)
    (hno : ∀ p ∈ ops.zip obs, ∀ n' m', p ≠ (.set j n', .batch m'))
    (h : execA it aInit (ops ++ [.dump j]) (obs ++ [.dump l]) = some a') : l = [] := by
  obtain ⟨a₂, h3, h4⟩ := execA_append hlen h
  obtain ⟨a₃, h5, _⟩ := execA_cons h4
  rcases (acceptA_dump_inv h5).2 with ⟨_, ho⟩ | hsome
  · cases ho
  · obtain ⟨e, hje, _⟩ := hsome
    have hj : j < a₂.sets.length := by
      rcases Nat.lt_or_ge j a₂.sets.length with h' | h'
      · exact h'
      · rw [List.getElem?_eq_none h'] at hje; cases hje
    rw [execA_sets_length h3] at hj
    have hh0 : Holds aInit j 0 0 false := by
      have : aInit.sets = [{}, {}, {}] := rfl
      have hj3 : j < 3 := by simpa [this] using hj
      refine ⟨{}, ?_, rfl, rfl, fun h => by cases h⟩
      rw [this]
      match j, hj3 with
      | 0, _ => rfl
      | 1, _ => rfl
      | 2, _ => rfl
    have hh := execA_holds (strict := false) h3 hh0 hno
    rcases dump_holds h5 hh with hl | ⟨_, hl⟩
    · simpa using hl
    · exact hl

/-! ## FASTA (5): seeks -/

/-- **(5)** After an accepted seek to record `i` the cursor is `i`; the reads that follow (up to
the next seek) deliver `recs[i], recs[i+1], …` in order, each once. -/
theorem accepted_after_seek {it : Items} {a a' : AState} {i : Nat} {o : ObsH}
    {ops : List Op} {obs : List ObsH} (hi : i < it.recs.length) (hns : SeekFree ops)
    (h : execA it a (.seekRec i :: ops) (o :: obs) = some a') :
    o = .done ∧
    a'.k = i + deliveredCounts ops obs ∧
    deliveredRecs it a (.seekRec i :: ops) (o :: obs) = segment it i a'.k := by
  obtain ⟨a₁, h1, h2⟩ := execA_cons h
  obtain ⟨ho, hcase⟩ := acceptA_seek_inv h1
  rcases hcase with ⟨_, ha⟩ | ⟨hge, _⟩
  · have hk1 : a₁.k = i := by rw [ha]
    have hc := accept_cursor_mono_noseek hns h2
    have hd := accepted_delivers_segment hns h2
    simp only [deliveredA] at hc
    refine ⟨ho, by omega, ?_⟩
    simp only [deliveredRecs, h1, deliveredStep, List.nil_append, hd, hk1]
  · omega

/-! ## FASTA: summary in terms of `runA` -/

/-- **C04 for FASTA in one statement**: if A accepts the observations of a history without seeks,
then what was delivered along it is a contiguous run of the records of S starting at the initial
cursor, in order, each exactly once, and the cursor has advanced by their number. -/
theorem runA_delivers {it : Items} {a : AState} {ops : List Op} {obs : List ObsH}
    (hns : SeekFree ops) (h : runA it a ops obs = true) :
    ∃ a', execA it a ops obs = some a' ∧
      a'.k = a.k + deliveredCounts ops obs ∧
      deliveredRecs it a ops obs = ((it.recs.drop a.k).take (deliveredCounts ops obs)).map view := by
  obtain ⟨a', h'⟩ := (runA_iff it a ops obs).mp h
  have hc := accept_cursor_mono_noseek hns h'
  simp only [deliveredA] at hc
  refine ⟨a', h', hc, ?_⟩
  rw [accepted_delivers_segment hns h', segment, hc, Nat.add_sub_cancel_left]

/-- the statements are not vacuous: a small accepted history -/
example :
    let r0 : Spec.FaRec := { byte := 0, line := 1, head := [65], seqLines := [[67], [71]] }
    let r1 : Spec.FaRec := { byte := 7, line := 4, head := [66], seqLines := [] }
    let it : Items := { recs := [r0, r1], err := none }
    runA it aInit [.next, .set 0 none, .owned, .dump 0, .set 1 (some 2), .seekRec 1, .owned]
      [.record [65] [[67], [71]], .batch 1, .none, .dump [([66], [])], .none, .done, .owned [66] []]
      = true := by decide

end SeqIo.Fasta.Hist

/-! # FASTQ

The items of S are records, possibly followed by one error item (`fastq_err_last`).  The cursor
of A counts items.  The delivered records are the records before the error; the error is reported
once; after that, every read reports the end of the input. -/

namespace SeqIo.Fastq.Hist
open SeqIo SeqIo.Spec SeqIo.ListFacts

/-! ## FASTQ: definitions -/

/-- the abstract state after a history all of whose observations are accepted -/
def execA (items : List FqItem) (a : AState) : List Op → List ObsH → Option AState
  | [], [] => some a
  | op :: ops, o :: os =>
    match acceptA items a op o with
    | some a' => execA items a' ops os
    | none => none
  | _, _ => none

theorem acceptsA_eq_execA (items : List FqItem) : ∀ (a : AState) (ops : List Op) (obs : List ObsH),
    acceptsA items a ops obs = (execA items a ops obs).isSome
  | a, [], [] => rfl
  | a, [], _ :: _ => rfl
  | a, _ :: _, [] => rfl
  | a, op :: ops, o :: os => by
    simp only [acceptsA, execA]
    cases h : acceptA items a op o with
    | none => rfl
    | some a' => exact acceptsA_eq_execA items a' ops os

theorem acceptsA_iff (items : List FqItem) (a : AState) (ops : List Op) (obs : List ObsH) :
    acceptsA items a ops obs = true ↔ ∃ a', execA items a ops obs = some a' := by
  rw [acceptsA_eq_execA, Option.isSome_iff_exists]

/-- the number of items delivered (records), reported (the error) or skipped so far -/
def deliveredA (a : AState) : Nat := a.k

def Op.isSeek : Op → Bool
  | .seekItem _ => true
  | _ => false

def SeekFree (ops : List Op) : Prop := ∀ op ∈ ops, op.isSeek = false

/-- no error is observed -/
def NoErrObs (obs : List ObsH) : Prop := ∀ e, ObsH.error e ∉ obs

/-- a reading operation -/
def Op.reads : Op → Bool
  | .next => true
  | .owned => true
  | .set _ _ => true
  | _ => false

/-- how many records an observation delivers, read off the observation alone -/
def deliveredCount : Op → ObsH → Nat
  | .next, .record _ => 1
  | .owned, .record _ => 1
  | .set _ _, .batch m => m
  | _, _ => 0

def deliveredCounts : List Op → List ObsH → Nat
  | op :: ops, o :: os => deliveredCount op o + deliveredCounts ops os
  | _, _ => 0

/-- the records one observation delivers; a `batch m` carries only the count, the records it
stands for are the next `m` records of S at the cursor (`accepted_dump_snapshot`: that is what a
dump of the set shows) -/
def deliveredStep (items : List FqItem) (a : AState) : Op → ObsH → List Rec
  | .next, .record r => [r]
  | .owned, .record r => [r]
  | .set _ _, .batch m => (leadRecs (items.drop a.k)).take m
  | _, _ => []

/-- everything delivered along a history, in the order of the calls -/
def deliveredRecs (items : List FqItem) (a : AState) : List Op → List ObsH → List Rec
  | op :: ops, o :: os =>
    deliveredStep items a op o ++
      (match acceptA items a op o with
       | some a' => deliveredRecs items a' ops os
       | none => [])
  | _, _ => []

/-- the items number `i, …, j - 1` of S are the records `xs`, and `rs` is how the caller sees
them -/
def IsSegment (items : List FqItem) (i j : Nat) (rs : List Rec) : Prop :=
  ∃ xs : List FqRec, (items.drop i).take (j - i) = xs.map FqItem.record ∧ rs = xs.map recOf

theorem IsSegment.append {items : List FqItem} {i j k : Nat} {rs₁ rs₂ : List Rec}
    (h₁ : IsSegment items i j rs₁) (h₂ : IsSegment items j k rs₂) (hij : i ≤ j) (hjk : j ≤ k) :
    IsSegment items i k (rs₁ ++ rs₂) := by
  obtain ⟨xs₁, e₁, r₁⟩ := h₁
  obtain ⟨xs₂, e₂, r₂⟩ := h₂
  refine ⟨xs₁ ++ xs₂, ?_, ?_⟩
  · rw [← seg_append items i j k hij hjk, e₁, e₂, List.map_append]
  · rw [r₁, r₂, List.map_append]

theorem IsSegment.nil (items : List FqItem) (i : Nat) : IsSegment items i i [] :=
  ⟨[], by simp, rfl⟩

theorem IsSegment.length {items : List FqItem} {i j : Nat} {rs : List Rec}
    (h : IsSegment items i j rs) (hj : j ≤ items.length) (hij : i ≤ j) : rs.length = j - i := by
  obtain ⟨xs, e, r⟩ := h
  have := congrArg List.length e
  simp only [List.length_take, List.length_drop, List.length_map] at this
  rw [r, List.length_map]
  omega

/-- a segment is determined by the items: every delivered record is the record at its index -/
theorem IsSegment.get {items : List FqItem} {i j : Nat} {rs : List Rec}
    (h : IsSegment items i j rs) (q : Nat) (hq : q < rs.length) :
    ∃ x, items[i + q]? = some (.record x) ∧ rs[q]? = some (recOf x) := by
  obtain ⟨xs, e, r⟩ := h
  subst r
  simp only [List.length_map] at hq
  refine ⟨xs[q], ?_, by simp [hq]⟩
  have h1 : ((items.drop i).take (j - i))[q]? = some (.record xs[q]) := by
    rw [e]; simp [hq]
  rw [List.getElem?_take] at h1
  split at h1
  · rw [List.getElem?_drop] at h1; exact h1
  · cases h1

/-! ## FASTQ: lead records -/

theorem leadRecs_nil : leadRecs [] = [] := rfl
theorem leadRecs_record (x : FqRec) (rest : List FqItem) :
    leadRecs (.record x :: rest) = recOf x :: leadRecs rest := rfl
theorem leadRecs_err (e : FqErr) (b l : Nat) (rest : List FqItem) :
    leadRecs (.err e b l :: rest) = [] := rfl

theorem leadRecs_length_le : ∀ l : List FqItem, (leadRecs l).length ≤ l.length
  | [] => by simp [leadRecs_nil]
  | .record x :: rest => by
    simp only [leadRecs_record, List.length_cons]
    exact Nat.succ_le_succ (leadRecs_length_le rest)
  | .err e b l :: rest => by simp [leadRecs_err]

/-- the first `m` lead records are the first `m` items -/
theorem leadRecs_take : ∀ (l : List FqItem) (m : Nat), m ≤ (leadRecs l).length →
    ∃ xs : List FqRec, l.take m = xs.map FqItem.record ∧ (leadRecs l).take m = xs.map recOf
  | _, 0, _ => ⟨[], by simp, by simp⟩
  | [], m + 1, h => by simp [leadRecs_nil] at h
  | .err e b l :: rest, m + 1, h => by simp [leadRecs_err] at h
  | .record x :: rest, m + 1, h => by
    simp only [leadRecs_record, List.length_cons, Nat.add_le_add_iff_right] at h
    obtain ⟨xs, h1, h2⟩ := leadRecs_take rest m h
    exact ⟨x :: xs, by simp [h1], by simp [leadRecs_record, h2]⟩

/-- what follows the lead records is not a record -/
theorem leadRecs_next : ∀ (l : List FqItem) (x : FqRec), l[(leadRecs l).length]? ≠ some (.record x)
  | [], x => by simp [leadRecs_nil]
  | .err e b l :: rest, x => by simp [leadRecs_err]
  | .record y :: rest, x => by
    simp only [leadRecs_record, List.length_cons, List.getElem?_cons_succ]
    exact leadRecs_next rest x

/-! ## FASTQ: what one accepted observation says -/

theorem ite_some_inv {α : Type} {c : Prop} [Decidable c] {a a' : α}
    (h : (if c then some a else none) = some a') : c ∧ a' = a := by
  split at h
  · rename_i hc; injection h with h; exact ⟨hc, h.symm⟩
  · cases h

/-- an accepted single-record read: item number `k` – a record, or the error –, or the end iff
there is no item number `k` -/
theorem acceptNext_inv {items : List FqItem} {a a' : AState} {o : ObsH}
    (h : acceptNext items a o = some a') :
    (items[a.k]? = none ∧ o = .none ∧ a' = { a with last := .none }) ∨
    (∃ x, items[a.k]? = some (.record x) ∧ o = .record (recOf x) ∧
      a' = { a with k := a.k + 1, last := .item a.k }) ∨
    (∃ e b l, items[a.k]? = some (.err e b l) ∧ o = .error (specErr e) ∧
      a' = { a with k := items.length, last := .none }) := by
  unfold acceptNext at h
  split at h
  · rename_i hk
    obtain ⟨ho, ha⟩ := ite_some_inv h
    exact Or.inl ⟨hk, ho, ha⟩
  · rename_i x hk
    obtain ⟨ho, ha⟩ := ite_some_inv h
    exact Or.inr (Or.inl ⟨x, hk, ho, ha⟩)
  · rename_i e b l hk
    obtain ⟨ho, ha⟩ := ite_some_inv h
    exact Or.inr (Or.inr ⟨e, b, l, hk, ho, ha⟩)

/-- an accepted set read: the end iff no item is left; or the error that follows the valid
records ahead (if it is within reach of the requested count); or a batch of the right size -/
theorem acceptSet_inv {items : List FqItem} {a a' : AState} {o : ObsH} {j : Nat} {n : Option Nat}
    (h : acceptSet items a j n o = some a') :
    (o = .none ∧ items.length ≤ a.k ∧
      a' = ({ a with last := .none } : AState).putSet j { a.getSet j with altEmpty := true }) ∨
    (∃ e b l, o = .error (specErr e) ∧
      items[a.k + (leadRecs (items.drop a.k)).length]? = some (.err e b l) ∧
      reachedErr n (leadRecs (items.drop a.k)).length = true ∧
      a' = ({ a with k := items.length, last := .none } : AState).putSet j
          { a.getSet j with altEmpty := true }) ∨
    (∃ m, o = .batch m ∧
      batchOk n m (leadRecs (items.drop a.k)).length
        (items[a.k + (leadRecs (items.drop a.k)).length]?).isSome = true ∧
      a' = ({ a with k := a.k + m, last := .set } : AState).putSet j
          { recs := (leadRecs (items.drop a.k)).take m, altEmpty := false }) := by
  unfold acceptSet at h
  simp only at h
  split at h
  · obtain ⟨hc, ha⟩ := ite_some_inv h
    exact Or.inl ⟨rfl, hc, ha⟩
  · rename_i e
    split at h
    · rename_i e' b l herr
      obtain ⟨⟨he, hr⟩, ha⟩ := ite_some_inv h
      subst he
      exact Or.inr (Or.inl ⟨e', b, l, rfl, herr, hr, ha⟩)
    · cases h
  · rename_i m
    obtain ⟨hc, ha⟩ := ite_some_inv h
    exact Or.inr (Or.inr ⟨m, rfl, hc, ha⟩)
  · cases h

theorem acceptDump_inv {a a' : AState} {o : ObsH} {j : Nat} (h : acceptDump a j o = some a') :
    a' = a ∧ ∃ rs, o = .dump rs ∧ (rs = (a.getSet j).recs ∨ ((a.getSet j).altEmpty = true ∧ rs = [])) := by
  unfold acceptDump at h
  split at h
  · rename_i rs
    obtain ⟨hc, ha⟩ := ite_some_inv h
    exact ⟨ha, rs, rfl, hc⟩
  · cases h

theorem acceptPos_inv {items : List FqItem} {a a' : AState} {o : ObsH}
    (h : acceptPos items a o = some a') : a' = a ∧ ∃ l b, o = .position l b := by
  unfold acceptPos at h
  split at h
  · rename_i l b
    split at h
    · injection h with h; exact ⟨h.symm, l, b, rfl⟩
    · exact ⟨(ite_some_inv h).2, l, b, rfl⟩
  · cases h

/-- an accepted seek to item `i` sets the cursor to `i`; without such an item nothing happens -/
theorem acceptSeek_inv {items : List FqItem} {a a' : AState} {o : ObsH} {i : Nat}
    (h : acceptSeek items a i o = some a') :
    (o = .done ∧ i < items.length ∧ a' = { a with k := i, last := .seek i }) ∨
    (o = .badOp ∧ items.length ≤ i ∧ a' = a) := by
  unfold acceptSeek at h
  split at h
  · obtain ⟨hc, ha⟩ := ite_some_inv h
    exact Or.inl ⟨rfl, hc, ha⟩
  · obtain ⟨hc, ha⟩ := ite_some_inv h
    exact Or.inr ⟨rfl, hc, ha⟩
  · cases h

theorem putSet_k (a : AState) (j : Nat) (e : ASet) : (a.putSet j e).k = a.k := by
  unfold AState.putSet; split <;> rfl

/-- the slot of set index `j` (indices ≥ 2 all mean the third set) -/
def slot (j : Nat) : Nat := min j 2

theorem getSet_putSet_same (a : AState) (j j' : Nat) (e : ASet) (h : slot j' = slot j) :
    (a.putSet j e).getSet j' = e := by
  unfold slot at h
  match j, j' with
  | 0, 0 => rfl
  | 1, 1 => rfl
  | j + 2, j' + 2 => rfl
  | 0, j' + 1 => omega
  | 1, 0 => omega
  | 1, j' + 2 => omega
  | j + 2, 0 => omega
  | j + 2, 1 => omega

theorem getSet_putSet_other (a : AState) (j j' : Nat) (e : ASet) (h : slot j' ≠ slot j) :
    (a.putSet j e).getSet j' = a.getSet j' := by
  unfold slot at h
  match j, j' with
  | 0, 0 => omega
  | 1, 1 => omega
  | j + 2, j' + 2 => omega
  | 0, 1 => rfl
  | 0, j' + 2 => rfl
  | 1, 0 => rfl
  | 1, j' + 2 => rfl
  | j + 2, 0 => rfl
  | j + 2, 1 => rfl

theorem batchOk_le {n : Option Nat} {m aheadLen : Nat} {errAhead : Bool}
    (h : batchOk n m aheadLen errAhead = true) : 1 ≤ m ∧ m ≤ aheadLen := by
  unfold batchOk at h
  cases n with
  | none => simpa using h
  | some n' =>
    simp only [decide_eq_true_eq] at h
    exact ⟨h.1, by rw [h.2.1]; exact Nat.min_le_right _ _⟩

/-! ## FASTQ: one step -/

/-- what one accepted observation – of an operation other than a seek, and not an error – does
to the cursor: it advances by the number of delivered records, and these are the items at the old
cursor, all of them records -/
theorem accept_step {items : List FqItem} {a a' : AState} {op : Op} {o : ObsH}
    (h : acceptA items a op o = some a') (hop : op.isSeek = false) (hne : ∀ e, o ≠ .error e) :
    a'.k = a.k + deliveredCount op o ∧ IsSegment items a.k a'.k (deliveredStep items a op o) := by
  have hnext : ∀ op', (op' = Op.next ∨ op' = Op.owned) → acceptNext items a o = some a' →
      a'.k = a.k + deliveredCount op' o ∧ IsSegment items a.k a'.k (deliveredStep items a op' o) := by
    intro op' hop' h
    rcases acceptNext_inv h with ⟨_, ho, ha⟩ | ⟨x, hx, ho, ha⟩ | ⟨e, _, _, _, ho, _⟩
    · subst ho ha
      rcases hop' with hh | hh <;> subst hh <;>
        exact ⟨rfl, by simpa [deliveredStep] using IsSegment.nil items a.k⟩
    · subst ho ha
      have : IsSegment items a.k (a.k + 1) [recOf x] :=
        ⟨[x], by simp [drop_take_one _ _ _ hx], rfl⟩
      rcases hop' with hh | hh <;> subst hh <;> exact ⟨rfl, this⟩
    · exact absurd ho (hne _)
  cases op with
  | next => exact hnext _ (Or.inl rfl) h
  | owned => exact hnext _ (Or.inr rfl) h
  | set j n =>
    rcases acceptSet_inv h with ⟨ho, _, ha⟩ | ⟨e, _, _, ho, _⟩ | ⟨m, ho, hok, ha⟩
    · subst ho ha
      simp only [putSet_k, deliveredCount, deliveredStep, Nat.add_zero, true_and]
      exact IsSegment.nil items a.k
    · exact absurd ho (hne _)
    · subst ho ha
      simp only [putSet_k, deliveredCount, deliveredStep, true_and]
      obtain ⟨xs, h1, h2⟩ := leadRecs_take (items.drop a.k) m (batchOk_le hok).2
      exact ⟨xs, by rw [Nat.add_sub_cancel_left]; exact h1, h2⟩
  | dump j =>
    obtain ⟨ha, rs, ho, _⟩ := acceptDump_inv h
    subst ho; rw [ha]
    exact ⟨rfl, IsSegment.nil items a.k⟩
  | pos =>
    obtain ⟨ha, l, b, ho⟩ := acceptPos_inv h
    subst ho; rw [ha]
    exact ⟨rfl, IsSegment.nil items a.k⟩
  | seekItem i => simp [Op.isSeek] at hop

theorem getElem?_lt {α : Type} {l : List α} {k : Nat} {x : α} (h : l[k]? = some x) : k < l.length := by
  rcases Nat.lt_or_ge k l.length with h' | h'
  · exact h'
  · rw [List.getElem?_eq_none h'] at h; cases h

/-- the cursor never passes the end of the items (seeks and errors included) -/
theorem accept_le {items : List FqItem} {a a' : AState} {op : Op} {o : ObsH}
    (h : acceptA items a op o = some a') (hk : a.k ≤ items.length) : a'.k ≤ items.length := by
  have hnext : acceptNext items a o = some a' → a'.k ≤ items.length := by
    intro h
    rcases acceptNext_inv h with ⟨_, _, ha⟩ | ⟨x, hx, _, ha⟩ | ⟨e, _, _, _, _, ha⟩
    · subst ha; exact hk
    · subst ha; exact getElem?_lt hx
    · subst ha; exact Nat.le_refl _
  cases op with
  | next => exact hnext h
  | owned => exact hnext h
  | set j n =>
    rcases acceptSet_inv h with ⟨_, _, ha⟩ | ⟨e, _, _, _, _, _, ha⟩ | ⟨m, _, hok, ha⟩
    · subst ha; simpa [putSet_k] using hk
    · subst ha; simp [putSet_k]
    · subst ha
      simp only [putSet_k]
      have h1 := (batchOk_le hok).2
      have h2 := leadRecs_length_le (items.drop a.k)
      simp only [List.length_drop] at h2
      omega
  | dump j => rw [(acceptDump_inv h).1]; exact hk
  | pos => rw [(acceptPos_inv h).1]; exact hk
  | seekItem i =>
    rcases acceptSeek_inv h with ⟨_, hi, ha⟩ | ⟨_, _, ha⟩
    · subst ha; exact Nat.le_of_lt hi
    · subst ha; exact hk

/-! ## FASTQ: histories -/

theorem execA_cons {items : List FqItem} {a a' : AState} {op : Op} {ops : List Op} {o : ObsH}
    {os : List ObsH} (h : execA items a (op :: ops) (o :: os) = some a') :
    ∃ a₁, acceptA items a op o = some a₁ ∧ execA items a₁ ops os = some a' := by
  simp only [execA] at h
  cases h1 : acceptA items a op o with
  | none => rw [h1] at h; cases h
  | some a₁ => rw [h1] at h; exact ⟨a₁, rfl, h⟩

/-- a history can be cut anywhere -/
theorem execA_append {items : List FqItem} :
    ∀ {a a' : AState} {ops₁ ops₂ : List Op} {obs₁ obs₂ : List ObsH},
    ops₁.length = obs₁.length → execA items a (ops₁ ++ ops₂) (obs₁ ++ obs₂) = some a' →
    ∃ a₁, execA items a ops₁ obs₁ = some a₁ ∧ execA items a₁ ops₂ obs₂ = some a'
  | a, _, [], _, [], _, _, h => ⟨a, rfl, h⟩
  | _, _, [], _, _ :: _, _, hl, _ => by simp at hl
  | _, _, _ :: _, _, [], _, hl, _ => by simp at hl
  | a, a', op :: ops₁, ops₂, o :: obs₁, obs₂, hl, h => by
    simp only [List.cons_append] at h
    obtain ⟨a₁, h1, h2⟩ := execA_cons h
    obtain ⟨a₂, h3, h4⟩ := execA_append (by simpa using hl) h2
    exact ⟨a₂, by simp only [execA, h1, h3], h4⟩

theorem SeekFree.head {op : Op} {ops : List Op} (h : SeekFree (op :: ops)) : op.isSeek = false :=
  h op (by simp)

theorem SeekFree.tail {op : Op} {ops : List Op} (h : SeekFree (op :: ops)) : SeekFree ops :=
  fun x hx => h x (by simp [hx])

theorem SeekFree.left {ops₁ ops₂ : List Op} (h : SeekFree (ops₁ ++ ops₂)) : SeekFree ops₁ :=
  fun x hx => h x (by simp [hx])

theorem SeekFree.right {ops₁ ops₂ : List Op} (h : SeekFree (ops₁ ++ ops₂)) : SeekFree ops₂ :=
  fun x hx => h x (by simp [hx])

theorem NoErrObs.head {o : ObsH} {os : List ObsH} (h : NoErrObs (o :: os)) : ∀ e, o ≠ .error e :=
  fun e he => h e (by simp [he])

theorem NoErrObs.tail {o : ObsH} {os : List ObsH} (h : NoErrObs (o :: os)) : NoErrObs os :=
  fun e he => h e (by simp [he])

/-- **(1a)** Along an accepted history without seeks and without an error observation the cursor
moves forward by exactly the number of records the observations deliver. -/
theorem accept_cursor_mono_noseek {items : List FqItem} :
    ∀ {a a' : AState} {ops : List Op} {obs : List ObsH},
    SeekFree ops → NoErrObs obs → execA items a ops obs = some a' →
    deliveredA a' = deliveredA a + deliveredCounts ops obs
  | a, a', [], [], _, _, h => by simp only [execA, Option.some.injEq] at h; subst h; rfl
  | _, _, [], _ :: _, _, _, h => by simp [execA] at h
  | _, _, _ :: _, [], _, _, h => by simp [execA] at h
  | a, a', op :: ops, o :: os, hns, hne, h => by
    obtain ⟨a₁, h1, h2⟩ := execA_cons h
    have ih := accept_cursor_mono_noseek hns.tail hne.tail h2
    have hs := (accept_step h1 hns.head hne.head).1
    simp only [deliveredA, deliveredCounts] at ih ⊢
    omega

theorem cursor_le_of_accepted {items : List FqItem} {a a' : AState} {ops : List Op} {obs : List ObsH}
    (hns : SeekFree ops) (hne : NoErrObs obs) (h : execA items a ops obs = some a') : a.k ≤ a'.k := by
  have := accept_cursor_mono_noseek hns hne h
  simp only [deliveredA] at this
  omega

/-- **(1b)** Along an accepted history without seeks and without an error observation,
everything delivered – in the order of the calls – is the segment of the items of S between the
cursor before and the cursor after the history, and all these items are records: the records are
delivered in order, without gaps, without repetition. -/
theorem accepted_delivers_segment {items : List FqItem} :
    ∀ {a a' : AState} {ops : List Op} {obs : List ObsH},
    SeekFree ops → NoErrObs obs → execA items a ops obs = some a' →
    IsSegment items a.k a'.k (deliveredRecs items a ops obs)
  | a, a', [], [], _, _, h => by
    simp only [execA, Option.some.injEq] at h; subst h
    exact IsSegment.nil items a.k
  | _, _, [], _ :: _, _, _, h => by simp [execA] at h
  | _, _, _ :: _, [], _, _, h => by simp [execA] at h
  | a, a', op :: ops, o :: os, hns, hne, h => by
    obtain ⟨a₁, h1, h2⟩ := execA_cons h
    have ih := accepted_delivers_segment hns.tail hne.tail h2
    obtain ⟨hk, hs⟩ := accept_step h1 hns.head hne.head
    have hle := cursor_le_of_accepted hns.tail hne.tail h2
    simp only [deliveredRecs, h1]
    exact hs.append ih (by omega) hle

theorem cursor_le_length {items : List FqItem} : ∀ {a a' : AState} {ops : List Op} {obs : List ObsH},
    a.k ≤ items.length → execA items a ops obs = some a' → a'.k ≤ items.length
  | a, a', [], [], hk, h => by simp only [execA, Option.some.injEq] at h; subst h; exact hk
  | _, _, [], _ :: _, _, h => by simp [execA] at h
  | _, _, _ :: _, [], _, h => by simp [execA] at h
  | a, a', op :: ops, o :: os, hk, h => by
    obtain ⟨a₁, h1, h2⟩ := execA_cons h
    exact cursor_le_length (accept_le h1 hk) h2

/-- the same, record by record: the `q`-th delivered record is item number `k₀ + q` of S -/
theorem accepted_delivers_nth {items : List FqItem} {a a' : AState} {ops : List Op} {obs : List ObsH}
    (hns : SeekFree ops) (hne : NoErrObs obs) (h : execA items a ops obs = some a')
    (q : Nat) (hq : q < (deliveredRecs items a ops obs).length) :
    ∃ x, items[a.k + q]? = some (.record x) ∧ (deliveredRecs items a ops obs)[q]? = some (recOf x) :=
  (accepted_delivers_segment hns hne h).get q hq

/-! ## FASTQ (2): the end of the input, and the error -/

/-- the cursor is behind the last item -/
def AtEnd (items : List FqItem) (a : AState) : Prop := items.length ≤ a.k

/-- at the end, every reading operation reports the end, nothing is delivered, and the reader
stays at the end -/
theorem accept_atEnd {items : List FqItem} {a a' : AState} {op : Op} {o : ObsH}
    (h : acceptA items a op o = some a') (hop : op.isSeek = false) (he : AtEnd items a) :
    AtEnd items a' ∧ a'.k = a.k ∧ (op.reads = true → o = .none) := by
  unfold AtEnd at he ⊢
  have hnone : items[a.k]? = none := List.getElem?_eq_none he
  have hnext : acceptNext items a o = some a' → items.length ≤ a'.k ∧ a'.k = a.k ∧ o = .none := by
    intro h
    rcases acceptNext_inv h with ⟨_, ho, ha⟩ | ⟨x, hx, _, _⟩ | ⟨e, _, _, hx, _, _⟩
    · subst ha; exact ⟨he, rfl, ho⟩
    · rw [hnone] at hx; cases hx
    · rw [hnone] at hx; cases hx
  cases op with
  | next => obtain ⟨h1, h2, h3⟩ := hnext h; exact ⟨h1, h2, fun _ => h3⟩
  | owned => obtain ⟨h1, h2, h3⟩ := hnext h; exact ⟨h1, h2, fun _ => h3⟩
  | set j n =>
    have hdrop : items.drop a.k = [] := List.drop_eq_nil_of_le he
    rcases acceptSet_inv h with ⟨ho, _, ha⟩ | ⟨e, _, _, _, hx, _, _⟩ | ⟨m, _, hok, _⟩
    · subst ha; exact ⟨by simpa [putSet_k] using he, putSet_k _ _ _, fun _ => ho⟩
    · rw [hdrop, leadRecs_nil, List.length_nil, Nat.add_zero, hnone] at hx; cases hx
    · have := batchOk_le hok
      rw [hdrop, leadRecs_nil, List.length_nil] at this
      omega
  | dump j =>
    rw [(acceptDump_inv h).1]
    exact ⟨he, rfl, fun hr => by simp [Op.reads] at hr⟩
  | pos =>
    rw [(acceptPos_inv h).1]
    exact ⟨he, rfl, fun hr => by simp [Op.reads] at hr⟩
  | seekItem i => simp [Op.isSeek] at hop

theorem atEnd_forever {items : List FqItem} : ∀ {a a' : AState} {ops : List Op} {obs : List ObsH},
    SeekFree ops → AtEnd items a → execA items a ops obs = some a' →
    a'.k = a.k ∧ ∀ p ∈ ops.zip obs, p.1.reads = true → p.2 = .none
  | a, a', [], [], _, _, h => by
    simp only [execA, Option.some.injEq] at h; subst h
    exact ⟨rfl, by simp⟩
  | _, _, [], _ :: _, _, _, h => by simp [execA] at h
  | _, _, _ :: _, [], _, _, h => by simp [execA] at h
  | a, a', op :: ops, o :: os, hns, he, h => by
    obtain ⟨a₁, h1, h2⟩ := execA_cons h
    obtain ⟨he1, hk1, hr⟩ := accept_atEnd h1 hns.head he
    obtain ⟨hk', hall⟩ := atEnd_forever hns.tail he1 h2
    refine ⟨by omega, ?_⟩
    intro p hp
    simp only [List.zip_cons_cons, List.mem_cons] at hp
    rcases hp with hp | hp
    · subst hp; exact hr
    · exact hall p hp

/-- only a reading operation can report the end, and only when no item is left -/
theorem accept_none {items : List FqItem} {a a' : AState} {op : Op}
    (h : acceptA items a op .none = some a') :
    op.reads = true ∧ AtEnd items a ∧ a'.k = a.k := by
  have hnext : acceptNext items a .none = some a' → AtEnd items a ∧ a'.k = a.k := by
    intro h
    rcases acceptNext_inv h with ⟨hx, _, ha⟩ | ⟨x, _, ho, _⟩ | ⟨e, _, _, _, ho, _⟩
    · subst ha
      refine ⟨?_, rfl⟩
      unfold AtEnd
      rcases Nat.lt_or_ge a.k items.length with h' | h'
      · rw [List.getElem?_eq_getElem h'] at hx; cases hx
      · exact h'
    · cases ho
    · cases ho
  cases op with
  | next => exact ⟨rfl, hnext h⟩
  | owned => exact ⟨rfl, hnext h⟩
  | set j n =>
    simp only [acceptA] at h
    rcases acceptSet_inv h with ⟨_, hk, ha⟩ | ⟨e, _, _, ho, _⟩ | ⟨m, ho, _⟩
    · subst ha; exact ⟨rfl, hk, putSet_k _ _ _⟩
    · cases ho
    · cases ho
  | dump j => simp only [acceptA] at h; obtain ⟨_, rs, ho, _⟩ := acceptDump_inv h; cases ho
  | pos => simp only [acceptA] at h; obtain ⟨_, l, b, ho⟩ := acceptPos_inv h; cases ho
  | seekItem i =>
    simp only [acceptA] at h
    rcases acceptSeek_inv h with ⟨ho, _⟩ | ⟨ho, _⟩ <;> cases ho

/-- **(2)** In an accepted history without seeks, split at an observation `none` (end of input).
Then the operation that reported it is a reading operation, the cursor at that moment is the
number of items – nothing is left –, and every later reading operation reports the end again.
If moreover no error was observed before, then all the items from the initial cursor on are
records and exactly these were delivered: nothing is lost. -/
theorem accepted_none_means_all {items : List FqItem} {a a' : AState} {ops₁ ops₂ : List Op}
    {obs₁ obs₂ : List ObsH} {op : Op}
    (hk : a.k ≤ items.length) (hns : SeekFree (ops₁ ++ op :: ops₂))
    (hlen : ops₁.length = obs₁.length)
    (h : execA items a (ops₁ ++ op :: ops₂) (obs₁ ++ .none :: obs₂) = some a') :
    ∃ a₁, execA items a ops₁ obs₁ = some a₁ ∧
      op.reads = true ∧
      a₁.k = items.length ∧
      a'.k = items.length ∧
      (∀ p ∈ ops₂.zip obs₂, p.1.reads = true → p.2 = .none) ∧
      (NoErrObs obs₁ → ∃ xs : List FqRec,
        items.drop a.k = xs.map FqItem.record ∧ deliveredRecs items a ops₁ obs₁ = xs.map recOf) := by
  obtain ⟨a₁, h1, h2⟩ := execA_append hlen h
  obtain ⟨a₂, h3, h4⟩ := execA_cons h2
  have hk1 := cursor_le_length hk h1
  obtain ⟨hr, he1, hk2⟩ := accept_none h3
  have he2 : AtEnd items a₂ := by unfold AtEnd at he1 ⊢; omega
  obtain ⟨hk', hall⟩ := atEnd_forever hns.right.tail he2 h4
  unfold AtEnd at he1
  have hk1' : a₁.k = items.length := by omega
  refine ⟨a₁, h1, hr, hk1', by omega, hall, ?_⟩
  intro hne
  obtain ⟨xs, e, r⟩ := accepted_delivers_segment hns.left hne h1
  rw [hk1', seg_all] at e
  exact ⟨xs, e, r⟩

/-- an accepted error observation is the error item that follows the valid records ahead of the
cursor (for a single-record read: the item at the cursor); afterwards the cursor is behind the
last item -/
theorem accept_error {items : List FqItem} {a a' : AState} {op : Op} {e : Err}
    (h : acceptA items a op (.error e) = some a') :
    op.reads = true ∧ a'.k = items.length ∧
    ∃ q e' b l, items[q]? = some (.err e' b l) ∧ e = specErr e' ∧ a.k ≤ q ∧
      (∃ xs : List FqRec, (items.drop a.k).take (q - a.k) = xs.map FqItem.record) ∧
      (op = .next ∨ op = .owned → q = a.k) := by
  have hnext : acceptNext items a (.error e) = some a' → a'.k = items.length ∧
      ∃ q e' b l, items[q]? = some (.err e' b l) ∧ e = specErr e' ∧ a.k ≤ q ∧
        (∃ xs : List FqRec, (items.drop a.k).take (q - a.k) = xs.map FqItem.record) ∧ q = a.k := by
    intro h
    rcases acceptNext_inv h with ⟨_, ho, _⟩ | ⟨x, _, ho, _⟩ | ⟨e', b, l, hx, ho, ha⟩
    · cases ho
    · cases ho
    · injection ho with ho
      subst ha
      exact ⟨rfl, a.k, e', b, l, hx, ho, Nat.le_refl _, ⟨[], by simp⟩, rfl⟩
  cases op with
  | next =>
    obtain ⟨h1, q, e', b, l, h2, h3, h4, h5, h6⟩ := hnext h
    exact ⟨rfl, h1, q, e', b, l, h2, h3, h4, h5, fun _ => h6⟩
  | owned =>
    obtain ⟨h1, q, e', b, l, h2, h3, h4, h5, h6⟩ := hnext h
    exact ⟨rfl, h1, q, e', b, l, h2, h3, h4, h5, fun _ => h6⟩
  | set j n =>
    simp only [acceptA] at h
    rcases acceptSet_inv h with ⟨ho, _⟩ | ⟨e', b, l, ho, hx, _, ha⟩ | ⟨m, ho, _⟩
    · cases ho
    · injection ho with ho
      subst ha
      refine ⟨rfl, putSet_k _ _ _, _, e', b, l, hx, ho, Nat.le_add_right _ _, ?_, ?_⟩
      · obtain ⟨xs, h1, _⟩ := leadRecs_take (items.drop a.k) _ (Nat.le_refl _)
        exact ⟨xs, by rw [Nat.add_sub_cancel_left]; exact h1⟩
      · intro hh; rcases hh with hh | hh <;> cases hh
    · cases ho
  | dump j => simp only [acceptA] at h; obtain ⟨_, rs, ho, _⟩ := acceptDump_inv h; cases ho
  | pos => simp only [acceptA] at h; obtain ⟨_, l, b, ho⟩ := acceptPos_inv h; cases ho
  | seekItem i =>
    simp only [acceptA] at h
    rcases acceptSeek_inv h with ⟨ho, _⟩ | ⟨ho, _⟩ <;> cases ho

/-- the error item, if there is one, is the last item (true of `Spec.fastq`: `fastq_err_last`) -/
def ErrLast (items : List FqItem) : Prop :=
  ∀ q e b l, items[q]? = some (.err e b l) → q + 1 = items.length

/-- **(2')** In an accepted history without seeks, split at an error observation.  Before it,
the records `k₀, …, k₁ - 1` were delivered (if no other error was observed).  The error is the
first error item at or after the cursor `k₁`, with only records in between (none for a
single-record read).  Afterwards every reading operation reports the end of the input: the
error is reported once.  If the error item is the last item, nothing follows it. -/
theorem accepted_error_once {items : List FqItem} {a a' : AState} {ops₁ ops₂ : List Op}
    {obs₁ obs₂ : List ObsH} {op : Op} {e : Err}
    (hns : SeekFree (ops₁ ++ op :: ops₂)) (hlen : ops₁.length = obs₁.length)
    (h : execA items a (ops₁ ++ op :: ops₂) (obs₁ ++ .error e :: obs₂) = some a') :
    ∃ a₁, execA items a ops₁ obs₁ = some a₁ ∧
      op.reads = true ∧
      (NoErrObs obs₁ → IsSegment items a.k a₁.k (deliveredRecs items a ops₁ obs₁)) ∧
      (∃ q e' b l, items[q]? = some (.err e' b l) ∧ e = specErr e' ∧ a₁.k ≤ q ∧
        (∃ xs : List FqRec, (items.drop a₁.k).take (q - a₁.k) = xs.map FqItem.record) ∧
        (op = .next ∨ op = .owned → q = a₁.k) ∧
        (ErrLast items → q + 1 = items.length)) ∧
      a'.k = items.length ∧
      (∀ p ∈ ops₂.zip obs₂, p.1.reads = true → p.2 = .none) ∧
      NoErrObs obs₂ := by
  obtain ⟨a₁, h1, h2⟩ := execA_append hlen h
  obtain ⟨a₂, h3, h4⟩ := execA_cons h2
  obtain ⟨hr, hk2, q, e', b, l, hq, he, hle, hxs, hsingle⟩ := accept_error h3
  have he2 : AtEnd items a₂ := by unfold AtEnd; omega
  obtain ⟨hk', hall⟩ := atEnd_forever hns.right.tail he2 h4
  refine ⟨a₁, h1, hr, fun hne => accepted_delivers_segment hns.left hne h1,
    ⟨q, e', b, l, hq, he, hle, hxs, hsingle, fun hl => hl q e' b l hq⟩, by omega, hall, ?_⟩
  -- no further error: errors are only reported by reading operations
  intro e'' hmem
  have hlen2 : ops₂.length = obs₂.length := by
    have : ∀ {a a' : AState} {ops : List Op} {obs : List ObsH},
        execA items a ops obs = some a' → ops.length = obs.length := by
      intro a a' ops
      induction ops generalizing a with
      | nil => intro obs h; cases obs with
        | nil => rfl
        | cons _ _ => simp [execA] at h
      | cons op ops ih => intro obs h; cases obs with
        | nil => simp [execA] at h
        | cons o os =>
          obtain ⟨_, _, h2⟩ := execA_cons h
          simp [ih h2]
    exact this h4
  obtain ⟨i, hi, hget⟩ := List.getElem_of_mem hmem
  have hi' : i < ops₂.length := by omega
  have hzip : (ops₂[i], ObsH.error e'') ∈ ops₂.zip obs₂ := by
    have : (ops₂.zip obs₂)[i]? = some (ops₂[i], ObsH.error e'') := by
      simp [List.getElem?_zip_eq_some, hi', hi, hget]
    exact List.mem_of_getElem? this
  -- the operation at that index accepted an error, so it is a reading operation
  have hreads : ops₂[i].reads = true := by
    have : ∀ {a a' : AState} {ops : List Op} {obs : List ObsH} (i : Nat) (h1 : i < ops.length)
        (h2 : i < obs.length), execA items a ops obs = some a' →
        ∃ b b', acceptA items b ops[i] obs[i] = some b' := by
      intro a a' ops
      induction ops generalizing a with
      | nil => intro obs i h1; simp at h1
      | cons op ops ih =>
        intro obs i h1 h2 h
        cases obs with
        | nil => simp at h2
        | cons o os =>
          obtain ⟨a₁, hh1, hh2⟩ := execA_cons h
          cases i with
          | zero => exact ⟨a, a₁, hh1⟩
          | succ i =>
            simp only [List.length_cons, Nat.add_lt_add_iff_right] at h1 h2
            simpa using ih i h1 h2 hh2
    obtain ⟨b, b', hb⟩ := this i hi' hi h4
    rw [hget] at hb
    exact (accept_error hb).1
  have := hall _ hzip hreads
  cases this

/-! ## FASTQ (3): sizes of record sets -/

/-- **(3a)** an accepted plain set read delivers at least one record and at most the valid
records ahead -/
theorem accepted_batch_sizes_plain {items : List FqItem} {a a' : AState} {j m : Nat}
    (h : acceptA items a (.set j none) (.batch m) = some a') :
    1 ≤ m ∧ m ≤ (leadRecs (items.drop a.k)).length ∧ a'.k = a.k + m := by
  simp only [acceptA] at h
  rcases acceptSet_inv h with ⟨ho, _⟩ | ⟨e, _, _, ho, _⟩ | ⟨m', ho, hok, ha⟩
  · cases ho
  · cases ho
  · injection ho with ho; subst ho ha
    exact ⟨(batchOk_le hok).1, (batchOk_le hok).2, putSet_k _ _ _⟩

/-- **(3b)** an accepted exact read of `n` records delivers exactly `n` records, or – if fewer
valid records are ahead – all of them, and then only if the input ends behind them (if an error
item follows within reach, the read has to report the error instead) -/
theorem accepted_batch_sizes_exact {items : List FqItem} {a a' : AState} {j n m : Nat}
    (h : acceptA items a (.set j (some n)) (.batch m) = some a') :
    1 ≤ m ∧ m = min n (leadRecs (items.drop a.k)).length ∧ a'.k = a.k + m ∧
    (m < n → items.length = a.k + m) := by
  simp only [acceptA] at h
  rcases acceptSet_inv h with ⟨ho, _⟩ | ⟨e, _, _, ho, _⟩ | ⟨m', ho, hok, ha⟩
  · cases ho
  · cases ho
  · injection ho with ho; subst ho ha
    unfold batchOk at hok
    simp only [decide_eq_true_eq] at hok
    obtain ⟨h1, h2, h3⟩ := hok
    refine ⟨h1, h2, putSet_k _ _ _, ?_⟩
    intro hlt
    have hlen : (leadRecs (items.drop a.k)).length < n := by omega
    have hm : m = (leadRecs (items.drop a.k)).length := by omega
    have hnone : items[a.k + (leadRecs (items.drop a.k)).length]? = none := by
      cases hx : items[a.k + (leadRecs (items.drop a.k)).length]? with
      | none => rfl
      | some x => exact absurd ⟨by simp [hx], hlen⟩ h3
    have hge : items.length ≤ a.k + (leadRecs (items.drop a.k)).length := by
      rcases Nat.lt_or_ge (a.k + (leadRecs (items.drop a.k)).length) items.length with h' | h'
      · rw [List.getElem?_eq_getElem h'] at hnone; cases hnone
      · exact h'
    have hle := leadRecs_length_le (items.drop a.k)
    simp only [List.length_drop] at hle
    omega

/-! ## FASTQ (4): filled sets stay unchanged -/

/-- set `j` is expected to hold the records `rs` (`strict`: and cannot have been emptied) -/
def Holds (a : AState) (j : Nat) (rs : List Rec) (strict : Bool) : Prop :=
  (a.getSet j).recs = rs ∧ (strict = true → (a.getSet j).altEmpty = false)

/-- the only observation that changes what set `j` is expected to hold is a batch for that set;
a set read on it that reports the end or an error may empty it -/
theorem accept_holds {items : List FqItem} {a a' : AState} {op : Op} {o : ObsH} {j : Nat}
    {rs : List Rec} {strict : Bool}
    (h : acceptA items a op o = some a') (hh : Holds a j rs strict)
    (hno : if strict then ∀ j' n, op = .set j' n → slot j' ≠ slot j
           else ∀ j' n m, (op, o) = (.set j' n, .batch m) → slot j' ≠ slot j) :
    Holds a' j rs strict := by
  have hnext : acceptNext items a o = some a' → Holds a' j rs strict := by
    intro h
    rcases acceptNext_inv h with ⟨_, _, ha⟩ | ⟨x, _, _, ha⟩ | ⟨e, _, _, _, _, ha⟩ <;> subst ha <;> exact hh
  cases op with
  | next => exact hnext h
  | owned => exact hnext h
  | dump j' => simp only [acceptA] at h; rw [(acceptDump_inv h).1]; exact hh
  | pos => simp only [acceptA] at h; rw [(acceptPos_inv h).1]; exact hh
  | seekItem i =>
    simp only [acceptA] at h
    rcases acceptSeek_inv h with ⟨_, _, ha⟩ | ⟨_, _, ha⟩ <;> subst ha <;> exact hh
  | set j' n =>
    simp only [acceptA] at h
    -- a call on a set that empties it
    have hmark : ∀ b : AState, b.getSet j = a.getSet j →
        Holds (b.putSet j' { b.getSet j' with altEmpty := true }) j rs strict := by
      intro b hb
      by_cases hjj : slot j' = slot j
      · cases strict with
        | true => exact absurd hjj (hno j' n rfl)
        | false =>
          have e1 : b.getSet j' = b.getSet j := by
            have := getSet_putSet_same b j' j (b.getSet j') hjj.symm
            have h2 := getSet_putSet_same b j' j' (b.getSet j') rfl
            -- both slots read the same field
            unfold slot at hjj
            match j, j', hjj with
            | 0, 0, _ => rfl
            | 1, 1, _ => rfl
            | _ + 2, _ + 2, _ => rfl
            | 0, _ + 1, h => omega
            | 1, 0, h => omega
            | 1, _ + 2, h => omega
            | _ + 2, 0, h => omega
            | _ + 2, 1, h => omega
          refine ⟨?_, fun h => by cases h⟩
          rw [getSet_putSet_same _ _ _ _ hjj.symm, e1, hb]
          exact hh.1
      · have hjj' : slot j ≠ slot j' := fun h => hjj h.symm
        unfold Holds
        rw [getSet_putSet_other _ _ _ _ hjj', hb]
        exact hh
    rcases acceptSet_inv h with ⟨_, _, ha⟩ | ⟨e, _, _, _, _, _, ha⟩ | ⟨m, ho, _, ha⟩
    · subst ha; exact hmark _ (by match j with | 0 => rfl | 1 => rfl | _ + 2 => rfl)
    · subst ha; exact hmark _ (by match j with | 0 => rfl | 1 => rfl | _ + 2 => rfl)
    · subst ha ho
      have hjj : slot j' ≠ slot j := by
        cases strict with
        | true => exact hno j' n rfl
        | false => exact hno j' n m rfl
      have hjj' : slot j ≠ slot j' := fun h => hjj h.symm
      unfold Holds
      rw [getSet_putSet_other _ _ _ _ hjj']
      have : ({ a with k := a.k + m, last := .set } : AState).getSet j = a.getSet j := by
        match j with | 0 => rfl | 1 => rfl | _ + 2 => rfl
      rw [this]
      exact hh

theorem execA_holds {items : List FqItem} {j : Nat} {rs : List Rec} {strict : Bool} :
    ∀ {a a' : AState} {ops : List Op} {obs : List ObsH},
    execA items a ops obs = some a' → Holds a j rs strict →
    (∀ p ∈ ops.zip obs, if strict then ∀ j' n, p.1 = .set j' n → slot j' ≠ slot j
      else ∀ j' n m, p = (.set j' n, .batch m) → slot j' ≠ slot j) →
    Holds a' j rs strict
  | a, a', [], [], h, hh, _ => by simp only [execA, Option.some.injEq] at h; subst h; exact hh
  | _, _, [], _ :: _, h, _, _ => by simp [execA] at h
  | _, _, _ :: _, [], h, _, _ => by simp [execA] at h
  | a, a', op :: ops, o :: os, h, hh, hno => by
    obtain ⟨a₁, h1, h2⟩ := execA_cons h
    have h0 := hno (op, o) (by simp)
    exact execA_holds h2 (accept_holds h1 hh h0) (fun p hp => hno p (by simp [hp]))

theorem batch_holds {items : List FqItem} {a a' : AState} {j m : Nat} {n : Option Nat}
    (h : acceptA items a (.set j n) (.batch m) = some a') :
    Holds a' j ((leadRecs (items.drop a.k)).take m) true := by
  simp only [acceptA] at h
  rcases acceptSet_inv h with ⟨ho, _⟩ | ⟨e, _, _, ho, _⟩ | ⟨m', ho, _, ha⟩
  · cases ho
  · cases ho
  · injection ho with ho; subst ho ha
    unfold Holds
    rw [getSet_putSet_same _ _ _ _ rfl]
    exact ⟨rfl, fun _ => rfl⟩

theorem dump_holds {items : List FqItem} {a a' : AState} {j : Nat} {rs l : List Rec} {strict : Bool}
    (h : acceptA items a (.dump j) (.dump l) = some a') (hh : Holds a j rs strict) :
    l = rs ∨ (strict = false ∧ l = []) := by
  simp only [acceptA] at h
  obtain ⟨_, l', ho, hcase⟩ := acceptDump_inv h
  injection ho with ho
  subst ho
  rcases hcase with hl | ⟨he, hl⟩
  · left; rw [hl, hh.1]
  · right
    cases strict with
    | true => rw [hh.2 rfl] at he; cases he
    | false => exact ⟨rfl, hl⟩

/-- **(4)** "Earlier filled sets stay unchanged."  Take an accepted history (from any state) in
which set `j` is filled with `m` records, then anything happens – reads, other sets being filled,
seeks – except that this set is not passed to a set read again, and then the set is dumped.  The
dump shows exactly the `m` records that the batch stood for: the `m` records of S at the cursor
at the time the set was filled. -/
theorem accepted_dump_snapshot {items : List FqItem} {a a' : AState} {j m : Nat} {n : Option Nat}
    {mid : List Op} {obsMid : List ObsH} {l : List Rec}
    (hlen : mid.length = obsMid.length)
    (hmid : ∀ j' n', .set j' n' ∈ mid → slot j' ≠ slot j)
    (h : execA items a (.set j n :: (mid ++ [.dump j])) (.batch m :: (obsMid ++ [.dump l])) = some a') :
    l = deliveredStep items a (.set j n) (.batch m) ∧
    IsSegment items a.k (a.k + m) l := by
  obtain ⟨a₁, h1, h2⟩ := execA_cons h
  obtain ⟨a₂, h3, h4⟩ := execA_append hlen h2
  obtain ⟨a₃, h5, _⟩ := execA_cons h4
  have hh := execA_holds (strict := true) h3 (batch_holds h1) (by
    intro p hp j' n' hpn
    exact hmid j' n' (hpn ▸ (List.of_mem_zip hp).1))
  have hseg : IsSegment items a.k (a.k + m) (deliveredStep items a (.set j n) (.batch m)) := by
    have := (accept_step h1 rfl (by intro e he; cases he)).2
    have hk := (accept_step h1 rfl (by intro e he; cases he)).1
    simp only [deliveredCount] at hk
    rw [hk] at this
    exact this
  rcases dump_holds h5 hh with hl | ⟨hs, _⟩
  · rw [hl]; exact ⟨rfl, hseg⟩
  · cases hs

/-- **(4')** If in between the set was passed to set reads that reported the end of the input
or an error (but never filled it again), the dump shows the same records or nothing. -/
theorem accepted_dump_snapshot_or_empty {items : List FqItem} {a a' : AState} {j m : Nat}
    {n : Option Nat} {mid : List Op} {obsMid : List ObsH} {l : List Rec}
    (hlen : mid.length = obsMid.length)
    (hmid : ∀ p ∈ mid.zip obsMid, ∀ j' n' m', p = (.set j' n', .batch m') → slot j' ≠ slot j)
    (h : execA items a (.set j n :: (mid ++ [.dump j])) (.batch m :: (obsMid ++ [.dump l])) = some a') :
    l = deliveredStep items a (.set j n) (.batch m) ∨ l = [] := by
  obtain ⟨a₁, h1, h2⟩ := execA_cons h
  obtain ⟨a₂, h3, h4⟩ := execA_append hlen h2
  obtain ⟨a₃, h5, _⟩ := execA_cons h4
  have hh0 : Holds a₁ j ((leadRecs (items.drop a.k)).take m) false :=
    ⟨(batch_holds h1).1, fun h => by cases h⟩
  have hh := execA_holds (strict := false) h3 hh0 hmid
  rcases dump_holds h5 hh with hl | ⟨_, hl⟩
  · exact Or.inl hl
  · exact Or.inr hl

/-! ## FASTQ (5): seeks -/

/-- **(5)** After an accepted seek to item `i` the cursor is `i`; the reads that follow (up to
the next seek or error) deliver the items `i, i+1, …` in order, each once, and all of them are
records. -/
theorem accepted_after_seek {items : List FqItem} {a a' : AState} {i : Nat} {o : ObsH}
    {ops : List Op} {obs : List ObsH} (hi : i < items.length) (hns : SeekFree ops) (hne : NoErrObs obs)
    (h : execA items a (.seekItem i :: ops) (o :: obs) = some a') :
    o = .done ∧
    a'.k = i + deliveredCounts ops obs ∧
    IsSegment items i a'.k (deliveredRecs items a (.seekItem i :: ops) (o :: obs)) := by
  obtain ⟨a₁, h1, h2⟩ := execA_cons h
  have h1' := h1
  simp only [acceptA] at h1'
  rcases acceptSeek_inv h1' with ⟨ho, _, ha⟩ | ⟨_, hge, _⟩
  · have hk1 : a₁.k = i := by rw [ha]
    have hc := accept_cursor_mono_noseek hns hne h2
    have hd := accepted_delivers_segment hns hne h2
    simp only [deliveredA] at hc
    refine ⟨ho, by omega, ?_⟩
    simp only [deliveredRecs, h1, deliveredStep, List.nil_append]
    rw [hk1] at hd
    exact hd
  · omega

/-! ## FASTQ: the items of S end with at most one error -/

theorem fqGo_err_last (strict : Bool) (ps : List (List UInt8)) (byte line : Nat) :
    ErrLast (fqGo strict ps byte line) := by
  fun_induction fqGo strict ps byte line with
  | case1 h s p q r rest byte line x hx ih =>
    intro i e b l hi
    cases i with
    | zero => simp at hi
    | succ i =>
      simp only [List.getElem?_cons_succ] at hi
      have := ih i e b l hi
      simp only [List.length_cons]
      omega
  | case2 h s p q r rest byte line e b l hx =>
    intro i e' b' l' hi
    cases i with
    | zero => rfl
    | succ i => simp at hi
  | case3 h s p q byte line =>
    intro i e' b' l' hi
    cases i with
    | zero => rfl
    | succ i => simp at hi
  | case4 ps byte line _ _ hall =>
    intro i e' b' l' hi
    simp at hi
  | case5 ps byte line _ _ hall =>
    intro i e' b' l' hi
    cases i with
    | zero => rfl
    | succ i => simp at hi

/-- in the items S assigns to an input, an error item can only be the last one -/
theorem fastq_err_last (inp : List UInt8) (strict : Bool) : ErrLast (Spec.fastq inp strict) :=
  fqGo_err_last strict (splitLF inp) 0 1

/-! ## FASTQ: summary in terms of `acceptsA` -/

/-- **C04 for FASTQ in one statement**: if A accepts the observations of a history without seeks
and without an error observation, then what was delivered along it is a contiguous run of items
of S starting at the initial cursor, all of them records, in order, each exactly once, and the
cursor has advanced by their number. -/
theorem acceptsA_delivers {items : List FqItem} {a : AState} {ops : List Op} {obs : List ObsH}
    (hns : SeekFree ops) (hne : NoErrObs obs) (h : acceptsA items a ops obs = true) :
    ∃ a', execA items a ops obs = some a' ∧
      a'.k = a.k + deliveredCounts ops obs ∧
      IsSegment items a.k (a.k + deliveredCounts ops obs) (deliveredRecs items a ops obs) := by
  obtain ⟨a', h'⟩ := (acceptsA_iff items a ops obs).mp h
  have hc := accept_cursor_mono_noseek hns hne h'
  simp only [deliveredA] at hc
  refine ⟨a', h', hc, ?_⟩
  rw [← hc]
  exact accepted_delivers_segment hns hne h'

/-- the statements are not vacuous: a small accepted history -/
example :
    let x0 : FqRec := { byte := 0, line := 1, head := [65], seq := [67], qual := [33] }
    let items : List FqItem := [.record x0, .err (.unexpectedEnd 6 none) 8 5]
    acceptsA items {} [.next, .set 0 none, .dump 0, .next, .seekItem 0, .set 1 (some 2), .owned]
      [.record (recOf x0), .error (specErr (.unexpectedEnd 6 none)), .dump [], .none, .done,
       .error (specErr (.unexpectedEnd 6 none)), .none] = true := by decide

end SeqIo.Fastq.Hist
