import SeqIoModel.Proofs.FastaFault
/-!
# C05 under faults (FASTA): a successful `seek` restores the stream from ANY reachable state

`Theorems/C05.lean` (`fasta_seek_restores_stream`) covers histories over failure-free sources.
Here the reader state is the state after ANY history (`next`, owned `next`, record set reads,
`position`, seeks) under ANY read script (failed refills at any call, interrupted reads), scripted
seek failures and a policy that may refuse (`PolWfPos`) – in particular a state left behind by an
error (partly filled buffer, state `incomplete`/`finished`/`new` after a failed call, …).

If, in such a state, `seek` to the position of record `i` of S returns `Ok(())` and the read script
that is left does not fail any more, then `k` further `next()` calls show exactly the records
`i, i+1, …` of S (with their true `position()`s) and then end of input – exactly what sequential
reading shows from record `i` on.

Route: (1) `WHInv`/`WRInv` (the invariant of `fasta_history_total/genuine`) holds in every
reachable state (`whinv_runMSt`); (2) `seekF` re-establishes `WRInv` in state `positioned`; with a
failure-free remaining script that is the CLEAN `Ready inp r' i` of the failure-free development
(`ready_of_seek_ok`); (3) `next_rinv` (the failure-free step lemma) is iterated (`runNexts_rinv`).
-/
open SeqIo SeqIo.FillProofs SeqIo.Spec

namespace SeqIo.Fasta.Hist

/-! ## the state of M after a history -/

/-- M's state after a history -/
def runMSt (m : MSt) : List Op → MSt
  | [] => m
  | op :: ops => runMSt (stepM m op).1 ops

/-- it is the function the fault development already uses -/
theorem runMSt_eq_endM (m : MSt) (ops : List Op) : runMSt m ops = Fault.endM m ops := by
  induction ops generalizing m with
  | nil => rfl
  | cons op ops ih => exact ih _

/-- `runMSt` agrees with `runM`: the observations of a history continue from `runMSt` -/
theorem runM_append (m : MSt) (ops ops' : List Op) :
    runM m (ops ++ ops') = runM m ops ++ runM (runMSt m ops) ops' := by
  induction ops generalizing m with
  | nil => rfl
  | cons op ops ih =>
    show (stepM m op).2 :: runM (stepM m op).1 (ops ++ ops') = _
    rw [ih]
    rfl

theorem runMSt_append (m : MSt) (ops ops' : List Op) :
    runMSt m (ops ++ ops') = runMSt (runMSt m ops) ops' := by
  induction ops generalizing m with
  | nil => rfl
  | cons op ops ih => exact ih _

/-- (1) the weak invariant holds in every reachable state; the policy function never changes -/
theorem whinv_runMSt {inp : List UInt8} : ∀ (ops : List Op) (m : MSt), WHInv inp m →
    WHInv inp (runMSt m ops) ∧ (runMSt m ops).r.pol.f = m.r.pol.f := by
  intro ops
  induction ops with
  | nil => intro m h; exact ⟨h, rfl⟩
  | cons op ops ih =>
    intro m h
    obtain ⟨hinv, hpf, _⟩ := stepF h op
    obtain ⟨h1, h2⟩ := ih _ hinv
    exact ⟨h1, by rw [← hpf]; exact h2⟩

/-! ## (2) a successful seek establishes the clean positioned invariant -/

/-- what `seek` sets when it returns `Ok(())` -/
theorem seek_ok_fields {r r' : Reader} {l b : Nat} (h : seek r l b = (r', .ok ())) :
    r'.line = l ∧ r'.byte = b ∧ r'.state = .positioned ∧ r'.bp.seqPos = [] ∧ r'.pol = r.pol := by
  rw [Fault.seek_eq] at h
  split at h
  · unfold Fault.seekIn at h
    simp only at h
    split at h
    · cases h
    · cases h
      exact ⟨rfl, rfl, rfl, rfl, rfl⟩
  · unfold Fault.seekOut at h
    simp only at h
    split at h
    · cases h
    · split at h
      · cases h
      · cases h
        exact ⟨rfl, rfl, rfl, rfl, rfl⟩

/-- from ANY state satisfying the weak invariant (arbitrary script so far, failed refills, failed
seeks, refusals): if `seek` to the position of record `i` of S succeeds and the remaining read
script is failure-free, the reader satisfies the clean invariant "record `i` is pending" of the
failure-free development -/
theorem ready_of_seek_ok {inp : List UInt8} {r r' : Reader} (h : WRInv inp r) (i : Nat) (rc : FaRec)
    (hrc : (recsOf inp)[i]? = some rc) (hseek : seek r rc.line rc.byte = (r', .ok ()))
    (hnf : NoFail r'.br.src.script) :
    Ready inp r' i ∧ r'.state = .positioned ∧ r'.bp.seqPos = [] ∧ r'.pol.f = r.pol.f := by
  obtain ⟨r2, res2, hs2, hpf2, hinv2, _⟩ := seekF h i rc hrc
  rw [hseek] at hs2
  simp only [Prod.mk.injEq] at hs2
  obtain ⟨rfl, _⟩ := hs2
  obtain ⟨hl, hb, hst, hsq, _⟩ := seek_ok_fields hseek
  have hpt := pt_all inp i rc hrc
  refine ⟨?_, hst, hsq, hpf2⟩
  cases hinv2 with
  | fresh _ h' => rw [hst] at h'; cases h'
  | parsing _ h' => rw [hst] at h'; cases h'
  | incomplete _ h' => rw [hst] at h'; cases h'
  | finished _ _ h' => rw [hst] at h'; cases h'
  | positioned hr he _ =>
    have hwb := hr.win.b
    refine ⟨⟨⟨hwb.inp_eq, hwb.len_le, hwb.cur_le, hwb.win, hwb.cap_ge, hwb.len_cap, hnf⟩, hr.win.pol⟩,
      he, hr.scan, ?_, fun h' => ?_⟩
    · rw [hb, hl]; exact hpt
    · rw [hst] at h'; cases h'

/-- the same as an `RInv` -/
theorem rinv_of_seek_ok {inp : List UInt8} {r r' : Reader} (h : WRInv inp r) (i : Nat) (rc : FaRec)
    (hrc : (recsOf inp)[i]? = some rc) (hseek : seek r rc.line rc.byte = (r', .ok ()))
    (hnf : NoFail r'.br.src.script) : RInv inp r' i := by
  obtain ⟨hr, hst, _, _⟩ := ready_of_seek_ok h i rc hrc hseek hnf
  exact RInv.ready hr (Or.inl hst)

/-! ## (3) the stream of `next()` calls from a clean state in which record `k` is due -/

theorem observe_of_view {r' : Reader} {rc : FaRec} (hv : viewRec r'.br.buf r'.bp = some (view rc))
    (hpos : position r' = some (posOf rc)) : observe r' (.ok true) = toObs rc := by
  unfold viewRec at hv
  cases hh : head r'.br.buf r'.bp with
  | none => rw [hh] at hv; simp at hv
  | some H =>
    cases hs : allSome (seqLines r'.br.buf r'.bp) with
    | none => rw [hh, hs] at hv; simp at hv
    | some SL =>
      rw [hh, hs] at hv
      simp only [view, Option.some.injEq, Prod.mk.injEq] at hv
      obtain ⟨rfl, rfl⟩ := hv
      simp only [observe, hh, hs, hpos, posOf, toObs]

theorem drop_of_getElem? {α : Type} {l : List α} {k : Nat} {x : α} (h : l[k]? = some x) :
    l.drop k = x :: l.drop (k + 1) := by
  rcases Nat.lt_or_ge k l.length with hk | hk
  · rw [List.getElem?_eq_getElem hk] at h
    cases h
    exact List.drop_eq_getElem_cons hk
  · rw [List.getElem?_eq_none hk] at h; cases h

/-- `n` consecutive `next()` calls from a state of the failure-free development in which record
`k` is due (any of the states `parsing`, `positioned`, `incomplete`, `finished`) show the records
`k, k+1, …` of S and then end of input; policy that may refuse: up to the first `BufferLimit` -/
theorem runNexts_rinv_refusing {inp : List UInt8} : ∀ (n : Nat) (r : Reader) (k : Nat),
    RInv inp r k → r.state ≠ .new →
    ∃ j, j ≤ n ∧ (runNexts n r).take j =
        ((((recsOf inp).drop k).map toObs ++ List.replicate n Obs.none).take n).take j ∧
      (j < n → (runNexts n r)[j]? = some (Obs.error .bufferLimit) ∧ ¬ PolGrows r.pol) := by
  intro n
  induction n with
  | zero => intro r k _ _; exact ⟨0, Nat.le_refl _, rfl, fun h => absurd h (Nat.lt_irrefl _)⟩
  | succ n ih =>
    intro r k h hst
    have hinp : r.br.src.inp = inp := h.win.b.inp_eq
    obtain ⟨r', res, hn, hfr, hcase⟩ :=
      next_rinv (fuel := opFuel r.br.src.inp.length r.br.src.script.length) h
        (by rw [hinp]; exact opFuel_gt _ _)
    rw [runNexts_succ n r r' res hn]
    rcases hcase with (⟨hres, rc, hk, hv, _, _, hpos, hinv', hst'⟩ | ⟨hres, hng, _, _⟩) |
      ⟨hres, hk, hfin, _⟩ | ⟨_, _, _, hnew, _⟩
    · subst hres
      obtain ⟨j, hj, htake, hlim⟩ := ih r' (k + 1) hinv' hst'
      refine ⟨j + 1, by omega, ?_, ?_⟩
      · rw [observe_of_view hv hpos, drop_of_getElem? hk, List.map_cons, stream_succ,
          List.take_succ_cons, List.take_succ_cons, htake]
        rfl
      · intro hlt
        rw [List.getElem?_cons_succ]
        obtain ⟨h1, h2⟩ := hlim (by omega)
        exact ⟨h1, fun hg => h2 (polGrows_congr hfr.polf hg)⟩
    · subst hres
      exact ⟨0, Nat.zero_le _, rfl, fun _ => ⟨rfl, hng⟩⟩
    · subst hres
      have hfst : r'.state ≠ .new := by rw [hfin.st]; intro h'; cases h'
      obtain ⟨j, hj, htake, hlim⟩ := ih r' k (RInv.finished hfin hk) hfst
      refine ⟨j + 1, by omega, ?_, ?_⟩
      · have hd : (recsOf inp).drop k = [] := by rw [hk]; exact List.drop_length
        rw [hd] at htake ⊢
        rw [List.map_nil, stream_succ, List.take_succ_cons, List.take_succ_cons, htake]
        rfl
      · intro hlt
        rw [List.getElem?_cons_succ]
        obtain ⟨h1, h2⟩ := hlim (by omega)
        exact ⟨h1, fun hg => h2 (polGrows_congr hfr.polf hg)⟩
    · exact absurd hnew hst

/-- with a policy that never refuses: exactly the records `k, k+1, …` and then end of input -/
theorem runNexts_rinv {inp : List UInt8} (n : Nat) (r : Reader) (k : Nat)
    (h : RInv inp r k) (hst : r.state ≠ .new) (hpol : PolGrows r.pol) :
    runNexts n r = (((recsOf inp).drop k).map toObs ++ List.replicate n Obs.none).take n := by
  obtain ⟨j, hj, htake, hlim⟩ := runNexts_rinv_refusing n r k h hst
  rcases Nat.lt_or_ge j n with hlt | hge
  · exact absurd hpol (hlim hlt).2
  · have hjn : j = n := by omega
    subst hjn
    have hlen : (runNexts j r).length = j := by
      clear htake hlim hj hge h hst hpol
      induction j generalizing r with
      | zero => rfl
      | succ j ih => rw [runNexts]; simp only [List.length_cons, ih]
    rw [List.take_of_length_le (by rw [hlen]; exact Nat.le_refl _)] at htake
    rw [htake, List.take_take, Nat.min_self]

/-- S's stream from record `i` on, in the vocabulary of `specObs` -/
theorem specObs_drop {inp : List UInt8} {i : Nat} (hi : i < (recsOf inp).length) :
    (specObs inp).drop i = ((recsOf inp).drop i).map toObs := by
  rw [specObs_items, err_none_of_lt hi, List.map_drop]

/-! ## the theorems -/

/-- **C05 under faults, reader level.** From ANY reader state satisfying the invariant of
`fasta_history_total` (`WRInv`): a `seek` to the position of record `i` that returns `Ok(())`, with
a remaining read script that does not fail, is followed by exactly S's stream from record `i`. -/
theorem seek_restores_of_wrinv {inp : List UInt8} {r r' : Reader} (h : WRInv inp r)
    (hgrow : PolGrows r.pol) (i : Nat) (rc : FaRec) (hrc : (recsOf inp)[i]? = some rc)
    (hseek : seek r rc.line rc.byte = (r', .ok ())) (hnf : NoFail r'.br.src.script) (k : Nat) :
    runNexts k r' = ((specObs inp).drop i ++ List.replicate k Obs.none).take k := by
  obtain ⟨hr, hst, _, hpf⟩ := ready_of_seek_ok h i rc hrc hseek hnf
  have hi : i < (recsOf inp).length := by
    rcases Nat.lt_or_ge i (recsOf inp).length with h' | h'
    · exact h'
    · rw [List.getElem?_eq_none h'] at hrc; cases hrc
  rw [specObs_drop hi]
  exact runNexts_rinv k r' i (RInv.ready hr (Or.inl hst)) (by rw [hst]; intro h'; cases h')
    (polGrows_congr hpf hgrow)

end SeqIo.Fasta.Hist

namespace SeqIo.Fasta
open SeqIo.Fasta.Hist

/-- **C05, seek part, under faults (FASTA).**  Take the state of M after ANY history `ops` on a
reader whose source follows ANY read script (failing and interrupted reads at any call), with
scripted seek failures, and whose policy may be asked at any time.  If in that state the seek to
the position of the `i`-th record of S returns `Ok(())`, and the read script that is left contains
no failure, then `k` further `next()` calls show exactly the records `i, i+1, …` of S (header,
sequence lines and `position()`), followed by end of input – the same as sequential reading shows
from record `i` on. -/
theorem fasta_seek_restores_after_faults
    (inp : List UInt8) (cap : Nat) (hcap : 3 ≤ cap) (pol : Pol) (hpol : PolWfPos pol) (hgrow : PolGrows pol)
    (script : List ReadEv) (chunk : Nat) (seekFails : List (Nat × IoKind)) (ops : List Hist.Op)
    (i : Nat) (hi : i < (Hist.items inp).recs.length) :
    let s := Hist.runMSt (Hist.mkMStF inp cap pol script chunk seekFails) ops
    let rc := (Hist.items inp).recs[i]
    ∀ r', seek s.r rc.line rc.byte = (r', .ok ()) →
      NoFail r'.br.src.script →
      ∀ k, runNexts k r' = ((specObs inp).drop i ++ List.replicate k Obs.none).take k := by
  intro s rc r' hseek hnf k
  obtain ⟨hinv, hpf⟩ := whinv_runMSt ops _ (whinv_init inp cap hcap pol hpol script chunk seekFails)
  exact seek_restores_of_wrinv hinv.rd (polGrows_congr hpf hgrow) i rc
    (List.getElem?_eq_getElem hi) hseek hnf k

/-- the same, phrased with the history operation `seekRec i`: if the history `ops ++ [seekRec i]`
ends with the observation `done` (= `Ok(())`) for an existing record `i`, and no failure is left in
the script, the reads that follow show S's stream from record `i` -/
theorem fasta_seekRec_restores_after_faults
    (inp : List UInt8) (cap : Nat) (hcap : 3 ≤ cap) (pol : Pol) (hpol : PolWfPos pol) (hgrow : PolGrows pol)
    (script : List ReadEv) (chunk : Nat) (seekFails : List (Nat × IoKind)) (ops : List Hist.Op)
    (i : Nat) (hi : i < (Hist.items inp).recs.length) :
    let s := Hist.runMSt (Hist.mkMStF inp cap pol script chunk seekFails) (ops ++ [.seekRec i])
    (Hist.runM (Hist.mkMStF inp cap pol script chunk seekFails) (ops ++ [.seekRec i])).getLast? = some .done →
      NoFail s.r.br.src.script →
      ∀ k, runNexts k s.r = ((specObs inp).drop i ++ List.replicate k Obs.none).take k := by
  intro s hobs hnf k
  have hs : s = (stepM (runMSt (mkMStF inp cap pol script chunk seekFails) ops) (.seekRec i)).1 := by
    show runMSt _ (ops ++ [.seekRec i]) = _
    rw [runMSt_append]
    rfl
  rw [runM_append] at hobs
  obtain ⟨hinv, hpf⟩ := whinv_runMSt ops _ (whinv_init inp cap hcap pol hpol script chunk seekFails)
  generalize runMSt (mkMStF inp cap pol script chunk seekFails) ops = m at hs hobs hinv hpf
  have hinp : m.r.br.src.inp = inp := hinv.rd.win.b.inp_eq
  have hrc : (items m.r.br.src.inp).recs[i]? = some ((items inp).recs[i]) := by
    rw [hinp]; exact List.getElem?_eq_getElem hi
  rcases hsk : seek m.r ((items inp).recs[i]).line ((items inp).recs[i]).byte with ⟨r', res⟩
  have hstep : stepM m (.seekRec i) = ({ m with r := r' }, obsSeek res) := by
    simp only [stepM, hrc, hsk]
  rw [hstep] at hs
  have hres : res = .ok () := by
    have : (runM m [.seekRec i]) = [obsSeek res] := by
      show [(stepM m (.seekRec i)).2] = _
      rw [hstep]
    rw [this] at hobs
    simp only [List.getLast?_append, List.getLast?_singleton, Option.some_or, Option.some.injEq] at hobs
    cases res with
    | ok u => rfl
    | err e => cases hobs
    | panic => cases hobs
    | fuel => cases hobs
  subst hres
  rw [hs] at hnf ⊢
  exact seek_restores_of_wrinv hinv.rd (polGrows_congr hpf hgrow) i _
    (List.getElem?_eq_getElem hi) hsk hnf k

/-- policies that may refuse (`PolWfPos` only): after the successful seek the reads agree with S's
stream from record `i` up to the first `BufferLimit`, which is the only possible deviation -/
theorem fasta_seek_restores_after_faults_refusing
    (inp : List UInt8) (cap : Nat) (hcap : 3 ≤ cap) (pol : Pol) (hpol : PolWfPos pol)
    (script : List ReadEv) (chunk : Nat) (seekFails : List (Nat × IoKind)) (ops : List Hist.Op)
    (i : Nat) (hi : i < (Hist.items inp).recs.length) :
    let s := Hist.runMSt (Hist.mkMStF inp cap pol script chunk seekFails) ops
    let rc := (Hist.items inp).recs[i]
    ∀ r', seek s.r rc.line rc.byte = (r', .ok ()) →
      NoFail r'.br.src.script →
      ∀ k, ∃ j, j ≤ k ∧
        (runNexts k r').take j = (((specObs inp).drop i ++ List.replicate k Obs.none).take k).take j ∧
        (j < k → (runNexts k r')[j]? = some (Obs.error .bufferLimit)) := by
  intro s rc r' hseek hnf k
  obtain ⟨hinv, _⟩ := whinv_runMSt ops _ (whinv_init inp cap hcap pol hpol script chunk seekFails)
  obtain ⟨hr, hst, _, _⟩ := ready_of_seek_ok hinv.rd i rc (List.getElem?_eq_getElem hi) hseek hnf
  obtain ⟨j, hj, htake, hlim⟩ := runNexts_rinv_refusing k r' i (RInv.ready hr (Or.inl hst))
    (by rw [hst]; intro h'; cases h')
  rw [specObs_drop hi]
  exact ⟨j, hj, htake, fun hlt => (hlim hlt).1⟩

end SeqIo.Fasta

/-! ## non-vacuity: concrete data (checked by `decide`) -/

namespace SeqIo.Fasta.SeekAfterFaultExample
open SeqIo.Fasta.Hist

/-- `>a\nAC\n>b\nG\n>c\nT\n` -/
def inp : List UInt8 := [62, 97, 10, 65, 67, 10, 62, 98, 10, 71, 10, 62, 99, 10, 84, 10]

/-- capacity 4; the first refill hands out 3 bytes and then fails -/
def m1 : MSt := mkMStF inp 4 PolDesc.std.toPol [.data 3, .fail 0] 0 []

/-- the error is observed by the first `next`, the reader is left in state `new` with the partly
filled buffer `>a\n`; then a seek to record 1 (not in the buffer: a real seek of the source) and reads -/
example : runM m1 [.next, .seekRec 1, .next, .next, .next] =
    [.error (.io 0), .done, .record [98] [[71]], .record [99] [[84]], .none] := by decide

example : (runMSt m1 [.next]).r.br.buf = [62, 97, 10] ∧ (runMSt m1 [.next]).r.state = .new := by decide

/-- a seek to record 0 takes the in-buffer branch, which first completes the partly filled buffer -/
example : runM m1 [.next, .seekRec 0, .next, .next, .next, .next] =
    [.error (.io 0), .done, .record [97] [[65, 67]], .record [98] [[71]], .record [99] [[84]], .none] := by
  decide

/-- the hypotheses of `fasta_seek_restores_after_faults` hold for `ops = [next]`, `i = 1` … -/
example : (items inp).recs.length = 3 ∧ ((items inp).recs[1]?.map fun rc => (rc.line, rc.byte)) = some (3, 6) := by
  decide

example : ∃ r', seek (runMSt m1 [.next]).r 3 6 = (r', .ok ()) ∧ FillProofs.NoFail r'.br.src.script := by
  have h2 : (seek (runMSt m1 [.next]).r 3 6).2 = .ok () := by decide
  have h3 : (seek (runMSt m1 [.next]).r 3 6).1.br.src.script = [] := by decide
  refine ⟨(seek (runMSt m1 [.next]).r 3 6).1, ?_, ?_⟩
  · rw [← h2]
  · rw [h3]; exact FillProofs.noFail_nil

/-- … and this is its conclusion for `k = 4`, computed on the concrete machine -/
example : runNexts 4 (seek (runMSt m1 [.next]).r 3 6).1 =
    [.record [98] [[71]] 3 6, .record [99] [[84]] 5 11, .none, .none] := by decide

example : ((specObs inp).drop 1 ++ List.replicate 4 Obs.none).take 4 =
    [.record [98] [[71]] 3 6, .record [99] [[84]] 5 11, .none, .none] := by decide

/-- several failures (during the search for the end of a record: state `incomplete`), an interrupted
read, a failing seek (seek call 0 fails with kind 9), then successful seeks and reads -/
def m2 : MSt :=
  mkMStF inp 4 PolDesc.std.toPol [.data 4, .intr, .data 1, .fail 7, .data 2, .fail 3] 0 [(0, 9)]

example : runM m2 [.next, .next, .pos, .seekRec 2, .seekRec 2, .next, .seekRec 0, .next, .next, .next, .next] =
    [.error (.io 7), .error (.io 3), .pos (some (1, 0)), .error (.io 9), .done, .record [99] [[84]],
      .done, .record [97] [[65, 67]], .record [98] [[71]], .record [99] [[84]], .none] := by decide

example : (runMSt m2 [.next, .next]).r.state = .incomplete := by decide

end SeqIo.Fasta.SeekAfterFaultExample

