import SeqIoModel.Proofs.FastqStreamResume
/-!
# FASTQ stream theorem

`k` consecutive `next()` calls of the concrete FASTQ reader `M` (buffer refills, shifting,
growth, resumable search) show exactly what the reference semantics `S` prescribes: its records
in order, then its first error once, then end of input forever — for every input, capacity ≥ 3,
growing policy, and read script without failing events.
-/

namespace SeqIo.Fastq
open SeqIo SeqIo.Spec SeqIo.WriteProofs SeqIo.FillProofs SeqIo.Fastq.Hist

theorem validate_ip (r : Reader) : (validate r).1.incompletePos = r.incompletePos := by
  unfold validate
  repeat' split
  all_goals first | rfl | (simp only; split <;> rfl)

/-- `search` (or a pending resume) followed by the loop finds S's next item -/
theorem nextCont_found (inp : List UInt8) (G : Prop) (fuel : Nat) (r : Reader) (hb : Base inp G r)
    (he : Eof inp r) (hip : IpOk r) (hfuel : inp.length + 2 ≤ fuel) :
    Found inp G r.state (itemsAt inp r.byte r.line) (nextCont fuel r) := by
  have hmu : ∀ r' : Reader, r'.br.src.cursor ≤ inp.length → mu inp r' + 1 ≤ fuel := by
    intro r' h
    simp only [mu]
    split <;> omega
  cases hipv : r.incompletePos with
  | some ip =>
    have : nextCont fuel r = resume fuel ip true r := by
      simp only [nextCont, hipv, Option.isNone_some, Bool.false_eq_true, if_false]
    rw [this]
    exact (resume_spec inp G true fuel r ip hb he (hip ip hipv) (hmu r hb.cur_le)).1
  | none =>
    rcases si_spec r .head hb.pos0_le trivial with ⟨bp', ip', hp0, hsc, hres⟩ | ⟨bp', hp0, hf4, hres⟩
    · have : nextCont fuel r =
          resume fuel ip' true { r with bp := bp', incompletePos := some ip' } := by
        simp only [nextCont, hipv, Option.isNone_none, if_true, search_eq r hipv, hres, wrapS]
      rw [this]
      exact (resume_spec inp G true fuel { r with bp := bp', incompletePos := some ip' } ip'
        (hb.set_bp bp' _ hp0) he hsc (hmu _ hb.cur_le)).1
    · have : nextCont fuel r = validated { r with bp := bp', incompletePos := none } := by
        have h1 := validate_ip { r with bp := bp', incompletePos := none }
        simp only [nextCont, hipv, Option.isNone_none, if_true, search_eq r hipv, hres]
        unfold validated
        revert h1
        generalize validate _ = v
        rcases v with ⟨r', (_ | _ | _ | _)⟩ <;> intro h1
        · simp only at h1
          simp only [wrapS, wrapV, h1]
        all_goals rfl
      rw [this]
      exact complete_found inp G { r with bp := bp', incompletePos := none }
        (hb.set_bp bp' _ hp0) he rfl hf4

/-- the state in which `next` looks for the next record -/
theorem good_positioned_of {inp G r its} (hb : Base inp G r) (he : Eof inp r) (hip : IpOk r)
    (hits : its = itemsAt inp r.byte r.line) (hst : r.state = .positioned) : Good inp G r its := by
  simp only [Good, hst]
  exact ⟨hb, he, hip, hits⟩

/-- results of one `next` call: S's next item, or – in a non-ideal environment – the reader
stopped (a failed first refill leaves it `new`, everything else `finished`) -/
def FoundN (inp : List UInt8) (G : Prop) (its : List FqItem) (x : Reader × Res Bool) : Prop :=
  Found inp G .parsing its x ∨
  (¬ G ∧ (x.2 = .ok false ∨ ∃ k, x.2 = .err (.io k)) ∧
    ∃ its', Good inp G x.1 its' ∧ (x.1.state = .finished ∨ x.1.state = .new))

theorem good_finished_of {inp G r} (hw : Win inp G r) (hst : r.state = .finished) :
    Good inp G r [] := by
  unfold Good
  rw [hst]
  exact ⟨hw, rfl⟩

/-- one `next` call finds S's next item -/
theorem next_found (inp : List UInt8) (G : Prop) (fuel : Nat) (r : Reader) (its : List FqItem)
    (hg : Good inp G r its) (hfuel : r.br.src.inp.length + 2 ≤ fuel) :
    FoundN inp G its (next fuel r) := by
  cases hst : r.state with
  | positioned =>
    simp only [Good, hst] at hg
    obtain ⟨hb, he, hip, hits⟩ := hg
    rw [hb.inp_eq] at hfuel
    have : next fuel r = nextCont fuel { r with state := .parsing } := by
      simp only [next, hst]
    rw [this, hits]
    exact Or.inl (nextCont_found inp G fuel { r with state := .parsing } (hb.set_state _) he hip
      hfuel)
  | finished =>
    simp only [Good, hst] at hg
    obtain ⟨hw, hits⟩ := hg
    subst hits
    simp only [next, hst]
    exact Or.inl (Or.inr (Or.inl ⟨rfl, rfl, hst, hw⟩))
  | new =>
    simp only [Good, hst] at hg
    obtain ⟨hw, hbufG, hp0, hbyte, hline, hip, hitems⟩ := hg
    rw [hw.inp_eq] at hfuel
    rcases fill_cases inp G r hw with
      ⟨br', ext, n, hfill, hbuf', hcap', hcur', hext, hw2, he2, hn⟩ |
      ⟨br', ext, k, hfill, hbuf', hcap', hcur', hle, hnG, hw2⟩
    · cases n with
      | zero =>
        have hnx : next fuel r = ({ r with br := br', state := .finished }, .ok false) := by
          simp only [next, hst, init, hfill]
        rw [hnx]
        by_cases hG : G
        · have hbuf := hbufG hG
          have hcur0 : r.br.src.cursor = 0 := by
            have := hw.byte_pos
            rw [hbuf, hbyte, hp0] at this
            simpa using this.symm
          have hnil : inp = [] := by
            have := hw.cap3
            rw [hbuf, hcur0, ← hn] at hext
            simp only [List.length_nil, Nat.sub_zero] at hext
            have : inp.length = 0 := by omega
            exact List.eq_nil_of_length_eq_zero this
          have hi : its = [] := by
            rw [hitems, hnil]
            exact fqGo_end false 0 1
          subst hi
          exact Or.inl (Or.inr (Or.inl ⟨rfl, rfl, rfl, hw2.set_state _⟩))
        · exact Or.inr ⟨hG, Or.inl rfl, [], good_finished_of (hw2.set_state _) rfl, Or.inl rfl⟩
      | succ n =>
        have : next fuel r = nextCont fuel { r with br := br', state := .parsing } := by
          simp only [next, hst, init, hfill]
        rw [this, hitems, ← hbyte, ← hline]
        have hb2 : Base inp G { r with br := br' } := ⟨hw2, by simp [hp0]⟩
        exact Or.inl (nextCont_found inp G fuel { r with br := br', state := .parsing }
          (hb2.set_state .parsing) he2 (by intro ip h; simp only [hip] at h; cases h) hfuel)
    · have hnx : next fuel r = ({ r with br := br', state := .new }, .err (.io k)) := by
        simp only [next, hst, init, hfill]
      rw [hnx]
      refine Or.inr ⟨hnG, Or.inr ⟨k, rfl⟩, its, ?_, Or.inr rfl⟩
      unfold Good
      exact ⟨hw2.set_state _, fun h => absurd h hnG, hp0, hbyte, hline, hip, hitems⟩
  | parsing =>
    simp only [Good, hst] at hg
    obtain ⟨hb, he, hip, h01, h1l, hitems⟩ := hg
    rw [hb.inp_eq] at hfuel
    have hinc : incrementRecord r = some { r with
        byte := r.byte + (r.bp.pos1 + 1 - r.bp.pos0), line := r.line + 4,
        bp := { r.bp with pos0 := r.bp.pos1 + 1 } } := by
      simp only [incrementRecord, csub_of_le h01]
    have : next fuel r = nextCont fuel { r with
        byte := r.byte + (r.bp.pos1 + 1 - r.bp.pos0), line := r.line + 4,
        bp := { r.bp with pos0 := r.bp.pos1 + 1 } } := by
      simp only [next, hst, hinc]
    rw [this, hitems]
    have hp0 := hb.pos0_le
    have h := nextCont_found inp G fuel { r with
        byte := r.byte + (r.bp.pos1 + 1 - r.bp.pos0), line := r.line + 4,
        bp := { r.bp with pos0 := r.bp.pos1 + 1 } } ?_ he
        (by intro ip h; simp only [hip] at h; cases h) hfuel
    · exact Or.inl (by simpa only [hst] using h)
    · obtain ⟨⟨a, b, c, d, e, f, g, i, w, k, z⟩, -⟩ := hb
      exact ⟨⟨a, b, c, d, e, f, g, i, w, by simp only; omega, z⟩, h1l⟩

theorem observe_of_viewRec {r : Reader} {x : Rec} (h : viewRec r.br.buf r.bp = some x) :
    observe r (.ok true) = .record x.head x.seq x.qual r.line r.byte := by
  simp only [viewRec] at h
  simp only [observe]
  split at h
  · rename_i h1 h2 h3
    simp only [Option.some.injEq] at h
    subst h
    simp only [h1, h2, h3]
  · cases h

/-- after a found record the reader is in a good state for the remaining items -/
theorem Shown.good {inp G r x its'} (h : Shown inp G .parsing r x its') : Good inp G r its' := by
  rcases h.rest with ⟨hst, hip, h1l, hits, -⟩ | ⟨hst, hits⟩
  · simp only [Good, hst]
    exact ⟨⟨h.win, by have := h.p01; omega⟩, h.eof, hip, Nat.le_succ_of_le h.p01, h1l, hits⟩
  · simp only [Good, hst]
    exact ⟨h.win, hits⟩

theorem Fin.good {inp G r} (h : Fin inp G r) : Good inp G r [] := by
  unfold Good
  rw [h.1]
  exact ⟨h.2, rfl⟩

/-- one `next` call: a good state for the remaining items, and what the caller sees -/
theorem next_spec (inp : List UInt8) (G : Prop) (fuel : Nat) (r : Reader) (items : List FqItem)
    (hg : Good inp G r items) (hfuel : r.br.src.inp.length + 2 ≤ fuel) :
    ∃ items', Good inp G (next fuel r).1 items' ∧
      ((items = [] ∧ items' = [] ∧ observe (next fuel r).1 (next fuel r).2 = .none) ∨
       (∃ i, items = i :: items' ∧ observe (next fuel r).1 (next fuel r).2 = obsOf i) ∨
       ¬ G) := by
  rcases next_found inp G fuel r items hg hfuel with
    (⟨hr, x, its', hits, hsh⟩ | ⟨hr, hits, hfin⟩ | ⟨e, b, l, hr, hits, hfin⟩ |
      ⟨e, hr, henv, hG, hfin⟩) | ⟨hG, hres, its', hg', hst'⟩
  · refine ⟨its', hsh.good, Or.inr (Or.inl ⟨_, hits, ?_⟩)⟩
    rw [hr, observe_of_viewRec hsh.view]
    simp only [obsOf, recOf, hsh.line_eq, hsh.byte_eq]
  · refine ⟨[], hfin.good, Or.inl ⟨hits, rfl, ?_⟩⟩
    rw [hr]; rfl
  · refine ⟨[], hfin.good, Or.inr (Or.inl ⟨_, hits, ?_⟩)⟩
    rw [hr]; rfl
  · exact ⟨[], hfin.good, Or.inr (Or.inr hG)⟩
  · exact ⟨its', hg', Or.inr (Or.inr hG)⟩

theorem take_append_replicate_succ {α : Type} (l : List α) (x : α) (k : Nat) :
    (l ++ List.replicate (k + 1) x).take k = (l ++ List.replicate k x).take k := by
  rw [List.take_append, List.take_append, List.take_replicate, List.take_replicate]
  congr 2
  omega

/-- `k` consecutive `next` calls from a good state (never-refusing policy) -/
theorem runNexts_spec (inp : List UInt8) (k : Nat) :
    ∀ (r : Reader) (items : List FqItem), Good inp True r items →
      runNexts k r = (items.map obsOf ++ List.replicate k Obs.none).take k := by
  induction k with
  | zero => intro r items _; simp [runNexts]
  | succ k ih =>
    intro r items hg
    have hfuel : r.br.src.inp.length + 2 ≤ opFuel r.br.src.inp.length r.br.src.script.length := by
      simp only [opFuel]; omega
    obtain ⟨items', hg', hcase⟩ := next_spec inp True _ r items hg hfuel
    simp only [runNexts]
    rw [ih _ items' hg']
    rcases hcase with ⟨h1, h2, h3⟩ | ⟨i, h1, h2⟩ | h1
    · subst h1; subst h2
      rw [h3]
      simp [List.replicate_succ]
    · subst h1
      rw [h2]
      simp only [List.map_cons, List.cons_append, List.take_succ_cons]
      rw [take_append_replicate_succ]
    · exact absurd trivial h1

theorem win_mkReader (inp : List UInt8) (G : Prop) (cap : Nat) (hcap : 3 ≤ cap) (pol : Pol)
    (hwf : PolWf1 pol) (hg : G → PolGrows pol) (script : List ReadEv) (hs : G → NoFail script)
    (chunk : Nat) (seekFails : List (Nat × IoKind)) (hsf : G → seekFails = []) :
    Win inp G (mkReader inp cap pol script chunk seekFails) := by
  refine ⟨rfl, Nat.zero_le _, hs, hwf, hg, hcap, Nat.zero_le _, Nat.le_refl _, ?_, rfl, hsf⟩
  simp [mkReader]

/-- the initial state, in any environment -/
theorem good_mkReader'' (inp : List UInt8) (G : Prop) (cap : Nat) (hcap : 3 ≤ cap) (pol : Pol)
    (hwf : PolWf1 pol) (hg : G → PolGrows pol) (script : List ReadEv) (hs : G → NoFail script)
    (chunk : Nat) (seekFails : List (Nat × IoKind)) (hsf : G → seekFails = []) :
    Good inp G (mkReader inp cap pol script chunk seekFails) (Spec.fastq inp) := by
  unfold Good
  refine ⟨win_mkReader inp G cap hcap pol hwf hg script hs chunk seekFails hsf,
    fun _ => rfl, rfl, rfl, rfl, rfl, ?_⟩
  simp only [itemsAt, List.drop_zero, Spec.fastq]

theorem good_mkReader' (inp : List UInt8) (G : Prop) (cap : Nat) (hcap : 3 ≤ cap) (pol : Pol)
    (hwf : PolWf1 pol) (hg : G → PolGrows pol) (script : List ReadEv) (hs : NoFail script)
    (chunk : Nat) : Good inp G (mkReader inp cap pol script chunk) (Spec.fastq inp) :=
  good_mkReader'' inp G cap hcap pol hwf hg script (fun _ => hs) chunk [] (fun _ => rfl)

theorem good_mkReader (inp : List UInt8) (cap : Nat) (hcap : 3 ≤ cap) (pol : Pol) (hpol : PolGrows pol)
    (script : List ReadEv) (hs : NoFail script) (chunk : Nat) :
    Good inp True (mkReader inp cap pol script chunk) (Spec.fastq inp) :=
  good_mkReader' inp True cap hcap pol hpol.wf1 (fun _ => hpol) script hs chunk

/-- the stream theorem for every policy that grows from capacities ≥ 1 on (this includes the
built-in `StdPolicy` and `DoubleUntil`, see `polGrows_std`, `polGrows_doubleUntil`) -/
theorem fastq_next_stream_polGrows (inp : List UInt8) (cap : Nat) (hcap : 3 ≤ cap) (pol : Pol)
    (hpol : PolGrows pol) (script : List ReadEv) (hs : NoFail script) (chunk : Nat) (k : Nat) :
    runNexts k (mkReader inp cap pol script chunk) =
      (specObs inp ++ List.replicate k Obs.none).take k := by
  rw [specObs_eq]
  exact runNexts_spec inp k _ _ (good_mkReader inp cap hcap pol hpol script hs chunk)

/-- the standard policy -/
theorem fastq_next_stream_std (inp : List UInt8) (cap : Nat) (hcap : 3 ≤ cap)
    (script : List ReadEv) (hs : NoFail script) (chunk : Nat) (k : Nat) :
    runNexts k (mkReader inp cap PolDesc.std.toPol script chunk) =
      (specObs inp ++ List.replicate k Obs.none).take k :=
  fastq_next_stream_polGrows inp cap hcap _ polGrows_std script hs chunk k

/-- **M3.** `k` consecutive `next()` calls yield S's records in order, then S's first error
exactly once, then end of input forever; never a panic, never out of fuel, never
`BufferLimit`. -/
theorem fastq_next_stream (inp : List UInt8) (cap : Nat) (hcap : 3 ≤ cap) (pol : Pol)
    (hpol : PolOk pol) (script : List ReadEv) (hs : NoFail script) (chunk : Nat) (k : Nat) :
    runNexts k (mkReader inp cap pol script chunk) =
      (specObs inp ++ List.replicate k Obs.none).take k :=
  fastq_next_stream_polGrows inp cap hcap pol (PolOk.grows hpol) script hs chunk k

/-- **M1.** the whole input fits into the buffer, ideal source -/
theorem fastq_next_stream_single_buffer (inp : List UInt8) (cap : Nat) (hcap : 3 ≤ cap)
    (_hfit : inp.length < cap) (pol : Pol) (hpol : PolOk pol) (k : Nat) :
    runNexts k (mkReader inp cap pol [] 0) = (specObs inp ++ List.replicate k Obs.none).take k :=
  fastq_next_stream inp cap hcap pol hpol [] noFail_nil 0 k

/-! ## M2: the invariant and its corollaries -/

/-- reader states reachable by API calls (never-refusing policy): good for some list of
remaining items -/
def Inv (inp : List UInt8) (r : Reader) : Prop := ∃ items, Good inp True r items

theorem inv_mkReader (inp : List UInt8) (cap : Nat) (hcap : 3 ≤ cap) (pol : Pol) (hpol : PolGrows pol)
    (script : List ReadEv) (hs : NoFail script) (chunk : Nat) :
    Inv inp (mkReader inp cap pol script chunk) :=
  ⟨_, good_mkReader inp cap hcap pol hpol script hs chunk⟩

theorem next_preserves_inv (inp : List UInt8) (fuel : Nat) (r : Reader) (h : Inv inp r)
    (hfuel : r.br.src.inp.length + 2 ≤ fuel) : Inv inp (next fuel r).1 := by
  obtain ⟨items, hg⟩ := h
  obtain ⟨items', hg', -⟩ := next_spec inp True fuel r items hg hfuel
  exact ⟨items', hg'⟩

theorem opFuel_enough (r : Reader) :
    r.br.src.inp.length + 2 ≤ opFuel r.br.src.inp.length r.br.src.script.length := by
  simp only [opFuel]; omega

/-- what the caller sees is `None` or an item of S -/
theorem next_observe (inp : List UInt8) (fuel : Nat) (r : Reader) (h : Inv inp r)
    (hfuel : r.br.src.inp.length + 2 ≤ fuel) :
    observe (next fuel r).1 (next fuel r).2 = .none ∨
      ∃ i, observe (next fuel r).1 (next fuel r).2 = obsOf i := by
  obtain ⟨items, hg⟩ := h
  obtain ⟨items', -, hc⟩ := next_spec inp True fuel r items hg hfuel
  rcases hc with ⟨-, -, h3⟩ | ⟨i, -, h2⟩ | h1
  · exact Or.inl h3
  · exact Or.inr ⟨i, h2⟩
  · exact absurd trivial h1

theorem obsOf_ne_panic (i : FqItem) : obsOf i ≠ .panic := by cases i <;> simp [obsOf]
theorem obsOf_ne_fuel (i : FqItem) : obsOf i ≠ .fuel := by cases i <;> simp [obsOf]
theorem obsOf_ne_bufferLimit (i : FqItem) : obsOf i ≠ .error .bufferLimit := by
  cases i with
  | record => simp [obsOf]
  | err e => cases e <;> simp [obsOf, specErr]
theorem obsOf_ne_io (i : FqItem) (k : IoKind) : obsOf i ≠ .error (.io k) := by
  cases i with
  | record => simp [obsOf]
  | err e => cases e <;> simp [obsOf, specErr]

/-- neither the operation nor the views of the returned record panic -/
theorem no_panic (inp : List UInt8) (fuel : Nat) (r : Reader) (h : Inv inp r)
    (hfuel : r.br.src.inp.length + 2 ≤ fuel) :
    (next fuel r).2 ≠ .panic ∧ observe (next fuel r).1 (next fuel r).2 ≠ .panic := by
  have ho := next_observe inp fuel r h hfuel
  have h2 : observe (next fuel r).1 (next fuel r).2 ≠ .panic := by
    rcases ho with e | ⟨i, e⟩
    · rw [e]; simp
    · rw [e]; exact obsOf_ne_panic i
  refine ⟨?_, h2⟩
  intro hp
  rw [hp] at h2
  exact h2 rfl

/-- `opFuel` is enough for every loop of a `next` call -/
theorem fuel_enough (inp : List UInt8) (r : Reader) (h : Inv inp r) :
    (next (opFuel r.br.src.inp.length r.br.src.script.length) r).2 ≠ .fuel := by
  have ho := next_observe inp _ r h (opFuel_enough r)
  intro hp
  rw [hp] at ho
  rcases ho with e | ⟨i, e⟩
  · simp [observe] at e
  · exact obsOf_ne_fuel i e.symm

/-- a growing policy is never refused, a script without failing events never fails -/
theorem no_bufferLimit_no_io (inp : List UInt8) (fuel : Nat) (r : Reader) (h : Inv inp r)
    (hfuel : r.br.src.inp.length + 2 ≤ fuel) :
    (next fuel r).2 ≠ .err .bufferLimit ∧ ∀ k, (next fuel r).2 ≠ .err (.io k) := by
  have ho := next_observe inp fuel r h hfuel
  constructor
  · intro hp
    rw [hp] at ho
    rcases ho with e | ⟨i, e⟩
    · simp [observe] at e
    · exact obsOf_ne_bufferLimit i e.symm
  · intro k hp
    rw [hp] at ho
    rcases ho with e | ⟨i, e⟩
    · simp [observe] at e
    · exact obsOf_ne_io i k e.symm

end SeqIo.Fastq
