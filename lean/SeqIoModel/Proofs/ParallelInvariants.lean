import SeqIoModel.Model.Parallel
/-!
# Invariants, deadlock freedom and completeness of the `read_parallel_init` thread protocol

* `Tr`: the transition relation of `step`, one constructor per rule, with explicit successor states
  (`step_tr`: every step is a transition; it is only used to prove invariants, enabledness is
  always proved about `step` itself);
* `Inv`: the invariant of reachable states, in groups: control (`InvA`), numbers of data sets
  (`InvB`), conservation of data sets (`InvC`), batches (`InvD`), error marker (`InvE`), order with
  one worker (`InvF`), completeness for a draining consumer (`InvG`);
  `inv_init`, `inv_step`, `inv_reach`;
* corollaries: `created_le`, `runahead_le`, `ds_conserved`, `ds_exactly_one`, `channels_bounded`
  (C16), `delivered_nodup`, `got_eq_delivered`, `in_order_T1`, `no_batch_lost` (C07),
  `error_at_most_once` (C15), `init_failure_returned`;
* deadlock freedom: `progress`, `always_returns`;
* `drained_gets_all`: a consumer that drains the channel gets all `N` batches, the end marker and
  (if the reader failed and the consumer goes on) the error, exactly once;
* the per-record output vector: `recycleZip_length`, `consumerZip_spec`.

Proof technique: all list-valued state is measured by weighted counts (`cnt`), so that each of the
33 transitions changes the invariants by linear arithmetic (`omega`).  The helper functions on
program counters have one `@[simp]` lemma per constructor and are never unfolded to a `match`;
hypotheses are first normalised by `simp at *` and only then combined by `simp_all` (with
multi-premise implications `simp_all` alone was observed to drop hypotheses).
-/

namespace SeqIo.Par

set_option linter.unusedSimpArgs false
set_option linter.unusedVariables false

/-! ## The transition relation -/

/-- one constructor per rule of `step`; the successor state is explicit -/
inductive Tr (c : Cfg) (s : St) : St → Prop where
  | rStartFail : s.rd = .start → c.readerInitFails = true →
      Tr c s { s with rd := .exited, readerErr := true }
  | rStartOk : s.rd = .start → c.readerInitFails = false → Tr c s { s with rd := .recvEmpty }
  | rRecv (d : Nat) (rest : List Nat) : s.rd = .recvEmpty → s.emptyCh = d :: rest →
      Tr c s { s with emptyCh := rest, rd := .fill d }
  | rRecvClosed : s.rd = .recvEmpty → s.emptyCh = [] → s.consumerAlive = false →
      Tr c s { s with rd := .joinAll false }
  | rFill (d : Nat) : s.rd = .fill d → s.filled < c.N →
      Tr c s { s with jobs := s.jobs ++ [(d, s.filled)], filled := s.filled + 1, rd := .recvEmpty }
  | rFillErr (d : Nat) : s.rd = .fill d → c.N ≤ s.filled → c.endErr = true →
      Tr c s { s with rd := .sendErr }
  | rFillEnd (d : Nat) : s.rd = .fill d → c.N ≤ s.filled → c.endErr = false →
      Tr c s { s with rd := .joinAll true }
  | rSendErrClosed : s.rd = .sendErr → s.consumerAlive = false → Tr c s { s with rd := .joinAll true }
  | rSendErr : s.rd = .sendErr → s.consumerAlive = true → s.doneCh.length < c.Q →
      Tr c s { s with doneCh := s.doneCh ++ [.err], rd := .joinAll true }
  | rJoinFin : s.rd = .joinAll true → s.jobs = [] → s.working = [] → s.sending = [] →
      Tr c s { s with rd := .sendFin }
  | rJoinExit : s.rd = .joinAll false → s.jobs = [] → s.working = [] → s.sending = [] →
      Tr c s { s with rd := .exited }
  | rSendFinClosed : s.rd = .sendFin → s.consumerAlive = false → Tr c s { s with rd := .exited }
  | rSendFin : s.rd = .sendFin → s.consumerAlive = true → s.doneCh.length < c.Q →
      Tr c s { s with doneCh := s.doneCh ++ [.fin], rd := .exited }
  | wTake (j : Nat × Nat) (rest : List (Nat × Nat)) : s.jobs = j :: rest →
      s.working.length + s.sending.length < c.T →
      Tr c s { s with jobs := rest, working := s.working ++ [j] }
  | wFinish (pre : List (Nat × Nat)) (j : Nat × Nat) (post : List (Nat × Nat)) :
      s.working = pre ++ j :: post →
      Tr c s { s with working := pre ++ post, sending := s.sending ++ [j] }
  | wSendClosed (pre : List (Nat × Nat)) (j : Nat × Nat) (post : List (Nat × Nat)) :
      s.sending = pre ++ j :: post → s.consumerAlive = false →
      Tr c s { s with sending := pre ++ post }
  | wSend (pre : List (Nat × Nat)) (j : Nat × Nat) (post : List (Nat × Nat)) :
      s.sending = pre ++ j :: post → s.consumerAlive = true → s.doneCh.length < c.Q →
      Tr c s { s with sending := pre ++ post, doneCh := s.doneCh ++ [.res j.1 j.2] }
  | mInitFail (i : Nat) : s.mn = .init i → c.dsInitFailAt = some s.dsCalls →
      Tr c s { s with dsCalls := s.dsCalls + 1, mainErr := true, mn := .dropping }
  | mInitSend (i : Nat) : s.mn = .init i → c.dsInitFailAt ≠ some s.dsCalls → i < c.Q →
      s.rd ≠ .exited → s.emptyCh.length < c.Q →
      Tr c s { s with dsCalls := s.dsCalls + 1, emptyCh := s.emptyCh ++ [s.dsCalls], mn := .init (i + 1) }
  | mInitBreak (i : Nat) : s.mn = .init i → c.dsInitFailAt ≠ some s.dsCalls → i < c.Q →
      s.rd = .exited → Tr c s { s with dsCalls := s.dsCalls + 1, mn := .init c.Q }
  | mInitCurStop (i : Nat) : s.mn = .init i → c.dsInitFailAt ≠ some s.dsCalls → c.Q ≤ i →
      c.stopAfter = some 0 →
      Tr c s { s with dsCalls := s.dsCalls + 1, cur := some s.dsCalls, mn := .dropping }
  | mInitCurGo (i : Nat) : s.mn = .init i → c.dsInitFailAt ≠ some s.dsCalls → c.Q ≤ i →
      c.stopAfter ≠ some 0 →
      Tr c s { s with dsCalls := s.dsCalls + 1, cur := some s.dsCalls, mn := .recvDone }
  | mRecvRes (d b : Nat) (rest : List Msg) : s.mn = .recvDone → s.doneCh = .res d b :: rest →
      Tr c s { s with doneCh := rest, cur := some d, got := s.got + 1,
                      delivered := s.delivered ++ [(d, b)], mn := .recycle (s.cur.getD 0) }
  | mRecvErrStop (rest : List Msg) : s.mn = .recvDone → s.doneCh = .err :: rest →
      c.contAfterErr = false →
      Tr c s { s with doneCh := rest, errsSeen := s.errsSeen + 1, mn := .dropping }
  | mRecvErrGo (rest : List Msg) : s.mn = .recvDone → s.doneCh = .err :: rest →
      c.contAfterErr = true →
      Tr c s { s with doneCh := rest, errsSeen := s.errsSeen + 1, mn := .recvDone }
  | mRecvFin (rest : List Msg) : s.mn = .recvDone → s.doneCh = .fin :: rest →
      Tr c s { s with doneCh := rest, finSeen := true, mn := .dropping }
  | mRecvClosed : s.mn = .recvDone → s.doneCh = [] → s.rd = .exited → s.jobs = [] →
      s.working = [] → s.sending = [] → Tr c s { s with mn := .dropping }
  | mRecycleClosedStop (p : Nat) : s.mn = .recycle p → s.rd = .exited → c.stopAfter = some s.got →
      Tr c s { s with mn := .dropping }
  | mRecycleClosedGo (p : Nat) : s.mn = .recycle p → s.rd = .exited → c.stopAfter ≠ some s.got →
      Tr c s { s with mn := .recvDone }
  | mRecycleStop (p : Nat) : s.mn = .recycle p → s.rd ≠ .exited → s.emptyCh.length < c.Q →
      c.stopAfter = some s.got → Tr c s { s with emptyCh := s.emptyCh ++ [p], mn := .dropping }
  | mRecycleGo (p : Nat) : s.mn = .recycle p → s.rd ≠ .exited → s.emptyCh.length < c.Q →
      c.stopAfter ≠ some s.got → Tr c s { s with emptyCh := s.emptyCh ++ [p], mn := .recvDone }
  | mDrop : s.mn = .dropping → Tr c s { s with consumerAlive := false, mn := .joining }
  | mJoin : s.mn = .joining → s.rd = .exited → Tr c s { s with mn := .returned }

theorem readerAlive_eq (s : St) :
    readerAlive s = match s.rd with | .exited => false | _ => true := by
  unfold readerAlive; cases s.rd <;> rfl

theorem readerAlive_true_iff (s : St) : readerAlive s = true ↔ s.rd ≠ .exited := by
  rw [readerAlive_eq]; cases s.rd <;> simp

theorem readerAlive_false_iff (s : St) : readerAlive s = false ↔ s.rd = .exited := by
  rw [readerAlive_eq]; cases s.rd <;> simp

theorem doneSenders_false_iff (s : St) :
    doneSenders s = false ↔ s.rd = .exited ∧ s.jobs = [] ∧ s.working = [] ∧ s.sending = [] := by
  unfold doneSenders
  simp [readerAlive_false_iff]
  constructor
  · intro h; exact ⟨h.1.1.1, h.1.1.2, h.1.2, h.2⟩
  · intro h; exact ⟨⟨⟨h.1, h.2.1⟩, h.2.2.1⟩, h.2.2.2⟩

theorem getElem?_split {α} : ∀ (l : List α) (i : Nat) (a : α), l[i]? = some a →
    ∃ pre post, l = pre ++ a :: post ∧ l.eraseIdx i = pre ++ post
  | [], i, a, h => by simp at h
  | x :: l, 0, a, h => by
    simp at h; subst h; exact ⟨[], l, by simp, by simp⟩
  | x :: l, i + 1, a, h => by
    simp at h
    obtain ⟨pre, post, h1, h2⟩ := getElem?_split l i a h
    exact ⟨x :: pre, post, by simp [h1], by simp [h2]⟩

theorem step_tr_reader {c : Cfg} {s s' : St} (h : step c s .reader = some s') : Tr c s s' := by
  unfold step at h
  simp only at h
  split at h
  · split at h <;> (injection h with h; subst h)
    · exact .rStartFail ‹_› (by simp_all)
    · exact .rStartOk ‹_› (by simp_all)
  · split at h
    · injection h with h; subst h; exact .rRecv _ _ ‹_› ‹_›
    · split at h
      · simp at h
      · injection h with h; subst h; exact .rRecvClosed ‹_› ‹_› (by simp_all)
  · split at h
    · injection h with h; subst h; exact .rFill _ ‹_› ‹_›
    · split at h <;> (injection h with h; subst h)
      · exact .rFillErr _ ‹_› (by omega) (by simp_all)
      · exact .rFillEnd _ ‹_› (by omega) (by simp_all)
  · split at h
    · injection h with h; subst h; exact .rSendErrClosed ‹_› (by simp_all)
    · split at h
      · injection h with h; subst h; exact .rSendErr ‹_› (by simp_all) ‹_›
      · simp at h
  · rename_i fin hrd
    split at h
    · injection h with h; subst h
      rename_i hj
      simp at hj
      cases fin
      · simpa using Tr.rJoinExit hrd hj.1.1 hj.1.2 hj.2
      · simpa using Tr.rJoinFin hrd hj.1.1 hj.1.2 hj.2
    · simp at h
  · split at h
    · injection h with h; subst h; exact .rSendFinClosed ‹_› (by simp_all)
    · split at h
      · injection h with h; subst h; exact .rSendFin ‹_› (by simp_all) ‹_›
      · simp at h
  · simp at h

theorem step_tr_worker {c : Cfg} {s s' : St} :
    (step c s .workerTake = some s' → Tr c s s') ∧
    (∀ i, step c s (.workerFinish i) = some s' → Tr c s s') ∧
    (∀ i, step c s (.workerSend i) = some s' → Tr c s s') := by
  refine ⟨?_, ?_, ?_⟩
  · intro h
    unfold step at h
    simp only at h
    split at h
    · split at h
      · injection h with h; subst h; exact .wTake _ _ ‹_› ‹_›
      · simp at h
    · simp at h
  · intro i h
    unfold step at h
    simp only at h
    split at h
    · rename_i j hj
      injection h with h; subst h
      obtain ⟨pre, post, h1, h2⟩ := getElem?_split _ _ _ hj
      rw [h2]; exact .wFinish pre j post h1
    · simp at h
  · intro i h
    unfold step at h
    simp only at h
    split at h
    · rename_i j hj
      obtain ⟨pre, post, h1, h2⟩ := getElem?_split _ _ _ hj
      split at h
      · injection h with h; subst h
        rw [h2]; exact .wSendClosed pre j post h1 (by simp_all)
      · split at h
        · injection h with h; subst h
          rw [h2]; exact .wSend pre j post h1 (by simp_all) ‹_›
        · simp at h
    · simp at h

theorem step_tr_main {c : Cfg} {s s' : St} (h : step c s .main = some s') : Tr c s s' := by
  unfold step at h
  simp only [afterResult] at h
  split at h
  · -- init
    split at h
    · injection h with h; subst h; exact .mInitFail _ ‹_› ‹_›
    · split at h
      · split at h
        · split at h
          · injection h with h; subst h
            exact .mInitSend _ ‹_› ‹_› ‹_› (by rwa [← readerAlive_true_iff]) ‹_›
          · simp at h
        · injection h with h; subst h
          exact .mInitBreak _ ‹_› ‹_› ‹_› (by rw [← readerAlive_false_iff]; simp_all)
      · injection h with h; subst h
        by_cases hs : c.stopAfter = some 0
        · simp only [hs, if_true]; exact .mInitCurStop _ ‹_› ‹_› (by omega) hs
        · simp only [hs, if_false]; exact .mInitCurGo _ ‹_› ‹_› (by omega) hs
  · -- recvDone
    split at h
    · split at h
      · injection h with h; subst h; exact .mRecvRes _ _ _ ‹_› ‹_›
      · injection h with h; subst h
        by_cases hc : c.contAfterErr = true
        · simp only [hc, if_true]; exact .mRecvErrGo _ ‹_› ‹_› hc
        · have hc' : c.contAfterErr = false := by simpa using hc
          simp only [hc', Bool.false_eq_true, if_false]; exact .mRecvErrStop _ ‹_› ‹_› hc'
      · injection h with h; subst h; exact .mRecvFin _ ‹_› ‹_›
    · split at h
      · simp at h
      · injection h with h; subst h
        rename_i hds
        have hds' : doneSenders s = false := by simpa using hds
        rw [doneSenders_false_iff] at hds'
        exact .mRecvClosed ‹_› ‹_› hds'.1 hds'.2.1 hds'.2.2.1 hds'.2.2.2
  · -- recycle
    split at h
    · injection h with h; subst h
      rename_i hra
      have hra' : s.rd = .exited := by rw [← readerAlive_false_iff]; simpa using hra
      by_cases hs : c.stopAfter = some s.got
      · simp only [hs, if_true]; exact .mRecycleClosedStop _ ‹_› hra' hs
      · simp only [hs, if_false]; exact .mRecycleClosedGo _ ‹_› hra' hs
    · rename_i hra
      have hra' : s.rd ≠ .exited := by rw [← readerAlive_true_iff]; simpa using hra
      split at h
      · injection h with h; subst h
        by_cases hs : c.stopAfter = some s.got
        · simp only [hs, if_true]; exact .mRecycleStop _ ‹_› hra' ‹_› hs
        · simp only [hs, if_false]; exact .mRecycleGo _ ‹_› hra' ‹_› hs
      · simp at h
  · injection h with h; subst h; exact .mDrop ‹_›
  · split at h
    · injection h with h; subst h; exact .mJoin ‹_› ‹_›
    · simp at h
  · simp at h

/-- every step of `step` is one of the transitions -/
theorem step_tr {c : Cfg} {s s' : St} {t : Tid} (h : step c s t = some s') : Tr c s s' := by
  cases t with
  | main => exact step_tr_main h
  | reader => exact step_tr_reader h
  | workerTake => exact step_tr_worker.1 h
  | workerFinish i => exact step_tr_worker.2.1 i h
  | workerSend i => exact step_tr_worker.2.2 i h

/-! ## Counting helpers -/

/-- weighted count -/
def cnt {α : Type} (f : α → Nat) : List α → Nat
  | [] => 0
  | a :: l => f a + cnt f l

@[simp] theorem cnt_nil {α : Type} (f : α → Nat) : cnt f [] = 0 := rfl
@[simp] theorem cnt_cons {α : Type} (f : α → Nat) (a : α) (l : List α) :
    cnt f (a :: l) = f a + cnt f l := rfl
@[simp] theorem cnt_append {α : Type} (f : α → Nat) (l₁ l₂ : List α) :
    cnt f (l₁ ++ l₂) = cnt f l₁ + cnt f l₂ := by
  induction l₁ with
  | nil => simp
  | cons a l ih => simp [ih]; omega

/-- indicator of `x = d` -/
def isN (d x : Nat) : Nat := if x = d then 1 else 0

theorem isN_le (d x : Nat) : isN d x ≤ 1 := by unfold isN; split <;> omega
@[simp] theorem isN_self (d : Nat) : isN d d = 1 := by simp [isN]
theorem isN_ne {d x : Nat} (h : x ≠ d) : isN d x = 0 := by simp [isN, h]

def Msg.isRes : Msg → Nat
  | .res _ _ => 1
  | .err => 0
  | .fin => 0
@[simp] theorem Msg.isRes_res (d' b' : Nat) : Msg.isRes (Msg.res d' b') = 1 := rfl
@[simp] theorem Msg.isRes_err : Msg.isRes (Msg.err) = 0 := rfl
@[simp] theorem Msg.isRes_fin : Msg.isRes (Msg.fin) = 0 := rfl

def Msg.isErr : Msg → Nat
  | .res _ _ => 0
  | .err => 1
  | .fin => 0
@[simp] theorem Msg.isErr_res (d' b' : Nat) : Msg.isErr (Msg.res d' b') = 0 := rfl
@[simp] theorem Msg.isErr_err : Msg.isErr (Msg.err) = 1 := rfl
@[simp] theorem Msg.isErr_fin : Msg.isErr (Msg.fin) = 0 := rfl

def Msg.isFin : Msg → Nat
  | .res _ _ => 0
  | .err => 0
  | .fin => 1
@[simp] theorem Msg.isFin_res (d' b' : Nat) : Msg.isFin (Msg.res d' b') = 0 := rfl
@[simp] theorem Msg.isFin_err : Msg.isFin (Msg.err) = 0 := rfl
@[simp] theorem Msg.isFin_fin : Msg.isFin (Msg.fin) = 1 := rfl

/-- the message carries data set `d` -/
def Msg.hasDs (d : Nat) : Msg → Nat
  | .res d' _ => isN d d'
  | .err => 0
  | .fin => 0
@[simp] theorem Msg.hasDs_res (d : Nat) (d' b' : Nat) : Msg.hasDs d (Msg.res d' b') = isN d d' := rfl
@[simp] theorem Msg.hasDs_err (d : Nat) : Msg.hasDs d (Msg.err) = 0 := rfl
@[simp] theorem Msg.hasDs_fin (d : Nat) : Msg.hasDs d (Msg.fin) = 0 := rfl

/-- the message carries batch `b` -/
def Msg.hasB (b : Nat) : Msg → Nat
  | .res _ b' => isN b b'
  | .err => 0
  | .fin => 0
@[simp] theorem Msg.hasB_res (b : Nat) (d' b' : Nat) : Msg.hasB b (Msg.res d' b') = isN b b' := rfl
@[simp] theorem Msg.hasB_err (b : Nat) : Msg.hasB b (Msg.err) = 0 := rfl
@[simp] theorem Msg.hasB_fin (b : Nat) : Msg.hasB b (Msg.fin) = 0 := rfl

def fstIs (d : Nat) (j : Nat × Nat) : Nat := isN d j.1
def sndIs (b : Nat) (j : Nat × Nat) : Nat := isN b j.2
@[simp] theorem fstIs_mk (d x y : Nat) : fstIs d (x, y) = isN d x := rfl
@[simp] theorem sndIs_mk (b x y : Nat) : sndIs b (x, y) = isN b y := rfl

def RPc.n : RPc → Nat
  | .start => 0
  | .recvEmpty => 0
  | .fill _ => 1
  | .sendErr => 0
  | .joinAll _ => 0
  | .sendFin => 0
  | .exited => 0
@[simp] theorem RPc.n_start : RPc.n (RPc.start) = 0 := rfl
@[simp] theorem RPc.n_recvEmpty : RPc.n (RPc.recvEmpty) = 0 := rfl
@[simp] theorem RPc.n_fill (d' : Nat) : RPc.n (RPc.fill d') = 1 := rfl
@[simp] theorem RPc.n_sendErr : RPc.n (RPc.sendErr) = 0 := rfl
@[simp] theorem RPc.n_joinAll (b' : Bool) : RPc.n (RPc.joinAll b') = 0 := rfl
@[simp] theorem RPc.n_sendFin : RPc.n (RPc.sendFin) = 0 := rfl
@[simp] theorem RPc.n_exited : RPc.n (RPc.exited) = 0 := rfl

def RPc.hasDs (d : Nat) : RPc → Nat
  | .start => 0
  | .recvEmpty => 0
  | .fill d' => isN d d'
  | .sendErr => 0
  | .joinAll _ => 0
  | .sendFin => 0
  | .exited => 0
@[simp] theorem RPc.hasDs_start (d : Nat) : RPc.hasDs d (RPc.start) = 0 := rfl
@[simp] theorem RPc.hasDs_recvEmpty (d : Nat) : RPc.hasDs d (RPc.recvEmpty) = 0 := rfl
@[simp] theorem RPc.hasDs_fill (d : Nat) (d' : Nat) : RPc.hasDs d (RPc.fill d') = isN d d' := rfl
@[simp] theorem RPc.hasDs_sendErr (d : Nat) : RPc.hasDs d (RPc.sendErr) = 0 := rfl
@[simp] theorem RPc.hasDs_joinAll (d : Nat) (b' : Bool) : RPc.hasDs d (RPc.joinAll b') = 0 := rfl
@[simp] theorem RPc.hasDs_sendFin (d : Nat) : RPc.hasDs d (RPc.sendFin) = 0 := rfl
@[simp] theorem RPc.hasDs_exited (d : Nat) : RPc.hasDs d (RPc.exited) = 0 := rfl

/-- the reader is still in its main loop (it has not yet seen the end of the input or a closed channel) -/
def RPc.inLoop : RPc → Bool
  | .start => true
  | .recvEmpty => true
  | .fill _ => true
  | .sendErr => false
  | .joinAll _ => false
  | .sendFin => false
  | .exited => false
@[simp] theorem RPc.inLoop_start : RPc.inLoop (RPc.start) = true := rfl
@[simp] theorem RPc.inLoop_recvEmpty : RPc.inLoop (RPc.recvEmpty) = true := rfl
@[simp] theorem RPc.inLoop_fill (d' : Nat) : RPc.inLoop (RPc.fill d') = true := rfl
@[simp] theorem RPc.inLoop_sendErr : RPc.inLoop (RPc.sendErr) = false := rfl
@[simp] theorem RPc.inLoop_joinAll (b' : Bool) : RPc.inLoop (RPc.joinAll b') = false := rfl
@[simp] theorem RPc.inLoop_sendFin : RPc.inLoop (RPc.sendFin) = false := rfl
@[simp] theorem RPc.inLoop_exited : RPc.inLoop (RPc.exited) = false := rfl

/-- the reader has not yet sent (or skipped) the error marker -/
def RPc.preErr : RPc → Bool
  | .start => true
  | .recvEmpty => true
  | .fill _ => true
  | .sendErr => true
  | .joinAll _ => false
  | .sendFin => false
  | .exited => false
@[simp] theorem RPc.preErr_start : RPc.preErr (RPc.start) = true := rfl
@[simp] theorem RPc.preErr_recvEmpty : RPc.preErr (RPc.recvEmpty) = true := rfl
@[simp] theorem RPc.preErr_fill (d' : Nat) : RPc.preErr (RPc.fill d') = true := rfl
@[simp] theorem RPc.preErr_sendErr : RPc.preErr (RPc.sendErr) = true := rfl
@[simp] theorem RPc.preErr_joinAll (b' : Bool) : RPc.preErr (RPc.joinAll b') = false := rfl
@[simp] theorem RPc.preErr_sendFin : RPc.preErr (RPc.sendFin) = false := rfl
@[simp] theorem RPc.preErr_exited : RPc.preErr (RPc.exited) = false := rfl

def MPc.n : MPc → Nat
  | .init _ => 0
  | .recvDone => 0
  | .recycle _ => 1
  | .dropping => 0
  | .joining => 0
  | .returned => 0
@[simp] theorem MPc.n_init (i' : Nat) : MPc.n (MPc.init i') = 0 := rfl
@[simp] theorem MPc.n_recvDone : MPc.n (MPc.recvDone) = 0 := rfl
@[simp] theorem MPc.n_recycle (d' : Nat) : MPc.n (MPc.recycle d') = 1 := rfl
@[simp] theorem MPc.n_dropping : MPc.n (MPc.dropping) = 0 := rfl
@[simp] theorem MPc.n_joining : MPc.n (MPc.joining) = 0 := rfl
@[simp] theorem MPc.n_returned : MPc.n (MPc.returned) = 0 := rfl

def MPc.hasDs (d : Nat) : MPc → Nat
  | .init _ => 0
  | .recvDone => 0
  | .recycle d' => isN d d'
  | .dropping => 0
  | .joining => 0
  | .returned => 0
@[simp] theorem MPc.hasDs_init (d : Nat) (i' : Nat) : MPc.hasDs d (MPc.init i') = 0 := rfl
@[simp] theorem MPc.hasDs_recvDone (d : Nat) : MPc.hasDs d (MPc.recvDone) = 0 := rfl
@[simp] theorem MPc.hasDs_recycle (d : Nat) (d' : Nat) : MPc.hasDs d (MPc.recycle d') = isN d d' := rfl
@[simp] theorem MPc.hasDs_dropping (d : Nat) : MPc.hasDs d (MPc.dropping) = 0 := rfl
@[simp] theorem MPc.hasDs_joining (d : Nat) : MPc.hasDs d (MPc.joining) = 0 := rfl
@[simp] theorem MPc.hasDs_returned (d : Nat) : MPc.hasDs d (MPc.returned) = 0 := rfl

def MPc.isInit : MPc → Bool
  | .init _ => true
  | .recvDone => false
  | .recycle _ => false
  | .dropping => false
  | .joining => false
  | .returned => false
@[simp] theorem MPc.isInit_init (i' : Nat) : MPc.isInit (MPc.init i') = true := rfl
@[simp] theorem MPc.isInit_recvDone : MPc.isInit (MPc.recvDone) = false := rfl
@[simp] theorem MPc.isInit_recycle (d' : Nat) : MPc.isInit (MPc.recycle d') = false := rfl
@[simp] theorem MPc.isInit_dropping : MPc.isInit (MPc.dropping) = false := rfl
@[simp] theorem MPc.isInit_joining : MPc.isInit (MPc.joining) = false := rfl
@[simp] theorem MPc.isInit_returned : MPc.isInit (MPc.returned) = false := rfl

/-- the consumer closure is running -/
def MPc.inLoop : MPc → Bool
  | .init _ => false
  | .recvDone => true
  | .recycle _ => true
  | .dropping => false
  | .joining => false
  | .returned => false
@[simp] theorem MPc.inLoop_init (i' : Nat) : MPc.inLoop (MPc.init i') = false := rfl
@[simp] theorem MPc.inLoop_recvDone : MPc.inLoop (MPc.recvDone) = true := rfl
@[simp] theorem MPc.inLoop_recycle (d' : Nat) : MPc.inLoop (MPc.recycle d') = true := rfl
@[simp] theorem MPc.inLoop_dropping : MPc.inLoop (MPc.dropping) = false := rfl
@[simp] theorem MPc.inLoop_joining : MPc.inLoop (MPc.joining) = false := rfl
@[simp] theorem MPc.inLoop_returned : MPc.inLoop (MPc.returned) = false := rfl

/-- the main thread has dropped its channel ends -/
def MPc.gone : MPc → Bool
  | .init _ => false
  | .recvDone => false
  | .recycle _ => false
  | .dropping => false
  | .joining => true
  | .returned => true
@[simp] theorem MPc.gone_init (i' : Nat) : MPc.gone (MPc.init i') = false := rfl
@[simp] theorem MPc.gone_recvDone : MPc.gone (MPc.recvDone) = false := rfl
@[simp] theorem MPc.gone_recycle (d' : Nat) : MPc.gone (MPc.recycle d') = false := rfl
@[simp] theorem MPc.gone_dropping : MPc.gone (MPc.dropping) = false := rfl
@[simp] theorem MPc.gone_joining : MPc.gone (MPc.joining) = true := rfl
@[simp] theorem MPc.gone_returned : MPc.gone (MPc.returned) = true := rfl

def optN : Option Nat → Nat
  | some _ => 1
  | none => 0
@[simp] theorem optN_some (x : Nat) : optN (some x) = 1 := rfl
@[simp] theorem optN_none : optN none = 0 := rfl
def optHas (d : Nat) : Option Nat → Nat
  | some d' => isN d d'
  | none => 0
@[simp] theorem optHas_some (d x : Nat) : optHas d (some x) = isN d x := rfl
@[simp] theorem optHas_none (d : Nat) : optHas d none = 0 := rfl

theorem optN_of_isSome {o : Option Nat} (h : o.isSome = true) : optN o = 1 := by
  cases o <;> simp_all

theorem isN_getD_of_isSome {o : Option Nat} (d : Nat) (h : o.isSome = true) :
    isN d (o.getD 0) = optHas d o := by
  cases o <;> simp_all

/-! ## Group A: control -/

structure InvA (c : Cfg) (s : St) : Prop where
  a1 : ∀ i, s.mn = .init i → i ≤ c.Q ∧ s.dsCalls ≤ i ∧ (s.rd ≠ .exited → s.dsCalls = i) ∧
        s.cur = none ∧ s.got = 0 ∧ s.mainErr = false
  a2 : s.mn.inLoop = true → s.cur.isSome = true ∧ (s.rd ≠ .exited → s.dsCalls = c.Q + 1) ∧
        s.mainErr = false
  a3 : s.mn.gone = false → s.consumerAlive = true
  a3' : s.mn.gone = true → s.consumerAlive = false
  a4 : s.mn = .returned → s.rd = .exited
  a5 : s.dsCalls ≤ c.Q + 1
  a6 : s.working.length + s.sending.length ≤ c.T
  a7 : s.rd = .start → s.jobs = [] ∧ s.working = [] ∧ s.sending = [] ∧ s.filled = 0 ∧ s.doneCh = []
  a7' : s.rd = .sendFin ∨ s.rd = .exited → s.jobs = [] ∧ s.working = [] ∧ s.sending = []
  a8 : s.filled ≤ c.N
  a9 : s.got = s.delivered.length
  a10 : s.rd = .joinAll false → s.consumerAlive = false
  a11 : s.mainErr = true → c.dsInitFailAt.isSome = true
  a12 : c.readerInitFails = true → s.rd = .start ∨ s.readerErr = true

theorem invA_init (c : Cfg) : InvA c init := by
  constructor <;> simp [init]

set_option maxHeartbeats 4000000 in
theorem invA_step {c : Cfg} {s s' : St} (hA : InvA c s) (h : Tr c s s') : InvA c s' := by
  obtain ⟨a1, a2, a3, a3', a4, a5, a6, a7, a7', a8, a9, a10, a11, a12⟩ := hA
  cases h <;> constructor <;> intros <;> (try simp at *) <;> simp_all <;> omega

/-! ## Group B: numbers of data sets -/

/-- number of data sets in the system -/
def total (s : St) : Nat :=
  s.emptyCh.length + s.rd.n + s.jobs.length + s.working.length + s.sending.length +
    cnt Msg.isRes s.doneCh + optN s.cur + s.mn.n

def kBound (c : Cfg) (s : St) : Nat := if s.mn.isInit then s.dsCalls else s.got + c.Q

structure InvB (c : Cfg) (s : St) : Prop where
  b1 : total s ≤ s.dsCalls
  b2 : s.rd.inLoop = true → s.consumerAlive = true → s.mainErr = false → total s = s.dsCalls
  b3 : s.doneCh.length ≤ c.Q
  b3' : s.emptyCh.length ≤ c.Q
  b4 : s.filled + s.emptyCh.length + s.rd.n + s.mn.n ≤ kBound c s

theorem invB_init (c : Cfg) : InvB c init := by
  constructor <;> simp [init, total, kBound]

set_option maxHeartbeats 4000000 in
theorem invB_step {c : Cfg} {s s' : St} (hA : InvA c s) (hB : InvB c s) (h : Tr c s s') :
    InvB c s' := by
  have a1 := hA.a1
  have a2 := hA.a2
  have a3 := hA.a3
  have a3' := hA.a3'
  have hcur : s.mn.inLoop = true → optN s.cur = 1 := fun h => optN_of_isSome (a2 h).1
  clear hA
  obtain ⟨b1, b2, b3, b3', b4⟩ := hB
  cases h <;> constructor <;> intros <;> (try simp [total, kBound] at *) <;> simp_all <;> omega

/-! ## Group C: conservation of data sets -/

/-- number of places that hold data set `d` -/
def dsCount (s : St) (d : Nat) : Nat :=
  cnt (isN d) s.emptyCh + s.rd.hasDs d + cnt (fstIs d) s.jobs + cnt (fstIs d) s.working +
    cnt (fstIs d) s.sending + cnt (Msg.hasDs d) s.doneCh + optHas d s.cur + s.mn.hasDs d

/-- Every data set is in at most one place, only created data sets are anywhere, and while
nothing can have been dropped every created data set is in exactly one place. -/
structure InvC (c : Cfg) (s : St) : Prop where
  c1 : ∀ d, dsCount s d ≤ 1
  c2 : ∀ d, s.dsCalls ≤ d → dsCount s d = 0
  c3 : ∀ d, d < s.dsCalls → s.rd.inLoop = true → s.consumerAlive = true → s.mainErr = false →
        dsCount s d = 1

theorem invC_init (c : Cfg) : InvC c init := by
  constructor <;> simp [init, dsCount]

theorem isN_cases (d x : Nat) : isN d x = 1 ∧ x = d ∨ isN d x = 0 ∧ x ≠ d := by
  by_cases h : x = d
  · left; simp [h]
  · right; exact ⟨isN_ne h, h⟩

set_option maxHeartbeats 4000000 in
theorem invC_step_d {c : Cfg} {s s' : St} (hA : InvA c s) (d : Nat)
    (c1 : dsCount s d ≤ 1) (c2 : s.dsCalls ≤ d → dsCount s d = 0)
    (c3 : d < s.dsCalls → s.rd.inLoop = true → s.consumerAlive = true → s.mainErr = false →
        dsCount s d = 1)
    (h : Tr c s s') :
    dsCount s' d ≤ 1 ∧ (s'.dsCalls ≤ d → dsCount s' d = 0) ∧
      (d < s'.dsCalls → s'.rd.inLoop = true → s'.consumerAlive = true → s'.mainErr = false →
        dsCount s' d = 1) := by
  have a1 := hA.a1
  have a2 := hA.a2
  have a3 := hA.a3
  have a3' := hA.a3'
  have hcur : s.mn.inLoop = true → isN d (s.cur.getD 0) = optHas d s.cur :=
    fun h => isN_getD_of_isSome d (a2 h).1
  have e := isN_cases d s.dsCalls
  clear hA
  cases h <;> refine ⟨?_, ?_, ?_⟩ <;> intros <;> (try simp [dsCount, fstIs] at *) <;>
    (try (have c3' := c3 ‹_› ‹_› ‹_› ‹_›; clear c3)) <;> simp_all [dsCount, fstIs] <;> omega

theorem invC_step {c : Cfg} {s s' : St} (hA : InvA c s) (hC : InvC c s) (h : Tr c s s') :
    InvC c s' := by
  have key := fun d => invC_step_d hA d (hC.c1 d) (hC.c2 d) (hC.c3 d) h
  exact ⟨fun d => (key d).1, fun d => (key d).2.1, fun d => (key d).2.2⟩

/-! ## Group D: batches -/

/-- number of places that hold batch `b` (in flight or delivered) -/
def bCount (s : St) (b : Nat) : Nat :=
  cnt (sndIs b) s.jobs + cnt (sndIs b) s.working + cnt (sndIs b) s.sending +
    cnt (Msg.hasB b) s.doneCh + cnt (sndIs b) s.delivered

/-- Every batch is in at most one place (in flight or delivered), and only batches that were read. -/
structure InvD (c : Cfg) (s : St) : Prop where
  d1 : ∀ b, bCount s b ≤ 1
  d2 : ∀ b, s.filled ≤ b → bCount s b = 0

theorem invD_init (c : Cfg) : InvD c init := by
  constructor <;> simp [init, bCount]

set_option maxHeartbeats 4000000 in
theorem invD_step_b {c : Cfg} {s s' : St} (b : Nat)
    (d1 : bCount s b ≤ 1) (d2 : s.filled ≤ b → bCount s b = 0) (h : Tr c s s') :
    bCount s' b ≤ 1 ∧ (s'.filled ≤ b → bCount s' b = 0) := by
  have e := isN_cases b s.filled
  cases h <;> refine ⟨?_, ?_⟩ <;> intros <;> (try simp [bCount, sndIs] at *) <;>
    (try simp_all [bCount, sndIs]) <;> omega

theorem invD_step {c : Cfg} {s s' : St} (hD : InvD c s) (h : Tr c s s') : InvD c s' := by
  have key := fun b => invD_step_b b (hD.d1 b) (hD.d2 b) h
  exact ⟨fun b => (key b).1, fun b => (key b).2⟩

/-! ## Group E: the error marker -/

/-- error markers received or in the channel -/
def errTot (s : St) : Nat := s.errsSeen + cnt Msg.isErr s.doneCh

structure InvE (c : Cfg) (s : St) : Prop where
  e1 : s.rd.preErr = true → errTot s = 0
  e2 : errTot s ≤ 1
  e3 : c.endErr = false → errTot s = 0
  e4 : s.rd = .sendErr → c.endErr = true

theorem invE_init (c : Cfg) : InvE c init := by
  constructor <;> simp [init, errTot]

set_option maxHeartbeats 4000000 in
theorem invE_step {c : Cfg} {s s' : St} (hE : InvE c s) (h : Tr c s s') : InvE c s' := by
  obtain ⟨e1, e2, e3, e4⟩ := hE
  cases h <;> constructor <;> intros <;> (try simp [errTot] at *) <;> simp_all [errTot] <;> omega

/-! ## Group F: order of the results with one worker -/

/-- batches of the result messages in a channel -/
def resBs : List Msg → List Nat
  | [] => []
  | .res _ b :: l => b :: resBs l
  | .err :: l => resBs l
  | .fin :: l => resBs l

@[simp] theorem resBs_nil : resBs [] = [] := rfl
@[simp] theorem resBs_res (d b : Nat) (l : List Msg) : resBs (.res d b :: l) = b :: resBs l := rfl
@[simp] theorem resBs_err (l : List Msg) : resBs (.err :: l) = resBs l := rfl
@[simp] theorem resBs_fin (l : List Msg) : resBs (.fin :: l) = resBs l := rfl
@[simp] theorem resBs_append (l₁ l₂ : List Msg) : resBs (l₁ ++ l₂) = resBs l₁ ++ resBs l₂ := by
  induction l₁ with
  | nil => simp
  | cons m l ih => cases m <;> simp [ih]

/-- all batches in the order in which they will reach the consumer (one worker) -/
def order (s : St) : List Nat :=
  s.delivered.map (·.2) ++ resBs s.doneCh ++ s.sending.map (·.2) ++ s.working.map (·.2) ++
    s.jobs.map (·.2)

theorem split_len_le_one {α : Type} {l pre post : List α} {j : α} (h : l = pre ++ j :: post)
    (hl : l.length ≤ 1) : pre = [] ∧ post = [] := by
  subst h
  simp at hl
  exact ⟨List.eq_nil_of_length_eq_zero (by omega), List.eq_nil_of_length_eq_zero (by omega)⟩

theorem range_split {l₁ l₂ : List Nat} {b n : Nat} (h : l₁ ++ b :: l₂ = List.range n) :
    b = l₁.length := by
  have h1 : (l₁ ++ b :: l₂)[l₁.length]? = some b := by simp
  rw [h] at h1
  have h2 := List.getElem?_eq_some_iff.mp h1
  obtain ⟨hlt, h3⟩ := h2
  simp at h3
  exact h3.symm

structure InvF (c : Cfg) (s : St) : Prop where
  f1 : c.T = 1 → s.consumerAlive = true → order s = List.range s.filled
  f2 : c.T = 1 → s.delivered.map (·.2) = List.range s.got

theorem invF_init (c : Cfg) : InvF c init := by
  constructor <;> simp [init, order]

theorem invF_step {c : Cfg} {s s' : St} (hA : InvA c s) (hF : InvF c s) (h : Tr c s s') :
    InvF c s' := by
  by_cases hT1 : c.T = 1
  case neg => exact ⟨fun h => absurd h hT1, fun h => absurd h hT1⟩
  have f1 := hF.f1 hT1
  have f2 := hF.f2 hT1
  have a3 := hA.a3
  have a3' := hA.a3'
  have a6 := hA.a6
  have a9 := hA.a9
  rw [hT1] at a6
  clear hF hA
  suffices hs : (s'.consumerAlive = true → order s' = List.range s'.filled) ∧
      s'.delivered.map (·.2) = List.range s'.got from ⟨fun _ => hs.1, fun _ => hs.2⟩
  cases h
  case rFill d h1 h2 =>
    refine ⟨fun hca => ?_, f2⟩
    have := f1 hca
    simp [order, List.range_succ] at this ⊢
    rw [← this]; simp
  case wTake j rest h1 h2 =>
    have hw : s.working = [] := List.eq_nil_of_length_eq_zero (by omega)
    have hs : s.sending = [] := List.eq_nil_of_length_eq_zero (by omega)
    refine ⟨fun hca => ?_, f2⟩
    have := f1 hca
    simp [order, hw, hs, h1] at this ⊢
    exact this
  case wFinish pre j post h1 =>
    have hs : s.sending = [] := List.eq_nil_of_length_eq_zero (by simp [h1] at a6; omega)
    obtain ⟨hp, hq⟩ := split_len_le_one h1 (by omega)
    refine ⟨fun hca => ?_, f2⟩
    have := f1 hca
    simp [order, hs, h1, hp, hq] at this ⊢
    exact this
  case wSend pre j post h1 h2 h3 =>
    have hw : s.working = [] := List.eq_nil_of_length_eq_zero (by simp [h1] at a6; omega)
    obtain ⟨hp, hq⟩ := split_len_le_one h1 (by omega)
    refine ⟨fun hca => ?_, f2⟩
    have := f1 hca
    simp [order, hw, h1, hp, hq] at this ⊢
    exact this
  case mRecvRes d b rest h1 h2 =>
    have hca : s.consumerAlive = true := a3 (by simp [h1])
    have := f1 hca
    simp [order, h2] at this
    have hb : b = s.got := by
      have := range_split this
      simp at this; omega
    refine ⟨fun _ => ?_, ?_⟩
    · simp [order]; exact this
    · simp [List.range_succ, f2, hb]
  all_goals
    (refine ⟨?_, ?_⟩ <;> intros <;> (try simp [order] at *) <;> (try simp_all [order]))

/-! ## Group G: a consumer that drains the channel gets everything -/

/-- the reader has seen the end of the input (or a closed channel) -/
def RPc.late : RPc → Bool
  | .start => false
  | .recvEmpty => false
  | .fill _ => false
  | .sendErr => true
  | .joinAll _ => true
  | .sendFin => true
  | .exited => true
@[simp] theorem RPc.late_start : RPc.late (RPc.start) = false := rfl
@[simp] theorem RPc.late_recvEmpty : RPc.late (RPc.recvEmpty) = false := rfl
@[simp] theorem RPc.late_fill (d' : Nat) : RPc.late (RPc.fill d') = false := rfl
@[simp] theorem RPc.late_sendErr : RPc.late (RPc.sendErr) = true := rfl
@[simp] theorem RPc.late_joinAll (b' : Bool) : RPc.late (RPc.joinAll b') = true := rfl
@[simp] theorem RPc.late_sendFin : RPc.late (RPc.sendFin) = true := rfl
@[simp] theorem RPc.late_exited : RPc.late (RPc.exited) = true := rfl

/-- the reader is past the point where it sends the error marker -/
def RPc.later : RPc → Bool
  | .start => false
  | .recvEmpty => false
  | .fill _ => false
  | .sendErr => false
  | .joinAll _ => true
  | .sendFin => true
  | .exited => true
@[simp] theorem RPc.later_start : RPc.later (RPc.start) = false := rfl
@[simp] theorem RPc.later_recvEmpty : RPc.later (RPc.recvEmpty) = false := rfl
@[simp] theorem RPc.later_fill (d' : Nat) : RPc.later (RPc.fill d') = false := rfl
@[simp] theorem RPc.later_sendErr : RPc.later (RPc.sendErr) = false := rfl
@[simp] theorem RPc.later_joinAll (b' : Bool) : RPc.later (RPc.joinAll b') = true := rfl
@[simp] theorem RPc.later_sendFin : RPc.later (RPc.sendFin) = true := rfl
@[simp] theorem RPc.later_exited : RPc.later (RPc.exited) = true := rfl

/-- the consumer closure has not yet finished -/
def MPc.early : MPc → Bool
  | .init _ => true
  | .recvDone => true
  | .recycle _ => true
  | .dropping => false
  | .joining => false
  | .returned => false
@[simp] theorem MPc.early_init (i' : Nat) : MPc.early (MPc.init i') = true := rfl
@[simp] theorem MPc.early_recvDone : MPc.early (MPc.recvDone) = true := rfl
@[simp] theorem MPc.early_recycle (d' : Nat) : MPc.early (MPc.recycle d') = true := rfl
@[simp] theorem MPc.early_dropping : MPc.early (MPc.dropping) = false := rfl
@[simp] theorem MPc.early_joining : MPc.early (MPc.joining) = false := rfl
@[simp] theorem MPc.early_returned : MPc.early (MPc.returned) = false := rfl

/-- the consumer drains the channel and nothing fails during initialisation -/
def Drains (c : Cfg) : Prop :=
  c.stopAfter = none ∧ c.readerInitFails = false ∧ c.dsInitFailAt = none ∧
    (c.endErr = false ∨ c.contAfterErr = true)

/-- number of messages behind the first end marker -/
def tailAfterFin : List Msg → Nat
  | [] => 0
  | .fin :: l => l.length
  | .res _ _ :: l => tailAfterFin l
  | .err :: l => tailAfterFin l

@[simp] theorem tailAfterFin_nil : tailAfterFin [] = 0 := rfl
@[simp] theorem tailAfterFin_fin (l : List Msg) : tailAfterFin (.fin :: l) = l.length := rfl
@[simp] theorem tailAfterFin_res (d b : Nat) (l : List Msg) :
    tailAfterFin (.res d b :: l) = tailAfterFin l := rfl
@[simp] theorem tailAfterFin_err (l : List Msg) : tailAfterFin (.err :: l) = tailAfterFin l := rfl

theorem tailAfterFin_push (l : List Msg) (m : Msg) (h : cnt Msg.isFin l = 0) :
    tailAfterFin (l ++ [m]) = 0 := by
  induction l with
  | nil => cases m <;> simp
  | cons x l ih => cases x <;> simp_all

structure InvG (c : Cfg) (s : St) : Prop where
  g1 : s.consumerAlive = true →
        s.got + cnt Msg.isRes s.doneCh + s.jobs.length + s.working.length + s.sending.length = s.filled
  g2 : s.consumerAlive = true → s.rd.late = true → s.filled = c.N
  g3 : tailAfterFin s.doneCh = 0
  g3' : s.rd ≠ .exited → cnt Msg.isFin s.doneCh = 0
  g4 : s.consumerAlive = true → s.rd = .exited → s.finSeen = false → 0 < cnt Msg.isFin s.doneCh
  g5 : s.consumerAlive = true → s.rd.later = true → c.endErr = true → errTot s = 1
  g6 : s.mn.early = true → s.finSeen = false
  g7 : s.mn.early = false → s.got = c.N ∧ s.finSeen = true ∧ (c.endErr = true → s.errsSeen = 1)

theorem invG_init (c : Cfg) : InvG c init := by
  constructor <;> simp [init, errTot]

set_option maxHeartbeats 4000000 in
theorem invG_step {c : Cfg} {s s' : St} (hD : Drains c) (hA : InvA c s) (hE : InvE c s)
    (hG : InvG c s) (h : Tr c s s') : InvG c s' := by
  obtain ⟨hs, hr, hd, he⟩ := hD
  have a3 := hA.a3
  have a3' := hA.a3'
  have a7' := hA.a7'
  have a8 := hA.a8
  have a10 := hA.a10
  obtain ⟨e1, e2, e3, e4⟩ := hE
  obtain ⟨g1, g2, g3, g3', g4, g5, g6, g7⟩ := hG
  clear hA
  cases h <;> constructor <;> intros <;> (try simp [errTot] at *) <;>
    (try simp_all [errTot, tailAfterFin_push]) <;> omega

/-! ## The invariant -/

/-- Invariant of the reachable states: control (`ia`), numbers of data sets (`ib`), conservation of
data sets (`ic`), batches (`id`), error marker (`ie`), order with one worker (`if1`), and, for a
consumer that drains the channel, completeness (`ig`). -/
structure Inv (c : Cfg) (s : St) : Prop where
  ia : InvA c s
  ib : InvB c s
  ic : InvC c s
  id : InvD c s
  ie : InvE c s
  if1 : InvF c s
  ig : Drains c → InvG c s

theorem inv_init (c : Cfg) : Inv c init :=
  ⟨invA_init c, invB_init c, invC_init c, invD_init c, invE_init c, invF_init c, fun _ => invG_init c⟩

theorem inv_tr {c : Cfg} {s s' : St} (hi : Inv c s) (h : Tr c s s') : Inv c s' :=
  ⟨invA_step hi.ia h, invB_step hi.ia hi.ib h, invC_step hi.ia hi.ic h, invD_step hi.id h,
    invE_step hi.ie h, invF_step hi.ia hi.if1 h, fun hD => invG_step hD hi.ia hi.ie (hi.ig hD) h⟩

theorem inv_step (c : Cfg) (s s' : St) (t : Tid) (hT : 0 < c.T) (hQ : 0 < c.Q) (hi : Inv c s)
    (h : step c s t = some s') : Inv c s' :=
  inv_tr hi (step_tr h)

/-- the invariant holds in all reachable states (for any `T`, `Q`) -/
theorem inv_reach' {c : Cfg} {s : St} (h : Reach c s) : Inv c s := by
  induction h with
  | init => exact inv_init c
  | step _ hs ih => exact inv_tr ih (step_tr hs)

theorem inv_reach (c : Cfg) (s : St) (hT : 0 < c.T) (hQ : 0 < c.Q) (h : Reach c s) : Inv c s :=
  inv_reach' h

theorem reach_runSched {c : Cfg} {s s' : St} {ts : List Tid} (hr : Reach c s)
    (h : runSched c s ts = some s') : Reach c s' := by
  induction ts generalizing s with
  | nil => simp [runSched] at h; subst h; exact hr
  | cons t ts ih =>
    simp only [runSched] at h
    split at h
    · rename_i s1 hs1
      exact ih (Reach.step hr hs1) h
    · simp at h

/-! ## Corollaries -/

/-- C16: at most Q+1 data sets are ever created -/
theorem created_le (c : Cfg) (s : St) (hT : 0 < c.T) (hQ : 0 < c.Q) (h : Reach c s) :
    s.dsCalls ≤ c.Q + 1 :=
  (inv_reach' h).ia.a5

/-- C16: the reader is never more than Q batches ahead of the consumer -/
theorem runahead_le (c : Cfg) (s : St) (hT : 0 < c.T) (hQ : 0 < c.Q) (h : Reach c s) :
    s.filled ≤ s.got + c.Q := by
  have hi := inv_reach' h
  have b4 := hi.ib.b4
  have a1 := hi.ia.a1
  unfold kBound at b4
  cases hm : s.mn <;> simp_all <;> omega

/-- C16: data sets are conserved: every data set is in at most one place (channel, reader, pool,
consumer), and only created data sets are anywhere -/
theorem ds_conserved (c : Cfg) (s : St) (hT : 0 < c.T) (hQ : 0 < c.Q) (h : Reach c s) (d : Nat) :
    dsCount s d ≤ 1 ∧ (s.dsCalls ≤ d → dsCount s d = 0) :=
  ⟨(inv_reach' h).ic.c1 d, (inv_reach' h).ic.c2 d⟩

theorem cnt_sndIs_eq_count (b : Nat) (l : List (Nat × Nat)) :
    cnt (sndIs b) l = (l.map (·.2)).count b := by
  induction l with
  | nil => simp
  | cons x l ih =>
    simp [ih, sndIs, isN, List.count_cons]
    split <;> omega

theorem cnt_pos_of_mem (b : Nat) (l : List (Nat × Nat)) (h : b ∈ l.map (·.2)) :
    0 < cnt (sndIs b) l := by
  rw [cnt_sndIs_eq_count]; exact List.count_pos_iff.mpr h

/-- C07: no batch is delivered twice, and only batches that were read -/
theorem delivered_nodup (c : Cfg) (s : St) (hT : 0 < c.T) (hQ : 0 < c.Q) (h : Reach c s) :
    (s.delivered.map (·.2)).Nodup ∧ ∀ b ∈ s.delivered.map (·.2), b < s.filled := by
  have hd := (inv_reach' h).id
  constructor
  · rw [List.nodup_iff_count]
    intro b
    have := hd.d1 b
    unfold bCount at this
    rw [← cnt_sndIs_eq_count]; omega
  · intro b hb
    have h2 := hd.d2 b
    have := cnt_pos_of_mem b _ hb
    unfold bCount at h2
    rcases Nat.lt_or_ge b s.filled with h3 | h3
    · exact h3
    · have := h2 h3; omega

theorem got_eq_delivered (c : Cfg) (s : St) (hT : 0 < c.T) (hQ : 0 < c.Q) (h : Reach c s) :
    s.got = s.delivered.length :=
  (inv_reach' h).ia.a9

/-- C15: the error is seen at most once and only if the reader failed -/
theorem error_at_most_once (c : Cfg) (s : St) (hT : 0 < c.T) (hQ : 0 < c.Q) (h : Reach c s) :
    s.errsSeen ≤ 1 ∧ (s.errsSeen = 1 → c.endErr = true) := by
  have he := (inv_reach' h).ie
  have e2 := he.e2
  have e3 := he.e3
  unfold errTot at e2 e3
  constructor
  · omega
  · intro h1
    cases hc : c.endErr
    · have := e3 hc; omega
    · rfl

/-- C07: with one worker thread results arrive in file order -/
theorem in_order_T1 (c : Cfg) (s : St) (hT : 0 < c.T) (hQ : 0 < c.Q) (h : Reach c s)
    (h1 : c.T = 1) : s.delivered.map (·.2) = List.range s.got :=
  (inv_reach' h).if1.f2 h1

theorem init_failure_returned (c : Cfg) (s : St) (h : Reach c s) (hf : s.mn = .returned) :
    (c.readerInitFails = true → s.readerErr = true ∨ s.mainErr = true) ∧
      (s.mainErr = true → c.dsInitFailAt.isSome) := by
  have ha := (inv_reach' h).ia
  refine ⟨fun hr => ?_, ha.a11⟩
  have h4 := ha.a4 hf
  rcases ha.a12 hr with h5 | h5
  · rw [h4] at h5; cases h5
  · exact Or.inl h5

theorem drained_gets_all (c : Cfg) (s : St) (hT : 0 < c.T) (hQ : 0 < c.Q) (h : Reach c s)
    (hf : s.mn = .returned) (h1 : c.stopAfter = none) (h2 : c.readerInitFails = false)
    (h3 : c.dsInitFailAt = none) (h4 : c.endErr = false ∨ c.contAfterErr = true) :
    s.got = c.N ∧ s.finSeen = true ∧ (c.endErr = true → s.errsSeen = 1) := by
  have hg := (inv_reach' h).ig ⟨h1, h2, h3, h4⟩
  exact hg.g7 (by simp [hf])

/-! ## Deadlock freedom -/

theorem enabled_of_isSome {c : Cfg} {s : St} (t : Tid) (h : (step c s t).isSome = true) :
    ∃ t s', step c s t = some s' :=
  ⟨t, Option.isSome_iff_exists.mp h⟩

/-- the pool can always advance when it has work and the done channel is open with room, or closed -/
theorem workers_progress {c : Cfg} {s : St} (hT : 0 < c.T)
    (hd : s.consumerAlive = false ∨ s.doneCh.length < c.Q)
    (hne : s.jobs ≠ [] ∨ s.working ≠ [] ∨ s.sending ≠ []) : ∃ t s', step c s t = some s' := by
  cases hs : s.sending with
  | cons j rest =>
    apply enabled_of_isSome (.workerSend 0)
    rcases hd with hd | hd
    · simp [step, hs, hd]
    · cases hca : s.consumerAlive <;> simp [step, hs, hd, hca]
  | nil =>
    cases hw : s.working with
    | cons j rest =>
      apply enabled_of_isSome (.workerFinish 0)
      simp [step, hw]
    | nil =>
      cases hj : s.jobs with
      | cons j rest =>
        apply enabled_of_isSome .workerTake
        simp [step, hj, hw, hs, hT]
      | nil => simp_all

/-- the reader can always advance when the pool is idle, unless it waits for an empty data set -/
theorem reader_progress {c : Cfg} {s : St} (hrd : s.rd ≠ .exited)
    (hj : s.jobs = []) (hw : s.working = []) (hs : s.sending = [])
    (hd : s.consumerAlive = false ∨ s.doneCh.length < c.Q)
    (he : s.rd = .recvEmpty → s.emptyCh ≠ [] ∨ s.consumerAlive = false) :
    ∃ t s', step c s t = some s' := by
  apply enabled_of_isSome .reader
  cases hr : s.rd with
  | start => cases hf : c.readerInitFails <;> simp [step, hr, hf]
  | recvEmpty =>
    cases hem : s.emptyCh with
    | cons d rest => simp [step, hr, hem]
    | nil =>
      rcases he hr with h | h
      · exact absurd hem h
      · simp [step, hr, hem, h]
  | fill d =>
    by_cases hf : s.filled < c.N
    · simp [step, hr, hf]
    · cases hee : c.endErr <;> simp [step, hr, hf, hee]
  | sendErr =>
    rcases hd with hd | hd
    · simp [step, hr, hd]
    · cases hca : s.consumerAlive <;> simp [step, hr, hd, hca]
  | joinAll fin => simp [step, hr, hj, hw, hs]
  | sendFin =>
    rcases hd with hd | hd
    · simp [step, hr, hd]
    · cases hca : s.consumerAlive <;> simp [step, hr, hd, hca]
  | exited => exact absurd hr hrd

/-- every reachable state that is not final has an enabled thread -/
theorem progress (c : Cfg) (s : St) (hT : 0 < c.T) (hQ : 0 < c.Q) (h : Reach c s)
    (hnf : s.mn ≠ .returned) : ∃ t s', step c s t = some s' := by
  have hi := inv_reach' h
  have ha := hi.ia
  have hb := hi.ib
  cases hm : s.mn with
  | returned => exact absurd hm hnf
  | dropping => exact enabled_of_isSome .main (by simp [step, hm])
  | init i =>
    apply enabled_of_isSome .main
    obtain ⟨h1, h2, h3, h4, h5, h6⟩ := ha.a1 i hm
    by_cases hf : c.dsInitFailAt = some s.dsCalls
    · simp [step, hm, hf]
    · by_cases hiq : i < c.Q
      · by_cases hra : s.rd = .exited
        · have : readerAlive s = false := (readerAlive_false_iff s).mpr hra
          simp [step, hm, hf, hiq, this]
        · have hral : readerAlive s = true := (readerAlive_true_iff s).mpr hra
          have hb1 := hb.b1
          unfold total at hb1
          have : s.emptyCh.length < c.Q := by have := h3 hra; omega
          simp [step, hm, hf, hiq, hral, this]
      · simp [step, hm, hf, hiq]
  | recycle p =>
    apply enabled_of_isSome .main
    by_cases hra : s.rd = .exited
    · have : readerAlive s = false := (readerAlive_false_iff s).mpr hra
      simp [step, hm, this]
    · have hral : readerAlive s = true := (readerAlive_true_iff s).mpr hra
      have hb1 := hb.b1
      unfold total at hb1
      have hc := optN_of_isSome (ha.a2 (by simp [hm])).1
      have h5 := ha.a5
      have : s.emptyCh.length < c.Q := by simp [hm] at hb1; omega
      simp [step, hm, hral, this]
  | joining =>
    by_cases hra : s.rd = .exited
    · exact enabled_of_isSome .main (by simp [step, hm, hra])
    · have hca : s.consumerAlive = false := ha.a3' (by simp [hm])
      by_cases hne : s.jobs ≠ [] ∨ s.working ≠ [] ∨ s.sending ≠ []
      · exact workers_progress hT (Or.inl hca) hne
      · have hj : s.jobs = [] := by false_or_by_contra; exact hne (Or.inl ‹_›)
        have hw : s.working = [] := by false_or_by_contra; exact hne (Or.inr (Or.inl ‹_›))
        have hs : s.sending = [] := by false_or_by_contra; exact hne (Or.inr (Or.inr ‹_›))
        exact reader_progress hra hj hw hs (Or.inl hca) (fun _ => Or.inr hca)
  | recvDone =>
    have hca : s.consumerAlive = true := ha.a3 (by simp [hm])
    cases hdc : s.doneCh with
    | cons m rest =>
      apply enabled_of_isSome .main
      cases m <;> simp [step, hm, hdc]
    | nil =>
      have hdl : s.doneCh.length < c.Q := by simp [hdc, hQ]
      by_cases hne : s.jobs ≠ [] ∨ s.working ≠ [] ∨ s.sending ≠ []
      · exact workers_progress hT (Or.inr hdl) hne
      · have hj : s.jobs = [] := by false_or_by_contra; exact hne (Or.inl ‹_›)
        have hw : s.working = [] := by false_or_by_contra; exact hne (Or.inr (Or.inl ‹_›))
        have hs : s.sending = [] := by false_or_by_contra; exact hne (Or.inr (Or.inr ‹_›))
        by_cases hra : s.rd = .exited
        · apply enabled_of_isSome .main
          have : doneSenders s = false := (doneSenders_false_iff s).mpr ⟨hra, hj, hw, hs⟩
          simp [step, hm, hdc, this]
        · refine reader_progress hra hj hw hs (Or.inr hdl) (fun hr => Or.inl ?_)
          intro hem
          obtain ⟨h1, h2, h3⟩ := ha.a2 (by simp [hm])
          have hb2 := hb.b2 (by simp [hr]) hca h3
          have hc := optN_of_isSome h1
          have := h2 hra
          simp [total, hr, hem, hj, hw, hs, hdc, hm, hc] at hb2
          omega

/-- hence every maximal schedule ends with the main thread having returned -/
theorem always_returns (c : Cfg) (ts : List Tid) (s : St) (hT : 0 < c.T) (hQ : 0 < c.Q)
    (hrun : runSched c init ts = some s) (hmax : ∀ t, step c s t = none) : s.mn = .returned := by
  false_or_by_contra
  rename_i hnf
  obtain ⟨t, s', hs⟩ := progress c s hT hQ (reach_runSched Reach.init hrun) hnf
  rw [hmax t] at hs
  cases hs

/-! ## Further corollaries -/

/-- C16: while nothing can have been dropped (reader in its loop, consumer alive, no failed
`dataset_init`) every created data set is in exactly one place -/
theorem ds_exactly_one (c : Cfg) (s : St) (hT : 0 < c.T) (hQ : 0 < c.Q) (h : Reach c s)
    (hl : s.rd.inLoop = true) (hca : s.consumerAlive = true) (hme : s.mainErr = false)
    (d : Nat) (hd : d < s.dsCalls) : dsCount s d = 1 :=
  (inv_reach' h).ic.c3 d hd hl hca hme

/-- C16: the channels never hold more than `Q` messages and the pool never runs more than `T` jobs -/
theorem channels_bounded (c : Cfg) (s : St) (hT : 0 < c.T) (hQ : 0 < c.Q) (h : Reach c s) :
    s.emptyCh.length ≤ c.Q ∧ s.doneCh.length ≤ c.Q ∧ s.working.length + s.sending.length ≤ c.T :=
  ⟨(inv_reach' h).ib.b3', (inv_reach' h).ib.b3, (inv_reach' h).ia.a6⟩

/-- C07: while the consumer is alive no batch is lost: every batch read so far has been delivered
or is in flight -/
theorem no_batch_lost (c : Cfg) (s : St) (hT : 0 < c.T) (hQ : 0 < c.Q) (h : Reach c s)
    (hD : Drains c) (hca : s.consumerAlive = true) :
    s.got + cnt Msg.isRes s.doneCh + s.jobs.length + s.working.length + s.sending.length = s.filled :=
  ((inv_reach' h).ig hD).g1 hca

/-! ## The per-record output vector -/

theorem recycleZip_length {R D : Type} (work : R → D → D) (initD : D) (out : List D)
    (recs : List R) : recs.length ≤ (recycleZip work initD out recs).length := by
  induction recs generalizing out with
  | nil => simp
  | cons r rs ih =>
    cases out with
    | nil => simp [recycleZip]; exact ih []
    | cons o os => simp [recycleZip]; exact ih os

theorem consumerZip_spec_aux {R D : Type} (work : R → D → D) (initD : D) (out : List D)
    (recs : List R) (k : Nat) :
    consumerZip recs (recycleZip work initD out recs) =
      (recs.zipIdx k).map (fun p => (p.1, work p.1 ((out[p.2 - k]?).getD initD))) := by
  induction recs generalizing out k with
  | nil => simp [consumerZip]
  | cons r rs ih =>
    cases out with
    | nil =>
      simp only [recycleZip, consumerZip, List.zip_cons_cons, List.zipIdx_cons, List.map_cons]
      have := ih [] (k + 1)
      simp only [consumerZip] at this
      rw [this]
      simp
    | cons o os =>
      simp only [recycleZip, consumerZip, List.zip_cons_cons, List.zipIdx_cons, List.map_cons]
      have := ih os (k + 1)
      simp only [consumerZip] at this
      rw [this]
      simp only [Nat.sub_self, List.getElem?_cons_zero, Option.getD_some, List.cons.injEq, true_and]
      apply List.map_congr_left
      intro p hp
      have hk : k + 1 ≤ p.2 := by
        have := List.le_snd_of_mem_zipIdx hp
        exact this
      have : p.2 - k = (p.2 - (k + 1)) + 1 := by omega
      rw [this, List.getElem?_cons_succ]

/-- Whatever the old length of the recycled output vector, the consumer sees record `i` paired
with the output computed for record `i` (from the old value at position `i`, or from `initD`). -/
theorem consumerZip_spec {R D : Type} (work : R → D → D) (initD : D) (out : List D)
    (recs : List R) :
    consumerZip recs (recycleZip work initD out recs) =
      (recs.zipIdx).map (fun p => (p.1, work p.1 ((out[p.2]?).getD initD))) := by
  have := consumerZip_spec_aux work initD out recs 0
  simpa using this

end SeqIo.Par

/-! Axioms used (expected: only `propext`, `Classical.choice`, `Quot.sound`). -/
#print axioms SeqIo.Par.inv_reach
#print axioms SeqIo.Par.progress
#print axioms SeqIo.Par.always_returns
#print axioms SeqIo.Par.drained_gets_all
#print axioms SeqIo.Par.consumerZip_spec
