import SeqIoModel.Proofs.FastaStream
/-!
# FASTA reader: bookkeeping of the policy requests of one `next` call (C09 / C18)

Under the invariant `InvW` (states reachable by `next` calls before any `BufferLimit`, policy
possibly refusing):

* `next_growth_log`: the log grows by a chain of requests `new` (`LogChain`): every request is made
  with the capacity at that time, the first one with `r.br.cap`, every answer `some n` becomes the
  capacity, a refusal ends the call; the final capacity is the last answer
  (`logChain_final_cap`), and without a request the capacity does not change
  (`cap_unchanged_without_request`).
* `only_when_unfit`: requests are made only for a record that does not fit the capacity passed.
* `bufferLimit_iff_refused`: `BufferLimit` is reported iff the last logged request was refused.
* `fitting_never_grows`: if every record fits the initial capacity, the policy is never asked.
-/
open SeqIo SeqIo.FillProofs SeqIo.Spec

namespace SeqIo.Fasta

/-! ## `LogChain` -/

theorem LogChain.head_eq {c0 cf : Nat} {e : Nat × Option Nat} {rest : List (Nat × Option Nat)}
    (h : LogChain c0 (e :: rest) cf) : e.1 = c0 := by
  rcases e with ⟨c, _ | n⟩
  · exact h.1
  · exact h.1

theorem LogChain.nil_iff {c0 cf : Nat} : LogChain c0 [] cf ↔ cf = c0 := Iff.rfl

/-- each request is made with the capacity reached by the requests before it -/
theorem LogChain.cons_some {c0 cf c n : Nat} {rest : List (Nat × Option Nat)} :
    LogChain c0 ((c, some n) :: rest) cf ↔ c = c0 ∧ LogChain n rest cf := Iff.rfl

/-- a refusal is the last request of a call and leaves the capacity as it is -/
theorem LogChain.cons_none {c0 cf c : Nat} {rest : List (Nat × Option Nat)} :
    LogChain c0 ((c, none) :: rest) cf ↔ c = c0 ∧ rest = [] ∧ cf = c0 := Iff.rfl

/-- the final capacity is the last answer, or the initial capacity if there is none -/
theorem logChain_final_cap {c0 cf : Nat} {new : List (Nat × Option Nat)} (h : LogChain c0 new cf) :
    cf = (new.filterMap (·.2)).getLastD c0 := by
  induction new generalizing c0 with
  | nil => exact h
  | cons e rest ih =>
    rcases e with ⟨c, _ | n⟩
    · obtain ⟨_, hr, hc⟩ := h
      subst hr
      simpa using hc
    · show cf = (n :: rest.filterMap (·.2)).getLastD c0
      rw [List.getLastD_cons]
      exact ih h.2

/-- a refusal can only be the last entry -/
theorem logChain_none_last {c0 cf : Nat} {new : List (Nat × Option Nat)} (h : LogChain c0 new cf)
    {pre post : List (Nat × Option Nat)} {c : Nat} (hn : new = pre ++ (c, none) :: post) :
    post = [] := by
  induction pre generalizing c0 new with
  | nil =>
    subst hn
    exact h.2.1
  | cons e pre ih =>
    subst hn
    rcases e with ⟨x, _ | n⟩
    · have := h.2.1
      simp at this
    · exact ih h.2 rfl

/-! ## one `next` call -/

theorem Good.res_ne {inp : List UInt8} {rest : List Obs} {r' : Reader} {res : Res Bool}
    {new : List (Nat × Option Nat)} (h : Good inp rest r' res new) : res ≠ .err .bufferLimit := by
  intro hres
  rcases h.1 with ⟨b, hb⟩ | ⟨ln, c, hc⟩
  · rw [hb] at hres; cases hres
  · rw [hc] at hres; cases hres

/-- **C09/C18.** the log of one `next` call -/
theorem next_growth_log {inp : List UInt8} {r : Reader} {fuel : Nat} (h : InvW inp r)
    (hfuel : inp.length < fuel) :
    ∃ new, (next fuel r).1.log = r.log ++ new ∧
      LogChain r.br.cap new (next fuel r).1.br.cap ∧ (next fuel r).1.pol.f = r.pol.f := by
  obtain ⟨rest, h⟩ := h
  obtain ⟨r', res, new, hn, hg, _, _⟩ := next_step h hfuel
  rw [hn]
  exact ⟨new, hg.log, hg.chain, hg.polf⟩

/-- the buffer capacity never changes without a logged request -/
theorem cap_unchanged_without_request {inp : List UInt8} {r : Reader} {fuel : Nat}
    (h : InvW inp r) (hfuel : inp.length < fuel) (hlog : (next fuel r).1.log = r.log) :
    (next fuel r).1.br.cap = r.br.cap := by
  obtain ⟨new, hl, hc, _⟩ := next_growth_log h hfuel
  rw [hlog] at hl
  have : new = [] := by
    have := congrArg List.length hl
    simp only [List.length_append] at this
    exact List.eq_nil_of_length_eq_zero (by omega)
  subst this
  exact hc

/-- the capacity never shrinks, and grows strictly with every answered request -/
theorem logChain_mono {c0 cf : Nat} {new : List (Nat × Option Nat)} (h : LogChain c0 new cf)
    (hwf : ∀ e ∈ new, ∀ n, e.2 = some n → e.1 < n) : c0 ≤ cf := by
  induction new generalizing c0 with
  | nil => exact Nat.le_of_eq h.symm
  | cons e rest ih =>
    rcases e with ⟨c, _ | n⟩
    · exact Nat.le_of_eq h.2.2.symm
    · have h1 := hwf (c, some n) (by simp) n rfl
      have h2 := ih h.2 (fun e he => hwf e (by simp [he]))
      have := h.1
      simp only at h1
      omega

/-- **C09.** requests are made only while the record being parsed does not fit: `s` is the
absolute start of that record, `recExtent inp s` its extent up to and including the terminator
before the next record (or up to the end of the input); one byte more is needed for the look-ahead
(or to see the end of the input). -/
theorem only_when_unfit {inp : List UInt8} {r : Reader} {fuel : Nat} (h : InvW inp r)
    (hfuel : inp.length < fuel) (new : List (Nat × Option Nat))
    (hlog : (next fuel r).1.log = r.log ++ new) (hne : new ≠ []) :
    ∃ s, RecStart inp s ∧ ∀ e ∈ new, e.1 < recExtent inp s + 1 := by
  obtain ⟨rest, h⟩ := h
  obtain ⟨r', res, new', hn, hg, hun, _⟩ := next_step h hfuel
  rw [hn, hg.log] at hlog
  have : new' = new := List.append_cancel_left hlog
  subst this
  exact hun hne

/-- **C06.** `BufferLimit` is reported iff the policy refused the last request of the call -/
theorem bufferLimit_iff_refused {inp : List UInt8} {r : Reader} {fuel : Nat} (h : InvW inp r)
    (hfuel : inp.length < fuel) :
    (next fuel r).2 = .err .bufferLimit ↔
      ∃ pre c, (next fuel r).1.log = r.log ++ (pre ++ [(c, none)]) := by
  obtain ⟨rest, h⟩ := h
  obtain ⟨r', res, new, hn, hg, _, hcase⟩ := next_step h hfuel
  rw [hn]
  constructor
  · intro hres
    rcases hcase with hgood | href
    · exact absurd hres hgood.res_ne
    · obtain ⟨_, ⟨pre, c, hnew⟩, _⟩ := href
      exact ⟨pre, c, by rw [hg.log, hnew]⟩
  · rintro ⟨pre, c, hlog⟩
    rw [hg.log] at hlog
    have hnew : new = pre ++ [(c, none)] := List.append_cancel_left hlog
    rcases hcase with hgood | href
    · exact absurd rfl (hgood.2.1 (c, none) (by rw [hnew]; simp))
    · exact href.1

/-- a reported `BufferLimit` means that the policy function returned `None` for some history
ending with a positive capacity -/
theorem bufferLimit_policy_refused {inp : List UInt8} {r : Reader} {fuel : Nat} (h : InvW inp r)
    (hfuel : inp.length < fuel) (hres : (next fuel r).2 = .err .bufferLimit) :
    ∃ hist c, 1 ≤ c ∧ r.pol.f (hist ++ [c]) = none := by
  obtain ⟨rest, h⟩ := h
  obtain ⟨r', res, new, hn, hg, _, hcase⟩ := next_step h hfuel
  rw [hn] at hres
  rcases hcase with hgood | href
  · exact absurd hres hgood.res_ne
  · exact href.2.2

/-! ## inputs whose records all fit the buffer -/

/-- every record of S fits the capacity, including the look-ahead byte -/
def Fits (inp : List UInt8) (cap : Nat) : Prop := ∀ s, RecStart inp s → recExtent inp s + 1 ≤ cap

/-- the reader state after `k` `next()` calls -/
def runState : Nat → Reader → Reader
  | 0, r => r
  | k + 1, r => runState k (next (opFuel r.br.src.inp.length r.br.src.script.length) r).1

theorem runState_fits {inp : List UInt8} : ∀ (k : Nat) (r : Reader) (rest : List Obs),
    InvR inp r rest → Fits inp r.br.cap →
    (runState k r).log = r.log ∧ (runState k r).br.cap = r.br.cap ∧ InvW inp (runState k r) := by
  intro k
  induction k with
  | zero => intro r rest h _; exact ⟨rfl, rfl, rest, h⟩
  | succ k ih =>
    intro r rest h hfit
    have hinp : r.br.src.inp = inp := h.win.b.inp_eq
    obtain ⟨r', res, new, hn, hg, hun, hcase⟩ :=
      next_step (fuel := opFuel r.br.src.inp.length r.br.src.script.length) h
        (by rw [hinp]; exact opFuel_gt _ _)
    have hnil : new = [] := by
      cases hnew : new with
      | nil => rfl
      | cons e rest' =>
        exfalso
        obtain ⟨s, hrs, hlt⟩ := hun (by rw [hnew]; exact List.cons_ne_nil _ _)
        have h1 := hlt e (by rw [hnew]; simp)
        have h2 : e.1 = r.br.cap := by
          have := hg.chain
          rw [hnew] at this
          exact this.head_eq
        have := hfit s hrs
        omega
    subst hnil
    have hcap : r'.br.cap = r.br.cap := hg.chain
    have hlog : r'.log = r.log := by rw [hg.log, List.append_nil]
    rw [runState]
    simp only [hn]
    rcases hcase with hgood | href
    · obtain ⟨h1, h2, h3⟩ := ih r' _ hgood.2.2.2 (by rw [hcap]; exact hfit)
      exact ⟨by rw [h1, hlog], by rw [h2, hcap], h3⟩
    · obtain ⟨_, ⟨pre, c, hp⟩, _⟩ := href
      exact absurd hp (by simp)

/-- **C18.** if every record of the input fits the buffer (extent + 1 ≤ capacity), the policy is
never asked and the capacity never changes, whatever the policy -/
theorem fitting_never_grows (inp : List UInt8) (cap : Nat) (hcap : 3 ≤ cap) (pol : Pol)
    (hpol : PolWfPos pol) (script : List ReadEv) (hs : NoFail script) (chunk : Nat) (k : Nat)
    (hfit : Fits inp cap) :
    (runState k (mkReader inp cap pol script chunk)).log = [] ∧
      (runState k (mkReader inp cap pol script chunk)).br.cap = cap := by
  obtain ⟨h1, h2, _⟩ := runState_fits k _ _ (invR_mkReader inp cap hcap pol hpol script hs chunk) hfit
  exact ⟨h1, h2⟩

end SeqIo.Fasta
