import SeqIoModel.Model.Serde
/-!
# Serde round-trips

Deserialising the serialised value of an owned record, a buffer position or a record set gives the
value back, unchanged (in particular a reused record set whose `positions` list is longer than
`npos` keeps its stale offsets, and iterating the deserialised set yields the same records since it
is the same value).
-/

namespace SeqIo.Serde

theorem mapM_map_some {α β : Type} (f : α → β) (g : β → Option α) (h : ∀ x, g (f x) = some x)
    (l : List α) : (l.map f).mapM g = some l := by
  induction l with
  | nil => simp
  | cons x xs ih => simp [List.mapM_cons, h, ih]

theorem deByte_num_toNat (b : UInt8) : deByte (.num b.toNat) = some b := by
  have h : b.toNat < 256 := UInt8.toNat_lt b
  simp [deByte, h]

theorem deBytes_serBytes (l : List UInt8) : deBytes (serBytes l) = some l := by
  simp only [serBytes, deBytes]
  exact mapM_map_some _ _ deByte_num_toNat l

theorem deNats_serNats (l : List Nat) : deNats (serNats l) = some l := by
  simp only [serNats, deNats]
  exact mapM_map_some Json.num deNum (fun _ => rfl) l

theorem deFaOwned_ser (r : FaOwned) : deFaOwned (serFaOwned r) = some r := by
  simp [deFaOwned, serFaOwned, deBytes_serBytes]

theorem deFqOwned_ser (r : FqOwned) : deFqOwned (serFqOwned r) = some r := by
  simp [deFqOwned, serFqOwned, deBytes_serBytes]

theorem deFaPos_ser (p : Fasta.BufPos) : deFaPos (serFaPos p) = some p := by
  simp [deFaPos, serFaPos, deNats_serNats, deNum]

theorem deFqPos_ser (p : Fastq.BufPos) : deFqPos (serFqPos p) = some p := by
  simp [deFqPos, serFqPos, deNum]

theorem deFaSet_ser (rs : Fasta.RecordSet) : deFaSet (serFaSet rs) = some rs := by
  simp [deFaSet, serFaSet, deBytes_serBytes, deNum, mapM_map_some _ _ deFaPos_ser]

theorem deFqSet_ser (rs : Fastq.RecordSet) : deFqSet (serFqSet rs) = some rs := by
  simp [deFqSet, serFqSet, deBytes_serBytes, mapM_map_some _ _ deFqPos_ser]


end SeqIo.Serde
