import SeqIoModel.Model.History
/-!
# FASTA histories: no reader operation touches the scripted seek failures of the source
-/
open SeqIo

namespace SeqIo.Fasta.Hist

theorem read_seekFails (s : Src) (space : Nat) : (s.read space).1.seekFails = s.seekFails := by
  unfold Src.read
  split <;> rfl

theorem readIntoBuf_seekFails (b : BufRd) : b.readIntoBuf.1.src.seekFails = b.src.seekFails := by
  unfold BufRd.readIntoBuf
  split
  · rfl
  · exact read_seekFails _ _

theorem fillBufAux_seekFails (fuel : Nat) (b : BufRd) (num : Nat) :
    (fillBufAux fuel b num).1.src.seekFails = b.src.seekFails := by
  induction fuel generalizing b num with
  | zero => rfl
  | succ f ih =>
    unfold fillBufAux
    split
    · have h := readIntoBuf_seekFails b
      split <;> rename_i heq <;> rw [heq] at h <;> simp only at h
      · exact h
      · rw [ih]; exact h
      · rw [ih]; exact h
      · exact h
    · rfl

theorem fillBuf_seekFails (b : BufRd) : (fillBuf b).1.src.seekFails = b.src.seekFails :=
  fillBufAux_seekFails _ _ _

theorem fillBuf_seekFails' {b b' : BufRd} {x : Except IoKind Nat} (h : fillBuf b = (b', x)) :
    b'.src.seekFails = b.src.seekFails := by
  have := fillBuf_seekFails b
  rw [h] at this
  exact this

end SeqIo.Fasta.Hist
