import SeqIoModel.Proofs.FastaHistoryInv
/-!
# FASTA histories, part 4: `read_record_set` / `read_record_set_exact`

The loop invariant `LoopInv`: the positions stored so far are the records `k0, k0+1, …` of S,
located in the reader's *current* buffer (while something is stored the buffer is only ever
extended: `is_new = false` makes `resume_incomplete_search` grow instead of shifting).
-/
open SeqIo SeqIo.FillProofs SeqIo.Spec

namespace SeqIo.Fasta.Hist

/-! ## `RecordSet.store` -/

theorem store_npos (rs : RecordSet) (bp : BufPos) : (rs.store bp).npos = rs.npos + 1 := rfl

theorem store_buffer (rs : RecordSet) (bp : BufPos) : (rs.store bp).buffer = rs.buffer := rfl

theorem store_len (rs : RecordSet) (bp : BufPos) (h : rs.npos ≤ rs.positions.length) :
    (rs.store bp).npos ≤ (rs.store bp).positions.length := by
  unfold RecordSet.store
  simp only
  split
  · rw [List.length_set]; omega
  · rw [List.length_append, List.length_singleton]; omega

theorem store_get_new (rs : RecordSet) (bp : BufPos) (h : rs.npos ≤ rs.positions.length) :
    (rs.store bp).positions[rs.npos]? = some bp := by
  unfold RecordSet.store
  simp only
  split
  · rename_i hlt
    rw [List.getElem?_set_self hlt]
  · have : rs.npos = rs.positions.length := by omega
    rw [this, List.getElem?_append_right (Nat.le_refl _)]
    simp

theorem store_get_old (rs : RecordSet) (bp : BufPos) (i : Nat) (hi : i < rs.npos)
    (h : rs.npos ≤ rs.positions.length) :
    (rs.store bp).positions[i]? = rs.positions[i]? := by
  unfold RecordSet.store
  simp only
  split
  · rw [List.getElem?_set_ne (by omega)]
  · rw [List.getElem?_append_left (by omega)]

/-! ## the loop invariant -/

/-- the first `npos` stored positions are the records `k0, k0 + 1, …` of S, located in a window
with base `B` and `len` bytes -/
structure Acc (inp : List UInt8) (B len : Nat) (rs : RecordSet) (k0 : Nat) : Prop where
  npos_le : rs.npos ≤ rs.positions.length
  recs : ∀ i, i < rs.npos → ∃ bp rc, rs.positions[i]? = some bp ∧
    (recsOf inp)[k0 + i]? = some rc ∧ RecAt inp B len bp rc.byte

theorem Acc.mono {inp : List UInt8} {B len len' : Nat} {rs : RecordSet} {k0 : Nat}
    (h : Acc inp B len rs k0) (hl : len ≤ len') : Acc inp B len' rs k0 :=
  ⟨h.npos_le, fun i hi => by
    obtain ⟨bp, rc, h1, h2, h3⟩ := h.recs i hi
    exact ⟨bp, rc, h1, h2, h3.mono hl⟩⟩

theorem Acc.empty {inp : List UInt8} {B B' len len' : Nat} {rs : RecordSet} {k0 : Nat}
    (h : Acc inp B len rs k0) (h0 : rs.npos = 0) : Acc inp B' len' rs k0 :=
  ⟨h.npos_le, fun i hi => by omega⟩

theorem Acc.store {inp : List UInt8} {B len : Nat} {rs : RecordSet} {k0 : Nat}
    (h : Acc inp B len rs k0) (bp : BufPos) (rc : FaRec)
    (hrc : (recsOf inp)[k0 + rs.npos]? = some rc) (hat : RecAt inp B len bp rc.byte) :
    Acc inp B len (rs.store bp) k0 := by
  refine ⟨store_len rs bp h.npos_le, ?_⟩
  intro i hi
  rw [store_npos] at hi
  by_cases hlt : i < rs.npos
  · obtain ⟨bp', rc', h1, h2, h3⟩ := h.recs i hlt
    exact ⟨bp', rc', by rw [store_get_old rs bp i hlt h.npos_le]; exact h1, h2, h3⟩
  · have : i = rs.npos := by omega
    subst this
    exact ⟨bp, rc, store_get_new rs bp h.npos_le, hrc, hat⟩

/-- a reader between two iterations of the loop, `k` = index of the next record -/
def LoopRd (inp : List UInt8) (r : Reader) (k : Nat) (npos : Nat) : Prop :=
  (Ready inp r k ∧ (r.state = .positioned ∨ r.state = .incomplete)) ∨
  (Fin inp r ∧ k = (recsOf inp).length ∧ 1 ≤ npos ∧ r.bp.seqPos = [])

structure LoopInv (inp : List UInt8) (r : Reader) (rs : RecordSet) (k0 : Nat) (n : Option Nat)
    (isNew : Bool) : Prop where
  acc : Acc inp (base r) r.br.buf.length rs k0
  rd : LoopRd inp r (k0 + rs.npos) rs.npos
  new : r.state = .incomplete → isNew = true → rs.npos = 0
  lim : ∀ n', n = some n' → rs.npos < n'

/-- the result of a record set read that delivers records: records `k0 … k0 + npos - 1` -/
structure SetGood (inp : List UInt8) (r' : Reader) (rs' : RecordSet) (k0 : Nat) (n : Option Nat) :
    Prop where
  acc : Acc inp (base r') r'.br.buf.length rs' k0
  pos : 1 ≤ rs'.npos
  inv : RInv inp r' (k0 + rs'.npos)
  st : r'.state ≠ .new
  exact : ∀ n', n = some n' → rs'.npos = n' ∨ (rs'.npos < n' ∧ k0 + rs'.npos = (recsOf inp).length)
  position : position r' = none ∨
    ∃ rc, (recsOf inp)[k0 + rs'.npos]? = some rc ∧ position r' = some (posOf rc)

/-- the two outcomes of the loop -/
def SetOut (inp : List UInt8) (k0 : Nat) (n : Option Nat) (pol0 : Pol) (r' : Reader)
    (rs' : RecordSet) (res : Res Bool) : Prop :=
  (res = .ok true ∧ SetGood inp r' rs' k0 n) ∨
  (res = .err .bufferLimit ∧ ¬ PolGrows pol0 ∧ rs'.npos = 0 ∧ ∃ k', RInv inp r' k' ∧ r'.state ≠ .new)

/-- termination measure of the loop -/
def mu (inp : List UInt8) (r : Reader) : Nat :=
  if r.state = .finished then 0
  else 2 * (inp.length - (r.searchPos + base r)) + (if r.state = .incomplete then 1 else 2)

theorem position_ready {inp : List UInt8} {r : Reader} {k : Nat} (h : Ready inp r k) :
    position r = none ∨ ∃ rc, (recsOf inp)[k]? = some rc ∧ position r = some (posOf rc) := by
  obtain ⟨rc, hk, hb, hl, _⟩ := pt_step h.pt
  unfold position
  split
  · exact Or.inl rfl
  · exact Or.inr ⟨rc, hk, by rw [posOf, hb, hl]⟩

theorem recDone_state {inp : List UInt8} {r : Reader} {s : Nat} (h : RecDone inp r s)
    (hst : r.state ≠ .finished) (st : State) (hst' : st ≠ .finished) :
    RecDone inp { r with state := st } s := by
  refine ⟨h.start_eq, h.pos_le, h.fin, ?_, h.nxt⟩
  constructor
  · intro h'; exact absurd h' hst'
  · intro h'; exact absurd (h.st.mpr h') hst

theorem storeStep_eq (n : Option Nat) (r : Reader) (rs : RecordSet) (hle : r.bp.start ≤ r.searchPos) :
    storeStep n r rs = some (incRec r, rs.store r.bp, decide (n = some (rs.store r.bp).npos)) := by
  simp only [storeStep, incrementRecord_eq r hle]

theorem loopRd_out {inp : List UInt8} {r : Reader} {k npos : Nat} (h : LoopRd inp r k npos) :
    RInv inp r k ∧ r.state ≠ .new ∧
      (position r = none ∨ ∃ rc, (recsOf inp)[k]? = some rc ∧ position r = some (posOf rc)) := by
  rcases h with ⟨hr, hst⟩ | ⟨hfin, hk, _, hsq⟩
  · refine ⟨RInv.ready hr hst, ?_, position_ready hr⟩
    rcases hst with h | h <;> rw [h] <;> intro h' <;> cases h'
  · refine ⟨RInv.finished hfin hk, ?_, Or.inl ?_⟩
    · rw [hfin.st]; intro h; cases h
    · unfold position
      rw [hsq]
      rfl

/-- a completely found record is stored and the reader moves on to the next one -/
theorem store_step {inp : List UInt8} {r2 : Reader} {rs : RecordSet} {k0 : Nat}
    (hacc : Acc inp (base r2) r2.br.buf.length rs k0) (hw : Win inp r2) (he : Eof inp r2)
    (hd : RecDone inp r2 r2.byte) (hp : Pt inp (k0 + rs.npos) r2.byte r2.line)
    (hst : r2.state = .positioned ∨ r2.state = .finished) (hsl : r2.bp.start ≤ r2.searchPos) :
    Acc inp (base (incRec r2)) (incRec r2).br.buf.length (rs.store r2.bp) k0 ∧
    LoopRd inp (incRec r2) (k0 + (rs.store r2.bp).npos) (rs.store r2.bp).npos ∧
    ((incRec r2).state ≠ .finished →
      (scan (inp.drop r2.byte) r2.byte []).1 = true ∧
      (incRec r2).searchPos + base (incRec r2) = (scan (inp.drop r2.byte) r2.byte []).2.1) := by
  obtain ⟨rc, hk, hby, _, _, _, _, hcase⟩ := recDone_core hw he hd hp
  refine ⟨?_, ?_, ?_⟩
  · exact hacc.store r2.bp rc hk (by rw [hby]; exact recAt_of_recDone hd)
  · rw [store_npos]
    rcases hcase with ⟨hpar, hnf⟩ | ⟨h1, h2, h3, h4, h5⟩
    · have hpos : r2.state = .positioned := by
        rcases hst with h | h
        · exact h
        · exact absurd h hnf
      left
      refine ⟨?_, Or.inl hpos⟩
      have := ready_incRec' hpar (by rw [hpos]; intro h; cases h)
      rw [← Nat.add_assoc]; exact this
    · right
      refine ⟨⟨⟨hw.b, hw.pol⟩, he, h3, ?_⟩, by omega, by omega, rfl⟩
      show r2.byte + (r2.searchPos - r2.bp.start) = r2.searchPos + base r2
      omega
  · intro hnf
    have hnf2 : r2.state ≠ .finished := hnf
    have hf : (scan (inp.drop r2.byte) r2.byte []).1 = true := by
      cases h : (scan (inp.drop r2.byte) r2.byte []).1 with
      | true => rfl
      | false => exact absurd (hd.st.mpr h) hnf2
    exact ⟨hf, (hd.nxt hf).1.symm⟩

theorem setGood_of_loopRd {inp : List UInt8} {r : Reader} {rs : RecordSet} {k0 : Nat}
    {n : Option Nat} (hacc : Acc inp (base r) r.br.buf.length rs k0)
    (hrd : LoopRd inp r (k0 + rs.npos) rs.npos) (hpos : 1 ≤ rs.npos)
    (hex : ∀ n', n = some n' → rs.npos = n' ∨ (rs.npos < n' ∧ k0 + rs.npos = (recsOf inp).length)) :
    SetGood inp r rs k0 n := by
  obtain ⟨h1, h2, h3⟩ := loopRd_out hrd
  exact ⟨hacc, hpos, h1, h2, hex, h3⟩

/-- the part of a loop iteration after a record has been found -/
theorem after_store {inp : List UInt8} {fuel f : Nat} {n : Option Nat} {isNew : Bool} {k0 : Nat}
    (ih : ∀ (r : Reader) (rs : RecordSet), LoopInv inp r rs k0 n isNew → mu inp r < f →
      ∃ r' rs' res, setLoop f fuel n isNew r rs = (r', rs', res) ∧ Frame r r' ∧
        SetOut inp k0 n r.pol r' rs' res)
    {r2 : Reader} {rs : RecordSet}
    (hacc : Acc inp (base r2) r2.br.buf.length rs k0) (hw : Win inp r2) (he : Eof inp r2)
    (hd : RecDone inp r2 r2.byte) (hp : Pt inp (k0 + rs.npos) r2.byte r2.line)
    (hst : r2.state = .positioned ∨ r2.state = .finished) (hsl : r2.bp.start ≤ r2.searchPos)
    (hlim : ∀ n', n = some n' → rs.npos < n') (hmu : mu inp (incRec r2) < f) :
    ∃ r' rs' res,
      (match storeStep n r2 rs with
        | none => (r2, rs, Out.panic)
        | some (r, rs, true) => (r, rs, .ok true)
        | some (r, rs, false) => setLoop f fuel n isNew r rs) = (r', rs', res) ∧
      Frame r2 r' ∧ SetOut inp k0 n r2.pol r' rs' res := by
  obtain ⟨hacc', hrd', _⟩ := store_step hacc hw he hd hp hst hsl
  rw [storeStep_eq n r2 rs hsl]
  have hst3 : (incRec r2).state ≠ .incomplete := by
    show r2.state ≠ .incomplete
    rcases hst with h | h <;> rw [h] <;> intro h' <;> cases h'
  by_cases hn : n = some (rs.store r2.bp).npos
  · simp only [hn, decide_true]
    refine ⟨_, _, _, rfl, ⟨rfl, rfl⟩, Or.inl ⟨rfl, ?_⟩⟩
    rw [← hn]
    refine setGood_of_loopRd hacc' hrd' (by rw [store_npos]; omega) ?_
    intro n' hn'
    rw [hn] at hn'
    exact Or.inl (Option.some.inj hn')
  · simp only [hn, decide_false]
    have hinv : LoopInv inp (incRec r2) (rs.store r2.bp) k0 n isNew := by
      refine ⟨hacc', hrd', fun h => absurd h hst3, ?_⟩
      intro n' hn'
      have := hlim n' hn'
      rw [store_npos]
      rw [hn', store_npos] at hn
      have : n' ≠ rs.npos + 1 := fun h => hn (by rw [h])
      omega
    obtain ⟨r', rs', res, hloop, hfr, hout⟩ := ih _ _ hinv hmu
    exact ⟨r', rs', res, hloop, ⟨hfr.polf, hfr.seekFails⟩, hout⟩

theorem SetOut.congr_pol {inp : List UInt8} {k0 : Nat} {n : Option Nat} {p q : Pol} {r' : Reader}
    {rs' : RecordSet} {res : Res Bool} (h : SetOut inp k0 n p r' rs' res) (hpq : p.f = q.f) :
    SetOut inp k0 n q r' rs' res := by
  rcases h with h | ⟨h1, h2, h3⟩
  · exact Or.inl h
  · exact Or.inr ⟨h1, fun hg => h2 (polGrows_congr hpq hg), h3⟩

theorem mu_pos {inp : List UInt8} {r : Reader} (h : r.state ≠ .finished) : 1 ≤ mu inp r := by
  unfold mu
  rw [if_neg h]
  split <;> omega

theorem abs_le {inp : List UInt8} {r : Reader} (hw : Win inp r) (hsp : r.searchPos ≤ r.br.buf.length) :
    r.searchPos + base r ≤ inp.length := by
  have := hw.b.base_add
  have := hw.b.cur_le
  unfold base
  omega

/-- the measure after storing a record that was found behind absolute position `a` -/
theorem mu_after {inp : List UInt8} {r r3 : Reader} (hnf : r.state ≠ .finished)
    (hw3 : Win inp r3)
    (hadv : r3.state ≠ .finished → r3.searchPos ≤ r3.br.buf.length ∧
      r.searchPos + base r < r3.searchPos + base r3) :
    mu inp r3 < mu inp r := by
  by_cases h3 : r3.state = .finished
  · have := mu_pos (inp := inp) hnf
    unfold mu at *
    rw [if_pos h3]
    omega
  · obtain ⟨hsp3, _⟩ := hadv h3
    have := abs_le hw3 hsp3
    unfold mu
    rw [if_neg h3, if_neg hnf]
    split <;> split <;> omega

theorem setLoop_unfold (f fuel : Nat) (n : Option Nat) (isNew : Bool) (r : Reader) (rs : RecordSet) :
    setLoop (f + 1) fuel n isNew r rs =
      if r.state = .finished then (r, rs, .ok true)
      else if r.state = .incomplete then
        match resume fuel isNew r with
        | (r, .ok true) =>
          let r := if r.state ≠ .finished then { r with state := .positioned } else r
          match storeStep n r rs with
          | none => (r, rs, .panic)
          | some (r, rs, true) => (r, rs, .ok true)
          | some (r, rs, false) => setLoop f fuel n isNew r rs
        | (r, .ok false) => (r, rs, .ok false)
        | (r, .err e) => (r, { rs with npos := 0 }, .err e)
        | (r, .panic) => (r, rs, .panic)
        | (r, .fuel) => (r, rs, .fuel)
      else
        match search r with
        | none => (r, rs, .panic)
        | some (r, false) =>
          if rs.npos = 0 then setLoop f fuel n isNew r rs
          else match n with
            | some n' => if rs.npos < n' then setLoop f fuel n false r rs else (r, rs, .ok true)
            | none => (r, rs, .ok true)
        | some (r, true) =>
          match storeStep n r rs with
          | none => (r, rs, .panic)
          | some (r, rs, true) => (r, rs, .ok true)
          | some (r, rs, false) => setLoop f fuel n isNew r rs := by
  rw [setLoop]
  rfl

/-- the record found when the scan state of `r` is completed lies behind `r`'s search position -/
theorem found_advance {inp : List UInt8} {r : Reader} {s : Nat} (hs : ScanSt inp r s)
    (hf : (scan (inp.drop s) s []).1 = true) :
    r.searchPos + base r < (scan (inp.drop s) s []).2.1 := by
  have := scan_found_lt (inp.drop (r.searchPos + base r)) (r.searchPos + base r)
    (r.bp.seqPos.map (· + base r)) (by rw [hs.resum]; exact hf)
  rw [hs.resum] at this
  exact this

theorem setLoop_spec {inp : List UInt8} {fuel : Nat} {n : Option Nat} {k0 : Nat}
    (hfuel : inp.length < fuel) :
    ∀ (f : Nat) (isNew : Bool) (r : Reader) (rs : RecordSet), LoopInv inp r rs k0 n isNew →
      mu inp r < f →
      ∃ r' rs' res, setLoop f fuel n isNew r rs = (r', rs', res) ∧ Frame r r' ∧
        SetOut inp k0 n r.pol r' rs' res := by
  intro f
  induction f with
  | zero => intro _ _ _ _ h; omega
  | succ f ih =>
    intro isNew r rs hinv hmu
    rw [setLoop_unfold]
    rcases hinv.rd with ⟨hr, hst⟩ | ⟨hfin, hk, hpos, hsq⟩
    · have hnf : r.state ≠ .finished := by
        rcases hst with h | h <;> rw [h] <;> intro h' <;> cases h'
      rw [if_neg hnf]
      have hcl := hr.win.b.cur_le
      -- the measure after storing the record found from `r`'s scan state
      have hmu_store : ∀ r2 : Reader, Win inp r2 → RecDone inp r2 r2.byte → r2.byte = r.byte →
          mu inp (incRec r2) < f := by
        intro r2 hw2 hd2 hb2
        have : mu inp (incRec r2) < mu inp r := by
          apply mu_after hnf ⟨hw2.b, hw2.pol⟩
          intro hnf3
          have hnf2 : r2.state ≠ .finished := hnf3
          have hf : (scan (inp.drop r2.byte) r2.byte []).1 = true := by
            cases h : (scan (inp.drop r2.byte) r2.byte []).1 with
            | true => rfl
            | false => exact absurd (hd2.st.mpr h) hnf2
          obtain ⟨h1, h2, h3⟩ := hd2.nxt hf
          refine ⟨h3, ?_⟩
          show r.searchPos + base r < r2.searchPos + base r2
          rw [← h1, hb2]
          rw [hb2] at hf
          exact found_advance hr.scan hf
        omega
      rcases hst with hst | hst
      · -- state `positioned`: search in the buffer
        have hni : r.state ≠ .incomplete := by rw [hst]; intro h; cases h
        rw [if_neg hni]
        obtain ⟨r1, fnd, hsearch, hbr1, hpol1, hlog1, hl1, hb1, hstart1, htrue, hfalse⟩ :=
          search_step hr.win hr.eof hr.scan hnf
        obtain ⟨hmono, _⟩ := search_mono hsearch hr.scan.sp_le
        have hw1 : Win inp r1 := ⟨by rw [hbr1]; exact hr.win.b, by rw [hpol1]; exact hr.win.pol⟩
        have he1 : Eof inp r1 := by unfold Eof; rw [hbr1]; exact hr.eof
        have hfr1 : Frame r r1 := ⟨by rw [hpol1], by rw [hbr1]⟩
        have hbase1 : base r1 = base r := by unfold base; rw [hbr1]
        have hacc1 : Acc inp (base r1) r1.br.buf.length rs k0 := by
          rw [hbase1, hbr1]; exact hinv.acc
        rw [hsearch]
        cases fnd with
        | true =>
          obtain ⟨hdone, hstate⟩ := htrue rfl
          simp only
          obtain ⟨r', rs', res, hres, hfr', hout⟩ := after_store (ih isNew) hacc1 hw1 he1
            (by rw [hb1]; exact hdone) (by rw [hb1, hl1]; exact hr.pt)
            (by rcases hstate with h | h
                · left; rw [h, hst]
                · right; exact h)
            (by have := hr.scan.start_le; omega) hinv.lim
            (hmu_store r1 hw1 (by rw [hb1]; exact hdone) hb1)
          exact ⟨r', rs', res, hres, hfr1.trans hfr', by rw [← hpol1]; exact hout⟩
        | false =>
          obtain ⟨hs1, hst1, hfull, hnear⟩ := hfalse rfl
          simp only
          have hr1 : Ready inp r1 (k0 + rs.npos) :=
            ⟨hw1, he1, by rw [hb1]; exact hs1, by rw [hb1, hl1]; exact hr.pt,
              fun _ => ⟨by rw [hbr1]; exact hfull, by rw [hbr1]; exact hnear⟩⟩
          have hmu1 : mu inp r1 < f := by
            have : mu inp r1 < mu inp r := by
              have := abs_le hw1 hs1.sp_le
              unfold mu
              rw [if_neg hnf, if_neg (by rw [hst1]; intro h; cases h), if_pos hst1, if_neg hni, hbase1]
              omega
            omega
          have hrd1 : LoopRd inp r1 (k0 + rs.npos) rs.npos := Or.inl ⟨hr1, Or.inr hst1⟩
          by_cases h0 : rs.npos = 0
          · rw [if_pos h0]
            obtain ⟨r', rs', res, hres, hfr', hout⟩ :=
              ih isNew r1 rs ⟨hacc1, hrd1, fun _ _ => h0, hinv.lim⟩ hmu1
            exact ⟨r', rs', res, hres, hfr1.trans hfr', by rw [← hpol1]; exact hout⟩
          · rw [if_neg h0]
            cases hn : n with
            | some n' =>
              simp only
              rw [if_pos (hinv.lim n' hn)]
              obtain ⟨r', rs', res, hres, hfr', hout⟩ :=
                ih false r1 rs ⟨hacc1, hrd1, fun _ h => (by cases h), hinv.lim⟩ hmu1
              rw [hn] at hres hout
              exact ⟨r', rs', res, hres, hfr1.trans hfr', by rw [← hpol1]; exact hout⟩
            | none =>
              simp only
              refine ⟨r1, rs, .ok true, rfl, hfr1, Or.inl ⟨rfl, ?_⟩⟩
              exact setGood_of_loopRd hacc1 hrd1 (by omega) (by intro n' h; cases h)
      · -- state `incomplete`: resume the search, refilling the buffer
        rw [if_pos hst]
        obtain ⟨hfull, hnear⟩ := hr.inc hst
        obtain ⟨r1, res1, hres1, hfr1, hw1, hl1, hb1, hmk1, hcase⟩ :=
          resume_any isNew fuel r r.byte hr.win hr.scan hst hfull hnear (by omega)
        rw [hres1]
        have hacc1 : Acc inp (base r1) r1.br.buf.length rs k0 := by
          cases hnew : isNew with
          | true => exact hinv.acc.empty (hinv.new hst hnew)
          | false =>
            obtain ⟨h1, h2⟩ := hmk1 hnew
            rw [h1]
            exact hinv.acc.mono h2
        rcases hcase with ⟨hr1, he1, hd1, hst1, hsl1, _⟩ | ⟨hr1, hng, hs1, hst1, hfull1, hnear1⟩
        · subst hr1
          simp only
          rcases hst1 with hst1 | hst1
          · have hnf1 : r1.state ≠ .finished := by rw [hst1]; intro h; cases h
            rw [if_pos hnf1]
            have hw2 : Win inp { r1 with state := .positioned } := ⟨hw1.b, hw1.pol⟩
            have hd1' : RecDone inp r1 r1.byte := by rw [hb1]; exact hd1
            have hd2 : RecDone inp { r1 with state := .positioned } r1.byte :=
              recDone_state hd1' hnf1 .positioned (by intro h; cases h)
            obtain ⟨r', rs', res, hres, hfr', hout⟩ :=
              after_store (r2 := { r1 with state := .positioned }) (ih isNew) hacc1 hw2 he1 hd2
                (by show Pt inp _ r1.byte r1.line; rw [hb1, hl1]; exact hr.pt) (Or.inl rfl) hsl1
                hinv.lim (hmu_store _ hw2 hd2 hb1)
            exact ⟨r', rs', res, hres, hfr1.trans ⟨hfr'.polf, hfr'.seekFails⟩,
              by have := hout.congr_pol (q := r.pol) hfr1.polf; exact this⟩
          · have hnf1 : ¬ (r1.state ≠ .finished) := by rw [hst1]; simp
            rw [if_neg hnf1]
            obtain ⟨r', rs', res, hres, hfr', hout⟩ :=
              after_store (r2 := r1) (ih isNew) hacc1 hw1 he1 (by rw [hb1]; exact hd1)
                (by rw [hb1, hl1]; exact hr.pt) (Or.inr hst1) hsl1 hinv.lim
                (hmu_store _ hw1 (by rw [hb1]; exact hd1) hb1)
            exact ⟨r', rs', res, hres, hfr1.trans hfr', hout.congr_pol hfr1.polf⟩
        · subst hr1
          simp only
          refine ⟨r1, { rs with npos := 0 }, _, rfl, hfr1, Or.inr ⟨rfl, hng, rfl, k0 + rs.npos, ?_, ?_⟩⟩
          · refine RInv.ready ⟨hw1, ?_, by rw [hb1]; exact hs1, by rw [hb1, hl1]; exact hr.pt,
              fun _ => ⟨hfull1, hnear1⟩⟩ (Or.inr hst1)
            intro hlt; omega
          · rw [hst1]; intro h; cases h
    · rw [if_pos hfin.st]
      refine ⟨r, rs, .ok true, rfl, Frame.refl r, Or.inl ⟨rfl, ?_⟩⟩
      exact setGood_of_loopRd hinv.acc hinv.rd hpos (fun n' hn' => Or.inr ⟨hinv.lim n' hn', hk⟩)

/-! ## the whole call -/

theorem mu_le (inp : List UInt8) (r : Reader) : mu inp r ≤ 2 * inp.length + 2 := by
  unfold mu
  split
  · omega
  · split <;> omega

/-- one `read_record_set[_exact]` call from any reachable state -/
theorem readSet_rinv {inp : List UInt8} {r : Reader} {k fuel : Nat} (h : RInv inp r k)
    (hfuel : 2 * inp.length + 2 < fuel) (rs : RecordSet) (n : Option Nat) (hn : n ≠ some 0) :
    ∃ r' rs' res, readRecordSetExact fuel r rs n = (r', rs', res) ∧ Frame r r' ∧
      ((res = .ok true ∧ rs'.buffer = r'.br.buf ∧ SetGood inp r' rs' k n ∧
          (r.state = .new → (items inp).err = none)) ∨
       (res = .ok false ∧ rs' = rs ∧ k = (recsOf inp).length ∧ Fin inp r' ∧
          (r.state = .new → (items inp).err = none)) ∨
       (∃ ln c, res = .err (.invalidStart ln c) ∧ rs' = rs ∧ r.state = .new ∧ Fin inp r' ∧
          recsOf inp = [] ∧ (items inp).err = some (.invalidStart ln c)) ∨
       (res = .err .bufferLimit ∧ ¬ PolGrows r.pol ∧ rs'.npos = 0 ∧
          (r.state = .new → (items inp).err = none) ∧
          ∃ k', RInv inp r' k' ∧ r'.state ≠ .new)) := by
  have hfuel1 : inp.length < fuel := by omega
  -- the loop from a pending record
  have hloop : ∀ r0 : Reader, Ready inp r0 k → (r0.state = .positioned ∨ r0.state = .incomplete) →
      ∃ r' rs' res, (match setLoop fuel fuel n true r0 { rs with npos := 0 } with
          | (r, rs, .ok true) => (r, { rs with buffer := r.br.buf }, Out.ok true)
          | x => x) = (r', rs', res) ∧ Frame r0 r' ∧
        ((res = .ok true ∧ rs'.buffer = r'.br.buf ∧ SetGood inp r' rs' k n) ∨
         (res = .err .bufferLimit ∧ ¬ PolGrows r0.pol ∧ rs'.npos = 0 ∧
            ∃ k', RInv inp r' k' ∧ r'.state ≠ .new)) := by
    intro r0 hr0 hst0
    have hinv : LoopInv inp r0 { rs with npos := 0 } k n true := by
      refine ⟨⟨Nat.zero_le _, fun i hi => absurd hi (Nat.not_lt_zero _)⟩, Or.inl ⟨hr0, hst0⟩,
        fun _ _ => rfl, ?_⟩
      intro n' hn'
      show 0 < n'
      cases n' with
      | zero => exact absurd hn' hn
      | succ m => omega
    obtain ⟨r', rs', res, hres, hfr, hout⟩ :=
      setLoop_spec hfuel1 fuel true r0 _ hinv (by have := mu_le inp r0; omega)
    rw [hres]
    rcases hout with ⟨hr, hg⟩ | ⟨hr, hng, h0, hk'⟩
    · subst hr
      refine ⟨r', { rs' with buffer := r'.br.buf }, .ok true, rfl, hfr, Or.inl ⟨rfl, rfl, ?_⟩⟩
      exact ⟨⟨hg.acc.npos_le, hg.acc.recs⟩, hg.pos, hg.inv, hg.st, hg.exact, hg.position⟩
    · subst hr
      exact ⟨r', rs', _, rfl, hfr, Or.inr ⟨rfl, hng, h0, hk'⟩⟩
  cases h with
  | fresh hf =>
    obtain ⟨r1, res1, hinit, hfr1, hcase⟩ := init_fresh hf hfuel1
    rcases hcase with ⟨hres, herr, hready⟩ | ⟨hres, hfin, hrecs, herr⟩ | ⟨ln, c, hres, hfin, hrecs, herr⟩
    · subst hres
      obtain ⟨r', rs', res, hl, hfr', hout⟩ :=
        hloop { r1 with state := .positioned } (hready .positioned (by intro h; cases h)) (Or.inl rfl)
      refine ⟨r', rs', res, by simp only [readRecordSetExact, hf.st, hinit]; exact hl,
        hfr1.trans ⟨hfr'.polf, hfr'.seekFails⟩, ?_⟩
      rcases hout with ⟨h1, h2, h3⟩ | ⟨h1, h2, h3⟩
      · exact Or.inl ⟨h1, h2, h3, fun _ => herr⟩
      · exact Or.inr (Or.inr (Or.inr ⟨h1, fun hg => h2 (polGrows_congr hfr1.polf hg), h3.1,
          fun _ => herr, h3.2⟩))
    · subst hres
      exact ⟨r1, rs, _, by simp only [readRecordSetExact, hf.st, hinit], hfr1,
        Or.inr (Or.inl ⟨rfl, rfl, by rw [hrecs]; rfl, hfin, fun _ => herr⟩)⟩
    · subst hres
      exact ⟨r1, rs, _, by simp only [readRecordSetExact, hf.st, hinit], hfr1,
        Or.inr (Or.inr (Or.inl ⟨ln, c, rfl, rfl, hf.st, hfin, hrecs, herr⟩))⟩
  | parsing hp hst0 =>
    obtain ⟨r', rs', res, hl, hfr', hout⟩ :=
      hloop { incRec r with state := .positioned } (ready_incRec hp .positioned (by intro h; cases h))
        (Or.inl rfl)
    refine ⟨r', rs', res, by simp only [readRecordSetExact, hst0, incrementRecord_eq r hp.start_le]; exact hl,
      ⟨hfr'.polf, hfr'.seekFails⟩, ?_⟩
    rcases hout with ⟨h1, h2, h3⟩ | ⟨h1, h2, h3, h4⟩
    · exact Or.inl ⟨h1, h2, h3, fun h => by rw [hst0] at h; cases h⟩
    · exact Or.inr (Or.inr (Or.inr ⟨h1, h2, h3, fun h => (by rw [hst0] at h; cases h), h4⟩))
  | ready hr hst =>
    obtain ⟨r', rs', res, hl, hfr', hout⟩ := hloop r hr hst
    have hnn : r.state ≠ .new := by rcases hst with h | h <;> rw [h] <;> intro h' <;> cases h'
    refine ⟨r', rs', res, ?_, hfr', ?_⟩
    · rcases hst with h | h <;> simp only [readRecordSetExact, h] <;> exact hl
    · rcases hout with ⟨h1, h2, h3⟩ | ⟨h1, h2, h3, h4⟩
      · exact Or.inl ⟨h1, h2, h3, fun h => absurd h hnn⟩
      · exact Or.inr (Or.inr (Or.inr ⟨h1, h2, h3, fun h => absurd h hnn, h4⟩))
  | finished hfin hk =>
    refine ⟨r, rs, .ok false, by simp only [readRecordSetExact, hfin.st], Frame.refl r,
      Or.inr (Or.inl ⟨rfl, rfl, hk, hfin, ?_⟩)⟩
    intro h
    rw [hfin.st] at h
    cases h

/-! ## what iterating over a filled set shows -/

theorem allSome_map_some {α : Type} (l : List α) : allSome (l.map some) = some l := by
  induction l with
  | nil => rfl
  | cons x xs ih => simp only [List.map_cons, allSome, ih, Option.map_some]

/-- iterating over the set shows exactly the records `lo, …, lo + len - 1` of S -/
def SetOk (inp : List UInt8) (rs : RecordSet) (lo len : Nat) : Prop :=
  obsDump rs = .dump ((((recsOf inp).drop lo).take len).map view)

theorem setOk_of_acc {inp : List UInt8} {r : Reader} {rs : RecordSet} {k0 : Nat} (hw : Win inp r)
    (hacc : Acc inp (base r) r.br.buf.length rs k0) (hbuf : rs.buffer = r.br.buf) :
    SetOk inp rs k0 rs.npos := by
  have hl : (rs.positions.take rs.npos).map (viewRec rs.buffer) =
      ((((recsOf inp).drop k0).take rs.npos).map view).map some := by
    apply List.ext_getElem?
    intro i
    simp only [List.getElem?_map, List.getElem?_take, List.getElem?_drop]
    by_cases hi : i < rs.npos
    · obtain ⟨bp, rc, h1, h2, h3⟩ := hacc.recs i hi
      obtain ⟨rc', hk', _, _, hH, hSL, _⟩ :=
        view_of_recAt hw.b.base_le hw.b.win h3 (pt_all inp (k0 + i) rc h2)
      rw [h2] at hk'
      cases hk'
      simp only [hi, if_true, h1, h2, Option.map_some, hbuf, viewRec_of hH hSL]
    · simp only [hi, if_false, Option.map_none]
  unfold SetOk obsDump
  rw [hl, allSome_map_some]

end SeqIo.Fasta.Hist
