import SeqIoModel.Proofs.FastaHistory
import SeqIoModel.Proofs.FastaStreamGrowth
import SeqIoModel.Proofs.FastaFaultOps
/-!
# Policy requests of record set reads, part 1: what does not ask the policy

`LC r r'`: log, policy and capacity of `r'` are those of `r`.
-/
open SeqIo SeqIo.FillProofs SeqIo.Spec

namespace SeqIo.Fasta.Hist

/-- nothing about the policy, its log or the capacity has changed -/
structure LC (r r' : Reader) : Prop where
  log : r'.log = r.log
  pol : r'.pol = r.pol
  cap : r'.br.cap = r.br.cap

theorem LC.refl (r : Reader) : LC r r := ⟨rfl, rfl, rfl⟩

theorem LC.trans {a b c : Reader} (h1 : LC a b) (h2 : LC b c) : LC a c :=
  ⟨by rw [h2.log, h1.log], by rw [h2.pol, h1.pol], by rw [h2.cap, h1.cap]⟩

theorem LC.growth {r r' : Reader} (h : LC r r') : Growth r r' [] :=
  Growth.same h.log (by rw [h.pol]) h.cap

theorem growth_lc_right {r r' r'' : Reader} {new : List (Nat × Option Nat)} (h : Growth r r' new)
    (h2 : LC r' r'') : Growth r r'' new :=
  ⟨by rw [h2.log, h.log], by rw [h2.pol, h.polf], by rw [h2.cap]; exact h.chain⟩

theorem growth_lc_left {r0 r r' : Reader} {new : List (Nat × Option Nat)} (h1 : LC r0 r)
    (h : Growth r r' new) : Growth r0 r' new :=
  ⟨by rw [h.log, h1.log], by rw [h.polf, h1.pol], by rw [← h1.cap]; exact h.chain⟩

theorem fillBuf_cap (b : BufRd) : (fillBuf b).1.cap = b.cap := by
  have := fillBuf_spec b
  split at this
  · rename_i b' n heq
    rw [heq]; exact this.2.2.1
  · rename_i b' k heq
    obtain ⟨_, _, _, _, _, _, _, _, hc, _⟩ := this
    rw [heq]; exact hc

theorem firstByte_lc : ∀ (fu : Nat) (r : Reader), LC r (firstByte fu r).1 := by
  intro fu
  induction fu with
  | zero => intro r; exact LC.refl r
  | succ f ih =>
    intro r
    have hc := fillBuf_cap r.br
    rw [firstByte]
    rcases hfill : fillBuf r.br with ⟨br, res⟩
    rw [hfill] at hc
    simp only at hc ⊢
    cases res with
    | error k => exact ⟨rfl, rfl, hc⟩
    | ok n =>
      cases n with
      | zero => exact ⟨rfl, rfl, hc⟩
      | succ n' =>
        simp only
        cases scanBlank (splitLF br.buf) r.line 0 0 with
        | inl x => exact ⟨rfl, rfl, hc⟩
        | inr x =>
          obtain ⟨ln, pos, ll⟩ := x
          simp only
          cases csub pos (1 + ll) with
          | none => exact ⟨rfl, rfl, hc⟩
          | some c =>
            cases csub ln 1 with
            | none => exact ⟨rfl, rfl, hc⟩
            | some l1 =>
              have := ih { r with line := l1, byte := r.byte + c, br := br.consume c }
              exact ⟨this.log, this.pol, by rw [this.cap]; exact hc⟩

theorem init_lc (fu : Nat) (r : Reader) : LC r (init fu r).1 := by
  have := firstByte_lc fu r
  unfold init
  rcases hfb : firstByte fu r with ⟨r1, res⟩
  rw [hfb] at this
  simp only at this ⊢
  cases res with
  | ok o =>
    cases o with
    | none => exact ⟨this.log, this.pol, this.cap⟩
    | some x =>
      obtain ⟨ln, pos, b⟩ := x
      simp only
      split
      · exact ⟨this.log, this.pol, this.cap⟩
      · exact ⟨this.log, this.pol, this.cap⟩
  | err e => exact this
  | panic => exact this
  | fuel => exact this

theorem search_frame {r r' : Reader} {f : Bool} (h : search r = some (r', f)) :
    r'.br = r.br ∧ r'.pol = r.pol ∧ r'.log = r.log ∧
      (f = true → r'.state = r.state ∨ r'.state = .finished) ∧
      (f = false → r'.state = .incomplete ∧ r.br.cap ≤ r.br.buf.length) := by
  unfold search search_ at h
  split at h
  · cases h
  · rename_i r1 heq
    split at heq
    · simp only [Option.some.injEq, Prod.mk.injEq] at heq h
      obtain ⟨rfl, _⟩ := heq
      obtain ⟨rfl, rfl⟩ := h
      exact ⟨rfl, rfl, rfl, fun _ => Or.inl rfl, fun h => by cases h⟩
    · cases heq
  · rename_i r1 heq
    split at heq
    · simp only [Option.some.injEq, Prod.mk.injEq] at heq
      obtain ⟨rfl, _⟩ := heq
      split at h
      · simp only [Option.some.injEq, Prod.mk.injEq] at h
        obtain ⟨rfl, rfl⟩ := h
        exact ⟨rfl, rfl, rfl, fun _ => Or.inr rfl, fun h => by cases h⟩
      · rename_i hlt
        simp only [Option.some.injEq, Prod.mk.injEq] at h
        obtain ⟨rfl, rfl⟩ := h
        exact ⟨rfl, rfl, rfl, (fun h => by cases h), fun _ => ⟨rfl, by simpa using hlt⟩⟩
    · cases heq

theorem search_lc {r r' : Reader} {f : Bool} (h : search r = some (r', f)) : LC r r' := by
  obtain ⟨h1, h2, h3, _⟩ := search_frame h
  exact ⟨h3, h2, by rw [h1]⟩

theorem incrementRecord_frame {r r1 : Reader} (h : incrementRecord r = some r1) :
    LC r r1 ∧ r1.state = r.state ∧ r1.br = r.br := by
  unfold incrementRecord at h
  split at h
  · cases h
  · simp only [Option.some.injEq] at h
    subst h
    exact ⟨⟨rfl, rfl, rfl⟩, rfl, rfl⟩

theorem storeStep_frame {n : Option Nat} {r r1 : Reader} {rs rs1 : RecordSet} {b : Bool}
    (h : storeStep n r rs = some (r1, rs1, b)) :
    LC r r1 ∧ r1.state = r.state ∧ rs1.npos = rs.npos + 1 ∧ (n = none → b = false) := by
  unfold storeStep at h
  simp only at h
  split at h
  · cases h
  · rename_i r2 hinc
    simp only [Option.some.injEq, Prod.mk.injEq] at h
    obtain ⟨rfl, rfl, rfl⟩ := h
    obtain ⟨h1, h2, _⟩ := incrementRecord_frame hinc
    refine ⟨h1, h2, rfl, ?_⟩
    intro hn
    subst hn
    simp

end SeqIo.Fasta.Hist
