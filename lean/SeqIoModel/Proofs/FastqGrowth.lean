import SeqIoModel.Proofs.FastqHistory
/-!
# Growth bookkeeping of the FASTQ reader (C09)

Every `next` call extends the log of policy requests by a well-formed chain: each entry
`(c, a)` is made at the capacity `c` of that moment (first the capacity on entry, then the
previous answer), a granted request raises the capacity to the answer, `BufferLimit` is returned
iff the last request was refused; and requests are made only while the group being parsed does
not fit into the buffer.
-/

namespace SeqIo.Fastq
open SeqIo SeqIo.Spec SeqIo.FillProofs SeqIo.Fastq.Hist

/-! ## reading a `GrowLog` -/

theorem GrowLog.nil_inv {c cf : Nat} {b : Bool} (h : GrowLog c [] cf b) : cf = c ∧ b = false := by
  cases h; exact ⟨rfl, rfl⟩

/-- the capacities passed to the policy: the one on entry, then the previous answers -/
theorem GrowLog.caps {c cf : Nat} {new : List (Nat × Option Nat)} {b : Bool}
    (h : GrowLog c new cf b) :
    new.map Prod.fst = (c :: new.filterMap Prod.snd).take new.length := by
  induction h with
  | nil c => rfl
  | grant c n rest cf b _ _ ih => simp [ih]
  | refuse c => rfl

/-- the final capacity is the last granted answer (the capacity on entry if there is none) -/
theorem GrowLog.final {c cf : Nat} {new : List (Nat × Option Nat)} {b : Bool}
    (h : GrowLog c new cf b) : cf = (new.filterMap Prod.snd).getLastD c := by
  induction h with
  | nil c => rfl
  | grant c n rest cf b _ _ ih =>
    rw [ih]
    simp only [List.filterMap_cons]
    cases hr : List.filterMap Prod.snd rest with
    | nil => rfl
    | cons y ys =>
      simp only [List.getLastD_eq_getLast?]
      cases hl : (y :: ys).getLast? with
      | none => simp at hl
      | some z => rw [List.getLast?_cons_cons, hl]; rfl
  | refuse c => rfl

/-- every granted answer is larger than the capacity passed -/
theorem GrowLog.grows {c cf : Nat} {new : List (Nat × Option Nat)} {b : Bool}
    (h : GrowLog c new cf b) : ∀ c' n, (c', some n) ∈ new → c' < n := by
  induction h with
  | nil c => intro c' n hm; cases hm
  | grant c n rest cf b hlt _ ih =>
    intro c' n' hm
    simp only [List.mem_cons, Prod.mk.injEq, Option.some.injEq] at hm
    rcases hm with ⟨h1, h2⟩ | hm
    · rw [h1, h2]; exact hlt
    · exact ih c' n' hm
  | refuse c => intro c' n hm; simp at hm

/-- the last request was refused iff the log ends with `(c, none)` -/
theorem GrowLog.refused_iff {c cf : Nat} {new : List (Nat × Option Nat)} {b : Bool}
    (h : GrowLog c new cf b) : b = true ↔ ∃ c', new.getLast? = some (c', none) := by
  induction h with
  | nil c => simp
  | grant c n rest cf b _ hrest ih =>
    rw [ih]
    cases rest with
    | nil =>
      constructor
      · rintro ⟨c', h⟩; simp at h
      · rintro ⟨c', h⟩; simp at h
    | cons y ys => simp [List.getLast?_cons_cons]
  | refuse c => simp

theorem GrowLog.cap_le {c cf : Nat} {new : List (Nat × Option Nat)} {b : Bool}
    (h : GrowLog c new cf b) : c ≤ cf := by
  induction h with
  | nil c => exact Nat.le_refl _
  | grant c n rest cf b hlt _ ih => omega
  | refuse c => exact Nat.le_refl _

theorem GrowLog.first {c cf : Nat} {new : List (Nat × Option Nat)} {b : Bool}
    (h : GrowLog c new cf b) (hne : new ≠ []) : ∃ a, (c, a) ∈ new := by
  cases h with
  | nil => exact absurd rfl hne
  | grant => exact ⟨_, List.mem_cons_self⟩
  | refuse => exact ⟨_, List.mem_cons_self⟩

/-! ## `next` -/

/-- input offset of the group the next `next` call will parse -/
def nextByte (r : Reader) : Nat :=
  match r.state with
  | .parsing => r.byte + (r.bp.pos1 + 1 - r.bp.pos0)
  | _ => r.byte

theorem nextCont_log (inp : List UInt8) (G : Prop) (fuel : Nat) (r : Reader) (hb : Base inp G r)
    (he : Eof inp r) (hip : IpOk r) (hfuel : inp.length + 2 ≤ fuel) :
    LogOk inp true r (nextCont fuel r).1 (nextCont fuel r).2 := by
  have hmu : ∀ r' : Reader, r'.br.src.cursor ≤ inp.length → mu inp r' + 1 ≤ fuel := by
    intro r' h
    simp only [mu]
    split <;> omega
  cases hipv : r.incompletePos with
  | some ip =>
    have : nextCont fuel r = resume fuel ip true r := by
      simp only [nextCont, hipv, Option.isNone_some, Bool.false_eq_true, if_false]
    rw [this]
    exact (resume_spec inp G true fuel r ip hb he (hip ip hipv) (hmu r hb.cur_le)).2.2
  | none =>
    rcases si_spec r .head hb.pos0_le trivial with ⟨bp', ip', hp0, hsc, hres⟩ | ⟨bp', hp0, hf4, hres⟩
    · have : nextCont fuel r =
          resume fuel ip' true { r with bp := bp', incompletePos := some ip' } := by
        simp only [nextCont, hipv, Option.isNone_none, if_true, search_eq r hipv, hres, wrapS]
      rw [this]
      exact (resume_spec inp G true fuel { r with bp := bp', incompletePos := some ip' } ip'
        (hb.set_bp bp' _ hp0) he hsc (hmu _ hb.cur_le)).2.2
    · have : nextCont fuel r = validated { r with bp := bp', incompletePos := none } := by
        have h1 := validate_ip { r with bp := bp', incompletePos := none }
        simp only [nextCont, hipv, Option.isNone_none, if_true, search_eq r hipv, hres]
        unfold validated
        revert h1
        generalize validate _ = v
        rcases v with ⟨r', (_ | _ | _ | _)⟩ <;> intro h1
        · simp only at h1
          simp only [wrapS, wrapV, h1]
        all_goals rfl
      rw [this]
      rcases complete_found2 inp G { r with bp := bp', incompletePos := none }
        (hb.set_bp bp' _ hp0) he rfl hf4 with ⟨x, its', -, hv, -⟩ | ⟨e, b, l, -, hv⟩
      · rw [hv]; exact LogOk.same rfl rfl (by intro h; cases h)
      · rw [hv]; exact LogOk.same rfl rfl (by cases e <;> (intro h; cases h))

/-- **C09, bookkeeping.** The requests a `next` call makes: `(next fuel r).1.log = r.log ++ new`
where `new` is a well-formed chain starting at the capacity on entry and ending at the final
capacity; `BufferLimit` is returned iff the last request was refused; and every request is
made while the group being parsed does not fit into the capacity passed. -/
theorem next_growth_log (inp : List UInt8) (G : Prop) (fuel : Nat) (r : Reader) (its : List FqItem)
    (hg : Good inp G r its) (hfuel : r.br.src.inp.length + 2 ≤ fuel) :
    ∃ new b, (next fuel r).1.log = r.log ++ new ∧
      GrowLog r.br.cap new (next fuel r).1.br.cap b ∧
      ((next fuel r).2 = .err .bufferLimit ↔ b = true) ∧
      (∀ c a, (c, a) ∈ new → ¬ Fits (inp.drop (nextByte r)) c) := by
  have conv : ∀ (r1 : Reader) (x : Reader × Res Bool), LogOk inp true r1 x.1 x.2 →
      r1.log = r.log → r1.br.cap = r.br.cap → r1.byte = nextByte r →
      ∃ new b, x.1.log = r.log ++ new ∧ GrowLog r.br.cap new x.1.br.cap b ∧
        (x.2 = .err .bufferLimit ↔ b = true) ∧
        (∀ c a, (c, a) ∈ new → ¬ Fits (inp.drop (nextByte r)) c) := by
    intro r1 x ⟨new, b, h1, h2, h3, h4⟩ e1 e2 e3
    exact ⟨new, b, by rw [h1, e1], by rw [← e2]; exact h2, h3, by rw [← e3]; exact h4 rfl⟩
  cases hst : r.state with
  | positioned =>
    simp only [Good, hst] at hg
    obtain ⟨hb, he, hip, hits⟩ := hg
    rw [hb.inp_eq] at hfuel
    have : next fuel r = nextCont fuel { r with state := .parsing } := by
      simp only [next, hst]
    rw [this]
    exact conv _ _ (nextCont_log inp G fuel { r with state := .parsing } (hb.set_state _) he hip
      hfuel) rfl rfl (by simp only [nextByte, hst])
  | finished =>
    have : next fuel r = (r, .ok false) := by simp only [next, hst]
    rw [this]
    exact ⟨[], false, by simp, GrowLog.nil _, ⟨fun h => (by cases h), fun h => (by cases h)⟩,
      fun c a h => by cases h⟩
  | new =>
    simp only [Good, hst] at hg
    obtain ⟨hw, hbufG, hp0, hbyte, hline, hip, hitems⟩ := hg
    rw [hw.inp_eq] at hfuel
    rcases fill_cases inp G r hw with
      ⟨br', ext, n, hfill, hbuf', hcap', hcur', hext, hw2, he2, hn⟩ |
      ⟨br', ext, k, hfill, hbuf', hcap', hcur', hle, hnG, hw2⟩
    · cases n with
      | zero =>
        have : next fuel r = ({ r with br := br', state := .finished }, .ok false) := by
          simp only [next, hst, init, hfill]
        rw [this]
        exact ⟨[], false, by simp, by simp only [hcap']; exact GrowLog.nil _,
          ⟨fun h => (by cases h), fun h => (by cases h)⟩, fun c a h => by cases h⟩
      | succ n =>
        have : next fuel r = nextCont fuel { r with br := br', state := .parsing } := by
          simp only [next, hst, init, hfill]
        rw [this]
        have hb2 : Base inp G { r with br := br' } := ⟨hw2, by simp [hp0]⟩
        exact conv _ _ (nextCont_log inp G fuel { r with br := br', state := .parsing }
          (hb2.set_state .parsing) he2 (by intro ip h; simp only [hip] at h; cases h) hfuel)
          rfl hcap' (by simp only [nextByte, hst])
    · have : next fuel r = ({ r with br := br', state := .new }, .err (.io k)) := by
        simp only [next, hst, init, hfill]
      rw [this]
      exact ⟨[], false, by simp, by simp only [hcap']; exact GrowLog.nil _,
        ⟨fun h => (by cases h), fun h => (by cases h)⟩, fun c a h => by cases h⟩
  | parsing =>
    simp only [Good, hst] at hg
    obtain ⟨hb, he, hip, h01, h1l, hitems⟩ := hg
    rw [hb.inp_eq] at hfuel
    have hinc := incrementRecord_eq r h01
    have : next fuel r = nextCont fuel (stepOver r) := by
      simp only [next, hst, hinc]
    rw [this]
    have hw : Win inp G (stepOver r) := by
      obtain ⟨⟨a, b, c, d, e, f, g, i, w, k, z⟩, hp⟩ := hb
      exact ⟨a, b, c, d, e, f, g, i, w, by simp only [stepOver]; omega, z⟩
    exact conv _ _ (nextCont_log inp G fuel (stepOver r) ⟨hw, h1l⟩ he
      (by intro ip h; simp only [stepOver, hip] at h; cases h) hfuel)
      rfl rfl (by simp only [nextByte, hst, stepOver])

/-- the capacity is unchanged if no request was made -/
theorem next_no_request_cap (inp : List UInt8) (G : Prop) (fuel : Nat) (r : Reader)
    (its : List FqItem) (hg : Good inp G r its) (hfuel : r.br.src.inp.length + 2 ≤ fuel)
    (h : (next fuel r).1.log = r.log) : (next fuel r).1.br.cap = r.br.cap := by
  obtain ⟨new, b, h1, h2, -, -⟩ := next_growth_log inp G fuel r its hg hfuel
  rw [h] at h1
  have : new = [] := by simpa using h1
  subst this
  exact h2.nil_inv.1


/-! ## fitting groups never make the buffer grow -/

/-- offsets at which groups start: 0, and the offset after the fourth LF of a group -/
inductive IsStart (inp : List UInt8) : Nat → Prop
  | zero : IsStart inp 0
  | step {b e : Nat} : IsStart inp b → nl4 (inp.drop b) = some e → IsStart inp (b + e)

/-- every group of the input (including an unterminated or blank rest) fits into `cap` bytes -/
def AllFit (inp : List UInt8) (cap : Nat) : Prop := ∀ b, IsStart inp b → Fits (inp.drop b) cap

/-- the reader after `k` `next` calls -/
def nextN : Nat → Reader → Reader
  | 0, r => r
  | k + 1, r => nextN k (next (opFuel r.br.src.inp.length r.br.src.script.length) r).1

theorem good_its_at {inp G r its} (h : Good inp G r its) (hst : r.state ≠ .finished) :
    ∃ l, its = itemsAt inp (nextByte r) l := by
  cases hs : r.state with
  | finished => exact absurd hs hst
  | new =>
    simp only [Good, hs] at h
    exact ⟨1, by simp only [nextByte, hs, h.2.2.2.1]; exact h.2.2.2.2.2.2⟩
  | positioned =>
    simp only [Good, hs] at h
    exact ⟨_, by simp only [nextByte, hs]; exact h.2.2.2⟩
  | parsing =>
    simp only [Good, hs] at h
    exact ⟨_, by simp only [nextByte, hs]; exact h.2.2.2.2.2⟩

/-- the invariant of `fitting_never_grows` -/
def Quiet (inp : List UInt8) (cap : Nat) (r : Reader) : Prop :=
  (∃ its, Good inp False r its) ∧ r.log = [] ∧ r.br.cap = cap ∧
    (r.state ≠ .finished → IsStart inp (nextByte r))

theorem quiet_next (inp : List UInt8) (cap : Nat) (hfit : AllFit inp cap) (r : Reader)
    (h : Quiet inp cap r) :
    Quiet inp cap (next (opFuel r.br.src.inp.length r.br.src.script.length) r).1 := by
  obtain ⟨⟨its, hg⟩, hlog, hcap, hstart⟩ := h
  have hfuel := opFuel_enough r
  obtain ⟨new, b, h1, h2, -, h4⟩ := next_growth_log inp False _ r its hg hfuel
  have hF := next_found inp False _ r its hg hfuel
  have hnew : new = [] := by
    by_cases hst : r.state = .finished
    · have : next (opFuel r.br.src.inp.length r.br.src.script.length) r = (r, .ok false) := by
        simp only [next, hst]
      rw [this] at h1
      simpa using h1
    · apply Classical.byContradiction
      intro hne
      obtain ⟨a, hmem⟩ := h2.first hne
      rw [hcap] at hmem
      exact h4 _ _ hmem (hfit _ (hstart hst))
  subst hnew
  refine ⟨?_, by rw [h1, hlog]; rfl, by rw [h2.nil_inv.1, hcap], ?_⟩
  · rcases hF with (⟨-, x, its', -, hsh⟩ | ⟨-, -, hfin⟩ | ⟨e, b', l, -, -, hfin⟩ |
      ⟨e, -, -, -, hfin⟩) | ⟨-, -, its', hg', -⟩
    · exact ⟨its', hsh.good⟩
    · exact ⟨[], hfin.good⟩
    · exact ⟨[], hfin.good⟩
    · exact ⟨[], hfin.good⟩
    · exact ⟨its', hg'⟩
  · intro hnf
    rcases hF with (⟨-, x, its', hi, hsh⟩ | ⟨-, -, hfin⟩ | ⟨e, b', l, -, -, hfin⟩ |
      ⟨e, -, -, -, hfin⟩) | ⟨-, -, its', hg', hst'⟩
    · rcases hsh.rest with ⟨hst', -, -, -, h4'⟩ | ⟨hst', -⟩
      · have hst0 : r.state ≠ .finished := by
          intro hf
          simp only [Good, hf] at hg
          rw [hg.2] at hi
          cases hi
        obtain ⟨l, hl⟩ := good_its_at hg hst0
        have hx := itemsAt_head_record (hl ▸ hi)
        have hb : IsStart inp (next (opFuel r.br.src.inp.length r.br.src.script.length) r).1.byte := by
          rw [← hsh.byte_eq, hx.1]; exact hstart hst0
        simp only [nextByte, hst']
        exact IsStart.step hb h4'
      · exact absurd hst' hnf
    · exact absurd hfin.1 hnf
    · exact absurd hfin.1 hnf
    · exact absurd hfin.1 hnf
    · rcases hst' with hst' | hst'
      · exact absurd hst' hnf
      · have hg'' := hg'
        simp only [Good, hst'] at hg''
        simp only [nextByte, hst', hg''.2.2.2.1]
        exact IsStart.zero

/-- **C09, corollary.** If every group of the input fits into the initial capacity, the policy
is never asked: the log stays empty and the capacity unchanged for any number of `next`
calls (for any policy that answers more than it is passed or refuses). -/
theorem fitting_never_grows (inp : List UInt8) (cap : Nat) (hcap : 3 ≤ cap) (pol : Pol)
    (hwf : PolWf1 pol) (script : List ReadEv) (hs : NoFail script) (chunk : Nat)
    (hfit : AllFit inp cap) (k : Nat) :
    (nextN k (mkReader inp cap pol script chunk)).log = [] ∧
      (nextN k (mkReader inp cap pol script chunk)).br.cap = cap := by
  have hq : ∀ k r, Quiet inp cap r → Quiet inp cap (nextN k r) := by
    intro k
    induction k with
    | zero => intro r h; exact h
    | succ k ih => intro r h; exact ih _ (quiet_next inp cap hfit r h)
  have h0 : Quiet inp cap (mkReader inp cap pol script chunk) :=
    ⟨⟨_, good_mkReader'' inp False cap hcap pol hwf (fun h => h.elim) script (fun _ => hs) chunk []
      (fun _ => rfl)⟩, rfl, rfl, fun _ => IsStart.zero⟩
  exact ⟨(hq k _ h0).2.1, (hq k _ h0).2.2.1⟩

end SeqIo.Fastq
